
type nat =
| O
| S of nat

val option_map : ('a1 -> 'a2) -> 'a1 option -> 'a2 option

val fst : ('a1 * 'a2) -> 'a1

val snd : ('a1 * 'a2) -> 'a2

val length : 'a1 list -> nat

val app : 'a1 list -> 'a1 list -> 'a1 list

type comparison =
| Eq
| Lt
| Gt

val add : nat -> nat -> nat

val nth : nat -> 'a1 list -> 'a1 -> 'a1

val nth_error : 'a1 list -> nat -> 'a1 option

val map : ('a1 -> 'a2) -> 'a1 list -> 'a2 list

type positive =
| XI of positive
| XO of positive
| XH

type n =
| N0
| Npos of positive

module Pos :
 sig
  type mask =
  | IsNul
  | IsPos of positive
  | IsNeg
 end

module Coq_Pos :
 sig
  val succ : positive -> positive

  val add : positive -> positive -> positive

  val add_carry : positive -> positive -> positive

  val pred_double : positive -> positive

  type mask = Pos.mask =
  | IsNul
  | IsPos of positive
  | IsNeg

  val succ_double_mask : mask -> mask

  val double_mask : mask -> mask

  val double_pred_mask : positive -> mask

  val sub_mask : positive -> positive -> mask

  val sub_mask_carry : positive -> positive -> mask

  val mul : positive -> positive -> positive

  val compare_cont : comparison -> positive -> positive -> comparison

  val compare : positive -> positive -> comparison

  val iter_op : ('a1 -> 'a1 -> 'a1) -> positive -> 'a1 -> 'a1

  val to_nat : positive -> nat

  val of_succ_nat : nat -> positive
 end

module N :
 sig
  val succ_double : n -> n

  val double : n -> n

  val add : n -> n -> n

  val sub : n -> n -> n

  val mul : n -> n -> n

  val compare : n -> n -> comparison

  val leb : n -> n -> bool

  val pos_div_eucl : positive -> n -> n * n

  val div_eucl : n -> n -> n * n

  val modulo : n -> n -> n

  val to_nat : n -> nat

  val of_nat : nat -> n
 end

type 't storage = 't list

val tok_of_len : nat -> n

val append : 'a1 storage -> 'a1 -> 'a1 storage * n

val position : ('a1 -> 'a1 -> bool) -> 'a1 storage -> 'a1 -> nat option

val fetch_or_append :
  ('a1 -> 'a1 -> bool) -> 'a1 storage -> 'a1 -> 'a1 storage * n

val get : 'a1 storage -> n -> 'a1 option

type 't op =
| Append of 't
| Fetch of 't

val step : ('a1 -> 'a1 -> bool) -> 'a1 storage -> 'a1 op -> 'a1 storage * n

val run :
  ('a1 -> 'a1 -> bool) -> 'a1 storage -> 'a1 op list -> 'a1 storage * n list

val table_eqb : bool list -> n -> n -> bool

val c19_run_case :
  bool list -> (bool * n) list -> (n list * n list) * n option list
