(* modelrun: evaluates the extracted Coq models on case lines (stdin) and
   prints one canonical result line per case. Numbers travel as hex. *)
open Model

let rec pos_of_hex_bits (bits : bool list) : positive =
  (* bits: least significant first, last one is the leading 1 *)
  match bits with
  | [] -> XH
  | [_] -> XH
  | b :: r -> if b then XI (pos_of_hex_bits r) else XO (pos_of_hex_bits r)

let bits_of_hex (s : string) : bool list =
  (* least significant bit first, leading zeros removed *)
  let l = ref [] in
  String.iter (fun c ->
    let v = match c with
      | '0'..'9' -> Char.code c - 48
      | 'a'..'f' -> Char.code c - 87
      | 'A'..'F' -> Char.code c - 55
      | _ -> failwith ("bad hex digit in " ^ s) in
    l := !l @ [v land 8 <> 0; v land 4 <> 0; v land 2 <> 0; v land 1 <> 0]) s;
  (* !l is most significant first *)
  let rec strip = function false :: r -> strip r | x -> x in
  List.rev (strip !l)

let n_of_hex (s : string) : n =
  match bits_of_hex s with
  | [] -> N0
  | bits -> Npos (pos_of_hex_bits bits)

let hex_of_n (x : n) : string =
  match x with
  | N0 -> "0"
  | Npos p ->
    let rec bits p = match p with XH -> [true] | XO q -> false :: bits q | XI q -> true :: bits q in
    let b = bits p in (* lsb first *)
    let rec chunks l = match l with
      | [] -> []
      | _ ->
        let take k l = let rec go k l acc = if k = 0 then (List.rev acc, l) else match l with [] -> (List.rev acc, []) | x :: r -> go (k-1) r (x :: acc) in go k l [] in
        let (c, r) = take 4 l in
        let v = List.fold_right (fun bit acc -> acc * 2 + (if bit then 1 else 0)) c 0 in
        v :: chunks r in
    let ds = chunks b in
    String.concat "" (List.rev_map (fun v -> String.make 1 "0123456789abcdef".[v]) ds)

let n_of_int (i : int) : n = n_of_hex (Printf.sprintf "%x" i)
let rec nat_of_int (i : int) : nat = if i <= 0 then O else S (nat_of_int (i - 1))

let split_ws (s : string) : string list =
  List.filter (fun x -> x <> "") (String.split_on_char ' ' s)

let join_n sep l = String.concat sep (List.map hex_of_n l)

(* ------------------------------------------------------------ C19 *)
let c19 (args : string list) : string =
  match args with
  | m :: ops ->
    let mat = List.init 16 (fun i -> m.[i] = '1') in
    let ops' = List.map (fun o -> (o.[0] = 'a', n_of_int (Char.code o.[1] - 48))) ops in
    let ((s, ts), gs) = c19_run_case mat ops' in
    if List.exists (fun g -> g = None) gs then "PANIC" else
    Printf.sprintf "s=%s t=%s g=%s" (join_n "," s) (join_n "," ts)
      (String.concat "," (List.map (function Some v -> hex_of_n v | None -> "?") gs))
  | [] -> "BADCASE"

let c19long (args : string list) : string =
  match args with
  | [nh] ->
    let n = int_of_string ("0x" ^ nh) in
    let seen = Hashtbl.create 100000 in
    let first_dup = ref (-1) in
    let k = ref O in
    for i = 0 to n - 1 do
      let t = hex_of_n (tok_of_len !k) in
      if Hashtbl.mem seen t then (if !first_dup < 0 then first_dup := i) else Hashtbl.add seen t ();
      k := S !k
    done;
    Printf.sprintf "long distinct=%x first_dup=%s bad_lookup=%s" (Hashtbl.length seen)
      (if !first_dup < 0 then "-" else Printf.sprintf "%x" !first_dup)
      (if !first_dup < 0 then "-" else Printf.sprintf "%x" !first_dup)
  | _ -> "BADCASE"

let () =
  try
    while true do
      let line = input_line stdin in
      let out = match split_ws line with
        | "c19" :: r -> c19 r
        | "c19long" :: r -> c19long r
        | _ -> "BADCASE" in
      print_string out; print_char '\n'
    done
  with End_of_file -> ()
