(* modelrun: evaluates the extracted Coq models on case lines (stdin) and
   prints one canonical result line per case. Numbers travel as hex. *)
(* Model is NOT opened: its extracted [string]/[ascii] types must not shadow OCaml's. *)
module M = Model
type n = M.n
type positive = M.positive
type nat = M.nat

let rec pos_of_hex_bits (bits : bool list) : positive =
  (* bits: least significant first, last one is the leading 1 *)
  match bits with
  | [] -> M.XH
  | [_] -> M.XH
  | b :: r -> if b then M.XI (pos_of_hex_bits r) else M.XO (pos_of_hex_bits r)

let bits_of_hex (s : string) : bool list =
  (* least significant bit first, leading zeros removed *)
  let l = ref [] in
  String.iter (fun c ->
    let v = match c with
      | '0'..'9' -> Char.code c - 48
      | 'a'..'f' -> Char.code c - 87
      | 'A'..'F' -> Char.code c - 55
      | _ -> failwith ("bad hex digit in " ^ s) in
    l := !l @ [v land 8 <> 0; v land 4 <> 0; v land 2 <> 0; v land 1 <> 0]) s;
  (* !l is most significant first *)
  let rec strip = function false :: r -> strip r | x -> x in
  List.rev (strip !l)

let n_of_hex (s : string) : n =
  match bits_of_hex s with
  | [] -> M.N0
  | bits -> M.Npos (pos_of_hex_bits bits)

let hex_of_n (x : n) : string =
  match x with
  | M.N0 -> "0"
  | M.Npos p ->
    let rec bits p = match p with M.XH -> [true] | M.XO q -> false :: bits q | M.XI q -> true :: bits q in
    let b = bits p in (* lsb first *)
    let rec chunks l = match l with
      | [] -> []
      | _ ->
        let take k l = let rec go k l acc = if k = 0 then (List.rev acc, l) else match l with [] -> (List.rev acc, []) | x :: r -> go (k-1) r (x :: acc) in go k l [] in
        let (c, r) = take 4 l in
        let v = List.fold_right (fun bit acc -> acc * 2 + (if bit then 1 else 0)) c 0 in
        v :: chunks r in
    let ds = chunks b in
    String.concat "" (List.rev_map (fun v -> String.make 1 "0123456789abcdef".[v]) ds)

let n_of_int (i : int) : n = n_of_hex (Printf.sprintf "%x" i)
let rec nat_of_int (i : int) : nat = if i <= 0 then M.O else M.S (nat_of_int (i - 1))

let split_ws (s : string) : string list =
  List.filter (fun x -> x <> "") (String.split_on_char ' ' s)

let join_n sep l = String.concat sep (List.map hex_of_n l)

(* ------------------------------------------------------------ C19 *)
let c19 (args : string list) : string =
  match args with
  | m :: ops ->
    let mat = List.init 16 (fun i -> m.[i] = '1') in
    let ops' = List.map (fun o -> (o.[0] = 'a', n_of_int (Char.code o.[1] - 48))) ops in
    let ((s, ts), gs) = M.c19_run_case mat ops' in
    if List.exists (fun g -> g = None) gs then "PANIC" else
    Printf.sprintf "s=%s t=%s g=%s" (join_n "," s) (join_n "," ts)
      (String.concat "," (List.map (function Some v -> hex_of_n v | None -> "?") gs))
  | [] -> "BADCASE"

(* ------------------------------------------------------------ helpers *)
let coq_ascii_of (c : char) : M.ascii =
  let v = Char.code c in
  let b i = (v lsr i) land 1 = 1 in
  M.Ascii (b 0, b 1, b 2, b 3, b 4, b 5, b 6, b 7)
let char_of_coq (a : M.ascii) : char =
  match a with M.Ascii (b0, b1, b2, b3, b4, b5, b6, b7) ->
    let v l = List.fold_right (fun b acc -> acc * 2 + (if b then 1 else 0)) l 0 in
    Char.chr (v [b0; b1; b2; b3; b4; b5; b6; b7])
let coq_string_of (s : string) : M.string =
  let r = ref M.EmptyString in
  for i = String.length s - 1 downto 0 do r := M.String (coq_ascii_of s.[i], !r) done; !r
let rec string_of_coq (l : M.string) : string =
  match l with M.EmptyString -> "" | M.String (a, r) -> String.make 1 (char_of_coq a) ^ string_of_coq r

let bytes_of_hex (s : string) : n list =
  if s = "-" then [] else
  List.init (String.length s / 2) (fun i -> n_of_hex (String.sub s (2 * i) 2))

let hex2_of_n (x : n) : string = let h = hex_of_n x in if String.length h = 1 then "0" ^ h else h
let hex_of_bytes (l : n list) : string = if l = [] then "-" else String.concat "" (List.map hex2_of_n l)

let starts_with p s = String.length s >= String.length p && String.sub s 0 (String.length p) = p
let after p s = String.sub s (String.length p) (String.length s - String.length p)

(* ------------------------------------------------------------ C11 *)
let derr_str (e : M.derr) : string =
  match e with
  | M.StreamExpected o -> "E:SE:" ^ hex_of_n o
  | M.LimitReached o -> "E:LR:" ^ hex_of_n o
  | M.DecodeStringFailed o -> "E:DS:" ^ hex_of_n o
  | M.KindUnknown (ty, o, w) -> Printf.sprintf "E:UK:%s:%s:%s" (string_of_coq ty) (hex_of_n o) (hex_of_n w)

let resp_str (r : M.resp) : string =
  match r with
  | M.VWord w -> "W" ^ hex_of_n w
  | M.VWords ws -> "WS" ^ join_n "," ws
  | M.VStr s -> "S" ^ hex_of_bytes s
  | M.VUnit -> "U"
  | M.VNum x -> "N" ^ hex_of_n x
  | M.VBool b -> if b then "B1" else "B0"
  | M.VErr e -> derr_str e

let creq_of (t : string) : M.creq =
  if t = "w" || t = "b32" || t = "id" || t = "ei" then M.CWord
  else if t = "s" then M.CString
  else if t = "b64" then M.CBit64
  else if t = "cl" then M.CClear
  else if t = "o" then M.COffset
  else if t = "hl" then M.CHasLimit
  else if t = "lr" then M.CLimitReached
  else if starts_with "ws" t then
    (* the loop stops at the first failing word, buffers are short: a huge count is capped (unary nat) *)
    let h = after "ws" t in
    M.CWords (nat_of_int (if String.length h > 3 then 5000 else int_of_string ("0x" ^ h)))
  else if starts_with "sl" t then M.CSetLimit (n_of_hex (after "sl" t))
  else if starts_with "t:" t then M.CTyped (coq_string_of (after "t:" t))
  else failwith ("bad request " ^ t)

let c11 (args : string list) : string =
  match args with
  | b :: reqs ->
    (match M.c11_run_case (bytes_of_hex b) (List.map creq_of reqs) with
     | None -> "BADCASE"
     | Some (rs, d) ->
       let lr = match d.M.lim with Some M.N0 -> 1 | _ -> 0 in
       let hl = match d.M.lim with Some _ -> 1 | None -> 0 in
       String.concat " " (List.map resp_str rs @ [Printf.sprintf "| off=%s hl=%d lr=%d" (hex_of_n d.M.off) hl lr]))
  | [] -> "BADCASE"

(* ------------------------------------------------------------ C15 *)
let ns_of (v : string) : n list =
  if v = "-" || v = "" then [] else List.map n_of_hex (String.split_on_char ',' v)
let kv (t : string) : string * string =
  match String.index_opt t '=' with
  | Some i -> (String.sub t 0 i, String.sub t (i + 1) (String.length t - i - 1))
  | None -> (t, "")
let opt_of (l : n list) : n option = match l with x :: _ -> Some x | [] -> None

let c15 (toks : string list) : string =
  (* split at "|" *)
  let rec groups acc cur = function
    | [] -> List.rev (List.rev cur :: acc)
    | "|" :: r -> groups (List.rev cur :: acc) [] r
    | t :: r -> groups acc (t :: cur) r in
  let gs = groups [] [] toks in
  let get g k = try ns_of (List.assoc k (List.map kv g)) with Not_found -> [] in
  match gs with
  | [] -> "BADCASE"
  | mg :: rest ->
    (* functions and their blocks *)
    let fns = ref [] in
    List.iter (fun g ->
      match g with
      | "F" :: fields -> fns := (fields, ref []) :: !fns
      | "B" :: fields -> (match !fns with (_, bs) :: _ -> bs := fields :: !bs | [] -> ())
      | _ -> ()) rest;
    let mkblock g = { M.b_label = opt_of (get g "label"); M.b_insts = get g "instructions" } in
    let mkfn (g, bs) = { M.f_def = opt_of (get g "def"); M.f_end = opt_of (get g "end");
                         M.f_params = get g "parameters"; M.f_blocks = List.rev_map mkblock !bs } in
    let fl = List.rev_map mkfn !fns in
    let m = { M.m_caps = get mg "capabilities"; M.m_exts = get mg "extensions"; M.m_imports = get mg "ext_inst_imports";
              M.m_memory_model = opt_of (get mg "memory_model"); M.m_entry_points = get mg "entry_points";
              M.m_exec_modes = get mg "execution_modes"; M.m_debug_string_source = get mg "debug_string_source";
              M.m_debug_names = get mg "debug_names"; M.m_debug_module_processed = get mg "debug_module_processed";
              M.m_annotations = get mg "annotations"; M.m_types_global_values = get mg "types_global_values";
              M.m_functions = fl } in
    let show l = if l = [] then "-" else join_n "," l in
    let ev scope fn idx = show (M.c15_eval_case m (coq_string_of scope) (coq_string_of fn) (nat_of_int idx)) in
    let parts = ref [ "all=" ^ ev "Module" "all_inst_iter" 0; "allm=" ^ ev "Module" "all_inst_iter_mut" 0;
                      "glob=" ^ ev "Module" "global_inst_iter" 0; "globm=" ^ ev "Module" "global_inst_iter_mut" 0;
                      "asm=" ^ ev "Module" "assemble_into" 0 ] in
    List.iteri (fun i _ ->
      parts := !parts @ [ Printf.sprintf "f%d=%s" i (ev "Function" "all_inst_iter" i);
                          Printf.sprintf "f%dm=%s" i (ev "Function" "all_inst_iter_mut" i);
                          Printf.sprintf "f%da=%s" i (ev "Function" "assemble_into" i) ]) fl;
    String.concat ";" !parts

(* ------------------------------------------------------------ instructions *)
let operand_text (o : M.operand) : string =
  match o with
  | M.OEnum (k, v) -> Printf.sprintf "E%s.%s" (string_of_int (int_of_string ("0x" ^ hex_of_n k))) (hex_of_n v)
  | M.OIdRef v -> "R" ^ hex_of_n v
  | M.OIdScope v -> "C" ^ hex_of_n v
  | M.OIdMemSem v -> "M" ^ hex_of_n v
  | M.OLit32 v -> "L" ^ hex_of_n v
  | M.OLit64 v -> "Q" ^ hex_of_n v
  | M.OExtInst v -> "X" ^ hex_of_n v
  | M.OSpecOp v -> "P" ^ hex_of_n v
  | M.OStr s -> "S" ^ hex_of_bytes s

let opt_text (o : n option) : string = match o with Some v -> hex_of_n v | None -> "-"

let inst_text (i : M.inst) : string =
  Printf.sprintf "%s/%s/%s/%s" (hex_of_n i.M.i_opcode) (opt_text i.M.i_rtype) (opt_text i.M.i_rid)
    (if i.M.i_ops = [] then "-" else String.concat "," (List.map operand_text i.M.i_ops))

let operand_of_text (t : string) : M.operand =
  let c = t.[0] and r = String.sub t 1 (String.length t - 1) in
  match c with
  | 'R' -> M.OIdRef (n_of_hex r) | 'C' -> M.OIdScope (n_of_hex r) | 'M' -> M.OIdMemSem (n_of_hex r)
  | 'L' -> M.OLit32 (n_of_hex r) | 'Q' -> M.OLit64 (n_of_hex r) | 'X' -> M.OExtInst (n_of_hex r)
  | 'P' -> M.OSpecOp (n_of_hex r)
  | 'S' -> M.OStr (bytes_of_hex r)
  | 'E' -> (match String.split_on_char '.' r with
            | [k; v] -> M.OEnum (n_of_int (int_of_string k), n_of_hex v)
            | _ -> failwith "bad E operand")
  | _ -> failwith ("bad operand " ^ t)

let inst_of_text (t : string) : M.inst =
  match String.split_on_char '/' t with
  | [op; rt; rid; ops] ->
    let o s = if s = "-" then None else Some (n_of_hex s) in
    { M.i_opcode = n_of_hex op; M.i_rtype = o rt; M.i_rid = o rid;
      M.i_ops = if ops = "-" then [] else List.map operand_of_text (String.split_on_char ',' ops) }
  | _ -> failwith "bad inst"

let perr_text (e : M.perr) : string =
  let h = hex_of_n in
  match e with
  | M.PComplete -> "COMPLETE" | M.PStop -> "STOP"
  | M.PConsumerError k -> "CERR:script" ^ string_of_int (int_of_string ("0x" ^ h k))
  | M.PHeaderIncomplete d -> "HIN:" ^ derr_str d
  | M.PHeaderIncorrect -> "HBAD" | M.PEndianness -> "ENDIAN"
  | M.PWordCountZero (o, i) -> Printf.sprintf "WCZ:%s:%s" (h o) (h i)
  | M.POpcodeUnknown (o, i, c) -> Printf.sprintf "OPU:%s:%s:%s" (h o) (h i) (h c)
  | M.POperandExpected (o, i) -> Printf.sprintf "OEX:%s:%s" (h o) (h i)
  | M.POperandExceeded (o, i) -> Printf.sprintf "OXC:%s:%s" (h o) (h i)
  | M.POperandError d -> "OE:" ^ derr_str d
  | M.PTypeUnsupported (o, i) -> Printf.sprintf "TUN:%s:%s" (h o) (h i)
  | M.PSpecOpIncorrect (o, i) -> Printf.sprintf "SCI:%s:%s" (h o) (h i)

let header_text (hd : M.header) : string =
  String.concat "." (List.map hex_of_n [hd.M.h_magic; hd.M.h_version; hd.M.h_generator; hd.M.h_bound; hd.M.h_reserved])

let script_of (s : string) : (nat * bool) option =
  if s = "-" then None else
  match String.split_on_char ':' s with
  | [k; e] -> Some (nat_of_int (int_of_string k), e <> "S")   (* E, P, Q: error answers (P/Q differ only in the payload type on the Rust side) *)
  | _ -> None

let do_asm (args : string list) : string =
  match args with
  | [t] -> (match M.run_asm_case (inst_of_text t) with
            | Some ws -> "W:" ^ join_n "," ws
            | None -> "BUILDERR")
  | _ -> "BADCASE"

let do_parse (args : string list) : string =
  match args with
  | [script; b] ->
    let (st, r) = M.run_parse_case (script_of script) (bytes_of_hex b) in
    let rs = match r with
      | M.Ok _ -> "OK"
      | M.Er e -> perr_text e
      | M.Panic _ -> "PANIC" in
    if rs = "PANIC" then "PANIC" else
    let code = function c when c = M.N0 -> "i" | c -> (match hex_of_n c with "1" -> "f" | "2" -> "h" | _ -> "n") in
    Printf.sprintf "R=%s H=%s I=%s T=%s" rs
      (match st.M.r_header with Some hd -> header_text hd | None -> "-")
      (if st.M.r_insts = [] then "-" else String.concat ";" (List.rev_map inst_text st.M.r_insts))
      (String.concat "" (List.map code st.M.r_trace))
  | _ -> "BADCASE"

(* ------------------------------------------------------------ loader *)
let insts_text (l : M.inst list) : string = if l = [] then "-" else String.concat ";" (List.map inst_text l)
let oinst_text (o : M.inst option) : string = match o with Some i -> inst_text i | None -> "-"

let module_text (h : M.header option) (m : M.inst M.module0) : string =
  let parts = ref [ "h=" ^ (match h with Some hd -> header_text hd | None -> "-");
    "c=" ^ insts_text m.M.m_caps; "e=" ^ insts_text m.M.m_exts; "i=" ^ insts_text m.M.m_imports;
    "mm=" ^ oinst_text m.M.m_memory_model; "ep=" ^ insts_text m.M.m_entry_points;
    "em=" ^ insts_text m.M.m_exec_modes; "ds=" ^ insts_text m.M.m_debug_string_source;
    "dn=" ^ insts_text m.M.m_debug_names; "dp=" ^ insts_text m.M.m_debug_module_processed;
    "an=" ^ insts_text m.M.m_annotations; "tg=" ^ insts_text m.M.m_types_global_values ] in
  List.iter (fun f ->
    let fs = [ "d=" ^ oinst_text f.M.f_def; "e=" ^ oinst_text f.M.f_end; "p=" ^ insts_text f.M.f_params ]
      @ List.map (fun b -> Printf.sprintf "B{l=%s i=%s}" (oinst_text b.M.b_label) (insts_text b.M.b_insts)) f.M.f_blocks in
    parts := !parts @ [ "F{" ^ String.concat " " fs ^ "}" ]) m.M.m_functions;
  String.concat " " !parts

let lerr_name (e : M.lerr) : string =
  match e with
  | M.NestedFunction -> "NestedFunction" | M.UnclosedFunction -> "UnclosedFunction"
  | M.MismatchedFunctionEnd -> "MismatchedFunctionEnd" | M.DetachedFunctionParameter -> "DetachedFunctionParameter"
  | M.DetachedBlock -> "DetachedBlock" | M.NestedBlock -> "NestedBlock" | M.UnclosedBlock -> "UnclosedBlock"
  | M.MismatchedTerminator -> "MismatchedTerminator" | M.DetachedInstruction -> "DetachedInstruction"

let lerr_of_code (c : n) : string =
  match int_of_string ("0x" ^ hex_of_n c) with
  | 100 -> "NestedFunction" | 101 -> "UnclosedFunction" | 102 -> "MismatchedFunctionEnd"
  | 103 -> "DetachedFunctionParameter" | 104 -> "DetachedBlock" | 105 -> "NestedBlock"
  | 106 -> "UnclosedBlock" | 107 -> "MismatchedTerminator" | 108 -> "DetachedInstruction" | _ -> "PANIC"

let do_feed (texts : string list) : string =
  match (try Some (List.map inst_of_text texts) with _ -> None) with
  | None -> "BUILDERR"
  | Some is ->
    if List.exists (fun i -> M.run_asm_case i = None) is then "BUILDERR" else
    (* errors carry no position in the model; recompute it by feeding prefixes *)
    let rec first_err k pre rest =
      match rest with
      | [] -> "end"
      | x :: r ->
        (match M.feed_case_prefix (pre @ [x]) with
         | true -> first_err (k + 1) (pre @ [x]) r
         | false -> string_of_int k) in
    (match M.feed_case is with
     | M.LCont s -> "OK " ^ module_text s.M.l_header s.M.l_module
     | M.LErr e -> Printf.sprintf "ERR:%s@%s" (lerr_name e) (first_err 0 [] is)
     | M.LPanic -> "PANIC")

let do_load (args : string list) : string =
  match args with
  | [b] ->
    let bytes = bytes_of_hex b in
    let (w, r) = M.load_case bytes in
    if w.M.lw_panic then "PANIC" else
    (match r with
     | M.Ok _ ->
       let s = w.M.lw_state in
       let words = M.assemble_module s.M.l_header s.M.l_module in
       let again =
         let (w2, r2) = M.load_case (List.concat_map (fun x -> M.bytes_of_word x) words) in
         (match r2 with
          | M.Ok _ -> string_of_bool (module_text w2.M.lw_state.M.l_header w2.M.lw_state.M.l_module = module_text s.M.l_header s.M.l_module)
          | M.Er (M.PConsumerError c) -> "E:LERR:" ^ lerr_of_code c
          | M.Er e -> "E:" ^ perr_text e
          | M.Panic _ -> "PANIC") in
       Printf.sprintf "OK %s A=%s R=%s LW=%s" (module_text s.M.l_header s.M.l_module) (join_n "," words) again
         (if List.length bytes mod 4 = 0 then "true" else "n/a")
     | M.Er (M.PConsumerError c) -> "E:LERR:" ^ lerr_of_code c
     | M.Er e -> "E:" ^ perr_text e
     | M.Panic _ -> "PANIC")
  | _ -> "BADCASE"

(* ------------------------------------------------------------ disassembler (token level) *)
let hex_of_bytes (l : n list) : string = if l = [] then "-" else String.concat "" (List.map hex2_of_n l)
let hex_of_string (s : string) : string =
  if s = "" then "-" else String.concat "" (List.map (fun c -> Printf.sprintf "%02x" (Char.code c)) (List.init (String.length s) (String.get s)))
let z_text (z : M.z) : string =
  match z with
  | M.Z0 -> "0"
  | M.Zpos p -> hex_of_n (M.Npos p)
  | M.Zneg p -> "-" ^ hex_of_n (M.Npos p)
let dtok_text (t : M.dtok) : string =
  match t with
  | M.DId v -> "%" ^ hex_of_n v
  | M.DEq -> "="
  | M.DOp nm -> "Op" ^ string_of_coq nm
  | M.DName nm -> "N" ^ hex_of_string (string_of_coq nm)
  | M.DNum z -> "#" ^ z_text z
  | M.DF32 b -> "F32:" ^ hex_of_n b
  | M.DF64 b -> "F64:" ^ hex_of_n b
  | M.DStr b -> "S" ^ hex_of_bytes b
let dline_text (l : M.dtok list) : string = String.concat "," (List.map dtok_text l)
let do_libdis (args : string list) : string =
  match args with
  | [b] ->
    let bytes = bytes_of_hex b in
    (match M.dis_case bytes with
     | None -> "NOLOAD"
     | Some ((hd, lines), panics) ->
       if panics then "PANIC" else
       let own = (match M.dis_own_case bytes with Some l -> l | None -> []) in
       Printf.sprintf "OK H=%s T=%s L=%s I=%s"
         (match hd with
          | None -> "-"
          | Some h -> String.concat "." (List.map hex_of_n [h.M.dh_major; h.M.dh_minor; h.M.dh_tool; h.M.dh_bound]))
         (match hd with None -> "-" | Some h -> hex_of_string (string_of_coq (M.tool_name h.M.dh_tool)))
         (if lines = [] then "-" else String.concat ";" (List.map dline_text lines))
         (if own = [] then "-" else String.concat ";" (List.map dline_text own)))
  | _ -> "BADCASE"

(* ------------------------------------------------------------ lifter *)
let dec_of_n (x : n) : string = string_of_int (int_of_string ("0x" ^ hex_of_n x))
let rec lval_text (v : M.lval) : string =
  match v with
  | M.VWord0 w -> "w" ^ dec_of_n w
  | M.VStr0 s -> "s" ^ hex_of_bytes s
  | M.VTypeTok k -> "t" ^ dec_of_n k
  | M.VConstTok k -> "c" ^ dec_of_n k
  | M.VJump k -> "j" ^ dec_of_n k
  | M.VOpt None -> "n"
  | M.VOpt (Some x) -> "o(" ^ lval_text x ^ ")"
  | M.VList l -> "[" ^ String.concat "," (List.map lval_text l) ^ "]"
  | M.VPair (a, b) -> "(" ^ lval_text a ^ "," ^ lval_text b ^ ")"
let lnode_text (nd : M.lnode) : string =
  string_of_coq nd.M.ln_variant ^ "{" ^
  String.concat "," (List.map (fun (f, v) -> string_of_coq f ^ "=" ^ lval_text v) nd.M.ln_fields) ^ "}"
let lconst_text (c : M.lconst) : string =
  match c with
  | M.CBool b -> "Bool(" ^ string_of_bool b ^ ")"
  | M.CUInt v -> "UInt(" ^ dec_of_n v ^ ")"
  | M.CInt z -> "Int(" ^ (match z with M.Z0 -> "0" | M.Zpos p -> dec_of_n (M.Npos p) | M.Zneg p -> "-" ^ dec_of_n (M.Npos p)) ^ ")"
  | M.CFloat b -> "Float(" ^ dec_of_n b ^ ")"
  | M.CComposite l -> "Composite[" ^ String.concat "," (List.map dec_of_n l) ^ "]"
  | M.CNull -> "Null"
  | M.CSampler (a, nrm, f) -> Printf.sprintf "Sampler(%s,%s,%s)" (dec_of_n a) (string_of_bool nrm) (dec_of_n f)
let lterm_text (t : M.lterm) : string =
  match t with M.TTerm nd -> lnode_text nd | M.TBranch nd -> "Branch(" ^ lnode_text nd ^ ")"
let operr_text = function M.WrongType -> "WrongType" | M.WrongEnumValue -> "WrongEnumValue" | M.Missing -> "Missing"
let insterr_text = function
  | M.WrongOpcode -> "WrongOpcode" | M.MissingResult -> "MissingResult" | M.OperandErr e -> "Operand(" ^ operr_text e ^ ")"
let lerror_text = function
  | M.MissingHeader -> "MissingHeader" | M.MissingFunction -> "MissingFunction" | M.MissingFunctionType -> "MissingFunctionType"
  | M.MissingLabel -> "MissingLabel" | M.MissingTerminator -> "MissingTerminator" | M.InstructionErr e -> "Instruction(" ^ insterr_text e ^ ")"
let do_lift (args : string list) : string =
  match args with
  | [b] ->
    (match M.lift_case (bytes_of_hex b) with
     | None -> "NOLOAD"
     | Some (M.LPanic0 _) -> "PANIC"
     | Some (M.LErr0 e) -> "LIFTERR:" ^ lerror_text e
     | Some (M.LOk r) ->
       let (a, m) = r.M.sr_mm in
       let fn_text (f : M.sr_function) =
         Printf.sprintf "%s.%s.%s{%s}" (dec_of_n f.M.sf_control) (dec_of_n f.M.sf_result) (dec_of_n f.M.sf_start)
           (String.concat ";" (List.map (fun (bl : M.sr_block) ->
              String.concat "," (List.map dec_of_n bl.M.sb_arguments) ^ "/" ^ lterm_text bl.M.sb_terminator) f.M.sf_blocks)) in
       Printf.sprintf "OK v=%s|caps=%s|mm=%s.%s|T=%s|C=%s|O=%s|F=%s"
         (dec_of_n r.M.sr_version) (String.concat "," (List.map dec_of_n r.M.sr_caps)) (dec_of_n a) (dec_of_n m)
         (String.concat ";" (List.map lnode_text r.M.sr_types))
         (String.concat ";" (List.map lconst_text r.M.sr_constants))
         (String.concat ";" (List.map lnode_text r.M.sr_ops))
         (String.concat "&" (List.map fn_text r.M.sr_functions)))
  | _ -> "BADCASE"

(* ------------------------------------------------------------ builder *)
let berr_name (e : M.berr) : string =
  match e with
  | M.BNestedFunction -> "NestedFunction" | M.BMismatchedFunctionEnd -> "MismatchedFunctionEnd"
  | M.BDetachedFunctionParameter -> "DetachedFunctionParameter" | M.BDetachedBlock -> "DetachedBlock"
  | M.BNestedBlock -> "NestedBlock" | M.BMismatchedTerminator -> "MismatchedTerminator"
  | M.BDetachedInstruction -> "DetachedInstruction" | M.BEmptyInstructionList -> "EmptyInstructionList"
  | M.BFunctionNotFound -> "FunctionNotFound" | M.BBlockNotFound -> "BlockNotFound"

let list_inner (t : string) : string list =
  let n = String.length t in
  if n < 2 || t.[0] <> '[' || t.[n - 1] <> ']' then failwith "list" else
  let s = String.sub t 1 (n - 2) in
  if s = "" then [] else String.split_on_char ',' s

let optw_of (t : string) : n option = if t = "_" then None else Some (n_of_hex t)
let optnat_of (t : string) : nat option = if t = "_" then None else Some (nat_of_int (int_of_string t))
let point_of_tok (t : string) : M.ipoint =
  if t = "end" then M.IEnd else if t = "begin" then M.IBegin
  else if starts_with "fe" t then M.IFromEnd (nat_of_int (int_of_string (after "fe" t)))
  else if starts_with "fb" t then M.IFromBegin (nat_of_int (int_of_string (after "fb" t)))
  else failwith "point"
let str_of_tok (t : string) : n list = if starts_with "S" t then bytes_of_hex (after "S" t) else failwith "str"

let barg_of (pt : M.ptype) (t : string) : M.barg =
  match pt with
  | M.PW -> M.AW (n_of_hex t)
  | M.POptW -> M.AOptW (optw_of t)
  | M.PListW -> M.AListW (List.map n_of_hex (list_inner t))
  | M.POps -> M.AOps (List.map operand_of_text (list_inner t))
  | M.PPairsWW -> M.APairsWW (List.map (fun x -> match String.split_on_char ':' x with [a; b] -> (n_of_hex a, n_of_hex b) | _ -> failwith "pair") (list_inner t))
  | M.PPairsOW -> M.APairsOW (List.map (fun x -> match String.split_on_char ':' x with [a; b] -> (operand_of_text a, n_of_hex b) | _ -> failwith "pair") (list_inner t))
  | M.PStr -> M.AStr (str_of_tok t)
  | M.POptStr -> M.AOptStr (if t = "_" then None else Some (str_of_tok t))
  | M.PPoint -> M.APoint (point_of_tok t)

let sel_text (o : nat option) : string =
  match o with None -> "-" | Some k -> let rec go = function M.O -> 0 | M.S x -> 1 + go x in string_of_int (go k)

let do_bld (toks : string list) : string =
  let rec split acc cur = function
    | [] -> List.rev (if cur = [] then acc else List.rev cur :: acc)
    | "|" :: r -> split (if cur = [] then acc else List.rev cur :: acc) [] r
    | t :: r -> split acc (t :: cur) r in
  let calls = split [] [] toks in
  let st = ref M.bnew in
  let out = ref [] in
  let mtext s = module_text s.M.bs_header s.M.bs_module in
  (try
    List.iter (fun c ->
      match c with
      | [] -> ()
      | "new_from_module" :: bnd :: _ ->
        (match M.bfrom M.empty_module (Some (M.new_header (n_of_hex bnd))) with
         | Some s0 when !out = [] -> st := s0; out := "from,-,-" :: !out
         | _ -> raise Exit)
      | "find_return_block_indices" :: _ ->
        (match M.find_return_blocks !st with
         | None -> out := "PANIC" :: !out; raise Not_found
         | Some l ->
           let rec nat_int = function M.O -> 0 | M.S x -> 1 + nat_int x in
           out := Printf.sprintf "list:%s,%s,%s" (String.concat "." (List.map (fun k -> string_of_int (nat_int k)) l))
                    (sel_text !st.M.bs_fn) (sel_text !st.M.bs_blk) :: !out)
      | "select_function_by_name" :: nm :: _ ->
        (match M.select_function_by_name !st (str_of_tok nm) with
         | None -> out := "PANIC" :: !out; raise Not_found
         | Some (s1, o) ->
           let before = mtext !st in
           st := s1;
           let res = (match o with M.BFail e -> "err:" ^ berr_name e | _ -> "ok") in
           let line = Printf.sprintf "%s,%s,%s" res (sel_text s1.M.bs_fn) (sel_text s1.M.bs_blk) in
           out := (if starts_with "err:" res then line ^ Printf.sprintf ",same=%d" (if mtext s1 = before then 1 else 0) else line) :: !out)
      | name :: a ->
        let arg k = List.nth a k in
        let (call, kind) =
          match name with
          | "begin_function" -> (M.CBeginFunction (n_of_hex (arg 0), optw_of (arg 1), n_of_hex (arg 2), n_of_hex (arg 3)), `OkW)
          | "end_function" -> (M.CEndFunction, `OkU)
          | "function_parameter" -> (M.CFunctionParameter (n_of_hex (arg 0)), `OkW)
          | "begin_block" -> (M.CBeginBlock (optw_of (arg 0)), `OkW)
          | "begin_block_no_label" -> (M.CBeginBlockNoLabel (optw_of (arg 0)), `OkW)
          | "select_function" -> (M.CSelectFunction (optnat_of (arg 0)), `OkU)
          | "select_block" -> (M.CSelectBlock (optnat_of (arg 0)), `OkU)
          | "pop_instruction" -> (M.CPop, `Inst)
          | "id" -> (M.CId, `Id)
          | "set_version" -> (M.CSetVersion (n_of_hex (arg 0), n_of_hex (arg 1)), `Unit)
          | _ ->
            (match M.bld_find (coq_string_of name) with
             | None -> raise Exit
             | Some d ->
               let env = List.mapi (fun k (pn, pt) -> (pn, barg_of pt (arg k))) d.M.d_params in
               let kind = match d.M.d_ret with
                 | M.RetOkId -> `OkW | M.RetOkUnit | M.RetResult -> `OkU | M.RetId -> `Id | M.RetUnit -> `Unit in
               (M.CGen (coq_string_of name, env), kind)) in
        let before = mtext !st in
        (match M.bld_step !st call with
         | None -> raise Exit
         | Some (s1, o) ->
           st := s1;
           let res = match o, kind with
             | M.BPanic, _ -> "PANIC"
             | M.BFail e, _ -> "err:" ^ berr_name e
             | M.BVal v, `OkW -> "ok:" ^ hex_of_n v
             | M.BVal v, `Id -> "id:" ^ hex_of_n v
             | M.BInst i, _ -> "inst:" ^ inst_text i
             | _, `OkU -> "ok" | _, `OkW -> "ok" | _, `Unit -> "unit" | _, `Id -> "unit" | _, `Inst -> "ok" in
           if res = "PANIC" then (out := "PANIC" :: !out; raise Not_found) else
           let line = Printf.sprintf "%s,%s,%s" res (sel_text s1.M.bs_fn) (sel_text s1.M.bs_blk) in
           let line = if starts_with "err:" res then line ^ Printf.sprintf ",same=%d" (if mtext s1 = before then 1 else 0) else line in
           out := line :: !out)) calls;
    let (h, m) = M.finish !st in
    let words = M.assemble_module h m in
    let mt = module_text h m in
    let l =
      let (w2, r2) = M.load_case (List.concat_map (fun x -> M.bytes_of_word x) words) in
      if w2.M.lw_panic then "PANIC" else
      (match r2 with
       | M.Ok _ -> let t2 = module_text w2.M.lw_state.M.l_header w2.M.lw_state.M.l_module in
                   if t2 = mt then "same" else "DIFF " ^ t2
       | M.Er (M.PConsumerError c) -> "E:LERR:" ^ lerr_of_code c
       | M.Er e -> "E:" ^ perr_text e
       | M.Panic _ -> "PANIC") in
    Printf.sprintf "%s || M=%s || A=%s || L=%s" (String.concat " " (List.rev !out)) mt (join_n "," words) l
  with
  | Exit -> "BADCALL"
  | Not_found -> String.concat " " (List.rev !out)
  | Failure _ | Invalid_argument _ -> "BADCALL")

let c19long (args : string list) : string =
  match args with
  | [nh] ->
    let n = int_of_string ("0x" ^ nh) in
    let seen = Hashtbl.create 100000 in
    let first_dup = ref (-1) in
    let k = ref M.O in
    for i = 0 to n - 1 do
      let t = hex_of_n (M.tok_of_len !k) in
      if Hashtbl.mem seen t then (if !first_dup < 0 then first_dup := i) else Hashtbl.add seen t ();
      k := M.S !k
    done;
    Printf.sprintf "long distinct=%x first_dup=%s bad_lookup=%s" (Hashtbl.length seen)
      (if !first_dup < 0 then "-" else Printf.sprintf "%x" !first_dup)
      (if !first_dup < 0 then "-" else Printf.sprintf "%x" !first_dup)
  | _ -> "BADCASE"

let () =
  try
    while true do
      let line = input_line stdin in
      let out = match split_ws line with
        | "c19" :: r -> c19 r
        | "c19long" :: r -> c19long r
        | "c11" :: r -> c11 r
        | "c15" :: r -> c15 r
        | "asm" :: r -> do_asm r
        | "parse" :: r -> do_parse r
        | "parsew" :: r -> do_parse r
        | "feed" :: r -> do_feed r
        | "bld" :: r -> do_bld r
        | "load" :: r -> do_load r
        | "libdis" :: r -> do_libdis r
        | "lift" :: r -> do_lift r
        | _ -> "BADCASE" in
      print_string out; print_char '\n'
    done
  with End_of_file -> ()
