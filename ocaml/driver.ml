(* modelrun: evaluates the extracted Coq models on case lines (stdin) and
   prints one canonical result line per case. Numbers travel as hex. *)
(* Model is NOT opened: its extracted [string]/[ascii] types must not shadow OCaml's. *)
module M = Model
type n = M.n
type positive = M.positive
type nat = M.nat

let rec pos_of_hex_bits (bits : bool list) : positive =
  (* bits: least significant first, last one is the leading 1 *)
  match bits with
  | [] -> M.XH
  | [_] -> M.XH
  | b :: r -> if b then M.XI (pos_of_hex_bits r) else M.XO (pos_of_hex_bits r)

let bits_of_hex (s : string) : bool list =
  (* least significant bit first, leading zeros removed *)
  let l = ref [] in
  String.iter (fun c ->
    let v = match c with
      | '0'..'9' -> Char.code c - 48
      | 'a'..'f' -> Char.code c - 87
      | 'A'..'F' -> Char.code c - 55
      | _ -> failwith ("bad hex digit in " ^ s) in
    l := !l @ [v land 8 <> 0; v land 4 <> 0; v land 2 <> 0; v land 1 <> 0]) s;
  (* !l is most significant first *)
  let rec strip = function false :: r -> strip r | x -> x in
  List.rev (strip !l)

let n_of_hex (s : string) : n =
  match bits_of_hex s with
  | [] -> M.N0
  | bits -> M.Npos (pos_of_hex_bits bits)

let hex_of_n (x : n) : string =
  match x with
  | M.N0 -> "0"
  | M.Npos p ->
    let rec bits p = match p with M.XH -> [true] | M.XO q -> false :: bits q | M.XI q -> true :: bits q in
    let b = bits p in (* lsb first *)
    let rec chunks l = match l with
      | [] -> []
      | _ ->
        let take k l = let rec go k l acc = if k = 0 then (List.rev acc, l) else match l with [] -> (List.rev acc, []) | x :: r -> go (k-1) r (x :: acc) in go k l [] in
        let (c, r) = take 4 l in
        let v = List.fold_right (fun bit acc -> acc * 2 + (if bit then 1 else 0)) c 0 in
        v :: chunks r in
    let ds = chunks b in
    String.concat "" (List.rev_map (fun v -> String.make 1 "0123456789abcdef".[v]) ds)

let n_of_int (i : int) : n = n_of_hex (Printf.sprintf "%x" i)
let rec nat_of_int (i : int) : nat = if i <= 0 then M.O else M.S (nat_of_int (i - 1))

let split_ws (s : string) : string list =
  List.filter (fun x -> x <> "") (String.split_on_char ' ' s)

let join_n sep l = String.concat sep (List.map hex_of_n l)

(* ------------------------------------------------------------ C19 *)
let c19 (args : string list) : string =
  match args with
  | m :: ops ->
    let mat = List.init 16 (fun i -> m.[i] = '1') in
    let ops' = List.map (fun o -> (o.[0] = 'a', n_of_int (Char.code o.[1] - 48))) ops in
    let ((s, ts), gs) = M.c19_run_case mat ops' in
    if List.exists (fun g -> g = None) gs then "PANIC" else
    Printf.sprintf "s=%s t=%s g=%s" (join_n "," s) (join_n "," ts)
      (String.concat "," (List.map (function Some v -> hex_of_n v | None -> "?") gs))
  | [] -> "BADCASE"

(* ------------------------------------------------------------ helpers *)
let coq_ascii_of (c : char) : M.ascii =
  let v = Char.code c in
  let b i = (v lsr i) land 1 = 1 in
  M.Ascii (b 0, b 1, b 2, b 3, b 4, b 5, b 6, b 7)
let char_of_coq (a : M.ascii) : char =
  match a with M.Ascii (b0, b1, b2, b3, b4, b5, b6, b7) ->
    let v l = List.fold_right (fun b acc -> acc * 2 + (if b then 1 else 0)) l 0 in
    Char.chr (v [b0; b1; b2; b3; b4; b5; b6; b7])
let coq_string_of (s : string) : M.string =
  let r = ref M.EmptyString in
  for i = String.length s - 1 downto 0 do r := M.String (coq_ascii_of s.[i], !r) done; !r
let rec string_of_coq (l : M.string) : string =
  match l with M.EmptyString -> "" | M.String (a, r) -> String.make 1 (char_of_coq a) ^ string_of_coq r

let bytes_of_hex (s : string) : n list =
  if s = "-" then [] else
  List.init (String.length s / 2) (fun i -> n_of_hex (String.sub s (2 * i) 2))

let hex2_of_n (x : n) : string = let h = hex_of_n x in if String.length h = 1 then "0" ^ h else h
let hex_of_bytes (l : n list) : string = if l = [] then "-" else String.concat "" (List.map hex2_of_n l)

let starts_with p s = String.length s >= String.length p && String.sub s 0 (String.length p) = p
let after p s = String.sub s (String.length p) (String.length s - String.length p)

(* ------------------------------------------------------------ C11 *)
let derr_str (e : M.derr) : string =
  match e with
  | M.StreamExpected o -> "E:SE:" ^ hex_of_n o
  | M.LimitReached o -> "E:LR:" ^ hex_of_n o
  | M.DecodeStringFailed o -> "E:DS:" ^ hex_of_n o
  | M.KindUnknown (ty, o, w) -> Printf.sprintf "E:UK:%s:%s:%s" (string_of_coq ty) (hex_of_n o) (hex_of_n w)

let resp_str (r : M.resp) : string =
  match r with
  | M.VWord w -> "W" ^ hex_of_n w
  | M.VWords ws -> "WS" ^ join_n "," ws
  | M.VStr s -> "S" ^ hex_of_bytes s
  | M.VUnit -> "U"
  | M.VNum x -> "N" ^ hex_of_n x
  | M.VBool b -> if b then "B1" else "B0"
  | M.VErr e -> derr_str e

let creq_of (t : string) : M.creq =
  if t = "w" || t = "b32" || t = "id" || t = "ei" then M.CWord
  else if t = "s" then M.CString
  else if t = "b64" then M.CBit64
  else if t = "cl" then M.CClear
  else if t = "o" then M.COffset
  else if t = "hl" then M.CHasLimit
  else if t = "lr" then M.CLimitReached
  else if starts_with "ws" t then M.CWords (nat_of_int (int_of_string ("0x" ^ after "ws" t)))
  else if starts_with "sl" t then M.CSetLimit (n_of_hex (after "sl" t))
  else if starts_with "t:" t then M.CTyped (coq_string_of (after "t:" t))
  else failwith ("bad request " ^ t)

let c11 (args : string list) : string =
  match args with
  | b :: reqs ->
    (match M.c11_run_case (bytes_of_hex b) (List.map creq_of reqs) with
     | None -> "BADCASE"
     | Some (rs, d) ->
       let lr = match d.M.lim with Some M.N0 -> 1 | _ -> 0 in
       let hl = match d.M.lim with Some _ -> 1 | None -> 0 in
       String.concat " " (List.map resp_str rs @ [Printf.sprintf "| off=%s hl=%d lr=%d" (hex_of_n d.M.off) hl lr]))
  | [] -> "BADCASE"

(* ------------------------------------------------------------ C15 *)
let ns_of (v : string) : n list =
  if v = "-" || v = "" then [] else List.map n_of_hex (String.split_on_char ',' v)
let kv (t : string) : string * string =
  match String.index_opt t '=' with
  | Some i -> (String.sub t 0 i, String.sub t (i + 1) (String.length t - i - 1))
  | None -> (t, "")
let opt_of (l : n list) : n option = match l with x :: _ -> Some x | [] -> None

let c15 (toks : string list) : string =
  (* split at "|" *)
  let rec groups acc cur = function
    | [] -> List.rev (List.rev cur :: acc)
    | "|" :: r -> groups (List.rev cur :: acc) [] r
    | t :: r -> groups acc (t :: cur) r in
  let gs = groups [] [] toks in
  let get g k = try ns_of (List.assoc k (List.map kv g)) with Not_found -> [] in
  match gs with
  | [] -> "BADCASE"
  | mg :: rest ->
    (* functions and their blocks *)
    let fns = ref [] in
    List.iter (fun g ->
      match g with
      | "F" :: fields -> fns := (fields, ref []) :: !fns
      | "B" :: fields -> (match !fns with (_, bs) :: _ -> bs := fields :: !bs | [] -> ())
      | _ -> ()) rest;
    let mkblock g = { M.b_label = opt_of (get g "label"); M.b_insts = get g "instructions" } in
    let mkfn (g, bs) = { M.f_def = opt_of (get g "def"); M.f_end = opt_of (get g "end");
                         M.f_params = get g "parameters"; M.f_blocks = List.rev_map mkblock !bs } in
    let fl = List.rev_map mkfn !fns in
    let m = { M.m_caps = get mg "capabilities"; M.m_exts = get mg "extensions"; M.m_imports = get mg "ext_inst_imports";
              M.m_memory_model = opt_of (get mg "memory_model"); M.m_entry_points = get mg "entry_points";
              M.m_exec_modes = get mg "execution_modes"; M.m_debug_string_source = get mg "debug_string_source";
              M.m_debug_names = get mg "debug_names"; M.m_debug_module_processed = get mg "debug_module_processed";
              M.m_annotations = get mg "annotations"; M.m_types_global_values = get mg "types_global_values";
              M.m_functions = fl } in
    let show l = if l = [] then "-" else join_n "," l in
    let ev scope fn idx = show (M.c15_eval_case m (coq_string_of scope) (coq_string_of fn) (nat_of_int idx)) in
    let parts = ref [ "all=" ^ ev "Module" "all_inst_iter" 0; "allm=" ^ ev "Module" "all_inst_iter_mut" 0;
                      "glob=" ^ ev "Module" "global_inst_iter" 0; "globm=" ^ ev "Module" "global_inst_iter_mut" 0;
                      "asm=" ^ ev "Module" "assemble_into" 0 ] in
    List.iteri (fun i _ ->
      parts := !parts @ [ Printf.sprintf "f%d=%s" i (ev "Function" "all_inst_iter" i);
                          Printf.sprintf "f%dm=%s" i (ev "Function" "all_inst_iter_mut" i);
                          Printf.sprintf "f%da=%s" i (ev "Function" "assemble_into" i) ]) fl;
    String.concat ";" !parts

(* ------------------------------------------------------------ instructions *)
let operand_text (o : M.operand) : string =
  match o with
  | M.OEnum (k, v) -> Printf.sprintf "E%s.%s" (string_of_int (int_of_string ("0x" ^ hex_of_n k))) (hex_of_n v)
  | M.OIdRef v -> "R" ^ hex_of_n v
  | M.OIdScope v -> "C" ^ hex_of_n v
  | M.OIdMemSem v -> "M" ^ hex_of_n v
  | M.OLit32 v -> "L" ^ hex_of_n v
  | M.OLit64 v -> "Q" ^ hex_of_n v
  | M.OExtInst v -> "X" ^ hex_of_n v
  | M.OSpecOp v -> "P" ^ hex_of_n v
  | M.OStr s -> "S" ^ hex_of_bytes s

let opt_text (o : n option) : string = match o with Some v -> hex_of_n v | None -> "-"

let inst_text (i : M.inst) : string =
  Printf.sprintf "%s/%s/%s/%s" (hex_of_n i.M.i_opcode) (opt_text i.M.i_rtype) (opt_text i.M.i_rid)
    (if i.M.i_ops = [] then "-" else String.concat "," (List.map operand_text i.M.i_ops))

let operand_of_text (t : string) : M.operand =
  let c = t.[0] and r = String.sub t 1 (String.length t - 1) in
  match c with
  | 'R' -> M.OIdRef (n_of_hex r) | 'C' -> M.OIdScope (n_of_hex r) | 'M' -> M.OIdMemSem (n_of_hex r)
  | 'L' -> M.OLit32 (n_of_hex r) | 'Q' -> M.OLit64 (n_of_hex r) | 'X' -> M.OExtInst (n_of_hex r)
  | 'P' -> M.OSpecOp (n_of_hex r)
  | 'S' -> M.OStr (bytes_of_hex r)
  | 'E' -> (match String.split_on_char '.' r with
            | [k; v] -> M.OEnum (n_of_int (int_of_string k), n_of_hex v)
            | _ -> failwith "bad E operand")
  | _ -> failwith ("bad operand " ^ t)

let inst_of_text (t : string) : M.inst =
  match String.split_on_char '/' t with
  | [op; rt; rid; ops] ->
    let o s = if s = "-" then None else Some (n_of_hex s) in
    { M.i_opcode = n_of_hex op; M.i_rtype = o rt; M.i_rid = o rid;
      M.i_ops = if ops = "-" then [] else List.map operand_of_text (String.split_on_char ',' ops) }
  | _ -> failwith "bad inst"

let perr_text (e : M.perr) : string =
  let h = hex_of_n in
  match e with
  | M.PComplete -> "COMPLETE" | M.PStop -> "STOP"
  | M.PConsumerError k -> "CERR:script" ^ string_of_int (int_of_string ("0x" ^ h k))
  | M.PHeaderIncomplete d -> "HIN:" ^ derr_str d
  | M.PHeaderIncorrect -> "HBAD" | M.PEndianness -> "ENDIAN"
  | M.PWordCountZero (o, i) -> Printf.sprintf "WCZ:%s:%s" (h o) (h i)
  | M.POpcodeUnknown (o, i, c) -> Printf.sprintf "OPU:%s:%s:%s" (h o) (h i) (h c)
  | M.POperandExpected (o, i) -> Printf.sprintf "OEX:%s:%s" (h o) (h i)
  | M.POperandExceeded (o, i) -> Printf.sprintf "OXC:%s:%s" (h o) (h i)
  | M.POperandError d -> "OE:" ^ derr_str d
  | M.PTypeUnsupported (o, i) -> Printf.sprintf "TUN:%s:%s" (h o) (h i)
  | M.PSpecOpIncorrect (o, i) -> Printf.sprintf "SCI:%s:%s" (h o) (h i)

let header_text (hd : M.header) : string =
  String.concat "." (List.map hex_of_n [hd.M.h_magic; hd.M.h_version; hd.M.h_generator; hd.M.h_bound; hd.M.h_reserved])

let script_of (s : string) : (nat * bool) option =
  if s = "-" then None else
  match String.split_on_char ':' s with
  | [k; e] -> Some (nat_of_int (int_of_string k), e = "E")
  | _ -> None

let do_asm (args : string list) : string =
  match args with
  | [t] -> (match M.run_asm_case (inst_of_text t) with
            | Some ws -> "W:" ^ join_n "," ws
            | None -> "BUILDERR")
  | _ -> "BADCASE"

let do_parse (args : string list) : string =
  match args with
  | [script; b] ->
    let (st, r) = M.run_parse_case (script_of script) (bytes_of_hex b) in
    let rs = match r with
      | M.Ok _ -> "OK"
      | M.Er e -> perr_text e
      | M.Panic _ -> "PANIC" in
    if rs = "PANIC" then "PANIC" else
    let code = function c when c = M.N0 -> "i" | c -> (match hex_of_n c with "1" -> "f" | "2" -> "h" | _ -> "n") in
    Printf.sprintf "R=%s H=%s I=%s T=%s" rs
      (match st.M.r_header with Some hd -> header_text hd | None -> "-")
      (if st.M.r_insts = [] then "-" else String.concat ";" (List.rev_map inst_text st.M.r_insts))
      (String.concat "" (List.map code st.M.r_trace))
  | _ -> "BADCASE"

(* ------------------------------------------------------------ loader *)
let insts_text (l : M.inst list) : string = if l = [] then "-" else String.concat ";" (List.map inst_text l)
let oinst_text (o : M.inst option) : string = match o with Some i -> inst_text i | None -> "-"

let module_text (h : M.header option) (m : M.inst M.module0) : string =
  let parts = ref [ "h=" ^ (match h with Some hd -> header_text hd | None -> "-");
    "c=" ^ insts_text m.M.m_caps; "e=" ^ insts_text m.M.m_exts; "i=" ^ insts_text m.M.m_imports;
    "mm=" ^ oinst_text m.M.m_memory_model; "ep=" ^ insts_text m.M.m_entry_points;
    "em=" ^ insts_text m.M.m_exec_modes; "ds=" ^ insts_text m.M.m_debug_string_source;
    "dn=" ^ insts_text m.M.m_debug_names; "dp=" ^ insts_text m.M.m_debug_module_processed;
    "an=" ^ insts_text m.M.m_annotations; "tg=" ^ insts_text m.M.m_types_global_values ] in
  List.iter (fun f ->
    let fs = [ "d=" ^ oinst_text f.M.f_def; "e=" ^ oinst_text f.M.f_end; "p=" ^ insts_text f.M.f_params ]
      @ List.map (fun b -> Printf.sprintf "B{l=%s i=%s}" (oinst_text b.M.b_label) (insts_text b.M.b_insts)) f.M.f_blocks in
    parts := !parts @ [ "F{" ^ String.concat " " fs ^ "}" ]) m.M.m_functions;
  String.concat " " !parts

let lerr_name (e : M.lerr) : string =
  match e with
  | M.NestedFunction -> "NestedFunction" | M.UnclosedFunction -> "UnclosedFunction"
  | M.MismatchedFunctionEnd -> "MismatchedFunctionEnd" | M.DetachedFunctionParameter -> "DetachedFunctionParameter"
  | M.DetachedBlock -> "DetachedBlock" | M.NestedBlock -> "NestedBlock" | M.UnclosedBlock -> "UnclosedBlock"
  | M.MismatchedTerminator -> "MismatchedTerminator" | M.DetachedInstruction -> "DetachedInstruction"

let lerr_of_code (c : n) : string =
  match int_of_string ("0x" ^ hex_of_n c) with
  | 100 -> "NestedFunction" | 101 -> "UnclosedFunction" | 102 -> "MismatchedFunctionEnd"
  | 103 -> "DetachedFunctionParameter" | 104 -> "DetachedBlock" | 105 -> "NestedBlock"
  | 106 -> "UnclosedBlock" | 107 -> "MismatchedTerminator" | 108 -> "DetachedInstruction" | _ -> "PANIC"

let do_feed (texts : string list) : string =
  match (try Some (List.map inst_of_text texts) with _ -> None) with
  | None -> "BUILDERR"
  | Some is ->
    if List.exists (fun i -> M.run_asm_case i = None) is then "BUILDERR" else
    (* errors carry no position in the model; recompute it by feeding prefixes *)
    let rec first_err k pre rest =
      match rest with
      | [] -> "end"
      | x :: r ->
        (match M.feed_case_prefix (pre @ [x]) with
         | true -> first_err (k + 1) (pre @ [x]) r
         | false -> string_of_int k) in
    (match M.feed_case is with
     | M.LCont s -> "OK " ^ module_text s.M.l_header s.M.l_module
     | M.LErr e -> Printf.sprintf "ERR:%s@%s" (lerr_name e) (first_err 0 [] is)
     | M.LPanic -> "PANIC")

let do_load (args : string list) : string =
  match args with
  | [b] ->
    let bytes = bytes_of_hex b in
    let (w, r) = M.load_case bytes in
    if w.M.lw_panic then "PANIC" else
    (match r with
     | M.Ok _ ->
       let s = w.M.lw_state in
       let words = M.assemble_module s.M.l_header s.M.l_module in
       let again =
         let (w2, r2) = M.load_case (List.concat_map (fun x -> M.bytes_of_word x) words) in
         (match r2 with
          | M.Ok _ -> string_of_bool (module_text w2.M.lw_state.M.l_header w2.M.lw_state.M.l_module = module_text s.M.l_header s.M.l_module)
          | M.Er (M.PConsumerError c) -> "E:LERR:" ^ lerr_of_code c
          | M.Er e -> "E:" ^ perr_text e
          | M.Panic _ -> "PANIC") in
       Printf.sprintf "OK %s A=%s R=%s LW=%s" (module_text s.M.l_header s.M.l_module) (join_n "," words) again
         (if List.length bytes mod 4 = 0 then "true" else "n/a")
     | M.Er (M.PConsumerError c) -> "E:LERR:" ^ lerr_of_code c
     | M.Er e -> "E:" ^ perr_text e
     | M.Panic _ -> "PANIC")
  | _ -> "BADCASE"

let c19long (args : string list) : string =
  match args with
  | [nh] ->
    let n = int_of_string ("0x" ^ nh) in
    let seen = Hashtbl.create 100000 in
    let first_dup = ref (-1) in
    let k = ref M.O in
    for i = 0 to n - 1 do
      let t = hex_of_n (M.tok_of_len !k) in
      if Hashtbl.mem seen t then (if !first_dup < 0 then first_dup := i) else Hashtbl.add seen t ();
      k := M.S !k
    done;
    Printf.sprintf "long distinct=%x first_dup=%s bad_lookup=%s" (Hashtbl.length seen)
      (if !first_dup < 0 then "-" else Printf.sprintf "%x" !first_dup)
      (if !first_dup < 0 then "-" else Printf.sprintf "%x" !first_dup)
  | _ -> "BADCASE"

let () =
  try
    while true do
      let line = input_line stdin in
      let out = match split_ws line with
        | "c19" :: r -> c19 r
        | "c19long" :: r -> c19long r
        | "c11" :: r -> c11 r
        | "c15" :: r -> c15 r
        | "asm" :: r -> do_asm r
        | "parse" :: r -> do_parse r
        | "parsew" :: r -> do_parse r
        | "feed" :: r -> do_feed r
        | "load" :: r -> do_load r
        | _ -> "BADCASE" in
      print_string out; print_char '\n'
    done
  with End_of_file -> ()
