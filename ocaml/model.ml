
type nat =
| O
| S of nat

(** val option_map : ('a1 -> 'a2) -> 'a1 option -> 'a2 option **)

let option_map f = function
| Some a -> Some (f a)
| None -> None

(** val fst : ('a1 * 'a2) -> 'a1 **)

let fst = function
| (x, _) -> x

(** val snd : ('a1 * 'a2) -> 'a2 **)

let snd = function
| (_, y) -> y

(** val length : 'a1 list -> nat **)

let rec length = function
| [] -> O
| _ :: l' -> S (length l')

(** val app : 'a1 list -> 'a1 list -> 'a1 list **)

let rec app l m =
  match l with
  | [] -> m
  | a :: l1 -> a :: (app l1 m)

type comparison =
| Eq
| Lt
| Gt

module Coq__1 = struct
 (** val add : nat -> nat -> nat **)
 let rec add n0 m =
   match n0 with
   | O -> m
   | S p -> S (add p m)
end
include Coq__1

(** val nth : nat -> 'a1 list -> 'a1 -> 'a1 **)

let rec nth n0 l default =
  match n0 with
  | O -> (match l with
          | [] -> default
          | x :: _ -> x)
  | S m -> (match l with
            | [] -> default
            | _ :: t -> nth m t default)

(** val nth_error : 'a1 list -> nat -> 'a1 option **)

let rec nth_error l = function
| O -> (match l with
        | [] -> None
        | x :: _ -> Some x)
| S n1 -> (match l with
           | [] -> None
           | _ :: l0 -> nth_error l0 n1)

(** val map : ('a1 -> 'a2) -> 'a1 list -> 'a2 list **)

let rec map f = function
| [] -> []
| a :: t -> (f a) :: (map f t)

type positive =
| XI of positive
| XO of positive
| XH

type n =
| N0
| Npos of positive

module Pos =
 struct
  type mask =
  | IsNul
  | IsPos of positive
  | IsNeg
 end

module Coq_Pos =
 struct
  (** val succ : positive -> positive **)

  let rec succ = function
  | XI p -> XO (succ p)
  | XO p -> XI p
  | XH -> XO XH

  (** val add : positive -> positive -> positive **)

  let rec add x y =
    match x with
    | XI p ->
      (match y with
       | XI q -> XO (add_carry p q)
       | XO q -> XI (add p q)
       | XH -> XO (succ p))
    | XO p ->
      (match y with
       | XI q -> XI (add p q)
       | XO q -> XO (add p q)
       | XH -> XI p)
    | XH -> (match y with
             | XI q -> XO (succ q)
             | XO q -> XI q
             | XH -> XO XH)

  (** val add_carry : positive -> positive -> positive **)

  and add_carry x y =
    match x with
    | XI p ->
      (match y with
       | XI q -> XI (add_carry p q)
       | XO q -> XO (add_carry p q)
       | XH -> XI (succ p))
    | XO p ->
      (match y with
       | XI q -> XO (add_carry p q)
       | XO q -> XI (add p q)
       | XH -> XO (succ p))
    | XH ->
      (match y with
       | XI q -> XI (succ q)
       | XO q -> XO (succ q)
       | XH -> XI XH)

  (** val pred_double : positive -> positive **)

  let rec pred_double = function
  | XI p -> XI (XO p)
  | XO p -> XI (pred_double p)
  | XH -> XH

  type mask = Pos.mask =
  | IsNul
  | IsPos of positive
  | IsNeg

  (** val succ_double_mask : mask -> mask **)

  let succ_double_mask = function
  | IsNul -> IsPos XH
  | IsPos p -> IsPos (XI p)
  | IsNeg -> IsNeg

  (** val double_mask : mask -> mask **)

  let double_mask = function
  | IsPos p -> IsPos (XO p)
  | x0 -> x0

  (** val double_pred_mask : positive -> mask **)

  let double_pred_mask = function
  | XI p -> IsPos (XO (XO p))
  | XO p -> IsPos (XO (pred_double p))
  | XH -> IsNul

  (** val sub_mask : positive -> positive -> mask **)

  let rec sub_mask x y =
    match x with
    | XI p ->
      (match y with
       | XI q -> double_mask (sub_mask p q)
       | XO q -> succ_double_mask (sub_mask p q)
       | XH -> IsPos (XO p))
    | XO p ->
      (match y with
       | XI q -> succ_double_mask (sub_mask_carry p q)
       | XO q -> double_mask (sub_mask p q)
       | XH -> IsPos (pred_double p))
    | XH -> (match y with
             | XH -> IsNul
             | _ -> IsNeg)

  (** val sub_mask_carry : positive -> positive -> mask **)

  and sub_mask_carry x y =
    match x with
    | XI p ->
      (match y with
       | XI q -> succ_double_mask (sub_mask_carry p q)
       | XO q -> double_mask (sub_mask p q)
       | XH -> IsPos (pred_double p))
    | XO p ->
      (match y with
       | XI q -> double_mask (sub_mask_carry p q)
       | XO q -> succ_double_mask (sub_mask_carry p q)
       | XH -> double_pred_mask p)
    | XH -> IsNeg

  (** val mul : positive -> positive -> positive **)

  let rec mul x y =
    match x with
    | XI p -> add y (XO (mul p y))
    | XO p -> XO (mul p y)
    | XH -> y

  (** val compare_cont : comparison -> positive -> positive -> comparison **)

  let rec compare_cont r x y =
    match x with
    | XI p ->
      (match y with
       | XI q -> compare_cont r p q
       | XO q -> compare_cont Gt p q
       | XH -> Gt)
    | XO p ->
      (match y with
       | XI q -> compare_cont Lt p q
       | XO q -> compare_cont r p q
       | XH -> Gt)
    | XH -> (match y with
             | XH -> r
             | _ -> Lt)

  (** val compare : positive -> positive -> comparison **)

  let compare =
    compare_cont Eq

  (** val iter_op : ('a1 -> 'a1 -> 'a1) -> positive -> 'a1 -> 'a1 **)

  let rec iter_op op0 p a =
    match p with
    | XI p0 -> op0 a (iter_op op0 p0 (op0 a a))
    | XO p0 -> iter_op op0 p0 (op0 a a)
    | XH -> a

  (** val to_nat : positive -> nat **)

  let to_nat x =
    iter_op Coq__1.add x (S O)

  (** val of_succ_nat : nat -> positive **)

  let rec of_succ_nat = function
  | O -> XH
  | S x -> succ (of_succ_nat x)
 end

module N =
 struct
  (** val succ_double : n -> n **)

  let succ_double = function
  | N0 -> Npos XH
  | Npos p -> Npos (XI p)

  (** val double : n -> n **)

  let double = function
  | N0 -> N0
  | Npos p -> Npos (XO p)

  (** val add : n -> n -> n **)

  let add n0 m =
    match n0 with
    | N0 -> m
    | Npos p -> (match m with
                 | N0 -> n0
                 | Npos q -> Npos (Coq_Pos.add p q))

  (** val sub : n -> n -> n **)

  let sub n0 m =
    match n0 with
    | N0 -> N0
    | Npos n' ->
      (match m with
       | N0 -> n0
       | Npos m' ->
         (match Coq_Pos.sub_mask n' m' with
          | Coq_Pos.IsPos p -> Npos p
          | _ -> N0))

  (** val mul : n -> n -> n **)

  let mul n0 m =
    match n0 with
    | N0 -> N0
    | Npos p -> (match m with
                 | N0 -> N0
                 | Npos q -> Npos (Coq_Pos.mul p q))

  (** val compare : n -> n -> comparison **)

  let compare n0 m =
    match n0 with
    | N0 -> (match m with
             | N0 -> Eq
             | Npos _ -> Lt)
    | Npos n' -> (match m with
                  | N0 -> Gt
                  | Npos m' -> Coq_Pos.compare n' m')

  (** val leb : n -> n -> bool **)

  let leb x y =
    match compare x y with
    | Gt -> false
    | _ -> true

  (** val pos_div_eucl : positive -> n -> n * n **)

  let rec pos_div_eucl a b =
    match a with
    | XI a' ->
      let (q, r) = pos_div_eucl a' b in
      let r' = succ_double r in
      if leb b r' then ((succ_double q), (sub r' b)) else ((double q), r')
    | XO a' ->
      let (q, r) = pos_div_eucl a' b in
      let r' = double r in
      if leb b r' then ((succ_double q), (sub r' b)) else ((double q), r')
    | XH ->
      (match b with
       | N0 -> (N0, (Npos XH))
       | Npos p -> (match p with
                    | XH -> ((Npos XH), N0)
                    | _ -> (N0, (Npos XH))))

  (** val div_eucl : n -> n -> n * n **)

  let div_eucl a b =
    match a with
    | N0 -> (N0, N0)
    | Npos na -> (match b with
                  | N0 -> (N0, a)
                  | Npos _ -> pos_div_eucl na b)

  (** val modulo : n -> n -> n **)

  let modulo a b =
    snd (div_eucl a b)

  (** val to_nat : n -> nat **)

  let to_nat = function
  | N0 -> O
  | Npos p -> Coq_Pos.to_nat p

  (** val of_nat : nat -> n **)

  let of_nat = function
  | O -> N0
  | S n' -> Npos (Coq_Pos.of_succ_nat n')
 end

type 't storage = 't list

(** val tok_of_len : nat -> n **)

let tok_of_len n0 =
  N.modulo (N.of_nat n0) (Npos (XO (XO (XO (XO (XO (XO (XO (XO (XO (XO (XO
    (XO (XO (XO (XO (XO (XO (XO (XO (XO (XO (XO (XO (XO (XO (XO (XO (XO (XO
    (XO (XO (XO XH)))))))))))))))))))))))))))))))))

(** val append : 'a1 storage -> 'a1 -> 'a1 storage * n **)

let append s v =
  ((app s (v :: [])), (tok_of_len (length s)))

(** val position :
    ('a1 -> 'a1 -> bool) -> 'a1 storage -> 'a1 -> nat option **)

let rec position eqb s v =
  match s with
  | [] -> None
  | d :: r ->
    if eqb d v then Some O else option_map (fun x -> S x) (position eqb r v)

(** val fetch_or_append :
    ('a1 -> 'a1 -> bool) -> 'a1 storage -> 'a1 -> 'a1 storage * n **)

let fetch_or_append eqb s v =
  match position eqb s v with
  | Some i -> (s, (tok_of_len i))
  | None -> append s v

(** val get : 'a1 storage -> n -> 'a1 option **)

let get s t =
  nth_error s (N.to_nat t)

type 't op =
| Append of 't
| Fetch of 't

(** val step :
    ('a1 -> 'a1 -> bool) -> 'a1 storage -> 'a1 op -> 'a1 storage * n **)

let step eqb s = function
| Append v -> append s v
| Fetch v -> fetch_or_append eqb s v

(** val run :
    ('a1 -> 'a1 -> bool) -> 'a1 storage -> 'a1 op list -> 'a1 storage * n list **)

let rec run eqb s = function
| [] -> (s, [])
| o :: r ->
  let (s1, t) = step eqb s o in let (s2, ts) = run eqb s1 r in (s2, (t :: ts))

(** val table_eqb : bool list -> n -> n -> bool **)

let table_eqb m a b =
  nth (N.to_nat (N.add (N.mul a (Npos (XO (XO XH)))) b)) m false

(** val c19_run_case :
    bool list -> (bool * n) list -> (n list * n list) * n option list **)

let c19_run_case m ops =
  let ops' =
    map (fun o -> if fst o then Append (snd o) else Fetch (snd o)) ops
  in
  let (s, ts) = run (table_eqb m) [] ops' in ((s, ts), (map (get s) ts))
