"""Correspondence: the implementation (harness) and the extracted Coq model
(modelrun) are run on the same case lines; result lines are diffed."""
import hashlib
import os
import shutil
import core
from core import CACHE, COQ, VERIF, log

OCAML = os.path.join(VERIF, "ocaml")


def build_modelrun():
    """Re-extract and rebuild ocaml/modelrun when a model .vo is newer."""
    exe = os.path.join(CACHE, "modelrun")
    with core.Lock("lock-coq"):
        core.coq_makefile()
        rc, out, _ = core.run(["make", "-j16", "extract-deps"], cwd=COQ, timeout=1500)
    with core.Lock("lock-extract"):
        deps = core.coq_deps("Extract.v")
        vos = [os.path.join(COQ, d + "o") for d in deps if d != "Extract.v"]
        srcs = vos + [os.path.join(COQ, "Extract.v"), os.path.join(OCAML, "driver.ml")]
        newest = max(os.path.getmtime(p) for p in srcs if os.path.exists(p))
        if any(not os.path.exists(p) for p in vos):
            return None, "model .vo files missing (Coq build failed): " + out[-1500:]
        if os.path.exists(exe) and os.path.getmtime(exe) >= newest:
            return exe, ""
        bdir = os.path.join(CACHE, "ocaml-build")
        os.makedirs(bdir, exist_ok=True)
        rc, out, _ = core.run(["coqc", "-Q", COQ, "RV", os.path.join(COQ, "Extract.v")], cwd=bdir, timeout=900)
        if rc != 0:
            return None, "extraction failed: " + out[-2000:]
        shutil.copy(os.path.join(OCAML, "driver.ml"), os.path.join(bdir, "driver.ml"))
        rc, out, _ = core.run(
            ["ocamlfind", "ocamlopt", "-w", "-a", "-O3", "-package", "str", "-linkpkg", "model.mli", "model.ml", "driver.ml", "-o", exe + ".tmp"],
            cwd=bdir, timeout=900)
        if rc != 0:
            return None, "ocamlopt failed: " + out[-2000:]
        os.replace(exe + ".tmp", exe)
        for junk in ("Extract.vo", "Extract.glob", "Extract.vok", "Extract.vos"):
            for d in (bdir, COQ):
                try:
                    os.remove(os.path.join(d, junk))
                except OSError:
                    pass
    return exe, ""


def run_model(exe, cases_path, out_path, timeout=3000):
    with open(cases_path) as fin, open(out_path, "w") as fout:
        import subprocess
        try:
            def big_stack():
                # extracted list functions are not tail recursive: 65535-word instructions need a deep stack
                import resource
                try:
                    resource.setrlimit(resource.RLIMIT_STACK, (resource.RLIM_INFINITY, resource.RLIM_INFINITY))
                except (ValueError, OSError):
                    pass
            p = subprocess.run([exe], stdin=fin, stdout=fout, stderr=subprocess.PIPE, timeout=timeout, preexec_fn=big_stack,
                               env={**os.environ, "OCAMLRUNPARAM": "l=8G"})
            return p.returncode, p.stderr.decode(errors="replace")[-2000:]
        except subprocess.TimeoutExpired:
            return 124, "modelrun timeout"


def diff(cases_path, impl_path, model_path, trivial=None, max_report=5):
    """Returns (n_cases, n_distinct_nontrivial, mismatches[list of dict], samples)."""
    n = 0
    nt = set()
    mism = []
    samples = []
    with open(cases_path) as fc, open(impl_path) as fi, open(model_path) as fm:
        for c, i, m in zip(fc, fi, fm):
            n += 1
            c = c.rstrip("\n"); i = i.rstrip("\n"); m = m.rstrip("\n")
            if trivial is None or not trivial(c, i):
                nt.add(hashlib.blake2b((c + "|" + i).encode(), digest_size=8).digest())
            if n in (3, 1000, 30000) or (n % 100003 == 0 and len(samples) < 8):
                samples.append({"case": c[:300], "impl": i[:300], "model": m[:300]})
            if i != m and len(mism) < max_report:
                mism.append({"case": c, "impl": i, "model": m, "line": n})
    for path in (impl_path, model_path):
        with open(path) as f:
            cnt = sum(1 for _ in f)
        if cnt != n:
            mism.append({"case": "<stream length>", "impl": "", "model": "", "line": n, "what": "%s has %d lines, expected %d" % (os.path.basename(path), cnt, n)})
            break
    return n, len(nt), mism, samples
