"""Token fingerprints of the hand-modelled engine functions (rs2coq `engine` facts) against
ref/source_fingerprints.json.  A difference is not a violation: the model may still be right - but the
only tie of such a function to its Coq model is differential execution, so the check then runs the
thorough-size correspondence even in the quick tier and records the drifted functions."""
import json
import os
import core

# which source files carry hand-modelled code each property depends on
FILES = {
    "C01": ["rspirv/binary/parser.rs", "rspirv/binary/decoder.rs", "rspirv/binary/assemble.rs", "rspirv/binary/tracker.rs", "rspirv/dr/loader.rs", "rspirv/dr/constructs.rs"],
    "C02": ["rspirv/binary/parser.rs", "rspirv/binary/decoder.rs", "rspirv/binary/assemble.rs", "rspirv/binary/tracker.rs"],
    "C03": ["rspirv/binary/parser.rs", "rspirv/binary/decoder.rs", "rspirv/binary/tracker.rs"],
    "C04": ["rspirv/binary/parser.rs", "rspirv/binary/decoder.rs", "rspirv/binary/tracker.rs", "rspirv/dr/loader.rs", "rspirv/binary/assemble.rs", "rspirv/binary/disassemble.rs"],
    "C05": ["rspirv/dr/loader.rs"],
    "C06": ["rspirv/dr/build/mod.rs", "rspirv/dr/loader.rs", "rspirv/binary/parser.rs", "rspirv/binary/assemble.rs", "rspirv/binary/tracker.rs"],
    "C07": ["rspirv/binary/disassemble.rs", "rspirv/binary/tracker.rs", "rspirv/dr/constructs.rs"],
    "C10": ["rspirv/binary/tracker.rs", "rspirv/binary/parser.rs"],
    "C11": ["rspirv/binary/decoder.rs"],
    "C12": ["rspirv/dr/build/mod.rs"],
    "C13": ["rspirv/dr/build/mod.rs"],
    "C14": ["rspirv/binary/parser.rs", "rspirv/dr/loader.rs"],
    "C15": ["rspirv/dr/constructs.rs", "rspirv/binary/assemble.rs"],
    "C18": ["rspirv/lift/mod.rs", "rspirv/lift/storage.rs", "rspirv/sr/storage.rs"],
    "C19": ["rspirv/sr/storage.rs"],
    "C20": ["dis/main.rs", "rspirv/dr/loader.rs", "rspirv/binary/disassemble.rs"],
}


def drifted_for(prop):
    files = FILES.get(prop)
    if not files:
        return []
    facts = core.run_rs2coq()
    cur = facts.get("engine", {}).get("fingerprints", {})
    with open(os.path.join(core.VERIF, "ref", "source_fingerprints.json")) as f:
        ref = json.load(f)
    out = []
    for k in sorted(set(cur) | set(ref)):
        if any(k.startswith(p + "::") for p in files) and cur.get(k) != ref.get(k):
            out.append(k + (" (new)" if k not in ref else " (removed)" if k not in cur else ""))
    return out
