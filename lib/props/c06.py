"""C06 - every module built with the Builder survives assemble-then-load unchanged."""
import json
import random
import core
import corr
import pipeline
import regen
import layout
import bldgen
import bldspec
import spirvgen as sg
import streams

PROP = "C06"


def wrap(bg, call, rng):
    """the minimal complete history containing one call of the method"""
    name = call.split(" ")[0]
    sk = bg.sink_of(name)
    if name in ("constant_bit64", "spec_constant_bit64"):
        # a 64-bit literal needs a 64-bit type declared before (type_int returns id 1 on a new builder)
        toks = call.split(" ")
        return ["type_int 40 0", " ".join([toks[0], "1", toks[2]])]
    if sk == "block":
        return ["begin_function 1 _ 0 3", "begin_block _", call, "ret", "end_function"]
    if sk == "end_block":
        return ["begin_function 1 _ 0 3", "begin_block _", "nop", call, "end_function"]
    if sk in ("block_else_global", "line_rule"):
        return [call] if rng.random() < 0.5 else ["begin_function 1 _ 0 3", "begin_block _", call, "ret", "end_function"]
    return [call]


def histories(bg, rng, tier):
    reps = 4 if tier == "thorough" else 1
    for name in bg.emitting_methods():
        if name in ("type_pointer",) or True:
            for _ in range(reps):
                c = bg.call(name)
                if c:
                    yield wrap(bg, c, rng)
    # context-dependent literals whose width comes from a NON-constant value defined inside the function
    for k in range(12 if tier == "thorough" else 4):
        w = [0x40, 0x40, 0x20, 0x10][k % 4] if k < 4 else rng.choice([0x40, 0x40, 0x20, 0x10])
        lit = lambda: ("Q%x" % rng.randrange(1 << 64)) if w == 0x40 else ("L%x" % rng.randrange(1 << 32))
        if k % 2 == 0:
            yield ["type_int %x %x" % (w, rng.randrange(2)), "begin_function 1 _ 0 3", "function_parameter 1", "begin_block _",
                   "switch 3 4 [%s:4,%s:4]" % (lit(), lit()), "end_function"]
        else:
            yield ["type_int %x %x" % (w, rng.randrange(2)), "begin_function 1 _ 0 3", "begin_block _", "i_add 1 _ 9 9",
                   "switch 4 3 [%s:3]" % lit(), "end_function"]
    # the version set LAST on the builder is the one the module carries
    for k in range(6 if tier == "thorough" else 3):
        h = ["set_version %x %x" % (rng.randrange(1, 3), rng.randrange(0, 7)) for _ in range(rng.randrange(2, 4))]
        h.insert(rng.randrange(len(h)), "capability 1")
        yield h
    # random complete histories
    names = bg.emitting_methods()
    mod_level = [n for n in names if bg.sink_of(n) in ("section", "dedup_type", "memory_model") and not n.endswith("_bit64")]
    blk = [n for n in names if bg.sink_of(n) == "block" and not n.startswith("insert_")]
    term = [n for n in names if bg.sink_of(n) == "end_block" and not n.startswith("insert_")]
    for _ in range(6000 if tier == "thorough" else 600):
        h = []
        if rng.random() < 0.3:
            h.append("set_version %x %x" % (rng.randrange(1, 3), rng.randrange(0, 7)))
        for _ in range(rng.randrange(0, 6)):
            h.append(bg.call(rng.choice(mod_level)))
        for _ in range(rng.randrange(0, 3)):
            h.append("begin_function %x _ %x %x" % (rng.randrange(1, 99), rng.choice([0, 1, 2, 4, 8]), rng.randrange(1, 99)))
            for _ in range(rng.randrange(0, 3)):
                h.append("function_parameter %x" % rng.randrange(1, 99))
            for _ in range(rng.randrange(0, 3)):
                h.append("begin_block _")
                for _ in range(rng.randrange(0, 5)):
                    h.append(bg.call(rng.choice(blk + ["variable", "undef", "line", "no_line"])))
                    if rng.random() < 0.2:
                        h.append(bg.call(rng.choice(mod_level)))
                h.append(bg.call(rng.choice(term)))
            h.append("end_function")
        for _ in range(rng.randrange(0, 3)):
            h.append(bg.call(rng.choice(mod_level)))
        if rng.random() < 0.2:
            h.insert(rng.randrange(len(h) + 1), "set_version %x %x" % (rng.randrange(1, 3), rng.randrange(0, 7)))
        if all(h):
            yield h


def expected_module(bg, lay, calls, answers, final_header):
    """the module the layout rules assign to the instructions the calls must emit"""
    seq = []
    seen_ids = set()
    for c, a in zip(calls, answers):
        name = c.split(" ")[0]
        res = a.rsplit(",", 2)[0] if ",same=" not in a else a
        rid = None
        if res.startswith("ok:") or res.startswith("id:"):
            rid = res[3:]
        if name in ("set_version", "id", "select_function", "select_block"):
            continue
        if name == "begin_function":
            toks = c.split(" ")
            seq.append("36/%s/%s/E%d.%s,R%s" % (toks[1], rid, bg.g.kidx["FunctionControl"], toks[3], toks[4]))
            continue
        if name == "end_function":
            seq.append("38/-/-/-")
            continue
        if name == "function_parameter":
            seq.append("37/%s/%s/-" % (c.split(" ")[1], rid))
            continue
        if name == "begin_block":
            seq.append("f8/-/%s/-" % rid)
            continue
        if bg.sink_of(name) == "dedup_type":
            pn = [p for p, _ in bg.methods[name]["params"]]
            explicit = "result_id" in pn and c.split(" ")[1 + pn.index("result_id")] != "_"
            if not explicit and rid in seen_ids:
                continue            # an identical declaration existed: nothing is emitted
            seen_ids.add(rid)
        t = bg.expected_instruction(c, rid)
        if t is None:
            return None
        seq.append(t)
    r = lay.load(seq)
    if r[0] != "OK":
        return "the emitted instruction sequence is not well-bracketed (%s)" % r[1]
    return lay.module_text(r[1], final_header)


def run(rep):
    rep.cov["rule"] = (
        "for every one of the ~1150 instruction-emitting Builder methods (generated and hand-written): the minimal "
        "complete history containing one call with grammar-conforming arguments (distinct marker values; enumerant "
        "parameters per the reference grammar); plus random complete histories (module-level calls, functions, "
        "parameters, blocks, terminators, set_version). Checked: every call succeeds, the built module is exactly the "
        "layout placement of the instructions the reference grammar prescribes for the calls (opcode from the "
        "method, arguments in grammar order), assemble -> load_words gives the same module, version and bound; "
        "implementation vs extracted model; non-trivial = history emitting at least one instruction with operands"
    )
    p = regen.prepare(release=False)
    broken = list(p.broken)
    bf = getattr(p, "builder_failures", [])
    if bf:
        broken.insert(0, {"lemma": "rs2coq builder descriptor recogniser (T-src)", "error": "\n".join(bf[:20])})
    ok, info = pipeline.proof_stage(rep, PROP, broken)
    bad = []
    if p.exe:
        mexe, merr = corr.build_modelrun()
        g = sg.Grammar()
        rng = random.Random(rep.seed)
        lay = layout.Layout(g)
        bg = bldgen.BuilderGen(g, p.facts, rng)
        bg.lay = lay
        hs = list(histories(bg, rng, rep.tier))
        lines = ["bld " + " | ".join(h) for h in hs]
        files, err = streams.serve_both("c06", lines, p.exe, mexe)
        if files is None:
            ok, info = False, {"lemma": "correspondence run", "error": err}
        else:
            cases, impl, model = files
            n, nt, mism, samples = corr.diff(cases, impl, model, trivial=lambda c, i: "/R" not in i and "/E" not in i and "/L" not in i)
            rep.cov["evaluations"] = n
            rep.cov["distinct_nontrivial"] = nt
            rep.cov["methods"] = len(bg.res)
            rep.cov["samples"] = [{k: v[:300] for k, v in s.items()} for s in samples]
            if mexe is None and ok:
                ok, info = False, {"lemma": "modelrun build", "error": merr}
            if mism and ok:
                ok = False
                info = {"lemma": "correspondence stream c06 (implementation vs extracted builder model)", "error": json.dumps(mism[0])[:1500]}
            for h, got in zip(hs, streams.read_lines(impl)):
                w = bldspec.check_history(bg, lay, h, got)
                if w is None:
                    head, _, tail = got.partition(" || ")
                    answers = head.split(" ")
                    if any(a.startswith("err:") for a in answers):
                        w = "a call of a complete history failed: %s" % [a for a in answers if a.startswith("err:")][0]
                    else:
                        parts = tail.split(" || ")
                        mtxt, ltxt = parts[0][2:], parts[2][2:]
                        hdr = mtxt.split(" ")[0][2:]
                        ver = 0x00010600
                        for c in h:
                            if c.startswith("set_version"):
                                a, b = c.split(" ")[1:3]
                                ver = (int(a, 16) << 16) | (int(b, 16) << 8)
                        if int(hdr.split(".")[1], 16) != ver:
                            w = "module header version %s, the version set on the builder is %x" % (hdr.split(".")[1], ver)
                        want = expected_module(bg, lay, h, answers, hdr)
                        if w is None and want is not None and want != mtxt:
                            w = "the built module is not the layout placement of the instructions the grammar prescribes for the calls"
                            bad.append({"history": h, "observed": mtxt[:1200], "expected": want[:1200], "what": w})
                            continue
                        if w is None and ltxt != "same":
                            w = "assemble -> load does not give back the built module: %s" % ltxt[:300]
                if w:
                    bad.append({"history": h, "observed": got[:600], "what": w})
            bad.sort(key=lambda b: len(" ".join(b["history"])))
            bad = pipeline.split_known(rep, PROP, bad, lambda b: b["history"])
    pipeline.conclude(rep, ok, info, bad, lambda b: "history [%s]: %s" % (" | ".join(b["history"])[:200], b["what"]), limit=4)


def replay(rep, path):
    print(open(path).read())
    run(rep)
    return rep.finish()
