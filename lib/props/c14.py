"""C14 - the parser drives the consumer in protocol order and obeys its actions."""
import json
import random
import core
import corr
import pipeline
import regen
import refparse
import spirvgen as sg
import streams
from props import c03

PROP = "C14"


def expected(rp, data, script):
    ref = rp.parse_stream(data)
    seq = "i" + ("h" if ref["header"] else "") + "n" * len(ref["insts"]) + ("f" if ref["accepted"] else "")
    if script != "-":
        k, kind = script.split(":")
        k = int(k)
        if k < len(seq):
            return seq[:k + 1], ("STOP" if kind == "S" else "CERR:script%d" % k), ref   # E/P/Q: the consumer's own error comes back wrapped
    return seq, None, ref


def check_case(rp, data, script, got):
    if got == "PANIC":
        return "parse panicked"
    f = dict(x.split("=", 1) for x in got.split(" "))
    trace, res, ref = expected(rp, data, script)
    if f["T"] != trace:
        return "callback trace `%s`, the protocol requires `%s` (i=initialize h=header n=instruction f=finalize)" % (f["T"], trace)
    if res is not None and f["R"] != res:
        return "consumer answered %s at callback %s but the parse returned %s" % ("stop" if res == "STOP" else "error", script, f["R"])
    if res is None:
        return c03.check_case(rp, data, got)
    return None


def run(rep):
    rep.cov["rule"] = (
        "base binaries with 0-8 instructions, intact and with each kind of parse error at each position (from the C03 "
        "fault enumeration), x a scripted consumer answering Stop / Error at every callback index k (0 = initialize "
        "... beyond the last); observation = callback log + ParseState; implementation vs extracted model vs the "
        "protocol; non-trivial = case where the script fires"
    )
    p = regen.prepare(release=False)
    broken = list(p.broken)
    ok, info = pipeline.proof_stage(rep, PROP, broken)
    bad = []
    if p.exe:
        mexe, merr = corr.build_modelrun()
        g = sg.Grammar()
        rng = random.Random(rep.seed)
        rp = refparse.RefParser(g)
        gen = sg.Gen(g, rng)
        by = {e["name"]: e for e in g.core}
        lines, meta = [], []
        streams_ = []
        names = ["Capability", "MemoryModel", "TypeInt", "Constant", "Name", "TypeVoid", "Decorate", "Source"]
        for n in range(0, 9):
            insts = [gen.instruction(by[x], {"width": 32}, "rand") for x in names[:n]]
            faults = list(c03.faults(g, rng, insts, "quick"))
            keep = [faults[0]] + [f for f in faults if not f[0].startswith("truncate")][1::max(1, len(faults) // (40 if rep.tier == "thorough" else 12))]
            keep += [f for f in faults if f[0].startswith("truncate")][::7]
            for desc, data in keep:
                streams_.append((n, desc, data))
        streams_.append((0, "empty", b""))
        for n, desc, data in streams_:
            for k in range(0, n + 4):
                for kind in ("S", "E") + (("P", "Q") if (k + n) % 3 == 0 else ()):
                    script = "%d:%s" % (k, kind)
                    lines.append("parse %s %s" % (script, data.hex() or "-"))
                    meta.append((data, script, desc))
                    if len(data) % 4 == 0:
                        lines.append("parsew %s %s" % (script, data.hex() or "-"))
                        meta.append((data, script, desc + " (parse_words)"))
            lines.append("parse - %s" % (data.hex() or "-"))
            meta.append((data, "-", desc))
        files, err = streams.serve_both("c14", lines, p.exe, mexe)
        if files is None:
            ok, info = False, {"lemma": "correspondence run", "error": err}
        else:
            cases, impl, model = files
            n, nt, mism, samples = corr.diff(cases, impl, model, trivial=lambda c, i: "STOP" not in i and "CERR" not in i)
            rep.cov["evaluations"] = n
            rep.cov["distinct_nontrivial"] = nt
            rep.cov["samples"] = samples
            if mexe is None and ok:
                ok, info = False, {"lemma": "modelrun build", "error": merr}
            if mism and ok:
                ok = False
                info = {"lemma": "correspondence stream c14 (implementation vs extracted model)", "error": json.dumps(mism[0])[:1500]}
            for (data, script, desc), got in zip(meta, streams.read_lines(impl)):
                w = check_case(rp, data, script, got)
                if w:
                    bad.append({"stream": data.hex(), "script": script, "fault": desc, "observed": got[:400], "what": w})
            bad.sort(key=lambda b: len(b["stream"]))
    pipeline.conclude(rep, ok, info, bad, lambda b: "stream %s.. script %s: %s" % (b["stream"][:48], b["script"], b["what"]), limit=3)


def replay(rep, path):
    print(open(path).read())
    run(rep)
    return rep.finish()
