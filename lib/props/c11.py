"""C11 - decoder consumes exactly what it returns and honours limits."""
import json
import os
import core
import corr
import pipeline
import regen
from core import CACHE

PROP = "C11"


def le(buf, off):
    return buf[off] | buf[off + 1] << 8 | buf[off + 2] << 16 | buf[off + 3] << 24


def spec_check(case, impl, accepted):
    """The property text, replayed request by request on the implementation's answers."""
    parts = case.split()
    buf = bytes.fromhex(parts[1]) if parts[1] != "-" else b""
    reqs = parts[2:]
    toks = impl.split()
    off, lim = 0, None
    n = len(buf)

    def take_word():
        nonlocal off, lim
        if lim is not None:
            if lim == 0:
                return ("LR", off)
            lim -= 1
        if off + 4 > n:
            return ("SE", off)
        w = le(buf, off)
        off += 4
        return ("W", w)

    for k, q in enumerate(reqs):
        if k >= len(toks):
            return "missing answer for request %d" % k
        a = toks[k]
        if a.startswith("PANIC"):
            return "request %d (%s) panicked" % (k, q)
        before = off
        if q in ("w", "b32", "id", "ei"):
            kind, v = take_word()
            want = "W%x" % v if kind == "W" else "E:%s:%x" % (kind, v)
            if a != want:
                return "request %d (%s) at offset %d answered %s, expected %s" % (k, q, before, a, want)
        elif q.startswith("ws"):
            cnt = int(q[2:], 16)
            ws = []
            want = None
            for _ in range(cnt):
                kind, v = take_word()
                if kind != "W":
                    want = "E:%s:%x" % (kind, v)
                    break
                ws.append(v)
            if want is None:
                want = "WS" + ",".join("%x" % w for w in ws)
            if a != want:
                return "request %d (%s) answered %s, expected %s" % (k, q, a, want)
        elif q == "b64":
            kind, lo = take_word()
            want = None
            if kind != "W":
                want = "E:%s:%x" % (kind, lo)
            else:
                kind, hi = take_word()
                want = "E:%s:%x" % (kind, hi) if kind != "W" else "W%x" % (hi << 32 | lo)
            if a != want:
                return "request %d (b64) answered %s, expected %s" % (k, a, want)
        elif q == "s":
            if a.startswith("S"):
                s = bytes.fromhex(a[1:]) if a[1:] != "-" else b""
                z = buf.find(b"\0", off) if off <= n else -1
                if z < 0 or buf[off:z] != s:
                    return "request %d (string) at offset %d returned %r which is not the NUL-terminated bytes at the offset" % (k, off, s)
                try:
                    s.decode("utf-8")
                except UnicodeDecodeError:
                    return "request %d (string) returned invalid UTF-8" % k
                cw = len(s) // 4 + 1
                if lim is not None and cw > lim:
                    return "request %d (string) consumed %d words with only %d left under the limit" % (k, cw, lim)
                if off + 4 * cw > n:
                    return "request %d (string) advances the offset to %d beyond the buffer end %d" % (k, off + 4 * cw, n)
                off += 4 * cw
                if lim is not None:
                    lim -= cw
            elif not a.startswith("E:"):
                return "request %d (string) answered %s" % (k, a)
        elif q.startswith("t:"):
            ty = q[2:]
            kind, v = take_word()
            if kind == "W":
                ok = accepted(ty, v)
                want = "W%x" % v if ok else "E:UK:%s:%x:%x" % (ty, before, v)
            else:
                want = "E:SE:%x" % off
            if a != want:
                return "request %d (%s) at offset %d answered %s, expected %s" % (k, q, before, a, want)
        elif q.startswith("sl"):
            lim = int(q[2:], 16)
        elif q == "cl":
            lim = None
        elif q == "o":
            if a != "N%x" % off:
                return "request %d: offset() = %s, expected %x" % (k, a, off)
        elif q == "hl":
            if a != "B%d" % (lim is not None):
                return "request %d: has_limit() = %s" % (k, a)
        elif q == "lr":
            if a != "B%d" % (lim == 0):
                return "request %d: limit_reached() = %s" % (k, a)
        if off > n:
            return "offset %d beyond the end of the buffer (%d) after request %d" % (off, n, k)
    tail = [t for t in toks if t.startswith("off=")]
    if tail and tail[0] != "off=%x" % off:
        return "final offset %s, expected %x" % (tail[0], off)
    return None


def make_accept():
    ref = regen.load_ref("spirv.json")
    en = {e["name"]: {v for _, v in e["variants"]} for e in ref["enums"]}
    fl = {}
    for f in ref["flags"]:
        a = 0
        for _, v in f["consts"]:
            a |= v
        fl[f["name"]] = a

    def accepted(ty, w):
        if ty in fl:
            return (w & ~fl[ty]) == 0
        return w in en.get(ty, set())

    return accepted


def run(rep):
    rep.cov["rule"] = (
        "proof: invariant theorems over every buffer and request history (Proofs/DecoderFacts.v); tie: corpus of "
        "minimised failures, all buffers up to length 5/7 over {0,'A',0xC3} x all histories up to length 2/3 over 15 "
        "request kinds, every typed request on boundary words, structured random buffers (words, valid/invalid "
        "UTF-8 strings, truncated tails) x random histories with limits up to usize::MAX; non-trivial = case with "
        "at least one successful consuming request"
    )
    p = regen.prepare(release=(rep.tier == "thorough"))
    broken = list(p.broken)
    fails = p.failures(["rspirv/binary/autogen_decode_operand.rs"])
    if fails:
        broken.insert(0, {"lemma": "rs2coq recogniser (T-src)", "error": "\n".join(fails[:20])})
    ok, info = pipeline.proof_stage(rep, PROP, broken)
    bad = []
    exe = getattr(p, "rexe", None) if rep.tier == "thorough" else p.exe
    if exe:
        mexe, merr = corr.build_modelrun()
        cases = os.path.join(CACHE, "c11.cases"); impl = os.path.join(CACHE, "c11.impl"); model = os.path.join(CACHE, "c11.model")
        rc, out, _ = core.run([exe, "c11", rep.tier, str(rep.seed), cases, impl], timeout=3000)
        if rc != 0:
            ok, info = False, {"lemma": "harness c11", "error": out[-2000:]}
        else:
            if mexe is None:
                if ok:
                    ok, info = False, {"lemma": "modelrun build", "error": merr}
                import shutil
                shutil.copy(impl, model)
            else:
                corr.run_model(mexe, cases, model)
            n, nt, mism, samples = corr.diff(cases, impl, model, trivial=lambda c, i: " W" not in (" " + i) and " S" not in (" " + i))
            rep.cov["evaluations"] = n
            rep.cov["distinct_nontrivial"] = nt
            rep.cov["samples"] = samples
            if mism and ok:
                ok = False
                info = {"lemma": "correspondence stream c11 (implementation vs extracted model)", "error": json.dumps(mism[0])}
            accepted = make_accept()
            with open(cases) as fc, open(impl) as fi:
                for c, i in zip(fc, fi):
                    w = spec_check(c.rstrip("\n"), i.rstrip("\n"), accepted)
                    if w:
                        bad.append({"case": c.strip(), "observed": i.strip(), "what": w})
                        if len(bad) >= 200:
                            break
            bad.sort(key=lambda b: len(b["case"]))
    pipeline.conclude(rep, ok, info, bad, lambda b: "`%s`: %s" % (b["case"], b["what"]), limit=3)


def replay(rep, path):
    print(open(path).read())
    run(rep)
    return rep.finish()
