"""C07 - disassembly is a complete, unambiguous rendering of the instruction stream."""
import json
import random
import struct
import core
import corr
import pipeline
import regen
import layout
import modgen
import disref
import distok
import corr
import spirvgen as sg
import streams
from props import c01, c02

PROP = "C07"


def literal_width_mismatch(t, types):
    """known class F21: an OpConstant whose literal has not the width its result type - as tracked over the
    whole types section, which is what the disassembler does - demands (type declared after the constant)"""
    op, rt, rid, ops = t.split("/")
    if op != "2b" or rt == "-" or ops == "-":
        return False
    ty = types.get(int(rt, 16))
    if not ty:
        return False
    tok = ops.split(",")[0]
    return (tok[0] == "Q") != (ty[1] == 64)


def is_nan_literal(t, types):
    op, rt, rid, ops = t.split("/")
    if op != "2b" or rt == "-":
        return False
    ty = types.get(int(rt, 16))
    if not ty or ty[0] != "float":
        return False
    tok = ops.split(",")[0]
    v = int(tok[1:], 16)
    if tok[0] == "Q":
        x = struct.unpack("<d", struct.pack("<Q", v))[0]
    else:
        x = struct.unpack("<f", struct.pack("<I", v))[0]
    return x != x


def modules(g, rng, tier, lay):
    c01.mg_lay = lay
    mg = modgen.ModGen(g, rng)
    for k in range(200 if tier == "thorough" else 50):
        m = mg.module(rng.choice([1, 2, 3]), rng.random() < 0.5)
        yield "generated module", m
    # every opcode / enumerant / mask bit (C02 corpus) inside its smallest module
    for desc, insts, gp in c01.single_instruction_modules(g, rng, lay, tier):
        yield desc, insts
    # typed constants: signed / unsigned / float, 8..64 bit, boundary values
    for decl, vals in (("15/-/7/L20,L1", ["L0", "Lffffffff", "L80000000", "L7fffffff"]), ("15/-/7/L20,L0", ["Lffffffff", "L5"]),
                       ("15/-/7/L40,L1", ["Qffffffffffffffff", "Q8000000000000000", "Q100000005", "Q5"]), ("15/-/7/L40,L0", ["Qffffffffffffffff"]),
                       ("15/-/7/L10,L1", ["Lffff", "L8000"]), ("15/-/7/L8,L0", ["Lff"]),
                       ("16/-/7/L20", ["L3f800000", "L0", "L80000000", "L7f800000", "Lff800000", "L1", "L7f7fffff", "L3dcccccd"]),
                       ("16/-/7/L40", ["Q3ff0000000000000", "Q0", "Q7ff0000000000000", "Q1", "Q3fb999999999999a"]),
                       ("16/-/7/L10", ["L3c00", "L7bff"])):
        for v in vals:
            yield "typed constant", [decl, "2b/7/9/" + v, "32/7/a/" + v]
    # one-word constants whose type is declared AFTER them (the disassembler tracks all types up front)
    for w in (8, 16, 32, 64, 24):
        for decl in ("15/-/7/L%x,L1" % w, "15/-/7/L%x,L0" % w, "16/-/7/L%x" % w):
            for v in ("L7", "Lffffffff", "L80000001"):
                yield "constant before its type", ["2b/7/9/" + v, decl]
    # extended instructions by name / by number
    for setname, ops in (("GLSL.std.450", [1, 31, 81, 82, 0]), ("OpenCL.std", [0, 95, 164, 165, 204, 205]), ("NonSemantic.DebugPrintf", [1])):
        sx = "S" + setname.encode().hex()
        for n in ops:
            yield "extended instruction", ["b/-/5/" + sx, "15/-/7/L20,L1", "36/7/2/E4.0,R3", "f8/-/4/-", "c/7/%x/R5,X%x,R8,R9" % (0x100 + n, n), "fd/-/-/-", "38/-/-/-"]


def run(rep):
    rep.cov["rule"] = (
        "Coq: mask-bit and enumerant vocabulary translated from the source equals the reference names, every mask "
        "kind is dispatched to its name table, each table lists exactly the declared bits with distinct names. "
        "Dynamic: generated modules, every opcode / enumerant / mask bit inside its smallest module, typed constants "
        "(signed/unsigned/float 8..64 bit boundary values), extended instructions of both sets: the text of "
        "Module::disassemble() and of each Instruction::disassemble() is read back with the reference vocabulary by a "
        "grammar-directed reader and must reconstruct header (version, tool, bound) and the instruction stream "
        "exactly, one line per instruction in assembly order; non-trivial = module with at least one operand"
    )
    p = regen.prepare(release=False)
    broken = list(p.broken)
    fails = p.failures(["rspirv/binary/disassemble.rs", "rspirv/binary/autogen_disas_operand.rs", "rspirv/dr/autogen_operand.rs: Display"])
    if fails:
        broken.insert(0, {"lemma": "rs2coq recogniser (T-src disassembler tables)", "error": "\n".join(fails[:20])})
    ok, info = pipeline.proof_stage(rep, PROP, broken)
    bad = []
    if p.exe:
        g = sg.Grammar()
        rng = random.Random(rep.seed)
        lay = layout.Layout(g)
        rd = disref.Reader(g)
        items = list(modules(g, rng, rep.tier, lay))
        lines, meta = [], []
        for desc, insts in items:
            bound = rng.choice([1, 77, 0xFFFFFFFF])
            version = rng.choice([0x00010000, 0x00010600, 0x00020300])
            words = c01.encode_stream(insts, rng, False, bound=bound, version=version)
            data = b"".join(w.to_bytes(4, "little") for w in words)
            lines.append("libdis " + data.hex())
            meta.append((desc, insts, bound, version))
        mexe, merr = corr.build_modelrun()
        files, err = streams.serve_both("c07", lines, p.exe, mexe)
        if files is None:
            ok, info = False, {"lemma": "harness run", "error": err}
        else:
            il = streams.read_lines(files[1])
            ml = streams.read_lines(files[2]) if mexe else []
            if mexe is None and ok:
                ok, info = False, {"lemma": "modelrun build", "error": merr}
            # correspondence: the token-level Coq model against the text the real disassembler printed
            mism = []
            for (desc, insts, bound, version), got, mgot in zip(meta, il, ml):
                if got.startswith("ERR:") or got.startswith("PANIC:load"):
                    if mgot != "NOLOAD" and not got.startswith("PANIC"):
                        mism.append({"module": insts, "impl": got[:80], "model": mgot[:80], "why": "the implementation rejects the binary, the model loads it"})
                    continue
                if got.startswith("PANIC"):
                    if mgot != "PANIC":
                        mism.append({"module": insts, "impl": got[:80], "model": mgot[:80], "why": "the implementation panics, the model does not"})
                    continue
                if not mgot.startswith("OK "):
                    mism.append({"module": insts, "impl": got[:80], "model": mgot[:80], "why": "the model does not produce a disassembly"})
                    continue
                parts = got.split(" ")
                text = bytes.fromhex(parts[0][3:]).decode("utf-8") if parts[0][3:] != "-" else ""
                own = [bytes.fromhex(x).decode("utf-8") for x in parts[3][2:].split(",")] if len(parts) > 3 and parts[3][2:] else []
                d = distok.compare(mgot, text, own)
                if d:
                    mism.append({"module": insts, "impl": text[:600], "model": mgot[:600], "why": d})
            rep.cov["model_correspondence"] = {"cases": len(ml), "mismatches": len(mism)}
            if mism and ok:
                ok = False
                info = {"lemma": "correspondence stream c07 (Module::disassemble vs token-level Coq model)", "error": json.dumps(mism[0])[:1500]}
            nt = set()
            import refparse
            rp01 = refparse.RefParser(g)
            known_f21 = []
            for (desc, insts, bound, version), got in zip(meta, il):
                if got.startswith("ERR:"):
                    continue      # not loadable (outside the quantifier)
                if not got.startswith("OK:"):
                    bad.append({"module": insts, "what": "%s: %s" % (desc, got[:100])})
                    continue
                parts = got.split(" ")
                text = bytes.fromhex(parts[0][3:]).decode("utf-8") if parts[0][3:] != "-" else ""
                r = lay.load(insts)
                if r[0] != "OK":
                    continue
                flat = lay.flatten(r[1])
                types, imports = disref.module_context(r[1]["sec"]["tg"] + r[1]["sec"]["i"])
                nt.add(text[:200])
                what = None
                try:
                    hdr, back = rd.read(text, types, imports, True)
                    if (hdr["major"], hdr["minor"]) != ((version >> 16) & 0xFF, (version >> 8) & 0xFF):
                        what = "header comment shows version %d.%d, the module has %d.%d" % (hdr["major"], hdr["minor"], (version >> 16) & 0xFF, (version >> 8) & 0xFF)
                    elif hdr["bound"] != bound:
                        what = "header comment shows bound %d, the module has %d" % (hdr["bound"], bound)
                    elif hdr["tool"] != "rspirv":
                        what = "generator shown as %s" % hdr["tool"]
                    elif len(back) != len(flat):
                        what = "%d lines for %d instructions" % (len(back), len(flat))
                    else:
                        for a, b in zip(back, flat):
                            if a != b and not is_nan_literal(b, types):
                                what = "line reads back as %s, the instruction is %s" % (a, b)
                                if literal_width_mismatch(b, types):
                                    known_f21.append({"module": insts, "what": what})
                                    what = None
                                break
                except (ValueError, IndexError, KeyError) as ex:
                    what = "the disassembly cannot be read back with the specification vocabulary: %s" % ex
                if what is None:
                    # every instruction's own disassembly: same line except typed constants / named ext insts
                    il_lines = [bytes.fromhex(x).decode("utf-8") for x in parts[3][2:].split(",")] if len(parts) > 3 and parts[3][2:] else []
                    body = text.split("\n")[4:]
                    if len(il_lines) == len(body):
                        for own, ln, t in zip(il_lines, body, flat):
                            if own != ln and t.split("/")[0] not in ("2b", "c"):
                                what = "Instruction::disassemble gives `%s`, the module disassembly line is `%s`" % (own, ln)
                                break
                if what:
                    bad.append({"module": insts, "disassembly": text[:1500], "what": "%s: %s" % (desc, what)})
            rep.cov["evaluations"] = len(items)
            rep.cov["distinct_nontrivial"] = len(nt)
            rep.cov["samples"] = [{"module": items[i][1][:6], "text": (bytes.fromhex(il[i].split(" ")[0][3:]).decode("utf-8")[:300] if il[i].startswith("OK:") and il[i].split(" ")[0][3:] != "-" else il[i][:80])} for i in (0, len(items) // 2)]
            bad.sort(key=lambda b: len(" ".join(b["module"])))
            if known_f21:
                ents = [e for e in core.load_known().get("open", []) if e["property"] == PROP and e.get("class", {}).get("literal_width_mismatch")]
                if ents:
                    rep.known("%s %s (%d module(s) of the class in this run, e.g. %s)" % (ents[0]["id"], ents[0]["what"][:160], len(known_f21), " ".join(known_f21[0]["module"])))
                else:
                    bad = [{"module": k["module"], "what": "constant before its type: " + k["what"]} for k in known_f21[:2]] + bad
    pipeline.conclude(rep, ok, info, bad, lambda b: b["what"], limit=4)


def replay(rep, path):
    print(open(path).read())
    run(rep)
    return rep.finish()
