"""C02 - assemble and parse are exact inverses on grammar-conforming instructions."""
import json
import os
import random
import core
import corr
import pipeline
import regen
import spirvgen as sg
import streams
from core import CACHE

PROP = "C02"


def ctx_decls(width, kind):
    """type context: returns (ctx, [decl inst texts])"""
    if kind == "int":
        return {"width": width, "rtype": 7}, ["15/-/7/L%x,L%x" % (width, 1)]
    if kind == "float":
        return {"width": width, "rtype": 7}, ["16/-/7/L%x" % width]
    return {"width": 32}, []


def gen_cases(g, rng, tier):
    """yields (ctx_insts, inst_text, family)"""
    gen = sg.Gen(g, rng)
    reps = 3 if tier == "thorough" else 1
    ctxkinds = ("LiteralContextDependentNumber", "PairLiteralIntegerIdRef")
    for e in g.core:
        kinds = [k for k, _ in e["operands"]]
        special = any(k in ctxkinds for k in kinds)
        for mode in ("min", "all", "many") + ("rand",) * (2 * reps):
            if special:
                for (w, kd) in ((32, "int"), (64, "int"), (16, "float"), (64, "float"), (8, "int"), (32, None)):
                    ctx, decls = ctx_decls(w, kd)
                    t = gen.instruction(e, ctx, mode)
                    if e["name"] == "Switch":
                        # selector must be a value of the declared type: OpUndef %7 %9
                        decls = decls + (["1/7/9/-"] if kd else [])
                        parts = t.split("/")
                        toks = parts[3].split(",")
                        toks[0] = "R9"
                        t = "/".join(parts[:3] + [",".join(toks)])
                    yield decls, t, "ctx"
            else:
                yield [], gen.instruction(e, {}, mode), mode
    # every enumerant of every value enum, every single bit / all bits of every mask, as a direct operand
    carriers = {}
    for e in g.core:
        for idx, (k, qn) in enumerate(e["operands"]):
            carriers.setdefault(k, (e, idx))
    for k in g.kinds:
        if k in g.enums and k in carriers:
            e, idx = carriers[k]
            for v in g.enum_values(k):
                yield [], gen.instruction(e, {}, "min", force={idx: v}), "enumerant"
        if k in g.flags and k in carriers:
            e, idx = carriers[k]
            bits = g.flag_bits(k)
            for v in [0] + bits + [g.flag_all(k)] + [rng.choice(bits) | rng.choice(bits) | rng.choice(bits) for _ in range(6 * reps)]:
                yield [], gen.instruction(e, {}, "min", force={idx: v}), "mask"
    # enumerants that only occur as parameters: through OpDecorate / OpExecutionMode
    dec = [x for x in g.core if x["name"] == "Decorate"][0]
    for v in g.enum_values("Decoration"):
        for _ in range(2 * reps):
            yield [], gen.instruction(dec, {}, "min", force={1: v}), "param"
    em = [x for x in g.core if x["name"] == "ExecutionMode"][0]
    for v in g.enum_values("ExecutionMode"):
        yield [], gen.instruction(em, {}, "min", force={1: v}), "param"
    # strings: every length mod 4 boundary, multi-byte, long
    for n in list(range(0, 13)) + [63, 64, 65, 255, 256, 257]:
        for _ in range(reps):
            s = gen.string(n)
            yield [], "5/-/-/R1,S%s" % (s.hex() or "-"), "string"
            yield [], "7/-/%x/S%s" % (gen.fresh(), s.hex() or "-"), "string"
    # OpSwitch whose 64 / 32 / 16-bit selector is defined INSIDE a function body (parameter, arithmetic result)
    for w in (64, 64, 32, 16):
        for definer in ("37/7/9/-", "80/7/9/R1,R1"):
            lit = (lambda: "Q%x" % rng.randrange(1 << 64)) if w == 64 else (lambda: "L%x" % rng.randrange(1 << 32))
            decls = ["15/-/7/L%x,L%x" % (w, rng.randrange(2)), "36/1/2/E%d.0,R3" % g.kidx["FunctionControl"]] + \
                    (["f8/-/4/-"] if definer.startswith("80") else []) + [definer]
            yield decls, "fb/-/-/R9,Rd,%s,Rd,%s,Re" % (lit(), lit()), "ctx"
    # the largest encodable instructions: exactly 65535 and 65534 words
    for total in ((65535, 65534) if tier == "thorough" else (65535,)):
        yield [], "1e/-/5/" + ",".join("R%x" % (k % 4000 + 1) for k in range(total - 2)), "maxwords"
        if tier == "thorough":
            yield [], "50/7/9/" + ",".join("R%x" % (k % 4000 + 1) for k in range(total - 3)), "maxwords"
            yield [], "7/-/3/S" + ("61" * ((total - 2) * 4 - 1)), "maxwords"
    # OpSpecConstantOp over every admissible nested opcode
    sco = [x for x in g.core if x["name"] == "SpecConstantOp"][0]
    banned = ("LiteralContextDependentNumber", "PairLiteralIntegerIdRef", "LiteralSpecConstantOpInteger")
    for e in g.core:
        if any(k in banned for k, _ in e["operands"]):
            continue
        for mode in ("min", "all", "many"):
            toks = ["P%x" % g.opnum[e["name"]]] + gen.operand_tokens(e["operands"], {}, mode)
            yield [], "34/%x/%x/%s" % (gen.ident(), gen.fresh(), ",".join(toks)), "specop"


def run(rep):
    rep.cov["rule"] = (
        "grammar-directed from the reference grammar: every one of the 787 opcodes minimal / all optionals / 3 variadic "
        "repetitions / random; every enumerant of every value enum and every single bit + all bits of every mask as a "
        "direct operand; every Decoration and ExecutionMode with its parameters; strings of length 0-12,63-65,255-257 "
        "with multi-byte UTF-8; 8/16/32/64-bit typed literals; OpSpecConstantOp over every admissible opcode. Each "
        "instruction: assemble (implementation vs extracted model vs the SPIR-V encoding computed by the checker) and parse of "
        "header+context+encoding (implementation vs model vs original). non-trivial = instruction with at least one operand"
    )
    p = regen.prepare(release=False)
    broken = list(p.broken)
    fails = p.failures(["rspirv/binary/", "rspirv/dr/autogen_operand.rs", "rspirv/grammar/"])
    if fails:
        broken.insert(0, {"lemma": "rs2coq recogniser (T-src)", "error": "\n".join(fails[:20])})
    ok, info = pipeline.proof_stage(rep, PROP, broken)
    bad = []
    if p.exe:
        mexe, merr = corr.build_modelrun()
        g = sg.Grammar()
        rng = random.Random(rep.seed)
        lines, meta = [], []
        fam = {}
        for decls, inst, family in gen_cases(g, rng, rep.tier):
            fam[family] = fam.get(family, 0) + 1
            words = sg.spec_encode(inst)
            if len(words) > 65535:
                continue
            stream = sg.header_words() + [w for d in decls for w in sg.spec_encode(d)] + words
            lines.append("asm " + inst)
            meta.append(("asm", inst, words, decls))
            lines.append("parse - " + sg.words_hex(stream))
            meta.append(("parse", inst, words, decls))
        rep.cov["families"] = fam
        files, err = streams.serve_both("c02", lines, p.exe, mexe)
        if files is None:
            ok, info = False, {"lemma": "correspondence run", "error": err}
        else:
            cases, impl, model = files
            il = streams.read_lines(impl)
            n, nt, mism, samples = corr.diff(cases, impl, model, trivial=lambda c, i: c.endswith("/-"))
            rep.cov["evaluations"] = n
            rep.cov["distinct_nontrivial"] = nt
            rep.cov["samples"] = samples
            if mexe is None and ok:
                ok, info = False, {"lemma": "modelrun build", "error": merr}
            if mism and ok:
                ok = False
                info = {"lemma": "correspondence stream c02 (implementation vs extracted model)", "error": json.dumps(mism[0])[:1500]}
            # specification check on the implementation alone
            for (kind, inst, words, decls), got in zip(meta, il):
                if kind == "asm":
                    want = "W:" + ",".join("%x" % w for w in words)
                    if got != want:
                        bad.append({"instruction": inst, "what": "assemble gives %s, the SPIR-V encoding is %s" % (got[:200], want[:200]), "observed": got[:500]})
                else:
                    wi = ";".join(decls + [inst])
                    want = "R=OK H=%s I=%s T=ih%sf" % (sg.header_text(), wi, "n" * (len(decls) + 1))
                    if got != want:
                        bad.append({"instruction": inst, "context": decls, "stream": sg.words_hex(sg.header_words() + [w for d in decls for w in sg.spec_encode(d)] + words),
                                    "what": "parsing the encoding of a conforming instruction gives %s" % got[:300], "expected": want[:500]})
            bad.sort(key=lambda b: len(b["instruction"]))
    pipeline.conclude(rep, ok, info, bad, lambda b: "instruction %s: %s" % (b["instruction"], b["what"]), limit=3)


def replay(rep, path):
    print(open(path).read())
    run(rep)
    return rep.finish()
