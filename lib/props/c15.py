"""C15 - module traversals visit exactly the assembled instruction sequence."""
import json
import os
import core
import corr
import pipeline
import regen
from core import CACHE

PROP = "C15"

GLOBAL = ["capabilities", "extensions", "ext_inst_imports", "memory_model", "entry_points", "execution_modes",
          "debug_string_source", "debug_names", "debug_module_processed", "annotations", "types_global_values"]


def spec_check(case, impl):
    """The property text on the implementation's observations alone."""
    if impl == "PANIC":
        return "a traversal or assemble panicked"
    toks = case.split()[1:]
    groups, cur = [], []
    for t in toks:
        if t == "|":
            groups.append(cur); cur = []
        else:
            cur.append(t)
    groups.append(cur)

    def get(g, k):
        for t in g:
            if t.startswith(k + "="):
                v = t[len(k) + 1:]
                return [] if v in ("-", "") else v.split(",")
        return []
    obs = dict(x.split("=", 1) for x in impl.split(";"))
    glob = []
    for k in GLOBAL:
        glob += get(groups[0], k)
    fns, curf = [], None
    for g in groups[1:]:
        if g and g[0] == "F":
            curf = get(g, "def") + get(g, "parameters")
            fns.append([curf, get(g, "end")])
        elif g and g[0] == "B":
            fns[-1][0] += get(g, "label") + get(g, "instructions")
    fl = [a + e for a, e in fns]
    want_all = glob + [x for f in fl for x in f]
    j = lambda l: ",".join(l) if l else "-"
    if obs.get("asm") != j(want_all):
        return "assemble() emits %s, layout order of the module is %s" % (obs.get("asm"), j(want_all))
    for k in ("all", "allm"):
        if obs.get(k) != obs.get("asm"):
            return "%s visits %s but assemble emits %s" % ({"all": "all_inst_iter", "allm": "all_inst_iter_mut"}[k], obs.get(k), obs.get("asm"))
    for k in ("glob", "globm"):
        if obs.get(k) != j(glob):
            return "%s visits %s, the prefix before the first function is %s" % ({"glob": "global_inst_iter", "globm": "global_inst_iter_mut"}[k], obs.get(k), j(glob))
    for i, f in enumerate(fl):
        for suf, nm in (("", "Function::all_inst_iter"), ("m", "Function::all_inst_iter_mut"), ("a", "Function::assemble")):
            if obs.get("f%d%s" % (i, suf)) != j(f):
                return "%s of function %d gives %s, its slice of the assembly is %s" % (nm, i, obs.get("f%d%s" % (i, suf)), j(f))
    return None


def run(rep):
    rep.cov["rule"] = (
        "proof: the traversal expressions translated from constructs.rs/assemble.rs are evaluated on a symbolic "
        "module (every module value at once) inside Coq and equal the layout-order specification; tie: every "
        "presence pattern of the 20 optional parts/sections (sampled 1/16 of the function patterns in quick, all in "
        "thorough) + random sizes, six traversals + assemble on the real dr::Module vs the extracted evaluator; "
        "non-trivial = module with at least one instruction"
    )
    p = regen.prepare(release=(rep.tier == "thorough"))
    broken = list(p.broken)
    fails = p.failures(["rspirv/dr/constructs.rs", "rspirv/binary/assemble.rs: Assemble for"])
    if fails:
        broken.insert(0, {"lemma": "rs2coq recogniser (T-src traversal expressions)", "error": "\n".join(fails[:20])})
    ok, info = pipeline.proof_stage(rep, PROP, broken)
    bad = []
    exe = getattr(p, "rexe", None) if rep.tier == "thorough" else p.exe
    if exe:
        mexe, merr = corr.build_modelrun()
        cases = os.path.join(CACHE, "c15.cases"); impl = os.path.join(CACHE, "c15.impl"); model = os.path.join(CACHE, "c15.model")
        rc, out, _ = core.run([exe, "c15", rep.tier, str(rep.seed), cases, impl], timeout=3000)
        if rc != 0:
            ok, info = False, {"lemma": "harness c15", "error": out[-2000:]}
        else:
            if mexe is not None:
                corr.run_model(mexe, cases, model)
                n, nt, mism, samples = corr.diff(cases, impl, model, trivial=lambda c, i: i.startswith("all=-"))
                rep.cov["evaluations"] = n
                rep.cov["distinct_nontrivial"] = nt
                rep.cov["samples"] = samples
                if mism and ok:
                    ok = False
                    info = {"lemma": "correspondence stream c15 (implementation vs extracted traversal evaluator)", "error": json.dumps(mism[0])}
            elif ok:
                ok, info = False, {"lemma": "modelrun build", "error": merr}
            with open(cases) as fc, open(impl) as fi:
                for c, i in zip(fc, fi):
                    w = spec_check(c.rstrip("\n"), i.rstrip("\n"))
                    if w:
                        bad.append({"module": c.strip(), "observed": i.strip(), "what": w})
                        if len(bad) >= 100:
                            break
            bad.sort(key=lambda b: len(b["module"]))
    pipeline.conclude(rep, ok, info, bad, lambda b: "module `%s`: %s" % (b["module"][4:], b["what"]), limit=2)


def replay(rep, path):
    print(open(path).read())
    run(rep)
    return rep.finish()
