"""C10 - context-dependent literal widths follow the types declared earlier."""
import itertools
import json
import random
import core
import corr
import pipeline
import regen
import refparse
import spirvgen as sg
import streams
from props import c03

PROP = "C10"

WIDTHS = [8, 16, 32, 64, 128, 7]
FPENC_KIND = 0      # operand kind index of FPEncoding (set from the grammar in run())
FPENC_VALUE = 0     # a declared FPEncoding enumerant


def atoms():
    """history atoms: (name, instruction text maker given ids state)"""
    out = []
    for w in WIDTHS:
        for s in (0, 1):
            out.append(("int%d_%d" % (w, s), lambda st, w=w, s=s: "15/-/%x/L%x,L%x" % (st.new_type(("int", w)), w, s)))
        out.append(("float%d" % w, lambda st, w=w: "16/-/%x/L%x" % (st.new_type(("float", w)), w)))
        if w in (8, 16, 64):
            # OpTypeFloat with its optional FPEncoding operand: still a float of that width for the tracker
            out.append(("floatenc%d" % w, lambda st, w=w: "16/-/%x/L%x,E%d.%x" % (st.new_type(("float", w)), w, FPENC_KIND, FPENC_VALUE)))
    out.append(("undef", lambda st: "1/%x/%x/-" % (st.pick_type_or_value(), st.new_value())))
    out.append(("copy", lambda st: "53/%x/%x/R1" % (st.pick_type_or_value(), st.new_value())))  # OpCopyObject
    # value definitions inside a function body: the tracker must not care where a value is defined
    out.append(("fn", lambda st: "36/1/%x/E4.0,R3" % st.fresh()))
    out.append(("fnend", lambda st: "38/-/-/-"))
    out.append(("param", lambda st: "37/%x/%x/-" % (st.pick_type_or_value(), st.new_value())))
    out.append(("iadd", lambda st: "80/%x/%x/R1,R1" % (st.pick_type_or_value(), st.new_value())))
    out.append(("const", lambda st: st.constant(0x2b)))
    out.append(("specconst", lambda st: st.constant(0x32)))
    out.append(("switch0", lambda st: st.switch(0)))
    out.append(("switch2", lambda st: st.switch(2)))
    return out


class St:
    def __init__(self, rng):
        self.rng = rng
        self.next = 1
        self.types = {}      # id -> (kind, width) as the spec sees them
        self.ids = []

    def fresh(self):
        self.next += 1
        return self.next

    def new_type(self, t):
        i = self.fresh()
        self.types[i] = t
        self.ids.append(i)
        return i

    def new_value(self):
        i = self.fresh()
        self.ids.append(i)
        self._last_value = i
        return i

    def pick_type_or_value(self):
        t = self.rng.choice(self.ids) if self.ids and self.rng.random() < 0.9 else 999
        # the value about to be defined inherits the type's tracked type
        self._pending = self.types.get(t)
        return t

    def width_of(self, i):
        t = self.types.get(i)
        if t is None:
            return 32
        kind, w = t
        if w == 64:
            return 64
        return 32

    def lit(self, i):
        r = self.rng
        if self.width_of(i) == 64:
            return "Q%x" % r.randrange(1 << 64)
        return "L%x" % r.randrange(1 << 32)

    def constant(self, opc):
        t = self.rng.choice(self.ids) if self.ids and self.rng.random() < 0.9 else 998
        v = self.fresh()
        self.ids.append(v)
        if t in self.types:
            self.types[v] = self.types[t]
        return "%x/%x/%x/%s" % (opc, t, v, self.lit(t))

    def switch(self, ncases):
        sel = self.rng.choice(self.ids) if self.ids and self.rng.random() < 0.9 else 997
        toks = ["R%x" % sel, "R%x" % self.fresh()]
        for _ in range(ncases):
            toks += [self.lit(sel), "R%x" % self.fresh()]
        return "fb/-/-/" + ",".join(toks)


def histories(rng, tier):
    at = atoms()
    # exhaustive short interleavings over a reduced alphabet + random longer ones
    small = [a for a in at if a[0] in ("int32_1", "int64_0", "int8_0", "int128_0", "float16", "float64", "float7", "floatenc64", "undef", "const", "specconst", "switch2", "fn", "iadd")]
    L = 4 if tier == "thorough" else 3
    for n in range(1, L + 1):
        for combo in itertools.product(small, repeat=n):
            yield combo
    for _ in range(20000 if tier == "thorough" else 2500):
        n = rng.randrange(3, 9)
        yield tuple(rng.choice(at) for _ in range(n))


def run(rep):
    rep.cov["rule"] = (
        "all interleavings up to length 3 (quick) / 4 (thorough) over {OpTypeInt 8/32/64/128, OpTypeFloat 16/64/7, "
        "typed value definition (also inside a function body: OpFunction, OpIAdd, OpFunctionParameter), OpConstant, OpSpecConstant, OpSwitch with 2 cases} plus random histories of length "
        "3-8 over widths {8,16,32,64,128,7} signed/unsigned, with value chains; literals are encoded at the width "
        "the declarations demand; each stream is parsed, re-assembled and parsed again in a different order of "
        "cases (history independence); non-trivial = history with a literal consumer"
    )
    p = regen.prepare(release=False)
    broken = list(p.broken)
    ok, info = pipeline.proof_stage(rep, PROP, broken)
    bad = []
    if p.exe:
        mexe, merr = corr.build_modelrun()
        g = sg.Grammar()
        global FPENC_KIND, FPENC_VALUE
        FPENC_KIND = g.kidx["FPEncoding"]
        FPENC_VALUE = g.enum_values("FPEncoding")[0]
        rng = random.Random(rep.seed)
        rp = refparse.RefParser(g)
        lines, datas = [], []
        for h in histories(rng, rep.tier):
            st = St(rng)
            insts = []
            for name, mk in h:
                t = mk(st)
                insts.append(t)
                # value definitions propagate the tracked type of their result type
                parts = t.split("/")
                if parts[0] in ("1", "53", "37", "80") and parts[1] != "-":
                    rt, rid = int(parts[1], 16), int(parts[2], 16)
                    if rt in st.types:
                        st.types[rid] = st.types[rt]
            words = sg.header_words() + [w for t in insts for w in sg.spec_encode(t)]
            data = b"".join(w.to_bytes(4, "little") for w in words)
            lines.append("parse - " + data.hex())
            datas.append(data)
        nfirst = len(lines)
        # the same cases again in reverse order: results must not depend on earlier parses
        lines += list(reversed(lines))
        files, err = streams.serve_both("c10", lines, p.exe, mexe)
        if files is None:
            ok, info = False, {"lemma": "correspondence run", "error": err}
        else:
            cases, impl, model = files
            n, nt, mism, samples = corr.diff(cases, impl, model, trivial=lambda c, i: "2b/" not in i and "32/" not in i and "fb/" not in i)
            rep.cov["evaluations"] = n
            rep.cov["distinct_nontrivial"] = nt
            rep.cov["samples"] = samples
            if mexe is None and ok:
                ok, info = False, {"lemma": "modelrun build", "error": merr}
            if mism and ok:
                ok = False
                info = {"lemma": "correspondence stream c10 (implementation vs extracted model)", "error": json.dumps(mism[0])[:1500]}
            il = streams.read_lines(impl)
            asm_lines, asm_meta = [], []
            for k, (data, got) in enumerate(zip(datas, il[:nfirst])):
                w = c03.check_case(rp, data, got)
                if w:
                    bad.append({"stream": data.hex(), "observed": got[:500], "what": w})
                again = il[2 * nfirst - 1 - k]
                if again != got:
                    bad.append({"stream": data.hex(), "observed": again[:300], "what": "the same binary parsed later in the process gives a different result (%s vs %s)" % (again[:120], got[:120])})
                f = dict(x.split("=", 1) for x in got.split(" ")) if got != "PANIC" else {}
                if f.get("I", "-") != "-":
                    for t in f["I"].split(";"):
                        if t.split("/")[0] in ("2b", "32", "fb"):
                            asm_lines.append("asm " + t)
                            asm_meta.append(t)
            # the assembler emits the same number of words the parser consumed
            if asm_lines:
                files2, err2 = streams.serve_both("c10asm", asm_lines[:20000], p.exe, mexe)
                if files2:
                    for t, got in zip(asm_meta, streams.read_lines(files2[1])):
                        want = "W:" + ",".join("%x" % w for w in sg.spec_encode(t))
                        if got != want:
                            bad.append({"stream": t, "observed": got[:300], "what": "re-assembling the delivered instruction %s gives %s, the consumed words were %s" % (t, got[:150], want[:150])})
            bad.sort(key=lambda b: len(b["stream"]))
    pipeline.conclude(rep, ok, info, bad, lambda b: "stream %s: %s" % (b["stream"][40:140], b["what"]), limit=3)


def replay(rep, path):
    print(open(path).read())
    run(rep)
    return rep.finish()
