"""C04 - parsing, loading, assembling and disassembling never panic on any input."""
import json
import os
import random
import core
import corr
import pipeline
import regen
import spirvgen as sg
import streams
from core import CACHE
from props import c03, c20

PROP = "C04"


def run(rep):
    rep.cov["rule"] = (
        "static: every syntactic panic site (panic-family macros, unwrap/expect, indexing, decoder/parser arithmetic) "
        "of the anchored files is regenerated from the source and must be one of the 107 audited sites with the same "
        "multiplicity (Coq lemma sites_covered). dynamic, debug AND release builds, each call under catch_unwind: the "
        "C03 fault enumeration through parse_bytes/parse_words/load_bytes/assemble/disassemble, word-count corruption "
        "in front of strings, OpSpecConstantOp embedding every opcode, constants with undeclared/late/non-numeric "
        "types, buffers of every length 0-24, and the C11 decoder request histories with limits up to usize::MAX; "
        "non-trivial = input with a valid header or a decoder history with a successful request"
    )
    p = regen.prepare(release=True)
    broken = list(p.broken)
    ok, info = pipeline.proof_stage(rep, PROP, broken)
    bad = []
    total = 0
    nts = 0
    samples = []
    g = sg.Grammar()
    for label, exe in (("debug", p.exe), ("release", getattr(p, "rexe", None))):
        if not exe:
            if ok:
                ok, info = False, {"lemma": "harness %s build" % label, "error": "build failed"}
            continue
        rng = random.Random(rep.seed)
        lines, datas = [], []
        nm = 60 if rep.tier == "thorough" else 14
        for insts in c03.base_modules(g, rng, nm):
            for desc, data in c03.faults(g, rng, insts, rep.tier):
                for cmd in ("libdis", "parse -") if (len(lines) % 3 == 0 or rep.tier == "thorough") else ("libdis",):
                    lines.append("%s %s" % (cmd, data.hex() or "-"))
                    datas.append((desc, data))
                if len(data) % 4 == 0 and len(lines) % 5 == 0:
                    lines.append("parsew - %s" % (data.hex() or "-"))
                    datas.append((desc + " (parse_words)", data))
        for desc, data in c20.corpus(g, rng, "quick"):
            lines.append("libdis %s" % (data.hex() or "-"))
            datas.append((desc, data))
            lines.append("load %s" % (data.hex() or "-"))
            datas.append((desc, data))
        for e in g.core:
            words = sg.header_words() + [(5 << 16) | 52, 1, 2, g.opnum[e["name"]], 7]
            d = b"".join(w.to_bytes(4, "little") for w in words)
            lines.append("libdis " + d.hex())
            datas.append(("OpSpecConstantOp embedding Op%s" % e["name"], d))
        for n in range(0, 25):
            for fill in (0, 0xFF, 0x41):
                d = bytes([fill] * n)
                lines.append("libdis " + (d.hex() or "-"))
                datas.append(("%d bytes of %02x" % (n, fill), d))
        files, err = streams.serve_both("c04" + label, lines, exe, None)
        if files is None:
            if ok:
                ok, info = False, {"lemma": "harness run (%s)" % label, "error": err}
            continue
        il = streams.read_lines(files[1])
        total += len(il)
        for (desc, data), cmdline, got in zip(datas, lines, il):
            if len(data) >= 20:
                nts += 1
            if "PANIC" in got:
                bad.append({"build": label, "command": cmdline.split(" ")[0], "case": desc, "input_hex": data.hex(), "observed": got[:200],
                            "what": "%s panics (%s build): %s" % (cmdline.split(" ")[0], label, got[:80])})
        samples.append({"build": label, "case": lines[7][:120], "result": il[7][:120]})
        # decoder request histories (C11 stream) in this build
        cases = os.path.join(CACHE, "c04c11.cases"); impl = os.path.join(CACHE, "c04c11.impl")
        rc, out, _ = core.run([exe, "c11", "quick", str(rep.seed), cases, impl], timeout=3000)
        if rc != 0:
            if ok:
                ok, info = False, {"lemma": "harness c11 (%s)" % label, "error": out[-1500:]}
        else:
            with open(cases) as fc, open(impl) as fi:
                for c, i in zip(fc, fi):
                    total += 1
                    if " W" in i or " S" in i:
                        nts += 1
                    if "PANIC" in i:
                        bad.append({"build": label, "command": "decoder", "case": c.strip(), "input_hex": c.split(" ")[1], "observed": i.strip()[:200],
                                    "what": "decoder request history panics (%s build): %s -> %s" % (label, c.strip()[:120], i.strip()[:80])})
    rep.cov["evaluations"] = total
    rep.cov["distinct_nontrivial"] = nts
    rep.cov["samples"] = samples
    bad.sort(key=lambda b: len(b["input_hex"]))
    pipeline.conclude(rep, ok, info, bad, lambda b: b["what"], limit=3)


def replay(rep, path):
    print(open(path).read())
    run(rep)
    return rep.finish()
