"""C08 - spirv enums and bit-masks map numbers and names exactly as declared."""
import json
import os
import core
import gen_coq
import gen_harness
import pipeline
from core import log, CACHE, VERIF

PROP = "C08"


def load_ref():
    with open(os.path.join(VERIF, "ref", "spirv.json")) as f:
        return json.load(f)


def semantic_search(facts_spirv, dump, ref, sweep=None):
    """Compares the *implementation* (dump/sweep) with the specification
    (declared = reference snapshot).  Returns a list of concrete failing inputs."""
    bad = []
    refe = {e["name"]: e for e in ref["enums"]}
    reff = {f["name"]: f for f in ref["flags"]}
    seen = set()
    for e in (dump["enums"] if dump else []):
        name = e["name"]
        seen.add(name)
        r = refe.get(name)
        if r is None:
            bad.append({"type": name, "what": "enumeration not in the reference grammar"})
            continue
        by_val = {v: n for n, v in r["variants"]}
        by_name = {n: v for n, v in r["variants"]}
        alias = {a: t for a, t in r["aliases"]}
        for n, res in e["from_u32"]:
            want = by_val.get(n)
            if want is None and res is not None:
                bad.append({"type": name, "input": n, "what": "from_u32 accepts an undeclared number", "got": res})
            elif want is not None and res is None:
                bad.append({"type": name, "input": n, "what": "from_u32 rejects a declared discriminant", "want": want})
            elif want is not None and (res[0] != want or res[1] != n):
                bad.append({"type": name, "input": n, "what": "from_u32/Debug/as u32 disagree with the declaration", "got": res, "want": [want, n]})
        for s, res in e["from_str"]:
            want = s if s in by_name else alias.get(s)
            if want != res:
                bad.append({"type": name, "input": s, "what": "FromStr result differs from the declared name/alias", "got": res, "want": want})
    for name in (refe if dump else []):
        if name not in seen:
            bad.append({"type": name, "what": "reference enumeration missing from the crate"})
    for f in (dump["flags"] if dump else []):
        r = reff.get(f["name"])
        if r is None:
            bad.append({"type": f["name"], "what": "mask type not in the reference grammar"})
            continue
        allb = 0
        for _, v in r["consts"]:
            allb |= v
        if f["all"] != allb:
            bad.append({"type": f["name"], "input": f["all"] ^ allb, "what": "declared bit set differs from the reference", "got": f["all"], "want": allb})
        for n, ok in f["from_bits"]:
            if ok != ((n & ~allb & 0xFFFFFFFF) == 0):
                bad.append({"type": f["name"], "input": n, "what": "from_bits acceptance differs from 'all set bits declared'", "got": ok})
    # declared values / names vs reference, from the source reading
    for e in facts_spirv["enums"]:
        r = refe.get(e["name"])
        if r and (e["variants"] != r["variants"] or e["aliases"] != r["aliases"]):
            d = [x for x in e["variants"] if x not in r["variants"]] + [x for x in r["variants"] if x not in e["variants"]]
            d += [x for x in e["aliases"] if x not in r["aliases"]] + [x for x in r["aliases"] if x not in e["aliases"]]
            bad.append({"type": e["name"], "input": d[:4], "what": "declared names/values differ from the Khronos reference"})
    for f in facts_spirv["flags"]:
        r = reff.get(f["name"])
        if r and f["consts"] != r["consts"]:
            d = [x for x in f["consts"] if x not in r["consts"]] + [x for x in r["consts"] if x not in f["consts"]]
            bad.append({"type": f["name"], "input": d[:4], "what": "declared mask bits differ from the Khronos reference"})
    # model search: the translated arms themselves (mirrors Model/Spirv.v from_u32)
    for e in facts_spirv["enums"]:
        r = refe.get(e["name"])
        if not r:
            continue
        vals = {v for _, v in r["variants"]}
        names = {n for n, _ in r["variants"]}
        covered = set()
        for a in e["arms"]:
            if a["hi"] - a["lo"] > 100000:
                bad.append({"type": e["name"], "input": a["lo"], "what": "from_u32 arm %d..=%d is far wider than the declaration" % (a["lo"], a["hi"])})
                continue
            for v in range(a["lo"], a["hi"] + 1):
                if v in covered:
                    continue
                covered.add(v)
                if a["to"] is None and v not in vals:
                    bad.append({"type": e["name"], "input": v, "what": "from_u32 arm %d..=%d transmutes the undeclared number %d into the enumeration (undefined behaviour; the compiled crate may show anything)" % (a["lo"], a["hi"], v)})
                if a["to"] is not None and (a["to"] not in names or dict((n, x) for n, x in r["variants"])[a["to"]] != v):
                    bad.append({"type": e["name"], "input": v, "what": "from_u32 maps %d to %s whose discriminant differs" % (v, a["to"])})
        for nme, v in r["variants"]:
            if v not in covered:
                bad.append({"type": e["name"], "input": v, "what": "declared discriminant of %s not accepted by any from_u32 arm" % nme})
    if sweep is not None:
        for e in sweep["enums"]:
            r = refe.get(e["name"])
            if not r:
                continue
            vals = sorted(v for _, v in r["variants"])
            want = []
            for v in vals:
                if want and want[-1][1] + 1 == v:
                    want[-1][1] = v
                else:
                    want.append([v, v])
            got = [list(x) for x in e["ranges"]]
            if got != want:
                diff = [x for x in got if x not in want] + [x for x in want if x not in got]
                bad.append({"type": e["name"], "input": diff[0][0] if diff else None, "what": "2^32 sweep: accepted set differs from the declared discriminants", "got_ranges": got[:20], "want_ranges": want[:20]})
        for f in sweep["flags"]:
            if f["disagree"]:
                bad.append({"type": f["name"], "input": f["disagree"][0][0], "what": "2^32 sweep: from_bits differs from n & !all == 0"})
    return bad


def run(rep):
    import regen
    rep.cov["rule"] = (
        "proof: generic theorems over all n:N + vm_compute side conditions over the data translated from "
        "spirv/autogen_spirv.rs on this run; tie: T-dump probes (every declared value, +-1, range ends, 2^k, "
        "u32::MAX, every name/alias) evaluated by the real crate and by the Coq model inside Coq (dump_*_agree); "
        "a probe is non-trivial when it is accepted by from_u32/from_bits/FromStr"
    )
    p = regen.prepare(release=(rep.tier == "thorough"))
    facts, dump, ref = p.facts, p.dump_spirv, load_ref()
    broken = list(p.broken)
    fails = p.failures(["spirv/"])
    if fails:
        broken.insert(0, {"lemma": "rs2coq recogniser (T-src)", "error": "\n".join(fails[:20])})
    sweep = None
    if rep.tier == "thorough" and getattr(p, "rexe", None):
        spath = os.path.join(CACHE, "sweep_spirv.json")
        rc, out, dt = core.run([p.rexe, "sweep-spirv", spath], timeout=3000)
        if rc == 0:
            with open(spath) as f:
                sweep = json.load(f)
            rep.cov["sweep_2_32"] = {"types": len(sweep["enums"]) + len(sweep["flags"]), "wall_s": round(dt, 1)}
            rep.cov["exhaustive"] = True
    ok, info = pipeline.proof_stage(rep, PROP, broken)
    bad = semantic_search(facts["spirv"], dump, ref, sweep)
    if dump is not None:
        ev = sum(len(e["from_u32"]) + len(e["from_str"]) for e in dump["enums"]) + sum(len(f["from_bits"]) for f in dump["flags"])
        nt = set()
        for e in dump["enums"]:
            for n, r in e["from_u32"]:
                if r is not None:
                    nt.add((e["name"], "u", n))
            for s, r in e["from_str"]:
                if r is not None:
                    nt.add((e["name"], "s", s))
        for f in dump["flags"]:
            for n, okb in f["from_bits"]:
                if okb and n:
                    nt.add((f["name"], "b", n))
        rep.cov["evaluations"] = ev + (2 ** 32 * (len(sweep["enums"]) + len(sweep["flags"])) if sweep else 0)
        rep.cov["distinct_nontrivial"] = len(nt)
        rep.cov["samples"] = [
            {"type": dump["enums"][1]["name"], "from_u32": dump["enums"][1]["from_u32"][5:9], "from_str": dump["enums"][1]["from_str"][1:4]},
            {"type": dump["flags"][0]["name"], "from_bits": dump["flags"][0]["from_bits"][-4:]},
        ]
    pipeline.conclude(rep, ok, info, bad, lambda b: "%s: %s (input %s)" % (b.get("type"), b["what"], b.get("input")))


def replay(rep, path):
    with open(path) as f:
        print(f.read())
    run(rep)
    return rep.finish()
