"""C20 - rspirv-dis prints the library disassembly or an error and never crashes."""
import json
import os
import random
import subprocess
import core
import corr
import pipeline
import regen
import layout
import modgen
import spirvgen as sg
import streams
from core import CACHE
from props import c01, c03

PROP = "C20"


def corpus(g, rng, tier):
    lay = layout.Layout(g)
    c01.mg_lay = lay
    mg = modgen.ModGen(g, rng)
    n = 0
    for desc, insts, gp in c01.variants(mg, rng, "quick"):
        words = c01.encode_stream(insts, rng, gp)
        yield desc, b"".join(w.to_bytes(4, "little") for w in words)
        n += 1
        if n > (400 if tier == "thorough" else 120):
            break
    # corrupted modules: the C03 fault enumeration on a few bases (sampled)
    k = 0
    for insts in c03.base_modules(g, rng, 14):
        for desc, data in c03.faults(g, rng, insts, "quick"):
            k += 1
            if k % (3 if tier == "thorough" else 17) == 0:
                yield desc, data
    # constants whose type is missing / not numeric / declared later; OpSpecConstantOp with every opcode
    for t in ("2b/9/a/L5", "13/-/9/-;2b/9/a/L5", "2b/9/a/L5;15/-/9/L20,L1", "16/-/9/L20,E%d.7fffffff;2b/9/a/L3f800000" % g.kidx["FPEncoding"]):
        words = sg.header_words() + [w for x in t.split(";") for w in sg.spec_encode(x)]
        yield "constant with unusual type context", b"".join(w.to_bytes(4, "little") for w in words)
    # one-word constants whose (signed / unsigned / float, 8..128 bit) type is declared AFTER them: the
    # disassembler tracks all types up front, the parser had not seen the type yet
    for w in (8, 16, 24, 32, 64, 128):
        for decl in ("15/-/9/L%x,L1" % w, "15/-/9/L%x,L0" % w, "16/-/9/L%x" % w):
            for lit in ("L7", "Lffffffff", "L80000000"):
                words = sg.header_words() + [x for t in ("2b/9/a/" + lit, decl) for x in sg.spec_encode(t)]
                yield "one-word constant before its %d-bit type" % w, b"".join(x.to_bytes(4, "little") for x in words)
    # files cut inside instructions with string operands, with a 1-3 byte tail: a string's NUL may fall
    # into the trailing partial word
    dec = dict(g.enums["Decoration"]["variants"])
    strs = ["47/-/-/R1,E%d.%x,S61,S62" % (g.kidx["Decoration"], dec.get("MergeINTEL", 5834)),
            "3/-/-/E%d.2,L1c2,R5,S6162636465" % g.kidx["SourceLanguage"],
            "f/-/-/E%d.0,R4,S6d61696e,R9" % g.kidx["ExecutionModel"], "7/-/3/S616263"]
    for t in strs:
        ws = sg.header_words() + sg.spec_encode(t)
        data = b"".join(x.to_bytes(4, "little") for x in ws)
        for cut in range(24, len(data) + 1, 4):
            for tail in (b"", b"\0", b"b\0", b"bc\0", b"b", b"bc", b"bcd", b"\0\0\0"):
                yield "string instruction cut at byte %d + %d byte tail" % (cut, len(tail)), data[:cut] + tail
    for e in g.core[::7]:
        words = sg.header_words() + [(5 << 16) | 52, 1, 2, g.opnum[e["name"]], 7]
        yield "OpSpecConstantOp embedding Op%s" % e["name"], b"".join(w.to_bytes(4, "little") for w in words)
    # every sequence of structural tokens up to length 4 (5 in thorough) as a binary: the loader's bracket logic
    import itertools
    from props import c05
    alpha = c05.alphabet(g, rng)
    for n in range(1, (5 if tier == "thorough" else 4) + 1):
        for combo in itertools.product("FEPLTBVM", repeat=n):
            insts = [alpha[c]() for c in combo]
            words = sg.header_words() + [w for t in insts for w in sg.spec_encode(t)]
            yield "token sequence " + "".join(combo), b"".join(w.to_bytes(4, "little") for w in words)
    yield "empty file", b""
    for n in list(range(1, 24)) + [64, 257, 4096]:
        yield "random %d bytes" % n, bytes(rng.randrange(256) for _ in range(n))
    # word-count corruption in front of a string operand
    for wc in (2, 3, 6, 40, 0xFFFF):
        words = sg.header_words() + [(wc << 16) | 5, 1, 0x6E69616D]
        yield "OpName with word count %d" % wc, b"".join(w.to_bytes(4, "little") for w in words)


def run(rep):
    rep.cov["rule"] = (
        "the rspirv-dis binary built from /repo is run on generated valid modules, on the sampled C03 fault "
        "enumeration (corrupted modules), on constants with missing/late/non-numeric types, OpSpecConstantOp with "
        "every 7th opcode, word-count corruption in front of strings, the empty file and random bytes; stdout and "
        "exit status are compared with the library result (load_bytes + disassemble, or the error's Display) "
        "computed in-process by the harness; non-trivial = file with a valid header"
    )
    p = regen.prepare(release=False)
    broken = list(p.broken)
    ok, info = pipeline.proof_stage(rep, PROP, broken)
    bad = []
    dis, derr = core.build_dis()
    if dis is None:
        ok, info = False, {"lemma": "cargo build -p rspirv-dis", "error": derr[-2000:]}
    if p.exe and dis:
        g = sg.Grammar()
        rng = random.Random(rep.seed)
        items = list(corpus(g, rng, rep.tier))
        lines = ["libdis " + (d.hex() or "-") for _, d in items]
        files, err = streams.serve_both("c20", lines, p.exe, None)
        if files is None:
            ok, info = False, {"lemma": "harness run", "error": err}
        else:
            lib = streams.read_lines(files[1])
            tmpdir = os.path.join(CACHE, "c20files")
            os.makedirs(tmpdir, exist_ok=True)
            nt = set()
            kinds = {}
            for k, ((desc, data), lres) in enumerate(zip(items, lib)):
                path = os.path.join(tmpdir, "in%d.spv" % (k % 64))
                with open(path, "wb") as f:
                    f.write(data)
                try:
                    pr = subprocess.run([dis, path], stdout=subprocess.PIPE, stderr=subprocess.PIPE, timeout=60)
                    out, rc, errtxt = pr.stdout, pr.returncode, pr.stderr.decode(errors="replace")
                except subprocess.TimeoutExpired:
                    out, rc, errtxt = b"", -1, "timeout"
                what = None
                if lres.startswith("PANIC"):
                    what = "the library panics on this file (%s)" % lres
                    kind = "panic"
                else:
                    tag, _, hx = lres.partition(":")
                    hx = hx.split(" ")[0]
                    want = (bytes.fromhex(hx) if hx != "-" else b"") + b"\n"
                    kind = tag
                    if " asm=PANIC" in lres:
                        what = "assembling the loaded module panics"
                    elif rc != 0:
                        what = "rspirv-dis exits with status %d (%s)" % (rc, errtxt.strip().splitlines()[0][:160] if errtxt.strip() else "")
                    elif out != want:
                        what = "rspirv-dis prints %r..., the library gives %r..." % (out[:80], want[:80])
                if rc == 101 and what is None:
                    what = "rspirv-dis panicked"
                kinds[kind] = kinds.get(kind, 0) + 1
                if len(data) >= 20:
                    nt.add(data[:64])
                if what:
                    bad.append({"file_hex": data.hex(), "case": desc, "what": what, "stderr": errtxt[:400]})
            rep.cov["evaluations"] = len(items)
            rep.cov["distinct_nontrivial"] = len(nt)
            rep.cov["result_kinds"] = kinds
            rep.cov["samples"] = [{"case": items[i][0], "bytes": items[i][1][:40].hex(), "library": lib[i][:80]} for i in (0, len(items) // 2, len(items) - 5)]
            bad.sort(key=lambda b: len(b["file_hex"]))
    pipeline.conclude(rep, ok, info, bad, lambda b: "%s (%d bytes): %s" % (b["case"], len(b["file_hex"]) // 2, b["what"]), limit=3)


def replay(rep, path):
    print(open(path).read())
    run(rep)
    return rep.finish()
