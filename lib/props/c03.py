"""C03 - the parser accepts exactly the grammar and reports the first malformed instruction."""
import json
import os
import random
import core
import corr
import pipeline
import regen
import refparse
import spirvgen as sg
import streams
from core import CACHE

PROP = "C03"


def base_modules(g, rng, count):
    """small well-formed streams (lists of instruction texts) covering varied operand kinds"""
    gen = sg.Gen(g, rng)
    names_fixed = [
        ["Capability", "MemoryModel", "EntryPoint", "ExecutionMode", "Source", "Name", "Decorate"],
        ["TypeInt", "TypeFloat", "Constant", "SpecConstantOp", "TypeFunction", "Function", "Label", "Load", "Store", "Return", "FunctionEnd"],
        ["ExtInstImport", "ExtInst", "ImageSampleImplicitLod", "LoopMerge", "BranchConditional", "MemberDecorate", "String", "Line"],
    ]
    by = {e["name"]: e for e in g.core}
    mods = []
    for names in names_fixed:
        for mode in ("min", "all", "many"):
            mods.append([gen.instruction(by[n], {"width": 32}, mode) for n in names])
    # 64-bit literal context + switch
    mods.append(["15/-/7/L40,L1", "2b/7/8/Q123456789abcdef0", "1/7/9/-", "fb/-/-/R9,R20,Q1,R21,Qffffffffffffffff,R22"])
    mods.append(["15/-/7/L80,L0", "2b/7/8/L1"])  # unsupported width (rejected)
    # unsupported float / int widths at different instruction numbers and offsets, for constants,
    # spec constants and switch selectors (TypeUnsupported carries offset AND instruction number)
    mods.append(["11/-/-/E%d.1" % g.kidx["Capability"], "16/-/7/L18", "13/-/5/-", "2b/7/8/L1"])
    mods.append(["16/-/7/L8", "32/7/8/L1"])
    mods.append(["13/-/5/-", "13/-/6/-", "16/-/7/L80", "1/7/9/-", "fb/-/-/R9,R20,L1,R21"])
    mods.append(["15/-/7/L18,L1", "13/-/5/-", "2b/7/8/L1"])
    # every enumerant / mask bit that takes parameters, alone in a module (fault enumeration then
    # drops / duplicates each parameter word)
    dec, em = by["Decorate"], by["ExecutionMode"]
    for ty, e, idx in (("Decoration", dec, 1), ("ExecutionMode", em, 1)):
        for v in g.enum_values(ty):
            if g.params_of(ty, v):
                mods.append([gen.instruction(e, {}, "min", force={idx: v})])
    for k in g.flags:
        if k not in g.args:
            continue
        carrier = next(((e, i) for e in g.core for i, (kk, _) in enumerate(e["operands"]) if kk == k), None)
        if carrier:
            for b in g.flag_bits(k):
                if g.params_of(k, b):
                    mods.append([gen.instruction(carrier[0], {}, "min", force={carrier[1]: b})])
            mods.append([gen.instruction(carrier[0], {}, "min", force={carrier[1]: g.flag_all(k)})])
    count = max(count, len(mods))
    while len(mods) < count:
        k = rng.randrange(2, 7)
        es = [rng.choice(g.core) for _ in range(k)]
        mods.append([gen.instruction(e, {"width": 32}, "rand") for e in es if e["name"] != "Switch"])
    return mods


def faults(g, rng, insts, tier):
    """yields (description, bytes) for every way of breaking the stream"""
    enc = [sg.spec_encode(t) for t in insts]
    hdr = sg.header_words()
    words = hdr + [w for e in enc for w in e]
    data = b"".join(w.to_bytes(4, "little") for w in words)
    yield "intact", data
    step = 1 if tier == "thorough" else 1
    for cut in range(0, len(data), step):
        yield "truncate@%d" % cut, data[:cut]
    pos = 5
    for k, e in enumerate(enc):
        wc = len(e)
        for nwc in list(range(0, wc + 4)) + [0xFFFF]:
            if nwc == wc:
                continue
            w2 = list(words)
            w2[pos] = (nwc << 16) | (e[0] & 0xFFFF)
            yield "wordcount inst%d -> %d" % (k + 1, nwc), b"".join(w.to_bytes(4, "little") for w in w2)
        for opc in (0, 9, 0xFFFF, 400, 5000):
            w2 = list(words)
            w2[pos] = (wc << 16) | opc
            yield "opcode inst%d -> %d" % (k + 1, opc), b"".join(w.to_bytes(4, "little") for w in w2)
        for j in range(1, wc):
            # operand word replaced
            for v in (0, 0xFFFFFFFF, 0x7FFFFFFF, e[j] + 1, e[j] ^ 0x80000000, 0x00FFFFFF & e[j], e[j] | 0xFF000000):
                if v == e[j] or v < 0 or v > 0xFFFFFFFF:
                    continue
                w2 = list(words)
                w2[pos + j] = v
                yield "word inst%d[%d] -> %x" % (k + 1, j, v), b"".join(w.to_bytes(4, "little") for w in w2)
            # operand dropped / duplicated with the word count adjusted
            w2 = words[:pos + j] + words[pos + j + 1:]
            w2[pos] = ((wc - 1) << 16) | (e[0] & 0xFFFF)
            yield "drop inst%d[%d]" % (k + 1, j), b"".join(w.to_bytes(4, "little") for w in w2)
            w2 = words[:pos + j] + [words[pos + j]] + words[pos + j:]
            w2[pos] = ((wc + 1) << 16) | (e[0] & 0xFFFF)
            yield "dup inst%d[%d]" % (k + 1, j), b"".join(w.to_bytes(4, "little") for w in w2)
        pos += wc
    for m in (0, 0x03022307, 0x07230204, 0xFFFFFFFF):
        w2 = list(words)
        w2[0] = m
        yield "magic %x" % m, b"".join(w.to_bytes(4, "little") for w in w2)
    for v in (0, 0x00010000, 0x00010600, 0xFF0106FF, 0xFFFFFFFF):
        w2 = list(words)
        w2[1] = v
        w2[2] = v ^ 0x1234
        w2[4] = v
        yield "header words %x" % v, b"".join(w.to_bytes(4, "little") for w in w2)


def check_case(rp, data, got):
    """C03 on one stream: implementation result line vs the reference parser"""
    if got == "PANIC":
        return "parsing panicked"
    f = dict(x.split("=", 1) for x in got.split(" "))
    ref = rp.parse_stream(data)
    R = f["R"]
    if ref["accepted"] != (R == "OK"):
        return "stream %s by the grammar but the parser answered %s" % ("accepted" if ref["accepted"] else "rejected (%s)" % ref["fault"], R)
    want_i = ";".join(ref["insts"]) if ref["insts"] else "-"
    if f["I"] != want_i:
        return "delivered instructions differ: got %s, the well-formed prefix is %s" % (f["I"][:300], want_i[:300])
    if ref["header"] is not None and f["H"] != ref["header"]:
        return "delivered header %s, expected %s" % (f["H"], ref["header"])
    if ref["header"] is None and f["H"] != "-":
        return "header delivered for a stream without a valid header"
    want_t = "i" + ("h" if ref["header"] else "") + "n" * len(ref["insts"]) + ("f" if ref["accepted"] else "")
    if f["T"] != want_t:
        return "callback trace %s, expected %s" % (f["T"], want_t)
    if not ref["accepted"]:
        fl = ref["fault"]
        cls = refparse.state_class(R)
        if cls != fl["cls"]:
            return "error %s names fault class `%s`, the first malformed instruction has fault `%s` (%s)" % (R, cls, fl["cls"], fl.get("detail", ""))
        off, idx = refparse.state_offset_index(R)
        if idx is not None and idx != fl["index"]:
            return "error %s carries instruction number %d, the first malformed instruction is number %d" % (R, idx, fl["index"])
        if off is not None and "start" in fl and not (fl["start"] <= off <= fl["extent"]):
            return "error %s carries offset %d outside the malformed instruction's extent [%d,%d]" % (R, off, fl["start"], fl["extent"])
    return None


def run(rep):
    rep.cov["rule"] = (
        "fault enumeration over base modules built from the reference grammar: truncation at every byte, every word "
        "count 0..wc+3 and 0xffff, opcode replaced by 0/unknown numbers, every operand word replaced by 7 values "
        "(0, max, +1, high bit, ...), every operand dropped / duplicated with adjusted count, 4 magic numbers, header "
        "words; implementation vs extracted model vs an independent reference parser of the grammar; "
        "non-trivial = stream with a valid header"
    )
    p = regen.prepare(release=False)
    broken = list(p.broken)
    fails = p.failures(["rspirv/binary/", "rspirv/grammar/"])
    if fails:
        broken.insert(0, {"lemma": "rs2coq recogniser (T-src)", "error": "\n".join(fails[:20])})
    ok, info = pipeline.proof_stage(rep, PROP, broken)
    bad = []
    if p.exe:
        mexe, merr = corr.build_modelrun()
        g = sg.Grammar()
        rng = random.Random(rep.seed)
        rp = refparse.RefParser(g)
        lines, datas, descs = [], [], []
        nmods = 150 if rep.tier == "thorough" else 40
        for insts in base_modules(g, rng, nmods):
            for desc, data in faults(g, rng, insts, rep.tier):
                lines.append("parse - " + (data.hex() or "-"))
                datas.append(data)
                descs.append((insts, desc))
                if len(data) % 4 == 0 and (desc == "intact" or desc.startswith("truncate") or rng.random() < 0.1):
                    lines.append("parsew - " + (data.hex() or "-"))
                    datas.append(data)
                    descs.append((insts, desc + " (parse_words)"))
        for n in range(0, 20):
            lines.append("parse - " + (bytes(rng.randrange(256) for _ in range(n)).hex() or "-"))
            datas.append(bytes.fromhex(lines[-1].split()[2]) if lines[-1].split()[2] != "-" else b"")
            descs.append(([], "random %d bytes" % n))
        files, err = streams.serve_both("c03", lines, p.exe, mexe)
        if files is None:
            ok, info = False, {"lemma": "correspondence run", "error": err}
        else:
            cases, impl, model = files
            n, nt, mism, samples = corr.diff(cases, impl, model, trivial=lambda c, i: " H=- " in i)
            rep.cov["evaluations"] = n
            rep.cov["distinct_nontrivial"] = nt
            rep.cov["samples"] = samples
            if mexe is None and ok:
                ok, info = False, {"lemma": "modelrun build", "error": merr}
            if mism and ok:
                ok = False
                info = {"lemma": "correspondence stream c03 (implementation vs extracted model)", "error": json.dumps(mism[0])[:1500]}
            il = streams.read_lines(impl)
            kinds = {}
            for data, (insts, desc), got in zip(datas, descs, il):
                st = got.split(" ")[0].split(":")[0]
                kinds[st] = kinds.get(st, 0) + 1
                w = check_case(rp, data, got)
                if w:
                    bad.append({"stream": data.hex(), "base": insts, "fault": desc, "observed": got[:600], "what": w})
            rep.cov["result_kinds"] = kinds
            bad.sort(key=lambda b: len(b["stream"]))
    pipeline.conclude(rep, ok, info, bad, lambda b: "%s: %s" % (b["fault"], b["what"]), limit=3)


def replay(rep, path):
    print(open(path).read())
    run(rep)
    return rep.finish()
