"""C17 - operand reflection agrees with the parser and the grammar."""
import json
import core
import pipeline
import regen
import spirvgen as sg

PROP = "C17"

KIND_OF = {"LiteralBit32": "LiteralInteger"}
# LiteralInteger and LiteralFloat are both one 32-bit literal word (the parser delivers LiteralBit32 for either)
NORM = {"LiteralFloat": "LiteralInteger"}


def run(rep):
    rep.cov["rule"] = (
        "Coq (T-src, for EVERY value): id_ref_any(_mut), required_capabilities, required_extensions and additional_operands are "
        "translated from dr/autogen_operand.rs (exact group / arm templates) and proved: parameters of a mask value = union over "
        "its set declared bits = multiset the parser consumes, enumerant parameters = the parser's sequence, requirements = union "
        "over the set bits / the row of the reference, ids only for the three id kinds, one-word rewrite. "
        "Coq (T-dump): for every enumerant of every value enum and every single bit of every mask, the kinds reported by the "
        "compiled additional_operands equal the parser's argument rows translated from the source, which equal the "
        "reference. Dynamic (exhaustive): every combination of declared bits of the four parameterised masks "
        "(2^16 + 2^19 + 2^8 + 2^2) - reported kinds as a multiset vs the per-bit parameters; capabilities / extensions "
        "of every enumerant, bit, pair of bits and full mask vs the reference and the union rule; id_ref_any(_mut), "
        "one-word rewrite, From/unwrap on all 64 variants; non-trivial = value with parameters or requirements"
    )
    p = regen.prepare(release=False)
    broken = list(p.broken)
    of = list(getattr(p, "opreflect_failures", [])) + [f for f in p.facts.get("failures", []) if "opreflect" in f]
    if of:
        broken.insert(0, {"lemma": "rs2coq recogniser (T-src reflection functions of dr/autogen_operand.rs)", "error": "\n".join(of[:20])})
    ok, info = pipeline.proof_stage(rep, PROP, broken)
    bad = []
    d = getattr(p, "dump_operand", None)
    if d:
        g = sg.Grammar()
        ref = regen.load_ref("operand_reflect.json")
        n = 0
        nt = 0
        for e in d["enums"]:
            ty = e["type"]
            for r in e["rows"]:
                n += 1
                if not isinstance(r["r"], dict):
                    bad.append({"operand": "%s::%s" % (ty, r["name"]), "what": "reflection on %s::%s %s" % (ty, r["name"], "panics" if r["r"] == "PANIC" else "value not constructible")})
                    continue
                want = [KIND_OF.get(v, v) for v, _ in g.params_of(ty, r["value"])]
                got = [NORM.get(a[0], a[0]) for a in r["r"]["add"]]
                if got or r["r"]["caps"] or r["r"]["exts"]:
                    nt += 1
                if got != want:
                    bad.append({"operand": "%s::%s" % (ty, r["name"]), "what": "additional_operands(%s::%s) = %s, the parser consumes %s" % (ty, r["name"], got, want)})
                elif any(a[1] != "One" for a in r["r"]["add"]):
                    bad.append({"operand": "%s::%s" % (ty, r["name"]), "known": "variadic_parameter",
                                "what": "additional_operands(%s::%s) reports a %s parameter (as the Khronos grammar lists it), the parser consumes exactly one word" % (ty, r["name"], [a[1] for a in r["r"]["add"]])})
                rr = ref["enums"].get(ty, {}).get(r["name"])
                if rr is None or rr["caps"] != r["r"]["caps"] or rr["exts"] != r["r"]["exts"]:
                    bad.append({"operand": "%s::%s" % (ty, r["name"]), "what": "required capabilities/extensions of %s::%s = %s / %s, the grammar lists %s" % (ty, r["name"], r["r"]["caps"], r["r"]["exts"], rr)})
        for m in d["masks"]:
            ty = m["type"]
            perbit = {}
            for r in m["rows"]:
                n += 1
                want = sorted(KIND_OF.get(v, v) for v, _ in g.params_of(ty, r["value"]))
                got = sorted(a[0] for a in r["r"]["add"])
                if got != want:
                    bad.append({"operand": "%s::%s" % (ty, r["name"]), "what": "additional_operands(%s::%s) = %s, the parser consumes %s" % (ty, r["name"], got, want)})
                rr = ref["masks"].get(ty, {}).get(r["name"])
                if rr is None or sorted(set(rr["caps"])) != sorted(set(r["r"]["caps"])) or sorted(set(rr["exts"])) != sorted(set(r["r"]["exts"])):
                    bad.append({"operand": "%s::%s" % (ty, r["name"]), "what": "required capabilities/extensions of %s::%s = %s / %s, the grammar lists %s" % (ty, r["name"], r["r"]["caps"], r["r"]["exts"], rr)})
                if r["value"] and (r["value"] & (r["value"] - 1)) == 0:
                    perbit[r["value"]] = (set(r["r"]["caps"]), set(r["r"]["exts"]))
            for line in m["combos"].get("answers", []):
                vh, _, code = line.partition(":")
                v = int(vh, 16)
                n += 1
                want = sorted(KIND_OF.get(x, x) for x, _ in g.params_of(ty, v))
                got = code.split(",") if code else []
                if got:
                    nt += 1
                if got != want:
                    bad.append({"operand": "%s(%#x)" % (ty, v), "what": "additional_operands(%s %#x) reports %s, the parser consumes the multiset %s" % (ty, v, got, want)})
                    if len(bad) > 50:
                        break
            for s in m["sets"]:
                n += 1
                v = s["value"]
                wc, we = set(), set()
                for b, (c, e) in perbit.items():
                    if v & b:
                        wc |= c
                        we |= e
                if set(s["r"]["caps"]) != wc or set(s["r"]["exts"]) != we:
                    bad.append({"operand": "%s(%#x)" % (ty, v), "what": "required capabilities/extensions of %s %#x = %s / %s, the union over its set bits is %s / %s" % (ty, v, sorted(set(s["r"]["caps"])), sorted(set(s["r"]["exts"])), sorted(wc), sorted(we))})
        for t in d["idtests"]:
            n += 1
            o = t["operand"]
            is_id = o[0] in "RCM"
            if (t["id_ref_any"] is not None) != is_id or (is_id and t["id_ref_any"] != int(o[1:], 16)):
                bad.append({"operand": o, "what": "id_ref_any(%s) = %s" % (o, t["id_ref_any"])})
            elif t["mut_some"] != is_id:
                bad.append({"operand": o, "what": "id_ref_any_mut(%s) is %s although id_ref_any reports %s" % (o, "Some" if t["mut_some"] else "None", "an id" if is_id else "no id")})
            elif is_id and (t["after"] != o[0] + "5555" or t["words_changed"] != [2] or not t["len_same"]):
                bad.append({"operand": o, "what": "rewriting the id of %s gives %s and changes words %s of the assembled instruction (expected exactly the operand's word)" % (o, t["after"], t["words_changed"])})
            elif not is_id and t["words_changed"]:
                bad.append({"operand": o, "what": "operand without id changed by id_ref_any_mut"})
        for c in d["convert"]:
            n += 1
            if c["ok"] != [True, True]:
                bad.append({"operand": c["variant"], "what": "From<T> for Operand followed by unwrap_* does not return the payload for variant %s (%s)" % (c["variant"], c["ok"])})
        opr = p.facts.get("opreflect") or {}
        rep.cov["translated_reflection"] = {
            fn: {"kinds": len((opr.get(fn) or {}).get("kinds", [])),
                 "groups_and_arms": sum(len(k.get("groups", k.get("arms", []))) for k in (opr.get(fn) or {}).get("kinds", []))}
            for fn in ("required_capabilities", "required_extensions", "additional_operands")}
        rep.cov["evaluations"] = n
        rep.cov["distinct_nontrivial"] = nt
        rep.cov["exhaustive"] = True
        rep.cov["samples"] = [d["enums"][4]["rows"][5], d["masks"][0]["combos"]["answers"][777], d["idtests"][0]]
    known = [e for e in core.load_known().get("open", []) if e["property"] == PROP]
    rest = []
    for b in bad:
        hit = [e for e in known if b["operand"] in e.get("class", {}).get("operands", [])]
        if hit:
            rep.known("%s %s" % (hit[0]["id"], hit[0]["what"][:170]))
        else:
            rest.append(b)
    pipeline.conclude(rep, ok, info, rest, lambda b: b["what"], limit=4)


def replay(rep, path):
    print(open(path).read())
    run(rep)
    return rep.finish()
