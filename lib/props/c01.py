"""C01 - load then assemble reproduces every instruction of the input binary."""
import json
import random
import core
import corr
import pipeline
import regen
import layout
import modgen
import refparse
import spirvgen as sg
import streams

PROP = "C01"


def encode_stream(insts, rng=None, garbage_pad=False, bound=1000, version=0x00010300, generator=0x00080001, reserved=0):
    words = sg.header_words(bound=bound, version=version, generator=generator, reserved=reserved)
    for t in insts:
        ws = sg.spec_encode(t)
        if garbage_pad and rng is not None:
            # bytes after a string's NUL inside its last word may be anything
            toks = t.split("/")[3].split(",") if t.split("/")[3] != "-" else []
            pos = 1 + (t.split("/")[1] != "-") + (t.split("/")[2] != "-")
            for tok in toks:
                n = len(sg.operand_words(tok))
                if tok[0] == "S":
                    s = bytes.fromhex(tok[1:]) if tok[1:] != "-" else b""
                    last = pos + n - 1
                    k = len(s) % 4
                    b = bytearray(ws[last].to_bytes(4, "little"))
                    for j in range(k + 1, 4):
                        b[j] = rng.randrange(1, 256)
                    ws[last] = int.from_bytes(b, "little")
                pos += n
        words += ws
    return words


def variants(mg, rng, tier):
    """yields (description, insts, garbage_pad)"""
    n = 250 if tier == "thorough" else 60
    for k in range(n):
        size = rng.choice([1, 1, 2, 3])
        wide = rng.random() < 0.4
        m = mg.module(size, wide)
        yield "layout order", m, False
        if k % 3 == 0:
            yield "layout order, garbage string padding", m, True
        # move module-level instructions around (they are legal anywhere for the loader)
        m2 = list(m)
        for _ in range(rng.randrange(1, 6)):
            if len(m2) > 2:
                i = rng.randrange(len(m2))
                t = m2[i]
                opc = int(t.split("/")[0], 16)
                if mg_lay.token(opc)[0] == "module" and not (wide and opc in (0x15, 0x16)):
                    m2.pop(i)
                    m2.insert(rng.randrange(len(m2) + 1), t)
        yield "module-level instructions displaced", m2, False
        # a second function's instructions interleaved as whole functions in another order
        yield "reversed global section order", list(reversed([t for t in m if mg_lay.token(int(t.split('/')[0], 16))[0] == "module" and not (wide and int(t.split('/')[0], 16) in (0x15, 0x16))])) + [t for t in m if not (mg_lay.token(int(t.split('/')[0], 16))[0] == "module" and not (wide and int(t.split('/')[0], 16) in (0x15, 0x16)))], False


mg_lay = None


def single_instruction_modules(g, rng, lay, tier):
    """every opcode and every enumerant / mask bit (the C02 corpus), each inside the smallest
    module the layout allows for it"""
    from props import c02
    seen = set()
    for decls, inst, family in c02.gen_cases(g, rng, "quick"):
        if family == "maxwords" or (family in ("rand", "many") and tier != "thorough"):
            continue
        opc = int(inst.split("/")[0], 16)
        tok = lay.token(opc)[0]
        if tok in ("function", "function_end", "parameter", "label"):
            continue
        if tok == "module" or tok == "line" or tok == "varundef":
            yield "single %s instruction at module level" % family, decls + [inst], False
        if tok == "terminator":
            yield "single terminator", decls + ["36/1/2/E4.0,R3", "f8/-/4/-", inst, "38/-/-/-"], False
        elif tok != "module":
            yield "single %s instruction in a block" % family, decls + ["36/1/2/E4.0,R3", "f8/-/4/-", inst, "fd/-/-/-", "38/-/-/-"], False


def tracker_unstable(rp, flat, hdr_words):
    """known class F14: the context-dependent literal widths differ between the input order and the
    layout order - i.e. re-parsing the instructions in layout order does not give them back"""
    words = list(hdr_words) + [w for t in flat for w in sg.spec_encode(t)]
    ref = rp.parse_stream(b"".join(w.to_bytes(4, "little") for w in words))
    return (not ref["accepted"]) or ref["insts"] != flat


def late_type_modules(rng, tier):
    """F14 family: a 64-bit (or unsupported-width) type declared AFTER an instruction whose result
    type it is, with a later literal depending on that value (ill-formed, but the loader accepts it)"""
    n = 12 if tier == "thorough" else 4
    for k in range(n):
        w = rng.choice([0x40, 0x40, 0x80, 0x18])
        ty = rng.choice(["15/-/2/L%x,L0" % w, "16/-/2/L%x" % (w if w != 0x18 else 0x40)])
        sel = rng.choice(["1/2/5/-", "37/2/5/-"]) if k % 2 else "1/2/5/-"
        f1 = ["36/1/a/E4.0,R3"] + ([sel, "f8/-/b/-"] if sel.startswith("37") else ["f8/-/b/-", sel]) + ["fd/-/-/-", "38/-/-/-"]
        lit = "L%x" % rng.randrange(1 << 32)
        f2 = ["36/1/c/E4.0,R3", "f8/-/d/-", "fb/-/-/R5,Rd,%s,Rd" % lit, "38/-/-/-"]
        yield "type declared after the value it types (F14 family)", f1 + [ty] + f2, False
        # constant before its type, type arrives later in the same section: order is kept, stable
        yield "constant before its type in the same section", ["2b/2/9/%s" % lit, ty], False


def run(rep):
    global mg_lay
    rep.cov["rule"] = (
        "generated modules (every section, functions with parameters, blocks, 32- and 64-bit literals, all "
        "block-level opcodes) in layout order, with garbage bytes after string terminators, with module-level "
        "instructions displaced and with the global sections reversed; load_bytes/load_words -> fields of dr::Module, "
        "assemble(), reload; implementation vs extracted model vs layout sort of the reference parse; "
        "non-trivial = module with at least one function"
    )
    p = regen.prepare(release=False)
    broken = list(p.broken)
    lf = getattr(p, "loader_failures", [])
    if lf:
        broken.insert(0, {"lemma": "rs2coq recogniser (T-src loader arms)", "error": "\n".join(lf[:20])})
    ok, info = pipeline.proof_stage(rep, PROP, broken)
    bad = []
    known_f14 = []
    if p.exe:
        mexe, merr = corr.build_modelrun()
        g = sg.Grammar()
        rng = random.Random(rep.seed)
        lay = layout.Layout(g)
        mg_lay = lay
        rp = refparse.RefParser(g)
        mg = modgen.ModGen(g, rng)
        lines, meta = [], []
        import itertools
        for desc, insts, gp in itertools.chain(late_type_modules(rng, rep.tier), variants(mg, rng, rep.tier), single_instruction_modules(g, rng, lay, rep.tier)):
            bound = rng.choice([0, 1, 1000, 0xFFFFFFFF])
            version = rng.choice([0x00010000, 0x00010600, 0xAB0103CD])
            words = encode_stream(insts, rng, gp, bound=bound, version=version)
            data = b"".join(w.to_bytes(4, "little") for w in words)
            lines.append("load " + data.hex())
            meta.append((desc, insts, data, bound, version))
        files, err = streams.serve_both("c01", lines, p.exe, mexe)
        if files is None:
            ok, info = False, {"lemma": "correspondence run", "error": err}
        else:
            cases, impl, model = files
            n, nt, mism, samples = corr.diff(cases, impl, model, trivial=lambda c, i: "F{" not in i)
            rep.cov["evaluations"] = n
            rep.cov["distinct_nontrivial"] = nt
            rep.cov["samples"] = [{k: v[:400] for k, v in s.items()} for s in samples]
            if mexe is None and ok:
                ok, info = False, {"lemma": "modelrun build", "error": merr}
            if mism and ok:
                ok = False
                info = {"lemma": "correspondence stream c01 (implementation vs extracted model)", "error": json.dumps(mism[0])[:1500]}
            for (desc, insts, data, bound, version), got in zip(meta, streams.read_lines(impl)):
                ref = rp.parse_stream(data)
                if not ref["accepted"]:
                    continue
                r = lay.load(ref["insts"])
                if r[0] != "OK":
                    if not got.startswith("E:LERR:" + r[1]):
                        bad.append({"module": insts, "what": "%s: loader answers %s, the layout rules give error %s" % (desc, got[:100], r[1]), "stream": data.hex()})
                    continue
                if not got.startswith("OK "):
                    bad.append({"module": insts, "what": "%s: a well-bracketed module is rejected: %s" % (desc, got[:200]), "stream": data.hex()})
                    continue
                hdr = ref["header"]
                want_mod = lay.module_text(r[1], hdr)
                body, _, tail = got[3:].partition(" A=")
                awords, _, tail2 = tail.partition(" R=")
                reload_, _, lw = tail2.partition(" LW=")
                flat = lay.flatten(r[1])
                want_words = [sg.MAGIC, version & 0x00FFFF00, 0x000F0000, bound, 0] + [w for t in flat for w in sg.spec_encode(t)]
                want_a = ",".join("%x" % w for w in want_words)
                if body != want_mod:
                    bad.append({"module": insts, "what": "%s: loaded module differs from the layout sort of the input" % desc, "observed": body[:800], "expected": want_mod[:800], "stream": data.hex()})
                elif awords != want_a:
                    bad.append({"module": insts, "what": "%s: assemble(load(B)) is not header' + the input's instructions in layout order" % desc, "observed": awords[:600], "expected": want_a[:600], "stream": data.hex()})
                elif desc.startswith("layout order") and flat != ref["insts"]:
                    bad.append({"module": insts, "what": "input already in layout order is reordered", "stream": data.hex()})
                elif reload_ != "true" and tracker_unstable(rp, flat, want_words[:5]):
                    known_f14.append({"stream": data.hex(), "reload": reload_})
                elif reload_ != "true":
                    bad.append({"module": insts, "what": "%s: loading the assembled output again gives a different module (%s)" % (desc, reload_), "stream": data.hex()})
                elif lw not in ("true", "n/a"):
                    bad.append({"module": insts, "what": "%s: load_words disagrees with load_bytes (%s)" % (desc, lw), "stream": data.hex()})
            bad.sort(key=lambda b: len(b["stream"]))
            if known_f14:
                ents = [e for e in core.load_known().get("open", []) if e["property"] == PROP and e.get("class", {}).get("tracker_unstable")]
                if ents:
                    rep.known("%s %s (%d input(s) of the class in this run, e.g. %s)" % (ents[0]["id"], ents[0]["what"][:160], len(known_f14), known_f14[0]["stream"][:80]))
                else:
                    for kf in known_f14[:2]:
                        bad.append({"module": [], "what": "loading the assembled output again gives a different module (%s): literal widths depend on the order of declarations" % kf["reload"], "stream": kf["stream"]})
    pipeline.conclude(rep, ok, info, bad, lambda b: b["what"], limit=3)


def replay(rep, path):
    print(open(path).read())
    run(rep)
    return rep.finish()
