"""C12 - Builder calls never panic, failed calls change nothing, structure is enforced."""
import itertools
import json
import random
import core
import corr
import pipeline
import regen
import layout
import bldgen
import bldspec
import spirvgen as sg
import streams

PROP = "C12"

ALPHABET = [
    "begin_function 1 _ 0 3", "end_function", "function_parameter 2", "begin_block _", "begin_block_no_label _",
    "nop", "insert_nop begin", "ret", "insert_kill fb0", "capability 1", "variable 2 _ 7 _", "type_void",
    "select_function _", "select_function 0", "select_function 1", "select_block _", "select_block 0", "select_block 1",
    "pop_instruction", "line 1 2 3", "undef 2 _", "find_return_block_indices",
]


def histories(bg, rng, tier):
    L = 4 if tier == "thorough" else 3
    for n in range(1, L + 1):
        for combo in itertools.product(ALPHABET, repeat=n):
            yield list(combo)
    # longer ones built around a skeleton so that deep states are reached
    for _ in range(60000 if tier == "thorough" else 6000):
        n = rng.randrange(4, 40)
        w = ALPHABET if rng.random() < 0.5 else ALPHABET[:12] + ["begin_function 1 _ 0 3", "begin_block _", "ret", "end_function"] * 2
        yield [rng.choice(w) for _ in range(n)]
    # the read-only / derived methods: find_return_block_indices in every structural state,
    # select_function_by_name with present / absent / non-function names
    nm = lambda t: "S" + t.encode().hex()
    for _ in range(3000 if tier == "thorough" else 400):
        h = []
        nfn = rng.randrange(1, 4)
        ids = []
        nxt = 1
        for f in range(nfn):
            h.append("begin_function 1 _ 0 3")
            ids.append(nxt)
            nxt += 1
            for b in range(rng.randrange(0, 4)):
                h.append("begin_block _")
                nxt += 1
                if rng.random() < 0.4:
                    h.append("find_return_block_indices")
                for _i in range(rng.randrange(0, 3)):
                    h.append("nop")
                if rng.random() < 0.85:
                    h.append(rng.choice(["ret", "ret_value 9", "kill", "branch 7", "unreachable"]))
                if rng.random() < 0.4:
                    h.append("find_return_block_indices")
            if rng.random() < 0.8:
                h.append("end_function")
            h.append("find_return_block_indices")
        names = ["main", "f", "g", "main"]
        for k in range(rng.randrange(0, 4)):
            h.append("name %x %s" % (rng.choice(ids + [77, 2]), nm(rng.choice(names))))
        for k in range(rng.randrange(1, 4)):
            h.append("select_function_by_name " + nm(rng.choice(names + ["nope"])))
            h.append("find_return_block_indices")
            if rng.random() < 0.5:
                h.append("select_block %d" % rng.randrange(0, 3))
        yield h
    # every generated block / terminator method once, with and without a selected block
    for name in bg.emitting_methods():
        sk = bg.sink_of(name)
        if sk in ("block", "end_block"):
            for pt in (("end", "begin", "fb0", "fe0") if name.startswith("insert_") else ("end",)):
                c = bg.call(name, point=pt)
                if c:
                    yield [c]
                    yield ["begin_function 1 _ 0 3", "begin_block _", c, "nop", "end_function"]
                    yield ["begin_function 1 _ 0 3", "begin_block _", "nop", c, "begin_block _"]


def run(rep):
    rep.cov["rule"] = (
        "all call histories up to length 3 (quick) / 4 (thorough) over a 21-call alphabet (begin/end function, "
        "parameter, begin block (no label), block instruction, insertions, terminators, module-level, variable/undef, "
        "type request, select_function/select_block with valid and invalid indices, pop_instruction, line, find_return_block_indices), histories around select_function_by_name / find_return_block_indices, random "
        "histories of length 4-40, and every generated block/terminator method with every insert point; result, "
        "selection and 'module unchanged on error' after every call, each call under catch_unwind; implementation "
        "vs extracted model vs the structure rules; non-trivial = history with at least one successful structural call"
    )
    p = regen.prepare(release=False)
    broken = list(p.broken)
    bf = getattr(p, "builder_failures", [])
    if bf:
        broken.insert(0, {"lemma": "rs2coq builder descriptor recogniser (T-src)", "error": "\n".join(bf[:20])})
    ok, info = pipeline.proof_stage(rep, PROP, broken)
    bad = []
    if p.exe:
        mexe, merr = corr.build_modelrun()
        g = sg.Grammar()
        rng = random.Random(rep.seed)
        lay = layout.Layout(g)
        bg = bldgen.BuilderGen(g, p.facts, rng)
        bg.lay = lay
        hs = list(histories(bg, rng, rep.tier))
        lines = ["bld " + " | ".join(h) for h in hs]
        files, err = streams.serve_both("c12", lines, p.exe, mexe)
        if files is None:
            ok, info = False, {"lemma": "correspondence run", "error": err}
        else:
            cases, impl, model = files
            n, nt, mism, samples = corr.diff(cases, impl, model, trivial=lambda c, i: "ok" not in i)
            rep.cov["evaluations"] = n
            rep.cov["distinct_nontrivial"] = nt
            rep.cov["samples"] = [{k: v[:300] for k, v in s.items()} for s in samples]
            if mexe is None and ok:
                ok, info = False, {"lemma": "modelrun build", "error": merr}
            if mism and ok:
                ok = False
                info = {"lemma": "correspondence stream c12 (implementation vs extracted builder model)", "error": json.dumps(mism[0])[:1500]}
            for h, got in zip(hs, streams.read_lines(impl)):
                w = bldspec.check_history(bg, lay, h, got)
                if w:
                    bad.append({"history": h, "observed": got[:500], "what": w})
            bad.sort(key=lambda b: len(" ".join(b["history"])))
    pipeline.conclude(rep, ok, info, bad, lambda b: "history [%s]: %s" % (" | ".join(b["history"])[:200], b["what"]), limit=3)


def replay(rep, path):
    print(open(path).read())
    run(rep)
    return rep.finish()
