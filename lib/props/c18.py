"""C18 - lifting preserves module structure on the supported subset."""
import json
import random
import re
import struct
import core
import pipeline
import regen
import spirvgen as sg
import streams
import corr
import liftcanon

PROP = "C18"

NUM = re.compile(r"(?<![A-Za-z_0-9])-?\d+(?:\.\d+)?(?:e-?\d+)?")


def split_items(s):
    """top-level items of `[a, b { c, d }, e(f)]` given the inside of the brackets"""
    out, depth, cur = [], 0, []
    for ch in s:
        if ch in "([{":
            depth += 1
        elif ch in ")]}":
            depth -= 1
        if ch == "," and depth == 0:
            out.append("".join(cur).strip())
            cur = []
        else:
            cur.append(ch)
    if "".join(cur).strip():
        out.append("".join(cur).strip())
    return out


def storage_items(txt):
    m = re.match(r"Storage \{ data: \[(.*)\] \}$", txt, re.S)
    return split_items(m.group(1)) if m else None


QSTR = re.compile(r'"(?:[^"\\]|\\.)*"')


def ints(txt):
    # quoted strings are compared exactly by the model correspondence; digits inside them are not operands
    return [x for x in NUM.findall(QSTR.sub('""', txt))]


class SubsetGen:
    """modules of the subset: declared-before-use types, 32-bit constants and composites, functions whose
    blocks hold result-producing instructions, phis and non-switch terminators"""

    def __init__(self, g, rng):
        self.g = g
        self.rng = rng
        self.gen = sg.Gen(g, rng)
        self.by = {e["name"]: e for e in g.core}
        skip = ("Phi", "Variable", "Undef", "Label", "Function", "FunctionParameter", "ExtInst", "SpecConstantOp", "Constant", "SpecConstant",
                "ConstantCompositeContinuedINTEL", "SpecConstantCompositeContinuedINTEL")
        self.special = {}
        self.ops = [e for e in g.core if any(k == "IdResult" for k, _ in e["operands"]) and any(k == "IdResultType" for k, _ in e["operands"])
                    and not e["name"].startswith("Type") and not e["name"].startswith("Constant") and not e["name"].startswith("SpecConstant")
                    and e["name"] not in skip and not any(k in ("LiteralContextDependentNumber", "PairLiteralIntegerIdRef", "LiteralSpecConstantOpInteger") for k, _ in e["operands"])]

    def module(self, op_entries):
        r = self.rng
        insts = []
        for _ in range(r.randrange(1, 4)):
            insts.append("11/-/-/E%d.%x" % (self.g.kidx["Capability"], r.choice(self.g.enum_values("Capability"))))
        insts.append("e/-/-/E%d.%x,E%d.%x" % (self.g.kidx["AddressingModel"], r.choice(self.g.enum_values("AddressingModel")),
                                             self.g.kidx["MemoryModel"], r.choice(self.g.enum_values("MemoryModel"))))
        nid = [20]

        def fresh():
            nid[0] += 1
            return nid[0]
        types = []     # (id, text, kind)
        consts = []

        def ty(text_ops, opc, kind):
            i = fresh()
            types.append((i, "%x/-/%x/%s" % (opc, i, text_ops), kind))
            return i
        t_void = ty("-", 0x13, "void")
        t_bool = ty("-", 0x14, "bool")
        t_int = ty("L20,L1", 0x15, "int")
        t_uint = ty("L20,L0", 0x15, "uint")
        t_float = ty("L20", 0x16, "float")
        t_vec = ty("R%x,L%x" % (t_float, r.randrange(2, 5)), 0x17, "vec")
        t_mat = ty("R%x,L%x" % (t_vec, r.randrange(2, 5)), 0x18, "mat")
        seq = [t for _, t, _ in types]
        types_ids = {i: k for k, (i, _, _) in enumerate(types)}

        def const(text, opc, rt):
            i = fresh()
            consts.append(i)
            seq.append("%x/%x/%x/%s" % (opc, rt, i, text))
            return i
        v1 = "L%x" % r.randrange(1 << 32)
        c1 = const(v1, 0x2b, t_int)
        if r.random() < 0.5:
            const(v1, 0x2b, t_int)           # an equal constant declared twice is two constants
            const("-", 0x29, t_bool)
        c2 = const("L%x" % r.randrange(1 << 32), 0x2b, t_uint)
        c3 = const("L%x" % r.choice([0x3f800000, 0x40490fdb, 0, 0x80000000, 0x7f7fffff]), 0x2b, t_float)
        c4 = const("-", 0x29, t_bool)
        c5 = const("R%x,R%x" % (c3, c3), 0x2c, t_vec)
        c6 = const("-", 0x2e, t_vec)
        # array / struct / pointer / function types after the constants they need
        def ty2(text_ops, opc, kind):
            i = fresh()
            types.append((i, None, kind))
            types_ids[i] = len(types_ids)
            seq.append("%x/-/%x/%s" % (opc, i, text_ops))
            return i
        t_arr = ty2("R%x,R%x" % (t_float, c2), 0x1c, "array")
        t_struct = ty2("R%x,R%x" % (t_int, t_vec), 0x1e, "struct")
        t_ptr = ty2("E%d.%x,R%x" % (self.g.kidx["StorageClass"], r.choice([0, 1, 2, 3, 4, 5, 6, 7]), t_struct), 0x20, "pointer")
        t_fn = ty2("R%x,R%x" % (t_void, t_int), 0x21, "function")
        insts += seq
        all_types = [t_void, t_bool, t_int, t_uint, t_float, t_vec, t_mat, t_arr, t_struct, t_ptr, t_fn]
        ops_expected = []
        fns = []
        for fi in range(r.randrange(1, 3)):
            control = r.choice([0, 1, 2, 4, 8])
            fret = r.choice(all_types)
            insts.append("36/%x/%x/E%d.%x,R%x" % (fret, fresh(), self.g.kidx["FunctionControl"], control, t_fn))
            blocks = []
            nb = r.randrange(1, 4)
            labels = [fresh() for _ in range(nb)]
            for bi in range(nb):
                insts.append("f8/-/%x/-" % labels[bi])
                args = []
                if bi > 0 and r.random() < 0.6:
                    for _ in range(r.randrange(1, 3)):
                        pt = r.choice(all_types)
                        insts.append("f5/%x/%x/R%x,R%x" % (pt, fresh(), 900 + r.randrange(50), labels[0]))
                        args.append(types_ids[pt])
                for e in op_entries.pop_some(r.randrange(0, 7)):
                    rt = r.choice(all_types)
                    special = self.special.get(self.g.opnum[e["name"]], [])
                    t = None
                    for _try in range(30):
                        t = self.gen.instruction(e, {"rtype": rt, "rid": nid[0] + 1, "width": 32}, "min" if special else r.choice(["min", "all", "rand"]))
                        # enumerants / masks with parameters are not handled by the lifter (outside the subset)
                        toks0 = t.split("/")[3].split(",") if t.split("/")[3] != "-" else []
                        if not any(tok[0] == "E" and self.g.params_of(self.g.kinds[int(tok[1:].split(".")[0])], int(tok.split(".")[1], 16)) for tok in toks0):
                            break
                        t = None
                    if t is None:
                        continue
                    fresh()
                    texp = t
                    if special:
                        # operands the lifter replaces by the token of the referenced type / constant
                        toks = t.split("/")[3].split(",")
                        etoks = list(toks)
                        okp = True
                        for pos, mode in special:
                            if pos >= len(toks) or toks[pos][0] != "R":
                                okp = False
                                break
                            ref = r.choice(all_types) if mode == "type_token" else r.choice(consts)
                            toks[pos] = "R%x" % ref
                            etoks[pos] = "L%x" % (types_ids[ref] if mode == "type_token" else consts.index(ref))
                        if not okp:
                            continue
                        t = "/".join(t.split("/")[:3] + [",".join(toks)])
                        texp = "/".join(t.split("/")[:3] + [",".join(etoks)])
                    insts.append(t)
                    ops_expected.append(texp)
                term = r.choice(["fd/-/-/-", "fc/-/-/-", "ff/-/-/-", "f9/-/-/R%x" % labels[r.randrange(nb)], "fe/-/-/R%x" % (500 + bi),
                                 "fa/-/-/R%x,R%x,R%x" % (600 + bi, labels[r.randrange(nb)], labels[r.randrange(nb)])])
                insts.append(term)
                blocks.append((args, term))
            insts.append("38/-/-/-")
            fns.append((control, types_ids[fret], blocks))
        return insts, {"ntypes": len(types), "nconsts": len(consts), "ops": ops_expected, "fns": fns, "types_ids": types_ids, "consts": consts}


def lift_static_check(g, lift):
    """every lift_op arm's fields = the grammar operands of its opcode (after result type / id), in order,
    with matching kind and arity"""
    bad = []
    gk = {"LiteralInteger": "LiteralBit32", "LiteralFloat": "LiteralBit32", "LiteralContextDependentNumber": None,
          "PairLiteralIntegerIdRef": None, "PairIdRefLiteralInteger": "IdRef", "PairIdRefIdRef": "IdRef", "LiteralSpecConstantOpInteger": "LiteralSpecConstantOpInteger"}
    for a in lift.get("lift_op", []):
        e = g.by_opcode.get(a["opcode"])
        if e is None or "fields" not in a:
            bad.append({"module": [], "what": "lift_op arm %s has no grammar entry / unrecognised shape" % a.get("opcode")})
            continue
        if a["variant"] != e["name"]:
            bad.append({"module": [], "what": "lift_op arm %d builds ops::Op::%s, the opcode is Op%s" % (a["opcode"], a["variant"], e["name"])})
            continue
        ops = [o for o in e["operands"] if o[0] not in ("IdResultType", "IdResult")]
        fl = a["fields"]
        if len(ops) != len(fl):
            bad.append({"module": [], "what": "lift_op arm Op%s has %d fields for %d grammar operands" % (e["name"], len(fl), len(ops))})
            continue
        for k, ((kind, qn), f) in enumerate(zip(ops, fl)):
            wk = gk.get(kind, kind)
            wa = {"One": "required", "ZeroOrOne": "optional", "ZeroOrMore": "many"}[qn]
            if kind.startswith("Pair"):
                wa = "pairs"
            if wk is not None and f["kind"] != wk and not (kind.startswith("Pair")):
                bad.append({"module": [], "what": "lift_op arm Op%s field %d (%s) matches Operand::%s, the grammar operand is %s" % (e["name"], k, f["name"], f["kind"], kind)})
                break
            if f["arity"] != wa and not (f["arity"] == "many" and wa == "pairs"):
                bad.append({"module": [], "what": "lift_op arm Op%s field %d (%s) is %s, the grammar operand is %s" % (e["name"], k, f["name"], f["arity"], qn)})
                break
    return bad


class Pool:
    def __init__(self, items, rng):
        self.items = list(items)
        self.rng = rng
        self.pos = 0
        rng.shuffle(self.items)

    def pop_some(self, n):
        out = []
        for _ in range(n):
            out.append(self.items[self.pos % len(self.items)])
            self.pos += 1
        return out


TERM_NAME = {"fd": "Return", "fc": "Kill", "ff": "Unreachable", "f9": "Branch", "fe": "ReturnValue", "fa": "BranchConditional"}


def operand_atoms(t):
    """the integers an instruction's operands contribute, in order (ids, literals)"""
    ops = t.split("/")[3]
    out = []
    for tok in (ops.split(",") if ops != "-" else []):
        if tok[0] in "RCMLXQ":
            out.append(str(int(tok[1:], 16)))
        elif tok[0] == "S":
            pass
    return out


def run(rep):
    rep.cov["rule"] = (
        "generated subset modules (void/bool/int/float/vector/matrix/array/struct/pointer/function types declared "
        "before use, 32-bit constants, composites, null; 1-2 functions of 1-3 blocks with phis, non-switch "
        "terminators) cycling through EVERY result-producing opcode the grammar has (each with all-optional / minimal "
        "/ random operand shapes and distinct ids): the lifted module (every Debug-printable field) is checked for "
        "version, capabilities in order, memory model, one type/constant/op per declaration in order, operands "
        "carried positionally, function control/result/block count/terminators/phi arguments; "
        "non-trivial = module with at least one op"
    )
    p = regen.prepare(release=False)
    broken = list(p.broken)
    lf = getattr(p, "lift_failures", [])
    if lf or p.failures(["rspirv/lift/autogen_context.rs"]):
        broken.insert(0, {"lemma": "rs2coq recogniser (T-src lift arms)", "error": "\n".join((lf + p.failures(["rspirv/lift/autogen_context.rs"]))[:20])})
    ok, info = pipeline.proof_stage(rep, PROP, broken)
    bad = []
    if p.exe:
        g = sg.Grammar()
        rng = random.Random(rep.seed)
        sgen = SubsetGen(g, rng)
        for a in p.facts["lift"].get("lift_op", []):
            sp = []
            okp = True
            for k, f in enumerate(a.get("fields", [])):
                if f["mode"] in ("type_token", "const_token", "jump"):
                    if f["mode"] != "jump" and all(x["arity"] == "required" for x in a["fields"][:k + 1]):
                        sp.append((k, f["mode"]))
                    else:
                        okp = False
            if sp and okp:
                sgen.special[a["opcode"]] = sp
            elif not okp:
                sgen.ops = [e for e in sgen.ops if g.opnum[e["name"]] != a["opcode"]]
        handled = {a["opcode"] for a in p.facts["lift"].get("lift_op", [])}
        sgen.ops = [e for e in sgen.ops if g.opnum[e["name"]] in handled]
        bad += lift_static_check(g, p.facts["lift"])
        pool = Pool(sgen.ops, rng)
        lines, meta = [], []
        nmod = 1200 if rep.tier == "thorough" else 400
        for _ in range(nmod):
            insts, exp = sgen.module(pool)
            version = rng.choice([0x00010000, 0x00010300, 0x00010600])
            words = sg.header_words(version=version) + [w for t in insts for w in sg.spec_encode(t)]
            lines.append("lift " + sg.words_hex(words))
            meta.append((insts, exp, version))
        # outside the subset: the model must reproduce the lifter's errors and panics too
        nsub = len(lines)
        for k in range(120 if rep.tier == "thorough" else 40):
            insts, exp = sgen.module(pool)
            kind = k % 8
            m2 = list(insts)
            tyidx = [i for i, t in enumerate(m2) if int(t.split("/")[0], 16) in range(0x13, 0x22)]
            if kind == 0 and tyidx:
                m2.pop(rng.choice(tyidx))                                  # a referenced type is no longer declared
            elif kind == 1 and tyidx:
                m2.insert(tyidx[-1] + 1, m2[rng.choice(tyidx)])            # duplicate result id
            elif kind == 2:
                m2 = [t for t in m2 if not t.startswith("e/")]            # no memory model
            elif kind == 3:
                # a 64-bit constant
                m2.insert(tyidx[-1] + 1, "15/-/7f0/L40,L0")
                m2.insert(tyidx[-1] + 2, "2b/7f0/7f1/Q%x" % rng.randrange(1 << 64))
            elif kind == 4:
                # a function call in a block (no lift_op arm)
                lab = [i for i, t in enumerate(m2) if t.startswith("f8/")]
                if lab:
                    m2.insert(lab[0] + 1, "39/%s/7f2/R7f3" % m2[tyidx[0]].split("/")[2])
            elif kind == 5:
                # switch to a later block / to an earlier block
                lab = [i for i, t in enumerate(m2) if t.startswith("f8/")]
                terms = [i for i, t in enumerate(m2) if int(t.split("/")[0], 16) in (0xf9, 0xfa, 0xfc, 0xfd, 0xfe, 0xff)]
                if lab and terms:
                    tgt = m2[rng.choice(lab)].split("/")[2]
                    m2[rng.choice(terms)] = "fb/-/-/R7f4,R%s,L1,R%s" % (tgt, tgt)
            elif kind == 6:
                fe = [i for i, t in enumerate(m2) if t.startswith("38/")]
                lab = [i for i, t in enumerate(m2) if t.startswith("f8/")]
                if fe and lab:
                    # a function without blocks
                    m2 = m2[:fe[-1]] + ["38/-/-/-", "36/%s/7f5/E%d.0,R7f6" % (m2[tyidx[0]].split("/")[2], g.kidx["FunctionControl"])] + m2[fe[-1]:]
            elif kind == 7 and tyidx:
                a, b = tyidx[0], tyidx[-1]
                m2[a], m2[b] = m2[b], m2[a]                                # use before declaration
            version = rng.choice([0x00010000, 0x00010300])
            words = sg.header_words(version=version) + [w for t in m2 for w in sg.spec_encode(t)]
            lines.append("lift " + sg.words_hex(words))
        mexe, merr = corr.build_modelrun()
        files, err = streams.serve_both("c18", lines, p.exe, mexe)
        if files is None:
            ok, info = False, {"lemma": "harness run", "error": err}
        else:
            nt = 0
            seen_ops = set()
            # correspondence: the Coq lift model (arms translated from the source) against the real lifter
            if mexe is None and ok:
                ok, info = False, {"lemma": "modelrun build", "error": merr}
            il = streams.read_lines(files[1])
            ml = streams.read_lines(files[2]) if mexe else []
            can = liftcanon.Canon(g, p.facts["lift"])
            mism = []
            outcomes = {}
            for k, (got, mgot) in enumerate(zip(il, ml)):
                try:
                    a = liftcanon.canon_answer(can, got)
                except Exception as ex:      # the Debug text has a shape the canonicaliser does not know
                    a = "UNREADABLE %r" % (ex,)
                outcomes[a.split(" ")[0].split(":")[0]] = outcomes.get(a.split(" ")[0].split(":")[0], 0) + 1
                if a != mgot:
                    mism.append({"case": lines[k][:400], "impl": a[:700], "model": mgot[:700]})
            rep.cov["model_correspondence"] = {"cases": len(ml), "mismatches": len(mism), "outcomes": outcomes, "subset_modules": nsub}
            if mism and ok:
                ok = False
                info = {"lemma": "correspondence stream c18 (LiftContext::convert vs Coq lift model)", "error": json.dumps(mism[0])[:1800]}
            for (insts, exp, version), got in zip(meta, il):
                what = None
                if not got.startswith("OK:"):
                    msg = got if got.startswith("PANIC") else got.split(":")[0] + ":" + bytes.fromhex(got.split(":", 1)[1]).decode("utf-8", "replace")[:200]
                    what = "lifting a subset module does not succeed: %s" % msg
                else:
                    f = dict(x.split("=", 1) for x in bytes.fromhex(got[3:]).decode("utf-8").split(";;"))
                    caps = [g_name for g_name in f["caps"][1:-1].split(", ") if g_name]
                    want_caps = []
                    capname = {v: n for n, v in g.enums["Capability"]["variants"]}
                    for t in insts:
                        if t.startswith("11/"):
                            want_caps.append(capname[int(t.split(".")[1], 16)])
                    mm = insts[len(want_caps)]
                    am = {v: n for n, v in g.enums["AddressingModel"]["variants"]}[int(mm.split("/")[3].split(",")[0].split(".")[1], 16)]
                    mmn = {v: n for n, v in g.enums["MemoryModel"]["variants"]}[int(mm.split("/")[3].split(",")[1].split(".")[1], 16)]
                    types = storage_items(f["types"])
                    consts = storage_items(f["consts"])
                    ops = storage_items(f["ops"])
                    if int(f["version"]) != (version & 0x00FFFF00):
                        what = "lifted version %s, the module has %#x" % (f["version"], version)
                    elif caps != want_caps:
                        what = "lifted capabilities %s, declared %s" % (caps, want_caps)
                    elif f["mm"] != "MemoryModel { addressing_model: %s, memory_model: %s }" % (am, mmn):
                        what = "lifted memory model `%s`, declared %s %s" % (f["mm"], am, mmn)
                    elif types is None or len(types) != exp["ntypes"]:
                        what = "%s lifted types for %d type declarations" % (None if types is None else len(types), exp["ntypes"])
                    elif consts is None or len(consts) != exp["nconsts"]:
                        what = "%s lifted constants for %d constant declarations" % (None if consts is None else len(consts), exp["nconsts"])
                    elif ops is None or len(ops) != len(exp["ops"]):
                        what = "%s lifted operations for %d result-producing instructions" % (None if ops is None else len(ops), len(exp["ops"]))
                    else:
                        for k, (o, t) in enumerate(zip(ops, exp["ops"])):
                            name = g.by_opcode[int(t.split("/")[0], 16)]["name"]
                            seen_ops.add(name)
                            if not re.match(r"%s\b" % re.escape(name), o):
                                what = "operation %d lifted as `%s`, the instruction is Op%s" % (k, o[:60], name)
                                break
                            if ints(o) != operand_atoms(t) and not any(tok[0] == "E" for tok in t.split("/")[3].split(",")):
                                what = "Op%s operands not carried over positionally: lifted `%s`, instruction %s" % (name, o[:200], t)
                                break
                    if what is None:
                        # declaration order of types / constants: tokens are dense indices
                        k = 0
                        for t in insts:
                            opc = int(t.split("/")[0], 16)
                            nm = g.by_opcode[opc]["name"]
                            if nm.startswith("Type"):
                                want = {"TypeVoid": "Void", "TypeBool": "Bool", "TypeInt": "Int", "TypeFloat": "Float", "TypeVector": "Vector", "TypeMatrix": "Matrix",
                                        "TypeArray": "Array", "TypeStruct": "Struct", "TypePointer": "Pointer", "TypeFunction": "Function"}[nm]
                                if not types[k].startswith(want):
                                    what = "type %d lifted as `%s`, declaration %d is Op%s" % (k, types[k][:40], k, nm)
                                    break
                                # ids replaced by the token of the referenced entry, positionally
                                wantnums = []
                                for tok in (t.split("/")[3].split(",") if t.split("/")[3] != "-" else []):
                                    if tok[0] == "R":
                                        i = int(tok[1:], 16)
                                        wantnums.append(str(exp["types_ids"][i]) if i in exp["types_ids"] else str(exp["consts"].index(i)))
                                    elif tok[0] == "L":
                                        wantnums.append(str(int(tok[1:], 16)))
                                if ints(types[k]) != wantnums:
                                    what = "type %d (`%s`) does not carry the operands of %s positionally (expected numbers %s)" % (k, types[k][:120], t, wantnums)
                                    break
                                k += 1
                    if what is None:
                        ci = 0
                        for t in insts:
                            opc = int(t.split("/")[0], 16)
                            if opc in (0x2b, 0x29, 0x2a, 0x2c, 0x2e):
                                c = consts[ci]
                                if opc == 0x2b:
                                    rt = int(t.split("/")[1], 16)
                                    v = int(t.split("/")[3][1:], 16)
                                    kind = [x for x in insts if x.split("/")[2] == "%x" % rt][0]
                                    if kind.startswith("15/") and kind.endswith("L1"):
                                        want = "Int(%d)" % (v - (1 << 32) if v >= 1 << 31 else v)
                                    elif kind.startswith("15/"):
                                        want = "UInt(%d)" % v
                                    else:
                                        want = None
                                        x = struct.unpack("<f", struct.pack("<I", v))[0]
                                        if not c.startswith("Float(") or (x == x and struct.pack("<f", float(c[6:-1])) != struct.pack("<I", v) and not (v in (0, 0x80000000) and float(c[6:-1]) == 0.0)):
                                            what = "constant %d lifted as %s, the literal is the float %r" % (ci, c, x)
                                    if want and c != want:
                                        what = "constant %d lifted as %s, expected %s" % (ci, c, want)
                                elif opc == 0x2c:
                                    wantt = [str(exp["consts"].index(int(tok[1:], 16))) for tok in t.split("/")[3].split(",")]
                                    if not c.startswith("Composite(") or ints(c) != wantt:
                                        what = "composite constant %d lifted as %s, its constituents are constants %s" % (ci, c, wantt)
                                elif opc == 0x29 and c != "Bool(true)":
                                    what = "constant %d lifted as %s, declared OpConstantTrue" % (ci, c)
                                elif opc == 0x2e and c != "Null":
                                    what = "constant %d lifted as %s, declared OpConstantNull" % (ci, c)
                                ci += 1
                                if what:
                                    break
                    if what is None:
                        fcn = {0: "0x0", 1: "INLINE", 2: "DONT_INLINE", 4: "PURE", 8: "CONST"}
                        for i, (control, ret, blocks) in enumerate(exp["fns"]):
                            if ("fn%d.control" % i) not in f:
                                what = "function %d missing from the lifted module" % i
                                break
                            if fcn[control] not in f["fn%d.control" % i]:
                                what = "function %d control mask lifted as %s, declared %s" % (i, f["fn%d.control" % i], fcn[control])
                                break
                            if f["fn%d.result" % i] != "Token(%d)" % ret:
                                what = "function %d result type lifted as %s, declared type has token %d" % (i, f["fn%d.result" % i], ret)
                                break
                            bl = storage_items(f["fn%d.blocks" % i])
                            if bl is None or len(bl) != len(blocks):
                                what = "function %d has %s lifted blocks for %d blocks" % (i, None if bl is None else len(bl), len(blocks))
                                break
                            for bi, ((args, term), b) in enumerate(zip(blocks, bl)):
                                m = re.match(r"Block \{ arguments: \[(.*?)\], ops: \[\], terminator: (.*) \}$", b, re.S)
                                if not m:
                                    what = "block %d of function %d has unexpected shape `%s`" % (bi, i, b[:100])
                                    break
                                if ints(m.group(1)) != [str(a) for a in args]:
                                    what = "block %d of function %d has arguments [%s], its phis have result types with tokens %s" % (bi, i, m.group(1), args)
                                    break
                                tn = TERM_NAME[term.split("/")[0]]
                                if tn not in m.group(2) or ints(m.group(2)) != operand_atoms(term):
                                    what = "block %d of function %d terminator lifted as `%s`, the block ends with Op%s %s" % (bi, i, m.group(2)[:100], tn, operand_atoms(term))
                                    break
                            if what:
                                break
                    if exp["ops"]:
                        nt += 1
                if what:
                    bad.append({"module": insts, "what": what, "observed": (bytes.fromhex(got[3:]).decode("utf-8")[:1500] if got.startswith("OK:") else got[:200])})
            rep.cov["evaluations"] = len(lines)
            rep.cov["distinct_nontrivial"] = nt
            rep.cov["opcodes_lifted"] = len(seen_ops)
            rep.cov["opcodes_in_subset"] = len(sgen.ops)
            rep.cov["samples"] = [{"module": meta[0][0][:12]}]
            bad.sort(key=lambda b: len(" ".join(b["module"])))
    pipeline.conclude(rep, ok, info, bad, lambda b: b["what"], limit=4)


def replay(rep, path):
    print(open(path).read())
    run(rep)
    return rep.finish()
