"""C05 - the loader accepts exactly well-bracketed function/block structure."""
import itertools
import json
import random
import core
import corr
import pipeline
import regen
import layout
import spirvgen as sg
import streams

PROP = "C05"


def alphabet(g, rng):
    """one representative instruction text per token letter (+ per fixed module-level class)"""
    gen = sg.Gen(g, rng)
    by = {e["name"]: e for e in g.core}
    mk = lambda n, mode="min": gen.instruction(by[n], {"width": 32}, mode)
    return {
        "F": lambda: mk("Function"), "E": lambda: mk("FunctionEnd"), "P": lambda: mk("FunctionParameter"),
        "L": lambda: mk("Label"), "T": lambda: mk(rng.choice(["Return", "Branch", "Kill", "Unreachable", "ReturnValue"])),
        "B": lambda: mk(rng.choice(["Nop", "IAdd", "Load", "Store", "FunctionCall", "Phi", "SelectionMerge"])),
        "V": lambda: mk(rng.choice(["Variable", "Undef"])), "N": lambda: mk(rng.choice(["Line", "NoLine"])),
        "M": lambda: mk(rng.choice(["Capability", "Extension", "ExtInstImport", "EntryPoint", "ExecutionMode", "String", "Source",
                                    "Name", "MemberName", "ModuleProcessed", "Decorate", "TypeInt", "TypeVoid", "ConstantTrue",
                                    "SpecConstantTrue", "MemberDecorate"])),
    }


def run(rep):
    rep.cov["rule"] = (
        "all sequences up to length 5 (quick) / 6 (thorough) over the 9-letter alphabet {Function, FunctionEnd, "
        "Parameter, Label, Terminator, BlockInst, Variable/Undef, Line, module-level} fed directly to the Loader "
        "consumer; every opcode of every fixed module-level class and every terminator once, outside and inside an "
        "open block (placement); random long sequences; implementation vs extracted interpreter of the translated "
        "arms vs the bracket grammar; non-trivial = sequence the loader accepts or rejects after at least one "
        "bracket token"
    )
    p = regen.prepare(release=False)
    broken = list(p.broken)
    lf = getattr(p, "loader_failures", [])
    fails = p.failures(["rspirv/dr/loader.rs", "rspirv/grammar/reflect.rs"]) + lf
    if fails:
        broken.insert(0, {"lemma": "rs2coq recogniser (T-src loader arms)", "error": "\n".join(fails[:20])})
    ok, info = pipeline.proof_stage(rep, PROP, broken)
    bad = []
    if p.exe:
        mexe, merr = corr.build_modelrun()
        g = sg.Grammar()
        rng = random.Random(rep.seed)
        lay = layout.Layout(g)
        alpha = alphabet(g, rng)
        letters = "FEPLTBVNM"
        lines, meta = [], []
        L = 6 if rep.tier == "thorough" else 5
        for n in range(0, L + 1):
            for combo in itertools.product(letters, repeat=n):
                insts = [alpha[c]() for c in combo]
                lines.append("feed " + " ".join(insts) if insts else "feed")
                meta.append(insts)
        # placement: every opcode of the fixed classes, at module level, inside a function and inside a block
        gen = sg.Gen(g, rng)
        fixed = [e for e in g.core if g.opnum[e["name"]] in lay.section or g.opnum[e["name"]] in lay.term
                 or g.opnum[e["name"]] in lay.line or g.opnum[e["name"]] in lay.varundef]
        for e in fixed:
            t = gen.instruction(e, {"width": 32}, "min")
            for pre, post in (([], []), ([alpha["F"]()], [alpha["E"]()]), ([alpha["F"](), alpha["L"]()], [alpha["T"](), alpha["E"]()])):
                insts = pre + [t] + post
                lines.append("feed " + " ".join(insts))
                meta.append(insts)
        # every other opcode: a block instruction wherever it is
        for e in g.core:
            if e in fixed or e["name"] in ("Function", "FunctionEnd", "FunctionParameter", "Label"):
                continue
            t = gen.instruction(e, {"width": 32}, "min")
            for pre, post in (([], []), ([alpha["F"](), alpha["L"]()], [alpha["T"](), alpha["E"]()])):
                insts = pre + [t] + post
                lines.append("feed " + " ".join(insts))
                meta.append(insts)
        for _ in range(20000 if rep.tier == "thorough" else 3000):
            n = rng.randrange(6, 30)
            w = "FLBTE" if rng.random() < 0.6 else letters
            insts = [alpha[rng.choice(w)]() for _ in range(n)]
            lines.append("feed " + " ".join(insts))
            meta.append(insts)
        files, err = streams.serve_both("c05", lines, p.exe, mexe)
        if files is None:
            ok, info = False, {"lemma": "correspondence run", "error": err}
        else:
            cases, impl, model = files
            n, nt, mism, samples = corr.diff(cases, impl, model, trivial=lambda c, i: len(c) < 12)
            rep.cov["evaluations"] = n
            rep.cov["distinct_nontrivial"] = nt
            rep.cov["samples"] = samples
            if mexe is None and ok:
                ok, info = False, {"lemma": "modelrun build", "error": merr}
            if mism and ok:
                ok = False
                info = {"lemma": "correspondence stream c05 (implementation vs extracted loader interpreter)", "error": json.dumps(mism[0])[:1500]}
            for insts, got in zip(meta, streams.read_lines(impl)):
                r = lay.load(insts)
                if r[0] == "OK":
                    want = "OK " + lay.module_text(r[1])
                else:
                    want = "ERR:%s@%s" % (r[1], r[2])
                if got != want:
                    what = "loader answers `%s`, the layout rules give `%s`" % (got[:160], want[:160])
                    bad.append({"sequence": insts, "observed": got[:600], "expected": want[:600], "what": what})
            bad.sort(key=lambda b: len(" ".join(b["sequence"])))
    pipeline.conclude(rep, ok, info, bad, lambda b: "sequence %s: %s" % (" ".join(b["sequence"])[:160], b["what"]), limit=3)


def replay(rep, path):
    print(open(path).read())
    run(rep)
    return rep.finish()
