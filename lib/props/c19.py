"""C19 - storage tokens are stable handles."""
import os
import core
import corr
import pipeline
from core import CACHE

PROP = "C19"


def spec_check(case, impl):
    """Specification search on the implementation alone: replays the history
    against the property text (first-equal / append / density / stability)."""
    parts = case.split()
    if parts[0] == "c19long":
        n = int(parts[1], 16)
        f = dict(x.split("=") for x in impl.split()[1:])
        if f["first_dup"] != "-":
            return "append number %d returned a token that an earlier append had returned (only %d distinct tokens over %d appends)" % (int(f["first_dup"], 16) + 1, int(f["distinct"], 16), n)
        if f["bad_lookup"] != "-":
            return "lookup through the token of append number %d no longer yields its value" % (int(f["bad_lookup"], 16) + 1)
        return None
    m = [c == "1" for c in parts[1]]
    ops = parts[2:]
    if impl == "PANIC":
        return "panic"
    f = dict(x.split("=") for x in impl.split())
    toks = [int(x, 16) for x in f["t"].split(",")] if f["t"] else []
    gets = [int(x, 16) for x in f["g"].split(",")] if f["g"] else []
    store = []
    for k, o in enumerate(ops):
        app, v = o[0] == "a", int(o[1])
        want = None
        if not app:
            for i, d in enumerate(store):
                if m[d * 4 + v]:
                    want = i
                    break
        if want is None:
            want = len(store)
            store.append(v)
        if toks[k] != want:
            return "operation %d (%s) returned token %d, specification says %d" % (k, o, toks[k], want)
    for k, t in enumerate(toks):
        if gets[k] != store[t]:
            return "lookup through token %d yields %d, stored value is %d" % (t, gets[k], store[t])
    return None


def run(rep):
    rep.cov["rule"] = (
        "proof: theorems for every value type, every (lawless) eqb and every history; tie: all histories up to "
        "length 5 (quick) / 6 (thorough) over {append,fetch_or_append} x 4 values under 7-8 equality tables (incl. the "
        "f64 table on real f64 with NaN/-0.0) + random long histories, implementation vs extracted model; "
        "non-trivial = history with at least one fetch_or_append hit or two appends"
    )
    exe, err = core.build_harness(release=(rep.tier == "thorough"))
    broken = []
    if exe is None:
        broken.append({"lemma": "harness build", "error": err[-3000:]})
    ok, info = pipeline.proof_stage(rep, PROP, broken)
    mism = []
    bad = []
    if exe:
        mexe, merr = corr.build_modelrun()
        cases = os.path.join(CACHE, "c19.cases"); impl = os.path.join(CACHE, "c19.impl"); model = os.path.join(CACHE, "c19.model")
        rc, out, _ = core.run([exe, "c19", rep.tier, str(rep.seed), cases, impl], timeout=3000)
        if rc != 0:
            ok, info = False, {"lemma": "harness c19", "error": out[-2000:]}
        elif mexe is None:
            ok, info = False, {"lemma": "modelrun build", "error": merr}
        else:
            rc, e = corr.run_model(mexe, cases, model)
            n, nt, mism, samples = corr.diff(cases, impl, model, trivial=lambda c, i: len(c.split()) < 4)
            rep.cov["evaluations"] = n
            rep.cov["distinct_nontrivial"] = nt
            rep.cov["samples"] = samples
            rep.cov["exhaustive"] = True
            if mism:
                ok = False
                info = {"lemma": "correspondence stream c19 (implementation vs extracted model)", "error": str(mism[0])}
            # specification search over the implementation results (always: cheap)
            with open(cases) as fc, open(impl) as fi:
                for c, i in zip(fc, fi):
                    w = spec_check(c.rstrip("\n"), i.rstrip("\n"))
                    if w:
                        bad.append({"history": c.strip(), "observed": i.strip(), "what": w})
                        if len(bad) >= 3:
                            break
            bad.sort(key=lambda b: len(b["history"]))
    pipeline.conclude(rep, ok, info, bad, lambda b: "history `%s`: %s" % (b["history"], b["what"]), limit=2)


def replay(rep, path):
    print(open(path).read())
    run(rep)
    return rep.finish()
