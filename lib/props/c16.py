"""C16 - opcode classification predicates agree with the specification."""
import json
import os
import core
import gen_coq
import pipeline
import regen
from core import log

PROP = "C16"


def search(facts, dump, ref, known):
    bad = []
    rows = dump["reflect"]["rows"]
    fns = dump["reflect"]["fns"]
    cls = ref["classes"]
    for name in cls:
        if name not in fns:
            bad.append({"predicate": name, "what": "predicate missing from grammar::reflect"})
    for nm, v, ps in rows:
        for f in fns:
            if f not in cls:
                continue
            want = nm in cls[f]
            got = f in ps
            if want != got:
                bad.append({"predicate": f, "input": nm, "opcode": v,
                            "what": "%s(Op%s) = %s but the specification class says %s" % (f, nm, str(got).lower(), str(want).lower())})
        nb = [b for b in ref["base"] if b in ps]
        if len(nb) > 1:
            bad.append({"predicate": "+".join(nb), "input": nm, "what": "base classes overlap on Op%s" % nm})
        for u, parts in ref["unions"].items():
            if (u in ps) != any(x in ps for x in parts):
                bad.append({"predicate": u, "input": nm, "what": "%s is not the union of %s on Op%s" % (u, parts, nm)})
    ends, others = gen_coq.builder_sinks(facts["builder"])
    term = {nm for nm, v, ps in rows if "is_block_terminator" in ps}
    alias = {a: t for e in facts["spirv"]["enums"] if e["name"] == "Op" for a, t in e["aliases"]}
    for m, o in ends:
        if alias.get(o, o) not in term:
            bad.append({"predicate": "builder", "input": m, "what": "Builder::%s ends the block with Op%s, which is_block_terminator rejects" % (m, o)})
    endops = {alias.get(o, o) for _, o in ends}
    for m, o in others:
        if alias.get(o, o) in term:
            bad.append({"predicate": "builder", "input": m, "what": "Builder::%s emits terminator Op%s without ending the block" % (m, o)})
    for t in sorted(term):
        if t not in endops:
            bad.append({"predicate": "builder", "input": t, "what": "no Builder method ends a block with terminator Op%s" % t})
    return bad


def run(rep):
    rep.cov["rule"] = (
        "proof: vm_compute-checked equality of all 12 translated predicates (13 incl. the derived ones) with the reference classes on all 787 "
        "opcodes, lifted to quantified theorems; tie: every predicate called on every opcode by the compiled crate "
        "(exhaustive); a case is non-trivial when some predicate holds on the opcode"
    )
    p = regen.prepare()
    broken = list(p.broken)
    fails = p.failures(["rspirv/grammar/reflect.rs", "rspirv/dr/build"])
    if fails:
        broken.insert(0, {"lemma": "rs2coq recogniser (T-src)", "error": "\n".join(fails[:20])})
    ok, info = pipeline.proof_stage(rep, PROP, broken)
    ref = regen.load_ref("opclass.json")
    bad = search(p.facts, p.dump_grammar, ref, None) if p.dump_grammar else []
    d = p.dump_grammar
    if d:
        rows = d["reflect"]["rows"]
        rep.cov["evaluations"] = len(rows) * len(d["reflect"]["fns"])
        rep.cov["distinct_nontrivial"] = sum(1 for r in rows if r[2])
        rep.cov["exhaustive"] = True
        rep.cov["samples"] = [r for r in rows if r[2]][:4]
    pipeline.conclude(rep, ok, info, bad, lambda b: "%s: %s" % (b.get("predicate"), b["what"]), limit=8)


def replay(rep, path):
    print(open(path).read())
    run(rep)
    return rep.finish()
