"""C09 - grammar tables are total, unique, well-formed, equal to the reference."""
import json
import os
import core
import pipeline
import regen
from core import log

PROP = "C09"

LOOKUP_TEMPLATES = {
    "fn:CoreInstructionTable::lookup_opcode": "fn lookup_opcode ( opcode : u16 ) -> Option < & 'static Instruction < 'static > > { INSTRUCTION_TABLE . iter ( ) . find ( | inst | ( inst . opcode as u16 ) == opcode ) } ",
    "fn:CoreInstructionTable::get": "fn get ( opcode : spirv :: Op ) -> & 'static Instruction < 'static > { INSTRUCTION_TABLE . iter ( ) . find ( | inst | ( inst . opcode == opcode ) ) . expect ( \"internal error\" ) } ",
    "fn:GlslStd450InstructionTable::lookup_opcode": "fn lookup_opcode ( opcode : u32 ) -> Option < & 'static ExtendedInstruction < 'static > > { GLSL_STD_450_INSTRUCTION_TABLE . iter ( ) . find ( | inst | inst . opcode == opcode ) } ",
    "fn:GlslStd450InstructionTable::get": "fn get ( opcode : spirv :: GLOp ) -> & 'static ExtendedInstruction < 'static > { GLSL_STD_450_INSTRUCTION_TABLE . iter ( ) . find ( | inst | ( inst . opcode == opcode as spirv :: Word ) ) . expect ( \"internal error\" ) } ",
    "fn:OpenCLStd100InstructionTable::lookup_opcode": "fn lookup_opcode ( opcode : u32 ) -> Option < & 'static ExtendedInstruction < 'static > > { OPENCL_STD_100_INSTRUCTION_TABLE . iter ( ) . find ( | inst | inst . opcode == opcode ) } ",
    "fn:OpenCLStd100InstructionTable::get": "fn get ( opcode : spirv :: CLOp ) -> & 'static ExtendedInstruction < 'static > { OPENCL_STD_100_INSTRUCTION_TABLE . iter ( ) . find ( | inst | ( inst . opcode == opcode as spirv :: Word ) ) . expect ( \"internal error\" ) } ",
}


def wf_operands(ops):
    rest = list(ops)
    if rest and rest[0] == ["IdResultType", "One"]:
        rest = rest[1:]
        if rest and rest[0] == ["IdResult", "One"]:
            rest = rest[1:]
    elif rest and rest[0] == ["IdResult", "One"]:
        rest = rest[1:]
    if any(k in ("IdResultType", "IdResult") for k, _ in rest):
        return "result type / result id not (only) at the front"
    seen_opt = False
    for i, (k, qn) in enumerate(ops):
        if qn == "One" and seen_opt:
            return "required operand after an optional one"
        if qn != "One":
            seen_opt = True
        if qn == "ZeroOrMore" and i != len(ops) - 1:
            return "variadic operand not last"
    return None


def search(facts, dump, ref):
    """implementation (dump) vs specification (reference snapshot + declared opcodes)"""
    bad = []
    sp = regen.load_ref("spirv.json")
    enums = {e["name"]: e for e in sp["enums"]}
    for key, opn, nprobe in (("core", "Op", 65536), ("glsl", "GLOp", None), ("opencl", "CLOp", None)):
        declared = {v: n for n, v in enums[opn]["variants"]}
        rtab = {e["name"]: e for e in ref[key]}
        dtab = dump[key]
        names = [e["name"] for e in dtab]
        for e in dtab:
            r = rtab.get(e["name"])
            if r is None:
                bad.append({"table": key, "input": e["name"], "what": "entry not in the Khronos reference"})
                continue
            want_opc = r["number"] if r.get("number") is not None else {n: v for n, v in enums[opn]["variants"]}.get(e["name"])
            if e["opcode"] != want_opc:
                bad.append({"table": key, "input": e["name"], "what": "entry opcode differs from the opcode of its name", "got": e["opcode"], "want": want_opc})
            for fld in ("caps", "exts", "operands"):
                if e[fld] != r[fld]:
                    bad.append({"table": key, "input": e["name"], "what": "%s differ from the Khronos reference" % fld, "got": e[fld], "want": r[fld]})
            w = wf_operands(e["operands"])
            if w:
                bad.append({"table": key, "input": e["name"], "what": "ill-formed entry: " + w, "got": e["operands"]})
        for nme in rtab:
            if nme not in names:
                bad.append({"table": key, "input": nme, "what": "reference entry missing from the table"})
        if len(set(names)) != len(names):
            dup = sorted(set(x for x in names if names.count(x) > 1))
            bad.append({"table": key, "input": dup[:3], "what": "duplicate table entries"})
        hits = {h[0]: h for h in dump[key + "_lookup"]["hits"]}
        for v, nme in declared.items():
            h = hits.get(v)
            if h is None:
                bad.append({"table": key, "input": v, "what": "lookup_opcode(%d) returns nothing for declared opcode %s" % (v, nme)})
            elif h[1] != nme or h[2] != v:
                bad.append({"table": key, "input": v, "what": "lookup_opcode(%d) returns the entry of %s (opcode %d), expected %s" % (v, h[1], h[2], nme)})
        for v in hits:
            if v not in declared:
                bad.append({"table": key, "input": v, "what": "lookup_opcode(%d) returns an entry for an undeclared opcode" % v, "got": hits[v]})
        for g in dump[key + "_get"]:
            if g[2] is None:
                bad.append({"table": key, "input": g[0], "what": "get(%s) panics (no table entry)" % g[0]})
            elif g[2] != g[0] or g[3] != g[1]:
                bad.append({"table": key, "input": g[0], "what": "get(%s) returns entry %s/%s" % (g[0], g[2], g[3])})
    return bad


def run(rep):
    rep.cov["rule"] = (
        "proof: generic find/NoDup theorems for all n + vm_compute side conditions over the three tables translated "
        "from the inst!/ext_inst! entries on this run; tie: compiled tables via iter(), lookup_opcode on all 65536 "
        "numbers (+ large probes for the u32 tables), get on every opcode; a case is non-trivial when the lookup hits"
    )
    p = regen.prepare()
    broken = list(p.broken)
    fails = p.failures(["rspirv/grammar/", "OperandKind"])
    if fails:
        broken.insert(0, {"lemma": "rs2coq recogniser (T-src)", "error": "\n".join(fails[:20])})
    syn = p.facts["table"]["syntax"]
    drift = [k for k, v in LOOKUP_TEMPLATES.items() if syn.get(k) != v]
    if drift:
        # extensional fallback: the lookups are validated on all 65536 numbers by the dump below
        rep.notes.append("lookup bodies differ from the modelled template (%s): extensional T-dump over all numbers decides" % ", ".join(drift))
    ok, info = pipeline.proof_stage(rep, PROP, broken)
    ref = regen.load_ref("table.json")
    bad = search(p.facts, p.dump_grammar, ref) if p.dump_grammar else []
    d = p.dump_grammar
    if d:
        rep.cov["evaluations"] = sum(len(d[k + "_lookup"]["hits"]) + d[k + "_lookup"]["miss"] + len(d[k + "_get"]) + len(d[k]) for k in ("core", "glsl", "opencl"))
        rep.cov["distinct_nontrivial"] = sum(len(d[k + "_lookup"]["hits"]) + len(d[k + "_get"]) for k in ("core", "glsl", "opencl"))
        rep.cov["exhaustive"] = True
        rep.cov["samples"] = [d["core"][3], d["core_lookup"]["hits"][40], d["glsl_get"][5]]
    pipeline.conclude(rep, ok, info, bad, lambda b: "%s table: %s (input %s)" % (b.get("table"), b["what"], b.get("input")))


def replay(rep, path):
    print(open(path).read())
    run(rep)
    return rep.finish()
