"""C13 - Builder id discipline: fresh ids, exact bound, deduplicated implicit types."""
import json
import random
import core
import corr
import pipeline
import regen
import layout
import bldgen
import bldspec
import spirvgen as sg
import streams

PROP = "C13"


def type_methods(bg):
    return [n for n in bg.emitting_methods() if bg.sink_of(n) == "dedup_type"]


def histories(bg, rng, tier):
    tms = type_methods(bg)
    ids = [m for m in tms if m.endswith("_id") or m == "type_pointer"]
    fixed_calls = {}

    def tcall(name, variant, explicit):
        # a small pool of argument vectors per method so that identical requests recur
        key = (name, variant)
        if key not in fixed_calls:
            fixed_calls[key] = bg.call(name, explicit_id="_")
        c = fixed_calls[key]
        if c is None:
            return None
        if explicit is not None and "result_id" in [p for p, _ in bg.methods[name]["params"]]:
            toks = c.split(" ")
            idx = 1 + [p for p, _ in bg.methods[name]["params"]].index("result_id")
            toks[idx] = "%x" % explicit
            c = " ".join(toks)
        return c
    # continuing an existing module: fresh ids start at its header bound
    for b in (1, 5, 0x100, 0x7fffffff, 0xfffffff0):
        yield ["new_from_module %x" % b, "id", "type_void", "id", "type_void", "begin_function 1 _ 0 3", "begin_block _", "ret", "end_function", "id"]
        yield ["new_from_module %x" % b, "type_bool", "capability 1", "id"]
    # every type method: request twice implicitly, once explicitly, again implicitly, different operands
    for name in tms:
        seq = [tcall(name, 0, None), tcall(name, 0, None), tcall(name, 1, None), tcall(name, 0, 0x500), tcall(name, 0, None), "id", tcall(name, 1, None)]
        if all(seq):
            yield seq
    # every method with an optional result id, failing (no block selected) with an implicit and an explicit id
    for name in bg.emitting_methods():
        pn = [p for p, _ in bg.methods[name]["params"]]
        if "result_id" in pn and bg.sink_of(name) == "block":
            for ex in ("_", "4d"):
                c = bg.call(name, explicit_id=ex)
                if c:
                    yield ["id", c, "id", "type_void"]
                    yield ["begin_function 1 _ 0 3", "begin_block _", c, "id", "ret", "end_function"]
    others = ["id", "ext_inst 1 4d 2 3 []", "constant_bit32 1 5", "constant_bit32 1 5", "nop", "i_add 1 _ 2 3", "i_add 1 77 2 3", "begin_function 1 _ 0 3",
              "begin_block _", "ret", "end_function", "function_parameter 1", "variable 1 _ 7 _", "undef 1 _", "string S61",
              "ext_inst_import S61", "decoration_group", "load 1 _ 2 _ []", "ext_inst 1 _ 2 3 []", "constant_true 1", "spec_constant_bit64 1 ffffffffffff",
              "begin_block 88", "begin_function 1 99 0 3", "undef 1 66", "type_opaque S62", "constant_composite 1 [2,3]"]
    n = 40000 if tier == "thorough" else 5000
    for _ in range(n):
        k = rng.randrange(2, 30)
        seq = []
        for _ in range(k):
            if rng.random() < 0.55:
                name = rng.choice(tms)
                c = tcall(name, rng.randrange(0, 3), rng.choice([None, None, None, rng.randrange(0x400, 0x410)]))
                if c:
                    seq.append(c)
            else:
                seq.append(rng.choice(others))
        yield seq


def run(rep):
    rep.cov["rule"] = (
        "for every generated type method and type_pointer: implicit request twice, different operands, explicit id, "
        "implicit again; random histories (2-30 calls) mixing all type requests (implicit / explicit ids, recurring "
        "argument vectors) with id(), constants, block instructions that fail after reserving an id, explicit result "
        "ids, functions/blocks/parameters; ids returned, dedup decisions and the final header bound are checked "
        "against the id discipline; implementation vs extracted model; non-trivial = history with a dedup hit or >= 3 fresh ids"
    )
    p = regen.prepare(release=False)
    broken = list(p.broken)
    bf = getattr(p, "builder_failures", [])
    if bf:
        broken.insert(0, {"lemma": "rs2coq builder descriptor recogniser (T-src)", "error": "\n".join(bf[:20])})
    ok, info = pipeline.proof_stage(rep, PROP, broken)
    bad = []
    if p.exe:
        mexe, merr = corr.build_modelrun()
        g = sg.Grammar()
        rng = random.Random(rep.seed)
        lay = layout.Layout(g)
        bg = bldgen.BuilderGen(g, p.facts, rng)
        bg.lay = lay
        hs = list(histories(bg, rng, rep.tier))
        lines = ["bld " + " | ".join(h) for h in hs]
        files, err = streams.serve_both("c13", lines, p.exe, mexe)
        if files is None:
            ok, info = False, {"lemma": "correspondence run", "error": err}
        else:
            cases, impl, model = files
            n, nt, mism, samples = corr.diff(cases, impl, model, trivial=lambda c, i: i.count("id:") + i.count("ok:") < 3)
            rep.cov["evaluations"] = n
            rep.cov["distinct_nontrivial"] = nt
            rep.cov["samples"] = [{k: v[:300] for k, v in s.items()} for s in samples]
            if mexe is None and ok:
                ok, info = False, {"lemma": "modelrun build", "error": merr}
            if mism and ok:
                ok = False
                info = {"lemma": "correspondence stream c13 (implementation vs extracted builder model)", "error": json.dumps(mism[0])[:1500]}
            for h, got in zip(hs, streams.read_lines(impl)):
                w = bldspec.check_history(bg, lay, h, got)
                if w is None and " || M=" in got:
                    # implicit-only types => no two identical declarations
                    mtxt = got.split(" || M=")[1].split(" || ")[0]
                    tg = [x for x in mtxt.split(" ") if x.startswith("tg=")][0][3:]
                    if all("result_id" not in [p for p, _ in bg.methods[c.split(" ")[0]]["params"]] or
                           c.split(" ")[1 + [p for p, _ in bg.methods[c.split(" ")[0]]["params"]].index("result_id")] == "_" for c in h if c.split(" ")[0] in bg.methods and bg.sink_of(c.split(" ")[0]) == "dedup_type"):
                        decl = [(t.split("/")[0], t.split("/")[3]) for t in tg.split(";") if tg != "-" and lay.token(int(t.split("/")[0], 16)) == ("module", 10) and t.split("/")[1] == "-" and int(t.split("/")[0], 16) not in (0x2b, 0x32)]
                        tys = [d for d in decl if g.by_opcode[int(d[0], 16)]["name"].startswith("Type") and g.by_opcode[int(d[0], 16)]["name"] not in ("TypeOpaque", "TypeForwardPointer")]
                        if len(tys) != len(set(tys)):
                            w = "two identical type declarations although all types were requested implicitly"
                if w:
                    bad.append({"history": h, "observed": got[:500], "what": w})
            bad.sort(key=lambda b: len(" ".join(b["history"])))
    pipeline.conclude(rep, ok, info, bad, lambda b: "history [%s]: %s" % (" | ".join(b["history"])[:200], b["what"]), limit=3)


def replay(rep, path):
    print(open(path).read())
    run(rep)
    return rep.finish()
