"""The SPIR-V logical-layout specification the loader is checked against
(C05, C01): token classes per the reference opcode classes, the bracket
grammar, section placement, and the layout sort."""
import json
import os

VERIF = os.path.dirname(os.path.dirname(os.path.abspath(__file__)))

SECTION_NAMES = ["c", "e", "i", "mm", "ep", "em", "ds", "dn", "dp", "an", "tg"]


class Layout:
    def __init__(self, g):
        with open(os.path.join(VERIF, "ref", "opclass.json")) as f:
            cls = json.load(f)["classes"]
        self.g = g
        n = g.opnum
        self.section = {}
        for name, sec in (("Capability", 0), ("Extension", 1), ("ExtInstImport", 2), ("MemoryModel", 3),
                          ("EntryPoint", 4), ("ExecutionMode", 5), ("ExecutionModeId", 5),
                          ("String", 6), ("SourceExtension", 6), ("Source", 6), ("SourceContinued", 6),
                          ("Name", 7), ("MemberName", 7), ("ModuleProcessed", 8)):
            self.section[n[name]] = sec
        for x in cls["is_annotation"]:
            self.section[n[x]] = 9
        for x in cls["is_type"] + cls["is_constant"]:
            self.section[n[x]] = 10
        self.term = {n[x] for x in cls["is_block_terminator"]}
        self.line = {n[x] for x in cls["is_location_debug"]}
        self.varundef = {n["Variable"], n["Undef"]}
        self.FUNCTION, self.FUNCTION_END, self.PARAM, self.LABEL = n["Function"], n["FunctionEnd"], n["FunctionParameter"], n["Label"]

    def token(self, opc):
        if opc in self.section:
            return ("module", self.section[opc])
        if opc in self.line:
            return ("line", None)
        if opc in self.varundef:
            return ("varundef", None)
        if opc == self.FUNCTION:
            return ("function", None)
        if opc == self.FUNCTION_END:
            return ("function_end", None)
        if opc == self.PARAM:
            return ("parameter", None)
        if opc == self.LABEL:
            return ("label", None)
        if opc in self.term:
            return ("terminator", None)
        return ("block_inst", None)

    def load(self, insts):
        """insts: list of instruction texts. Returns ("OK", module dict) or ("ERR", name, index|'end')"""
        sec = {k: [] for k in SECTION_NAMES}
        fns = []
        fn = None
        blk = None
        for k, t in enumerate(insts):
            opc = int(t.split("/")[0], 16)
            tok, s = self.token(opc)
            if tok == "module":
                if s == 3:
                    sec["mm"] = [t]          # a second OpMemoryModel replaces the first (documented exclusion)
                else:
                    sec[SECTION_NAMES[s]].append(t)
            elif tok == "line":
                (blk["i"] if blk is not None else sec["tg"]).append(t)
            elif tok == "varundef":
                if fn is None:
                    sec["tg"].append(t)
                elif blk is None:
                    return ("ERR", "DetachedInstruction", k)
                else:
                    blk["i"].append(t)
            elif tok == "function":
                if fn is not None:
                    return ("ERR", "NestedFunction", k)
                fn = {"d": t, "e": None, "p": [], "B": []}
            elif tok == "function_end":
                if fn is None:
                    return ("ERR", "MismatchedFunctionEnd", k)
                if blk is not None:
                    return ("ERR", "UnclosedBlock", k)
                fn["e"] = t
                fns.append(fn)
                fn = None
            elif tok == "parameter":
                if fn is None:
                    return ("ERR", "DetachedFunctionParameter", k)
                fn["p"].append(t)
            elif tok == "label":
                if fn is None:
                    return ("ERR", "DetachedBlock", k)
                if blk is not None:
                    return ("ERR", "NestedBlock", k)
                blk = {"l": t, "i": []}
            elif tok == "terminator":
                if blk is None:
                    return ("ERR", "MismatchedTerminator", k)
                blk["i"].append(t)
                fn["B"].append(blk)
                blk = None
            else:
                if blk is None:
                    return ("ERR", "DetachedInstruction", k)
                blk["i"].append(t)
        if blk is not None:
            return ("ERR", "UnclosedBlock", "end")
        if fn is not None:
            return ("ERR", "UnclosedFunction", "end")
        return ("OK", {"sec": sec, "fns": fns})

    @staticmethod
    def module_text(mod, header="-"):
        j = lambda l: ";".join(l) if l else "-"
        parts = ["h=" + header]
        for k in SECTION_NAMES:
            parts.append("%s=%s" % (k, j(mod["sec"][k])))
        for f in mod["fns"]:
            fs = ["d=%s" % (f["d"] or "-"), "e=%s" % (f["e"] or "-"), "p=%s" % j(f["p"])]
            for b in f["B"]:
                fs.append("B{l=%s i=%s}" % (b["l"] or "-", j(b["i"])))
            parts.append("F{%s}" % " ".join(fs))
        return " ".join(parts)

    @staticmethod
    def flatten(mod):
        out = []
        for k in SECTION_NAMES:
            out += mod["sec"][k]
        for f in mod["fns"]:
            out += ([f["d"]] if f["d"] else []) + f["p"]
            for b in f["B"]:
                out += ([b["l"]] if b["l"] else []) + b["i"]
            out += [f["e"]] if f["e"] else []
        return out
