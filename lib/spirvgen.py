"""Grammar-directed generation of SPIR-V instructions in the canonical text
form, and the *specification* encoding (SPIR-V binary form) in Python.
Everything here reads the reference snapshot (ref/*.json), never the tree
under test."""
import json
import os
import random

VERIF = os.path.dirname(os.path.dirname(os.path.abspath(__file__)))
MAGIC = 0x07230203


def _load(name):
    with open(os.path.join(VERIF, "ref", name)) as f:
        return json.load(f)


class Grammar:
    def __init__(self):
        t = _load("table.json")
        sp = _load("spirv.json")
        pr = _load("params.json")
        self.kinds = t["kinds"]
        self.core = t["core"]
        self.enums = {e["name"]: e for e in sp["enums"]}
        self.flags = {f["name"]: f for f in sp["flags"]}
        self.opnum = {n: v for n, v in self.enums["Op"]["variants"]}
        self.by_opcode = {self.opnum[e["name"]]: e for e in self.core}
        self.args = {}
        for a in pr["args"]:
            self.args[a["type"]] = a
        self.arm = {a["kind"]: a for a in pr["arms"]}
        self.kidx = {k: i for i, k in enumerate(self.kinds)}

    def enum_values(self, ty):
        return [v for _, v in self.enums[ty]["variants"]]

    def flag_bits(self, ty):
        return [v for _, v in self.flags[ty]["consts"] if v != 0 and (v & (v - 1)) == 0]

    def flag_all(self, ty):
        a = 0
        for _, v in self.flags[ty]["consts"]:
            a |= v
        return a

    def params_of(self, ty, value):
        """parameter slots [(Variant, method)] of an enumerant / mask value, in grammar order"""
        a = self.args.get(ty)
        if not a:
            return []
        if a["form"] == "enum":
            names = {n: v for n, v in self.enums[ty]["variants"]}
            names.update({al: names[t] for al, t in self.enums[ty]["aliases"]})
            for r in a["rows"]:
                if names.get(r["value"]) == value:
                    return r["ops"]
            return []
        out = []
        bits = {n: v for n, v in self.flags[ty]["consts"]}
        for r in a["rows"]:
            f = bits[r["value"]]
            if value & f == f:
                out += r["ops"]
        return out


ID_TOK = {"IdRef": "R", "IdScope": "C", "IdMemorySemantics": "M"}


class Gen:
    """produces operand token lists for grammar entries"""

    def __init__(self, g, rng):
        self.g = g
        self.rng = rng
        self.next_id = 100

    def ident(self):
        r = self.rng
        c = r.random()
        if c < 0.05:
            return r.choice([0, 1, 0xFFFFFFFF, 0x7FFFFFFF, 0x10000])
        return r.randrange(1, 4000)

    def string(self, length=None):
        r = self.rng
        pool = ["a", "Z", "_", "0", " ", "é", "€", "𝄞", '"', "\\", "%", "\n"]
        n = r.choice([0, 1, 2, 3, 4, 5, 7, 8, 9]) if length is None else length
        s = "".join(r.choice(pool) for _ in range(n))
        return s.encode("utf-8")

    def slot_tokens(self, variant, value_pick=None):
        """tokens for one parameter slot by Operand variant"""
        g = self.g
        if variant in ID_TOK:
            return [ID_TOK[variant] + "%x" % self.ident()]
        if variant == "LiteralBit32":
            return ["L%x" % self.rng.choice([0, 1, 7, 0xFFFFFFFF, self.rng.randrange(1 << 32)])]
        if variant == "LiteralString":
            return ["S" + (self.string().hex() or "-")]
        if variant == "LiteralExtInstInteger":
            return ["X%x" % self.rng.randrange(200)]
        if variant in g.flags:
            v = self.rng.choice([0] + g.flag_bits(variant))
            return ["E%d.%x" % (g.kidx[variant], v)]
        if variant in g.enums:
            v = self.rng.choice(g.enum_values(variant))
            return ["E%d.%x" % (g.kidx[variant], v)]
        raise ValueError(variant)

    def kind_group(self, kind, ctx, value=None, opcode_for_spec=None):
        """one group of logical-operand kind `kind` (list of tokens)"""
        g = self.g
        r = self.rng
        if kind in ID_TOK:
            return [ID_TOK[kind] + "%x" % self.ident()]
        if kind in ("LiteralInteger", "LiteralFloat"):
            return ["L%x" % r.choice([0, 1, 2, 0xFFFFFFFF, r.randrange(1 << 32)])]
        if kind == "LiteralExtInstInteger":
            return ["X%x" % r.randrange(300)]
        if kind == "LiteralString":
            return ["S" + (self.string().hex() or "-")]
        if kind == "PairIdRefLiteralInteger":
            return ["R%x" % self.ident(), "L%x" % r.randrange(1 << 32)]
        if kind == "PairIdRefIdRef":
            return ["R%x" % self.ident(), "R%x" % self.ident()]
        if kind == "LiteralContextDependentNumber":
            return [self.literal(ctx.get("width", 32))]
        if kind == "PairLiteralIntegerIdRef":
            return [self.literal(ctx.get("width", 32)), "R%x" % self.ident()]
        if kind == "LiteralSpecConstantOpInteger":
            cands = [e for e in g.core if not any(k in ("LiteralContextDependentNumber", "PairLiteralIntegerIdRef", "LiteralSpecConstantOpInteger") for k, _ in e["operands"])]
            e = opcode_for_spec or r.choice(cands)
            toks = ["P%x" % g.opnum[e["name"]]]
            toks += self.operand_tokens([o for o in e["operands"] if o[0] not in ("IdResultType", "IdResult")], ctx, r.choice(["min", "all", "rand"]))
            return toks
        if kind in g.flags:
            if value is None:
                bits = g.flag_bits(kind)
                c = r.random()
                if c < 0.3:
                    value = 0
                elif c < 0.6:
                    value = r.choice(bits)
                elif c < 0.7:
                    value = g.flag_all(kind)
                else:
                    value = 0
                    for b in bits:
                        if r.random() < 0.35:
                            value |= b
            toks = ["E%d.%x" % (g.kidx[kind], value)]
            for variant, _ in g.params_of(kind, value):
                toks += self.slot_tokens(variant)
            return toks
        if kind in g.enums:
            if value is None:
                value = r.choice(g.enum_values(kind))
            toks = ["E%d.%x" % (g.kidx[kind], value)]
            for variant, _ in g.params_of(kind, value):
                toks += self.slot_tokens(variant)
            return toks
        raise ValueError(kind)

    def literal(self, width):
        r = self.rng
        if width == 64:
            return "Q%x" % r.choice([0, 1, 0xFFFFFFFF, 1 << 32, (1 << 64) - 1, r.randrange(1 << 64)])
        return "L%x" % r.choice([0, 1, 0xFFFFFFFF, 0x80000000, r.randrange(1 << 32)])

    def operand_tokens(self, operands, ctx, mode, force=None):
        """tokens for a logical operand list (without result type / id).
        mode: min | all | rand | many ; force: {(index): value} to pin an enum/mask value"""
        toks = []
        stop = False
        for idx, (kind, quant) in enumerate(operands):
            if kind in ("IdResultType", "IdResult"):
                continue
            val = force.get(idx) if force else None
            if quant == "One":
                toks += self.kind_group(kind, ctx, val)
            elif quant == "ZeroOrOne":
                if stop:
                    continue
                take = mode in ("all", "many") or (mode == "rand" and self.rng.random() < 0.5) or val is not None
                if take:
                    toks += self.kind_group(kind, ctx, val)
                else:
                    stop = True
            else:
                if stop:
                    continue
                n = {"min": 0, "all": 1, "many": 3}.get(mode, self.rng.choice([0, 1, 2, 4]))
                for _ in range(n):
                    toks += self.kind_group(kind, ctx, val)
        return toks

    def instruction(self, entry, ctx, mode="rand", force=None):
        g = self.g
        ops = entry["operands"]
        rt = rid = "-"
        if any(k == "IdResultType" for k, _ in ops):
            rt = "%x" % ctx.get("rtype", self.ident())
        if any(k == "IdResult" for k, _ in ops):
            rid = "%x" % ctx.get("rid", self.fresh())
        toks = self.operand_tokens(ops, ctx, mode, force)
        return "%x/%s/%s/%s" % (g.opnum[entry["name"]], rt, rid, ",".join(toks) if toks else "-")

    def fresh(self):
        self.next_id += 1
        return self.next_id


# ------------------------------------------------------------------ spec encoding
def str_words(b):
    out = []
    b = b + b"\0"
    while len(b) % 4:
        b += b"\0"
    for i in range(0, len(b), 4):
        out.append(int.from_bytes(b[i:i + 4], "little"))
    return out


def operand_words(tok):
    c, r = tok[0], tok[1:]
    if c in "RCMLXP":
        return [int(r, 16)]
    if c == "Q":
        v = int(r, 16)
        return [v & 0xFFFFFFFF, v >> 32]
    if c == "E":
        return [int(r.split(".")[1], 16)]
    if c == "S":
        return str_words(bytes.fromhex(r) if r != "-" else b"")
    raise ValueError(tok)


def spec_encode(text):
    op, rt, rid, ops = text.split("/")
    body = []
    if rt != "-":
        body.append(int(rt, 16))
    if rid != "-":
        body.append(int(rid, 16))
    if ops != "-":
        for t in ops.split(","):
            body += operand_words(t)
    return [((len(body) + 1) << 16) | int(op, 16)] + body


def header_words(bound=1000, version=0x00010600, generator=0, reserved=0, magic=MAGIC):
    return [magic, version, generator, bound, reserved]


def words_hex(ws):
    return "".join(w.to_bytes(4, "little").hex() for w in ws) or "-"


def header_text(bound=1000, version=0x00010600):
    return "%x.%x.%x.%x.%x" % (MAGIC, version & 0x00FFFF00, 0x000F0000, bound, 0)
