"""Runs case files through the harness `serve` command and the extracted model."""
import os
import core
import corr
from core import CACHE


def serve_both(name, lines, exe, mexe):
    cases = os.path.join(CACHE, name + ".cases")
    impl = os.path.join(CACHE, name + ".impl")
    model = os.path.join(CACHE, name + ".model")
    with open(cases, "w") as f:
        for l in lines:
            f.write(l + "\n")
    rc, out, _ = core.run([exe, "serve", cases, impl], timeout=3000)
    if rc != 0:
        return None, "harness serve failed: " + out[-1500:]
    if mexe:
        rc, err = corr.run_model(mexe, cases, model)
        if rc != 0:
            return None, "modelrun failed: " + err
    return (cases, impl, model), ""


def read_lines(path):
    with open(path) as f:
        return [l.rstrip("\n") for l in f]
