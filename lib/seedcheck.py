#!/usr/bin/env python3
"""Confirms a seeded change produced by a sub-agent and runs our checks on it.
usage: seedcheck.py <agent_dir e.g. /tmp/mut/C08> <k> <seed-id> [props...]
 1. scratch worktree at /repo HEAD: demo passes, suite passes
 2. with patch: compiles, suite passes, demo FAILS
 3. copies patch/demo/meta to /verif/seeded/<seed-id>/
 4. applies the patch to /repo, runs ./check for the given properties, undoes it
"""
import json
import os
import shutil
import subprocess
import sys

VERIF = os.path.dirname(os.path.dirname(os.path.abspath(__file__)))


def sh(cmd, cwd=None, timeout=1800):
    p = subprocess.run(cmd, cwd=cwd, shell=True, stdout=subprocess.PIPE, stderr=subprocess.STDOUT, text=True, timeout=timeout,
                       env={**os.environ, "CARGO_NET_OFFLINE": "true"})
    return p.returncode, p.stdout


def main():
    adir, k, sid = sys.argv[1], sys.argv[2], sys.argv[3]
    props = sys.argv[4:]
    out = os.path.join(adir, "_out", k)
    patch = os.path.join(out, "patch.diff")
    demo = os.path.join(out, "demo_test.rs")
    meta = json.load(open(os.path.join(out, "meta.json")))
    wt = adir
    head = sh("git -C /repo rev-parse HEAD")[1].strip()
    sh("git checkout -q --detach %s && git checkout -- . && git clean -fdq rspirv/tests" % head, cwd=wt)
    tgt = "CARGO_TARGET_DIR=%s/target" % wt
    ran = []
    shutil.copy(demo, os.path.join(wt, "rspirv/tests/demo_test.rs"))
    rc, o = sh("%s cargo test --offline -p rspirv --test demo_test 2>&1 | tail -15" % tgt, cwd=wt)
    demo_head_ok = "test result: ok" in o
    ran.append("HEAD: demo %s" % ("passes" if demo_head_ok else "FAILS"))
    rc, o = sh("git apply %s" % patch, cwd=wt)
    if rc != 0:
        print("PATCH DOES NOT APPLY on current HEAD:", o)
        ran.append("patch does not apply")
        applies = False
    else:
        applies = True
    suite_ok = demo_fails = False
    if applies:
        os.remove(os.path.join(wt, "rspirv/tests/demo_test.rs"))
        rc, o = sh("%s cargo test --workspace --no-fail-fast --offline 2>&1 | grep -E '^test result|FAILED|^error' " % tgt, cwd=wt)
        suite_ok = ("FAILED" not in o) and ("error" not in o) and o.count("test result: ok") >= 3
        ran.append("patched: suite %s" % ("passes" if suite_ok else "FAILS: " + o[-300:]))
        shutil.copy(demo, os.path.join(wt, "rspirv/tests/demo_test.rs"))
        rc, o = sh("%s cargo test --offline -p rspirv --test demo_test 2>&1 | tail -15" % tgt, cwd=wt)
        demo_fails = "test result: FAILED" in o or "panicked" in o
        ran.append("patched: demo %s" % ("fails (as required)" if demo_fails else "PASSES"))
    sh("git checkout -- . && git clean -fdq rspirv/tests", cwd=wt)
    confirmed = applies and demo_head_ok and suite_ok and demo_fails
    print("confirmed" if confirmed else "NOT CONFIRMED", ran)
    results = {}
    if confirmed:
        sdir = os.path.join(VERIF, "seeded", sid)
        os.makedirs(sdir, exist_ok=True)
        shutil.copy(patch, sdir)
        shutil.copy(demo, sdir)
        # run our checks on /repo with the patch
        rc, o = sh("git -C /repo status --porcelain --untracked-files=no")
        assert o.strip() == "", "repo not clean: " + o
        rc, o = sh("git -C /repo apply %s" % patch)
        # evidence written while a seeded change is applied must not replace the clean tree's records
        keep = os.path.join(VERIF, ".cache", "evidence_keep")
        shutil.rmtree(keep, ignore_errors=True)
        shutil.copytree(os.path.join(VERIF, "evidence"), keep)
        try:
            for p in props:
                rc, o = sh("./check %s --tier quick" % p, cwd=VERIF, timeout=3000)
                viol = [l for l in o.splitlines() if l.startswith("VIOLATION") or l.startswith("[check]   ->")]
                results[p] = {"exit": rc, "lines": viol[:6]}
                print(p, "exit", rc, *viol[:4], sep="\n   ")
        finally:
            sh("git -C /repo checkout -- .")
            shutil.rmtree(os.path.join(VERIF, "evidence"), ignore_errors=True)
            shutil.copytree(keep, os.path.join(VERIF, "evidence"))
            shutil.rmtree(keep, ignore_errors=True)
        meta2 = dict(meta)
        meta2.update({"seed_id": sid, "base_commit": head, "confirmed": ran, "checks": results,
                      "caught_by": [p for p, r in results.items() if r["exit"] == 1]})
        json.dump(meta2, open(os.path.join(sdir, "meta.json"), "w"), indent=1)
    return 0 if confirmed else 1


if __name__ == "__main__":
    sys.exit(main())
