#!/usr/bin/env python3
"""Prints the markdown table of seeded changes (seeded/*/meta.json) for DESIGN.md."""
import glob, json, os
V = os.path.dirname(os.path.dirname(os.path.abspath(__file__)))
print("| seed | target | change (one line) | checks run | caught by | first report |")
print("|------|--------|-------------------|-----------|-----------|--------------|")
for d in sorted(glob.glob(os.path.join(V, "seeded", "*"))):
    mp = os.path.join(d, "meta.json")
    if not os.path.exists(mp):
        continue
    m = json.load(open(mp))
    checks = m.get("checks", {})
    first = ""
    for p, r in checks.items():
        if r.get("exit") == 1 and r.get("lines"):
            first = [l for l in r["lines"] if "->" in l][:1]
            first = (first[0].split("->", 1)[1].strip() if first else r["lines"][0])[:110].replace("|", "/")
            break
    print("| %s | %s | %s | %s | %s | %s |" % (
        os.path.basename(d), m.get("property", ""), m.get("summary", "")[:150].replace("|", "/").replace("\n", " "),
        " ".join(checks.keys()), " ".join(m.get("caught_by", [])) or "**none**", first))
