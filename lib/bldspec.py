"""Specification simulation of Builder histories (C12/C13/C06 text) on the
implementation's answers."""
import builderdesc


class Sim:
    def __init__(self, bg, lay):
        self.bg = bg
        self.lay = lay
        self.fns = []          # block counts per function; blocks: list of [closed?]
        self.sel_fn = None
        self.sel_blk = None
        self.fresh = []        # fresh ids handed out, in order
        self.maybe_reserved = 0
        self.types = []        # (key, id) of type declarations in insertion order
        self.explicit_ids = set()
        self.first = 1         # first fresh id (the header bound when continuing a module)
        self.fn_ids = []       # result id of each function's definition
        self.names = []        # (target id, name string) of OpName instructions in order
        self.ret_blocks = {}   # (function, block) -> last instruction is OpReturn / OpReturnValue

    def category(self, name):
        if name in ("begin_function", "end_function", "function_parameter", "begin_block", "begin_block_no_label",
                    "select_function", "select_block", "pop_instruction", "id", "set_version",
                    "find_return_block_indices", "select_function_by_name"):
            return name
        op = self.bg.method_opcode(name)
        if op is None:
            return None
        tok, sec = self.lay.token(self.bg.g.opnum[op])
        if tok == "module":
            d = self.bg.res.get(name)
            if sec == 10 and name.startswith("type_") and name not in ("type_forward_pointer", "type_opaque"):
                return "type"
            return "section"
        return {"terminator": "terminator", "varundef": "var", "line": "line", "block_inst": "block"}.get(tok)

    def has_result(self, name):
        op = self.bg.method_opcode(name)
        e = next(x for x in self.bg.g.core if x["name"] == op)
        return any(k == "IdResult" for k, _ in e["operands"])

    def step(self, call, ans):
        """returns an error text if the answer contradicts the property, else None"""
        toks = call.split(" ")
        name, args = toks[0], toks[1:]
        if ans == "PANIC":
            return "call `%s` panicked" % call
        if name == "new_from_module":
            self.first = int(args[0], 16)
            return None
        same = None
        if ",same=" in ans:
            ans, _, sm = ans.rpartition(",same=")
            same = sm
        parts = ans.rsplit(",", 2)
        if same is not None:
            parts.append("same=" + same)
        res = parts[0]
        cat = self.category(name)
        m = self.bg.methods.get(name)
        pnames = [p for p, _ in m["params"]] if m else []
        explicit = None
        if "result_id" in pnames:
            a = args[pnames.index("result_id")]
            explicit = None if a == "_" else int(a, 16)
        if name == "begin_function" and args[1] != "_":
            explicit = int(args[1], 16)
        if name in ("begin_block", "begin_block_no_label") and args[0] != "_":
            explicit = int(args[0], 16)
        want_err = None
        fo, bo = self.sel_fn is not None, self.sel_blk is not None
        point_ok = True
        if cat == "begin_function":
            want_err = "NestedFunction" if fo else None
        elif cat in ("begin_block", "begin_block_no_label"):
            want_err = "DetachedBlock" if not fo else ("NestedBlock" if bo else None)
        elif cat == "end_function":
            want_err = None if fo else "MismatchedFunctionEnd"
        elif cat == "function_parameter":
            want_err = None if fo else "DetachedFunctionParameter"
        elif cat == "block":
            want_err = None if bo else "DetachedInstruction"
        elif cat == "terminator":
            want_err = None if bo else "MismatchedTerminator"
        elif cat == "select_function":
            if args[0] != "_" and int(args[0]) >= len(self.fns):
                want_err = "FunctionNotFound"
        elif cat == "select_block":
            if args[0] != "_":
                if not fo:
                    want_err = "DetachedBlock"
                elif int(args[0]) >= len(self.fns[self.sel_fn]):
                    want_err = "BlockNotFound"
        elif cat == "select_function_by_name":
            want_by_name = None
            for tgt, nm in self.names:
                if nm == args[0] and tgt in self.fn_ids:
                    want_by_name = self.fn_ids.index(tgt)
                    break
            if want_by_name is None:
                want_err = "FunctionNotFound"
        elif cat == "pop_instruction":
            if not (fo and bo):
                want_err = "DetachedInstruction"
            elif self.fns[self.sel_fn][self.sel_blk] == 0:
                want_err = "EmptyInstructionList"
        got_err = res[4:] if res.startswith("err:") else None
        if want_err != got_err:
            return "call `%s` with function %s / block %s selected answered %s, the structure rules demand %s" % (
                call, self.sel_fn, self.sel_blk, res, ("err:" + want_err) if want_err else "success")
        if got_err is not None:
            if "same=1" not in parts:
                return "failed call `%s` changed the instructions of the module under construction" % call
            # a failing call may have reserved an id first
            self.maybe_reserved += 1
        # ---- successful call: ids
        val = None
        if res.startswith("ok:") or res.startswith("id:"):
            val = int(res[3:], 16)
        if got_err is None:
            is_fresh = False
            if cat == "type":
                key = (self.bg.method_opcode(name), tuple(a for p, a in zip(pnames, args) if p != "result_id"))
                if explicit is not None:
                    if val != explicit:
                        return "type request `%s` with an explicit id returned %x" % (call, val)
                    self.types.append((key, explicit))
                else:
                    prev = next((i for k, i in self.types if k == key), None)
                    if prev is not None:
                        if val != prev:
                            return "implicit type request `%s` returned %x, an identical declaration already has id %x" % (call, val, prev)
                    else:
                        is_fresh = True
                        self.types.append((key, val))
            elif cat in ("begin_function", "begin_block", "begin_block_no_label"):
                is_fresh = explicit is None
                if explicit is not None and val != explicit:
                    return "`%s` returned %x instead of the explicit id" % (call, val)
            elif cat == "function_parameter" or cat == "id":
                is_fresh = True
            elif val is not None:
                if explicit is not None:
                    if val != explicit:
                        return "`%s` returned %x instead of the explicit id" % (call, val)
                else:
                    is_fresh = True
            if is_fresh:
                if val is None:
                    return "`%s` should return a fresh id" % call
                lo = (self.fresh[-1] + 1) if self.fresh else self.first
                if not (lo <= val <= lo + self.maybe_reserved):
                    return "fresh id %x returned by `%s` is not the next id (expected %x%s)" % (val, call, lo, ("..%x" % (lo + self.maybe_reserved)) if self.maybe_reserved else "")
                self.maybe_reserved -= (val - lo)
                self.fresh.append(val)
            # ---- selection effects
            if name == "name" and len(args) >= 2:
                self.names.append((int(args[0], 16), args[1]))
            if cat == "find_return_block_indices":
                want_l = []
                if self.sel_fn is not None:
                    want_l = [str(b) for b in range(len(self.fns[self.sel_fn])) if self.ret_blocks.get((self.sel_fn, b)) is True]
                unknown = self.sel_fn is not None and any(self.ret_blocks.get((self.sel_fn, b)) == "?" for b in range(len(self.fns[self.sel_fn])))
                if not unknown and res != "list:" + ".".join(want_l):
                    return "find_return_block_indices answered %s, the blocks of the selected function ending in a return are %s" % (res, want_l)
            elif cat == "select_function_by_name":
                self.sel_fn = want_by_name
                self.sel_blk = None
            if cat in ("block", "terminator", "pop_instruction") or (cat in ("var", "line") and fo and bo):
                # what the selected block ends with after this call (insertions at other points are not tracked: unknown)
                key = (self.sel_fn, self.sel_blk)
                pt = [a for a in args if a in ("end", "begin") or a.startswith("fe") or a.startswith("fb")]
                if cat == "pop_instruction" or (name.startswith("insert_") and pt and pt[0] != "end"):
                    self.ret_blocks[key] = "?"
                else:
                    self.ret_blocks[key] = name.replace("insert_", "") in ("ret", "ret_value")
            if cat == "begin_function":
                self.fn_ids.append(val)
                self.fns.append([])
                self.sel_fn = len(self.fns) - 1
                self.sel_blk = None if True else self.sel_blk
            elif cat == "end_function":
                self.sel_fn = None
                self.sel_blk = None
            elif cat in ("begin_block", "begin_block_no_label"):
                self.fns[self.sel_fn].append(0)
                self.sel_blk = len(self.fns[self.sel_fn]) - 1
            elif cat == "block" or (cat in ("var", "line") and fo and bo):
                self.fns[self.sel_fn][self.sel_blk] += 1
            elif cat == "terminator":
                self.fns[self.sel_fn][self.sel_blk] += 1
                self.sel_blk = None
            elif cat == "select_function":
                self.sel_fn = None if args[0] == "_" else int(args[0])
                # the property only demands that the selection designates an existing block or nothing
                keep = parts[2]
                if self.sel_fn is not None and keep != "-" and keep.isdigit() and int(keep) < len(self.fns[self.sel_fn]) and self.sel_blk == int(keep):
                    pass
                else:
                    self.sel_blk = None
            elif cat == "select_block":
                self.sel_blk = None if args[0] == "_" else int(args[0])
            elif cat == "pop_instruction":
                self.fns[self.sel_fn][self.sel_blk] -= 1
        sel = (parts[1], parts[2])
        want = ("-" if self.sel_fn is None else str(self.sel_fn), "-" if self.sel_blk is None else str(self.sel_blk))
        if sel != want:
            return "after `%s` the selection is function %s / block %s, expected %s / %s" % (call, sel[0], sel[1], want[0], want[1])
        if self.sel_fn is not None and self.sel_fn >= len(self.fns):
            return "selected function %d does not exist" % self.sel_fn
        if self.sel_blk is not None and (self.sel_fn is None or self.sel_blk >= len(self.fns[self.sel_fn])):
            return "selected block %s does not exist in the selected function" % self.sel_blk
        return None

    def check_bound(self, module_text):
        h = module_text.split(" ")[0]
        bound = int(h.split(".")[3], 16)
        lo = (self.fresh[-1] + 1) if self.fresh else self.first
        if not (lo <= bound <= lo + self.maybe_reserved):
            return "header bound %x is not the next id to allocate (%x)" % (bound, lo)
        return None


def check_history(bg, lay, calls, answer):
    """calls: list of call texts; answer: the implementation's line"""
    if answer == "BADCALL":
        return "the harness could not perform the history (method missing or signature changed)"
    head, sep, tail = answer.partition(" || ")
    answers = head.split(" ") if head else []
    sim = Sim(bg, lay)
    for k, c in enumerate(calls):
        if k >= len(answers):
            return "no answer for call %d" % k
        w = sim.step(c, answers[k])
        if w:
            return w
    if tail.startswith("PANIC"):
        return "module()/assemble/load panicked"
    m = tail.split(" || ")
    if m and m[0].startswith("M="):
        w = sim.check_bound(m[0][2:])
        if w:
            return w
    return None
