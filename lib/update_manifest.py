#!/usr/bin/env python3
"""Rewrites the level texts / techniques of MANIFEST.json from the table below (kept in one place
so that the manifest says what the Coq development currently proves)."""
import json, os
V = os.path.dirname(os.path.dirname(os.path.abspath(__file__)))
TIE = (" Tie to the source, checked on every run: generated/table code is translated by rs2coq (any unrecognised shape = broken obligation) "
       "and cross-checked in Coq against dumps of the compiled crate; the hand-written engine is tied by running the extracted model and the "
       "implementation on the same generated cases (correspondence), with a spec-driven search for a concrete failing input when anything breaks.")
T = {
 "C01": ("Rocq/Coq: unbounded theorems (loader = layout spec; permutation / subsequence / identity / reload) + extracted-model correspondence",
   "Proved for every byte string / instruction list (Proofs/LayoutFacts, LoadBytesFacts, EndToEndFacts): loading files every instruction exactly once "
   "(Permutation, given at most one OpMemoryModel; necessity shown), relative order inside every section/function/block is preserved (subsequences), an input "
   "already in layout order is reproduced identically (all_insts m = input list, hence assemble = header' ++ the same instruction encodings, each of the "
   "length it had in the input and parsing back to itself), reload of the assembled output gives the same module when literal widths are order-stable "
   "(reload_refuted: witness for known finding F14 otherwise). The real loader arms (translated from dr/loader.rs each run) are proved equal to the layout "
   "specification by a kernel-computed check over all 787 opcodes."),
 "C02": ("Rocq/Coq: unbounded round-trip theorems over source-translated grammar data + extracted-model correspondence",
   "Proved for EVERY grammar-conforming instruction (Spec/Conforms, Proofs/CodecFacts): first word = count<<16|opcode with the count equal to the words "
   "emitted; body = result type, result id, operands in order in the prescribed encodings; parse_inst (assemble i) = i consuming exactly those words (any "
   "opcode, operand count, string length, 32/64-bit literals by tracked type, nested OpSpecConstantOp); conversely everything the parser accepts conforms and "
   "re-assembles to something that parses back to itself. The grammar data G is translated from the source on each run, proved equal to the reference "
   "snapshot, and wf_gdata G is computed by the kernel."),
 "C03": ("Rocq/Coq: unbounded acceptance/error theorems over source-translated grammar data + correspondence on a fault enumeration",
   "Proved for every byte string (Proofs/ErrorFacts, CodecFacts, ProtocolFacts): exhaustive header classification (incomplete / wrong magic / swapped); an "
   "instruction is accepted iff it conforms to its opcode's grammar (soundness + completeness) and consumes exactly its declared word count; every rejection is "
   "one of the named fault kinds carrying the instruction's 1-based number and an offset inside its declared extent; at stream level the consumer receives the "
   "header and exactly the instructions before the first malformed one, in order, and the parse returns that instruction's error; acceptance iff the stream "
   "splits exactly into accepted instructions (<4 trailing bytes ignored, as the source does)."),
 "C04": ("Rocq/Coq: unbounded no-panic / in-buffer theorems + audited panic-site obligation + fault enumeration under catch_unwind",
   "Proved for every byte string, consumer and decoder request history (Proofs/NoPanicFacts, DecoderFacts, LoadBytesFacts): with the kernel-computed "
   "well-formedness of the translated grammar data, no Panic site of the parser model (index, unwrap/expect, assert, unreachable arm, fuel) is reachable, "
   "every read stays inside the buffer, at most len/4 callbacks; the loader consumer never panics; decoder requests keep the buffer invariant; a loaded module never reaches the disassembler's panics. Panic sites of "
   "the anchored files are re-extracted from the source each run and must be among the audited ones. Memory safety of unsafe code and the assemble/"
   "disassemble half are exercised under catch_unwind (debug+release), not proved (partial)."),
 "C05": ("Rocq/Coq: unbounded theorems (interpreter over source-translated loader arms = layout spec; bracket automaton <-> inductive grammar) + correspondence",
   "Proved for every instruction sequence and every byte string (Proofs/LoaderFacts, LoadBytesFacts; Spec/Layout, Spec/LayoutClass): the loader arms "
   "translated from dr/loader.rs carry for every opcode exactly the checks and effect the logical layout prescribes (kernel-computed, 787 opcodes x 2 states); "
   "loading succeeds iff the token sequence is in the inductive well-bracketed grammar WB; otherwise the error is that of the first offending instruction (or "
   "the unclosed block/function at the end); never panics; on success every function has def and end, every block a label and exactly one final terminator; "
   "section contents are exactly the layout placement (variables/undefs global iff no function open); from bytes: accepted iff the stream is complete and WB."),
 "C06": ("Rocq/Coq: builder/loader composition theorems + extracted builder+parser+loader model correspondence per method",
   "Proved (Proofs/BuildLoadFacts, BuildConformsFacts, BuilderFacts, BuilderIds): for every complete history of appending calls the built module is "
   "well-classified, hence feeding its instruction sequence to the loader returns exactly the same module; each descriptor-driven method emits an instruction "
   "of its opcode carrying the call's arguments in grammar order that conforms to the grammar (descriptor-vs-grammar match computed by the kernel for the "
   "descriptors translated from the source; 11 exceptions named, incl. F18); and the whole statement (Proofs/BuildRoundTripFacts): the assembled bytes of "
   "such a module load back to exactly the built module and header, given that the emitted stream conforms with layout-order literal widths - implied by "
   "per-call argument conformance for histories without OpConstant/OpSpecConstant/OpSwitch; a counterexample shows the width condition is needed. "
   "Correspondence runs every instruction-emitting method through build/assemble/load in implementation and model. Known finding F18."),
 "C07": ("Rocq/Coq: token-level disassembly model with read-back theorem + vocabulary obligations + read-back of the real text",
   "Coq: vocabulary translated from the source equals the reference and is injective per kind; token-level model of Module::disassemble (one line per "
   "instruction in assembly order, line shape, typed constants, extended-instruction names) with read-back/unambiguity theorems for conforming "
   "instructions (Proofs/DisasmFacts); the lexical layer (digits, float text, escaping) is checked by reading the real text back with an independent reader."),
 "C10": ("Rocq/Coq: unbounded tracker/width theorems + extracted-model correspondence over exhaustive short histories",
   "Proved for every instruction history and decoder state (Proofs/TrackerFacts): the tracker the parser computes equals the specified environment (latest "
   "declaration / propagation from the result type wins); the literal width is 1 word for int 8/16/32, float 16/32 and unknown types, 2 words low-first for 64, "
   "an unsupported-type error with nothing consumed otherwise; the assembler emits the same number of words; OpSwitch uses the selector's type; a parse starts "
   "from the empty tracker and instruction k+1 is parsed under the environment of the first k."),
 "C12": ("Rocq/Coq: unbounded builder invariants over all call sequences and all descriptor lists + exhaustive small-scope history correspondence",
   "Proved for every descriptor list, reachable state and call (Proofs/BuilderFacts): the selection always designates an existing function/block or nothing; "
   "a call panics only by exhausting the id counter or an insertion offset beyond the block; a failed call leaves module, selection and header unchanged; "
   "begin/end function/block, parameter, block-instruction and terminator rules exactly as the property states them (failure iff, error kind, effect)."),
 "C13": ("Rocq/Coq: unbounded id-discipline and dedup theorems + history correspondence",
   "Proved for every descriptor list and call sequence (Proofs/BuilderIds): one id per call, allocated ids consecutive from 1 (new) or the header bound "
   "(continuing), strictly increasing and distinct; finished bound = next id > every allocated id; returned ids are the allocated ones and are carried by the "
   "emitted instruction; implicit type request returns the first identical declaration's id and adds nothing, else appends exactly one fresh declaration; "
   "explicit id always appends; all-implicit modules never contain two identical declarations and share ids only between identical requests."),
 "C14": ("Rocq/Coq: unbounded protocol theorems for an arbitrary consumer + extracted-model correspondence over all callback positions",
   "Proved for every grammar, consumer state machine and byte string (Proofs/ProtocolFacts): logging is transparent; callbacks occur as initialize, header, "
   "one per instruction in stream order, finalize, each at most once; a stop/error answer ends the parse at once with the corresponding result and no further "
   "callback; finalize only if everything was parsed without error; a parse error never finalizes; the loader yields a module only for complete parses."),
 "C20": ("Rocq/Coq: the CLI as a function with total-behaviour theorem + binary-vs-library differential run",
   "Proved for every byte string (Proofs/DisSafeFacts): dis_main (load_bytes, then Module::disassemble or the error message) always returns exit status 0 "
   "and never the panic outcome; it prints exactly the library disassembly of the loaded module (one token line per instruction) iff the load succeeds and "
   "the loading error otherwise; loaded modules never reach the disassembler's index panics or debug assertion. The real rspirv-dis binary is run on "
   "generated, corrupted, truncated (incl. non-word-aligned) and random files and compared byte for byte with the library result; the token-level "
   "disassembly model is compared with the real text in C07. Process-level plumbing (stdout, exit code) is observed, not proved."),
 "C17": ("Rocq/Coq: reflection functions translated from the source with theorems for every value + T-dump cross-check + exhaustive mask enumeration",
   "The bodies of additional_operands / required_capabilities / required_extensions / id_ref_any(_mut) are translated from dr/autogen_operand.rs on every "
   "run (exact templates; any other shape is a broken obligation) and interpreted by a Coq model (Model/OperandReflect). Proved for EVERY value v "
   "(Proofs/OperandReflectFacts): the extra operands a mask reports are, as a multiset, the union over its set declared bits, and a permutation of the kinds "
   "the parser consumes after v (equal sequences for enumerants); required capabilities / extensions are exactly the union over the set bits (resp. the "
   "row of the enumerant) of the reference grammar's lists; an operand reports an id iff it is one of the three id kinds and rewriting it changes exactly "
   "that word of the assembled instruction. The translated model is cross-checked in Coq against a dump of the compiled functions on every enumerant and "
   "every mask constant; all bit combinations are additionally enumerated dynamically. Known finding F20."),
 "C18": ("Rocq/Coq: executable lift model over source-translated arms with structure theorems + differential check of the real lifter",
   "Coq model of LiftContext::convert interpreting the lift arms translated from autogen_context.rs (Model/Lift, Proofs/LiftFacts): on the subset lifting "
   "succeeds, preserves version/capabilities/memory model, yields one type/constant/op per declaration in order with operands carried positionally and "
   "type/constant ids replaced by declaration indices; functions keep control, result type, block count, terminators, phi arguments. The real lifter's "
   "Debug output is compared field by field."),
}
m = json.load(open(os.path.join(V, "MANIFEST.json")))
import sys
only = set(sys.argv[1:])
for c in m["checks"]:
    p = c["property_id"]
    if p in T and (not only or p in only):
        c["technique"] = T[p][0]
        c["level_claimed"]["text"] = T[p][1] + TIE
m["notes"] = ("All 20 properties are claimed at level proof. Unbounded theorems (induction over inputs/histories, closed under the global context, no axioms) "
              "cover C01-C05, C08-C16, C19 and the structural parts of C06, C07, C17, C18; C04 (memory safety), C07/C18 (lexical layer / Debug text), C20 "
              "(process level) are partial as described in DESIGN.md 9.7. Known findings: F14 (C01), F18 (C06), F20 (C17).")
json.dump(m, open(os.path.join(V, "MANIFEST.json"), "w"), indent=1)
print("updated", sorted(only) if only else sorted(T))
