"""Canonical text of the real lifter's Debug output (harness `lift`), in the syntax the model driver
prints (ocaml/driver.ml do_lift), using the lift arms (facts.json) to know each field's kind and the
reference grammar for enumerant / mask names."""
import struct


class P:
    """recursive-descent parser of Rust Debug text -> trees:
    ('id', name) | ('num', text) | ('str', bytes) | ('call', name, [args]) | ('struct', name, [(field, v)]) |
    ('list', [..]) | ('tuple', [..]) | ('flags', name, [names] | number)"""

    def __init__(self, s):
        self.s = s
        self.i = 0

    def ws(self):
        while self.i < len(self.s) and self.s[self.i] == " ":
            self.i += 1

    def peek(self):
        self.ws()
        return self.s[self.i] if self.i < len(self.s) else ""

    def eat(self, c):
        self.ws()
        assert self.s.startswith(c, self.i), (c, self.s[self.i:self.i + 40])
        self.i += len(c)

    def ident(self):
        self.ws()
        j = self.i
        while j < len(self.s) and (self.s[j].isalnum() or self.s[j] == "_"):
            j += 1
        r = self.s[self.i:j]
        self.i = j
        return r

    def value(self):
        c = self.peek()
        if c == "[":
            self.eat("[")
            return ("list", self.seq("]"))
        if c == "(":
            self.eat("(")
            return ("tuple", self.seq(")"))
        if c == '"':
            j = self.i + 1
            while self.s[j] != '"':
                j += 2 if self.s[j] == "\\" else 1
            q = self.s[self.i:j + 1]
            self.i = j + 1
            import distok
            return ("str", distok.unescape_rust(q))
        if c == "-" or c.isdigit():
            j = self.i + 1
            while j < len(self.s) and (self.s[j].isalnum() or self.s[j] in ".-+"):
                if self.s[j] in "-+" and self.s[j - 1] not in "eE":
                    break
                j += 1
            r = self.s[self.i:j]
            self.i = j
            return ("num", r)
        name = self.ident()
        assert name, self.s[self.i:self.i + 40]
        c = self.peek()
        if c == "{":
            self.eat("{")
            fields = []
            while self.peek() != "}":
                f = self.ident()
                self.eat(":")
                fields.append((f, self.value()))
                if self.peek() == ",":
                    self.eat(",")
            self.eat("}")
            return ("struct", name, fields)
        if c == "(":
            self.eat("(")
            # bitflags Debug: Name(A | B) or Name(0x0)
            save = self.i
            first = self.value()
            if self.peek() == "|":
                names = [first[1]]
                while self.peek() == "|":
                    self.eat("|")
                    names.append(self.ident())
                self.eat(")")
                return ("flags", name, names)
            self.i = save
            return ("call", name, self.seq(")"))
        return ("id", name)

    def seq(self, close):
        out = []
        while self.peek() != close:
            out.append(self.value())
            if self.peek() == ",":
                self.eat(",")
        self.eat(close)
        return out


def parse(s):
    p = P(s)
    v = p.value()
    p.ws()
    assert p.i == len(s), s[p.i:p.i + 60]
    return v


class Canon:
    def __init__(self, g, lift_facts):
        self.g = g
        self.arms = {}
        for grp in ("lift_type", "lift_op", "lift_branch", "lift_terminator"):
            self.arms[grp] = {a["variant"]: a for a in lift_facts.get(grp, []) if "variant" in a}

    # ---- numbers of enumerants / masks
    def enum_value(self, kind, name):
        for n, v in self.g.enums[kind]["variants"]:
            if n == name:
                return v
        for a, tgt in self.g.enums[kind].get("aliases", []):
            if a == name:
                return self.enum_value(kind, tgt)
        raise KeyError("%s::%s" % (kind, name))

    def flags_value(self, kind, t):
        if t[0] == "flags":
            names = t[2]
        elif t[0] == "call" and len(t[2]) == 1 and t[2][0][0] == "num":
            return int(t[2][0][1], 16) if t[2][0][1].startswith("0x") else int(t[2][0][1])
        elif t[0] == "call" and len(t[2]) == 1 and t[2][0][0] == "id":
            names = [t[2][0][1]]
        else:
            raise ValueError("flags %r" % (t,))
        v = 0
        consts = dict(self.g.flags[kind]["consts"])
        for n in names:
            v |= consts[n]
        return v

    def raw(self, kind, t):
        if kind == "LiteralString":
            return "s" + (t[1].hex() if t[1] else "-")
        if kind in self.g.flags:
            return "w%d" % self.flags_value(kind, t)
        if kind in self.g.enums:
            return "w%d" % self.enum_value(kind, t[1])
        assert t[0] == "num", (kind, t)
        return "w%d" % int(t[1])

    def tok(self, t):
        assert t[0] == "call" and t[1] == "Token", t
        return int(t[2][0][1])

    def conv(self, kind, mode, t):
        if mode == "type_token":
            if t[0] == "struct" and t[1] == "StructMember":
                return "t%d" % self.tok(dict(t[2])["token"])
            return "t%d" % self.tok(t)
        if mode == "const_token":
            return "c%d" % self.tok(t)
        if mode == "jump":
            assert t[0] == "struct" and t[1] == "Jump", t
            return "j%d" % self.tok(dict(t[2])["block"])
        return self.raw(kind, t)

    def field(self, f, t):
        ar, mode = f["arity"], f["mode"]
        if mode == "rest_ids":
            def one(x):
                return "(%s,[%s])" % (self.raw(f["kind"], x[1][0]), ",".join("w%d" % int(y[1]) for y in x[1][1][1]))
            if ar == "optional":
                if t == ("id", "None"):
                    return "n"
                assert t[0] == "call" and t[1] == "Some"
                return "o(%s)" % one(("tuple", t[2][0][1]))
            return one(("tuple", t[1]))
        if ar == "required":
            return self.conv(f["kind"], mode, t)
        if ar == "optional":
            if t == ("id", "None"):
                return "n"
            assert t[0] == "call" and t[1] == "Some", t
            return "o(%s)" % self.conv(f["kind"], mode, t[2][0])
        if ar == "many":
            return "[%s]" % ",".join(self.conv(f["kind"], mode, x) for x in t[1])
        if ar == "pairs":
            return "[%s]" % ",".join("(%s,%s)" % (self.conv(f["kind"], mode, x[1][0]), self.conv(f.get("kind2") or f["kind"], f.get("mode2", "raw"), x[1][1])) for x in t[1])
        raise ValueError(ar)

    def node(self, grp, t):
        name = t[1]
        a = self.arms[grp][name]
        fields = dict(t[2]) if t[0] == "struct" else {}
        return "%s{%s}" % (name, ",".join("%s=%s" % (f["name"], self.field(f, fields[f["name"]])) for f in a["fields"]))

    def const(self, t):
        if t[0] == "id":
            return t[1]
        name, args = t[1], t[2] if t[0] == "call" else None
        if name == "Bool":
            return "Bool(%s)" % args[0][1]
        if name in ("UInt", "Int"):
            return "%s(%d)" % (name, int(args[0][1]))
        if name == "Float":
            txt = args[0][1] if args[0][0] == "num" else args[0][1]
            x = float("nan") if txt == "NaN" else float(txt)
            return "Float(%d)" % struct.unpack("<I", struct.pack("<f", x))[0]
        if name == "Composite":
            return "Composite[%s]" % ",".join(str(self.tok(x)) for x in args[0][1])
        if name == "Sampler":
            d = dict(t[2])
            return "Sampler(%d,%s,%d)" % (self.enum_value("SamplerAddressingMode", d["addressing_mode"][1]), d["normalized"][1],
                                          self.enum_value("SamplerFilterMode", d["filter_mode"][1]))
        raise ValueError(name)

    def term(self, t):
        if t[0] == "call" and t[1] == "Branch":
            return "Branch(%s)" % self.node("lift_branch", t[2][0])
        return self.node("lift_terminator", t)

    def module(self, text):
        f = dict(x.split("=", 1) for x in text.split(";;"))
        caps = [self.enum_value("Capability", x[1]) for x in parse(f["caps"])[1]]
        mm = dict(parse(f["mm"])[2])
        types = dict(parse(f["types"])[2])["data"][1]
        consts = dict(parse(f["consts"])[2])["data"][1]
        ops = dict(parse(f["ops"])[2])["data"][1]
        fns = []
        k = 0
        while "fn%d.control" % k in f:
            blocks = dict(parse(f["fn%d.blocks" % k])[2])["data"][1]
            bt = []
            for b in blocks:
                d = dict(b[2])
                assert d["ops"] == ("list", []), d["ops"]
                bt.append("%s/%s" % (",".join(str(self.tok(x)) for x in d["arguments"][1]), self.term(d["terminator"])))
            fns.append("%d.%d.%d{%s}" % (self.flags_value("FunctionControl", parse(f["fn%d.control" % k])), self.tok(parse(f["fn%d.result" % k])),
                                          self.tok(parse(f["fn%d.start" % k])), ";".join(bt)))
            k += 1
        return "OK v=%s|caps=%s|mm=%d.%d|T=%s|C=%s|O=%s|F=%s" % (
            f["version"], ",".join(str(c) for c in caps),
            self.enum_value("AddressingModel", mm["addressing_model"][1]), self.enum_value("MemoryModel", mm["memory_model"][1]),
            ";".join(self.node("lift_type", t) for t in types), ";".join(self.const(c) for c in consts),
            ";".join(self.node("lift_op", o) for o in ops), "&".join(fns))


def canon_answer(c, got):
    """harness `lift` answer -> the canonical text the model prints"""
    if got.startswith("OK:"):
        return c.module(bytes.fromhex(got[3:]).decode("utf-8"))
    if got.startswith("LIFTERR:"):
        return "LIFTERR:" + bytes.fromhex(got[8:]).decode("utf-8")
    if got.startswith("PANIC:lift"):
        return "PANIC"
    if got.startswith("ERR:") or got.startswith("PANIC:load"):
        return "NOLOAD"
    return got
