"""Generation of whole modules (lists of instruction texts) for C01/C06/C07/C20."""
import spirvgen as sg

SECTION_OPS = [
    ["Capability"], ["Extension"], ["ExtInstImport"], ["MemoryModel"], ["EntryPoint"],
    ["ExecutionMode", "ExecutionModeId"], ["String", "SourceExtension", "Source", "SourceContinued"],
    ["Name", "MemberName"], ["ModuleProcessed"],
    ["Decorate", "MemberDecorate", "DecorationGroup", "GroupDecorate", "GroupMemberDecorate", "DecorateId", "DecorateString", "MemberDecorateString"],
]
TYPE_OPS = ["TypeVoid", "TypeBool", "TypeInt", "TypeFloat", "TypeVector", "TypeMatrix", "TypeImage", "TypeSampler", "TypeSampledImage",
            "TypeArray", "TypeRuntimeArray", "TypeStruct", "TypeOpaque", "TypePointer", "TypeFunction", "TypeForwardPointer",
            "TypeCooperativeMatrixKHR", "TypeRayQueryKHR", "TypePipeStorage",
            "ConstantTrue", "ConstantFalse", "ConstantComposite", "ConstantSampler", "ConstantNull",
            "SpecConstantTrue", "SpecConstantFalse", "SpecConstantComposite", "SpecConstantOp", "Variable", "Undef", "Line", "NoLine"]
TERMINATORS = ["Branch", "BranchConditional", "Return", "ReturnValue", "Kill", "Unreachable", "TerminateInvocation"]


class ModGen:
    def __init__(self, g, rng):
        self.g = g
        self.rng = rng
        self.gen = sg.Gen(g, rng)
        self.by = {e["name"]: e for e in g.core}
        skip = set(x for s in SECTION_OPS for x in s) | set(TYPE_OPS) | set(TERMINATORS)
        skip |= {"Function", "FunctionEnd", "FunctionParameter", "Label", "Switch", "Constant", "SpecConstant",
                 "TerminateRayKHR", "IgnoreIntersectionKHR", "EmitMeshTasksEXT"}
        self.block_ops = [e["name"] for e in g.core if e["name"] not in skip and not e["name"].startswith("Type")
                          and e["name"] not in ("ConstantCompositeContinuedINTEL", "SpecConstantCompositeContinuedINTEL",
                                                "ConstantCompositeReplicateEXT", "SpecConstantCompositeReplicateEXT")]

    def inst(self, name, mode="rand", ctx=None):
        return self.gen.instruction(self.by[name], ctx or {"width": 32}, mode)

    def module(self, size=1, wide=False):
        """a module in logical layout order: list of instruction texts"""
        r = self.rng
        out = []
        for ops in SECTION_OPS:
            if ops == ["MemoryModel"]:
                if r.random() < 0.8:
                    out.append(self.inst("MemoryModel"))
                continue
            for _ in range(r.randrange(0, 1 + size)):
                out.append(self.inst(r.choice(ops)))
        # types, constants, globals; 32-bit int (id 7) and optionally 64-bit (id 8) declared first
        out.append("15/-/7/L20,L1")
        if wide:
            out.append("15/-/8/L40,L0")
            out.append("16/-/9/L40")
        for _ in range(r.randrange(0, 2 + 2 * size)):
            out.append(self.inst(r.choice(TYPE_OPS)))
        for _ in range(r.randrange(0, 1 + size)):
            t = r.choice([7, 8, 9]) if wide else 7
            w = 64 if t in (8, 9) else 32
            out.append(self.gen.instruction(self.by[r.choice(["Constant", "SpecConstant"])], {"width": w, "rtype": t}, "min"))
        for _ in range(r.randrange(0, 1 + size)):
            out += self.function(size, wide)
        return out

    def function(self, size, wide):
        r = self.rng
        out = [self.inst("Function")]
        for _ in range(r.randrange(0, 3)):
            out.append(self.inst("FunctionParameter"))
        for _ in range(r.randrange(0, 1 + size)):
            out.append(self.inst("Label"))
            for _ in range(r.randrange(0, 2 + 2 * size)):
                out.append(self.inst(r.choice(self.block_ops + ["Variable", "Undef", "Line", "NoLine"])))
            if wide and r.random() < 0.3:
                # switch on a 64-bit value defined in this block
                out.append("1/8/%x/-" % 0x7777)
                out.append("fb/-/-/R7777,R1,Q5,R2,Qffffffff00000001,R3")
            out.append(self.inst(r.choice(TERMINATORS)))
        out.append(self.inst("FunctionEnd"))
        return out
