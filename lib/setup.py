"""setup_cmd: build the framework once, offline, from files on disk."""
import os
import sys
import core
import gen_harness
from core import log


def main():
    log("building rs2coq")
    facts = core.run_rs2coq()
    import regen
    regen.all_gen(facts, build=True)
    log("building Coq development")
    ok, out = core.coq_make(["all"], timeout=3000)
    if not ok:
        print(out[-4000:])
        # not fatal for setup: individual checks report what is broken
    log("setup done")
    return 0
