"""Builder call generation: argument tokens for every public Builder method
from its parameter types (T-src facts) and the reference grammar, and the
instruction the SPIR-V grammar says such a call must emit."""
import re
import builderdesc
import spirvgen as sg


def snake(name):
    # the generator's rule (autogen/src/utils.rs get_function_name): Op name -> snake case
    s = re.sub(r"([a-z0-9])([A-Z])", r"\1_\2", name)
    s = re.sub(r"([A-Z]+)([A-Z][a-z])", r"\1_\2", s)
    return s.lower()


class BuilderGen:
    def __init__(self, g, facts, rng):
        self.g = g
        self.rng = rng
        self.gen = sg.Gen(g, rng)
        self.enums = {e["name"] for e in facts["spirv"]["enums"]}
        self.flags = {f["name"] for f in facts["spirv"]["flags"]}
        self.methods = {m["name"]: m for m in facts["builder"]["methods"] if m["public"]}
        self.res = builderdesc.resolve(facts["builder"]["methods"])

    def sink_of(self, name):
        """sink class of a method: from its translated descriptor, else (method not recognised by the
        translator) from the layout class of the method's opcode"""
        d = self.res.get(name)
        if d:
            return d[0]["sink"]["sink"]
        op = self.method_opcode(name)
        if op is None or not hasattr(self, "lay"):
            return None
        tok, sec = self.lay.token(self.g.opnum[op])
        if tok == "module":
            return "dedup_type" if (sec == 10 and name.startswith("type_")) else "section"
        return {"terminator": "end_block", "varundef": "block_else_global", "line": "line_rule", "block_inst": "block"}.get(tok)

    def emitting_methods(self):
        """every public method that emits an instruction, whether or not the translator recognised its body"""
        skip = {"new", "new_from_module", "module", "module_ref", "module_mut", "pop_instruction", "select_function",
                "select_block", "version", "selected_function", "selected_block", "find_return_block_indices",
                "select_function_by_name", "dedup_insert_type", "insert_into_block", "insert_types_global_values",
                "begin_function", "end_function", "function_parameter", "begin_block", "begin_block_no_label", "id", "set_version"}
        out = []
        for n, m in self.methods.items():
            if n in skip:
                continue
            if all(builderdesc.ptype(t, self.enums, self.flags)[0] or t == "spirv :: Op" for _, t in m["params"]) and self.method_opcode(n):
                out.append(n)
        return sorted(out)

    def arg(self, pname, ptype_s, prev_enum=None):
        r = self.rng
        t, en = builderdesc.ptype(ptype_s, self.enums, self.flags)
        if ptype_s == "spirv :: Op":
            # spec_constant_op(result_type, opcode) cannot carry embedded operands: only an opcode without
            # required operands makes the call grammar-conforming
            return "%x" % self.g.opnum[r.choice(["Nop", "TypeStruct", "TypeVoid"])]
        if t == "PW":
            if en:
                if en in self.flags:
                    bits = self.g.flag_bits(en)
                    v = r.choice([0, r.choice(bits) if bits else 0, (r.choice(bits) | r.choice(bits)) if bits else 0])
                else:
                    v = r.choice(self.g.enum_values(en))
                return "%x" % v
            if ptype_s == "u8":
                return "%x" % r.randrange(0, 8)
            if ptype_s == "u64":
                return "%x" % r.randrange(1 << 64)
            return "%x" % r.randrange(1, 5000)
        if t == "POptW":
            if r.random() < 0.4:
                return "_"
            if en:
                if en in self.flags:
                    bits = self.g.flag_bits(en)
                    return "%x" % r.choice([0] + bits)
                return "%x" % r.choice(self.g.enum_values(en))
            return "%x" % r.randrange(5000, 9000)
        if t == "PListW":
            return "[" + ",".join("%x" % r.randrange(1, 5000) for _ in range(r.randrange(0, 4))) + "]"
        if t == "POps":
            return None  # filled by the caller (depends on the preceding enum / mask value)
        if t == "PPairsWW":
            return "[" + ",".join("%x:%x" % (r.randrange(1, 5000), r.randrange(1, 5000)) for _ in range(r.randrange(0, 3))) + "]"
        if t == "PPairsOW":
            return "[" + ",".join("L%x:%x" % (r.randrange(1 << 32), r.randrange(1, 5000)) for _ in range(r.randrange(0, 3))) + "]"
        if t == "PStr":
            return "S" + (self.gen.string().replace(b"\0", b"").hex() or "-")
        if t == "POptStr":
            return "_" if r.random() < 0.5 else "S" + (self.gen.string().hex() or "-")
        if t == "PPoint":
            return "end"
        return None

    def call(self, name, point="end", explicit_id=None):
        """argument tokens for one call; additional_params conform to the preceding enumerant / mask"""
        m = self.methods[name]
        toks = []
        last_enum = None
        absent = False      # once an optional operand is absent, every later optional one must be absent too
        for pn, pt in m["params"]:
            t, en = builderdesc.ptype(pt, self.enums, self.flags)
            if name in ("execution_mode", "execution_mode_id") and pn == "execution_mode":
                want = "IdRef" if name == "execution_mode_id" else "LiteralBit32"
                ok = [v for v in self.g.enum_values("ExecutionMode") if all(vr == want for vr, _ in self.g.params_of("ExecutionMode", v))
                      and (name == "execution_mode" or self.g.params_of("ExecutionMode", v))]
                a = "%x" % self.rng.choice(ok)
                toks.append(a)
                last_enum = ("ExecutionMode", int(a, 16))
                continue
            if t in ("POptW", "POptStr") and pn != "result_id" and absent:
                toks.append("_")
                continue
            if t == "POps":
                if last_enum:
                    ty, v = last_enum
                    ops = []
                    for variant, _ in self.g.params_of(ty, v):
                        ops += self.gen.slot_tokens(variant)
                    toks.append("[" + ",".join(ops) + "]")
                elif last_enum is None and any(x == "_" for x in toks[-1:]) and toks:
                    toks.append("[]")
                else:
                    toks.append("[" + ",".join("R%x" % self.rng.randrange(1, 999) for _ in range(self.rng.randrange(0, 3))) + "]")
                continue
            if t == "PPoint":
                toks.append(point)
                continue
            if t == "PListW" and last_enum and last_enum[0] == "ExecutionMode" and name in ("execution_mode", "execution_mode_id"):
                want = "IdRef" if name == "execution_mode_id" else "LiteralBit32"
                slots = self.g.params_of("ExecutionMode", last_enum[1])
                toks.append("[" + ",".join("%x" % self.rng.randrange(1, 5000) for _ in slots) + "]")
                continue
            a = self.arg(pn, pt)
            if a is None:
                return None
            if en and a != "_":
                # only the LAST enumerant / mask of a method can be followed by its parameters
                # (`additional_params`); earlier ones must be values without parameters
                later = [q for q, qt in m["params"][[p for p, _ in m["params"]].index(pn) + 1:]
                         if builderdesc.ptype(qt, self.enums, self.flags)[1]]
                has_extras = any(builderdesc.ptype(qt, self.enums, self.flags)[0] == "POps" for _, qt in m["params"])
                tries = 0
                while (later or not has_extras) and self.g.params_of(en, int(a, 16)) and tries < 50 \
                        and name not in ("execution_mode", "execution_mode_id"):
                    a = self.arg(pn, pt)
                    tries += 1
                    if a == "_":
                        break
            if pn == "result_id" and explicit_id is not None:
                a = explicit_id
            if t in ("POptW", "POptStr") and pn != "result_id" and a == "_":
                absent = True
            toks.append(a)
            if en and a != "_":
                last_enum = (en, int(a, 16))
        return name + (" " + " ".join(toks) if toks else "")

    # ---------------------------------------------------------------- the specification of one emitted instruction
    def expected_instruction(self, call_text, result_id):
        """instruction text the grammar prescribes for a call (opcode from the method name, arguments in
        grammar order), or None when the method is not an instruction-emitting one"""
        toks = call_text.split(" ")
        name, args = toks[0], toks[1:]
        m = self.methods.get(name)
        if m is None:
            return None
        opname = self.method_opcode(name)
        if opname is None:
            return None
        e = next(x for x in self.g.core if x["name"] == opname)
        params = list(zip([p for p, _ in m["params"]], [t for _, t in m["params"]], args))
        rt = rid = "-"
        rest = []
        for pn, pt, a in params:
            if pn == "result_type":
                rt = a
            elif pn == "result_id":
                pass
            elif pt == "InsertPoint":
                pass
            else:
                rest.append((pn, pt, a))
        if any(k == "IdResult" for k, _ in e["operands"]):
            rid = result_id if result_id is not None else "?"
        out = []
        k = 0
        gops = [o for o in e["operands"] if o[0] not in ("IdResultType", "IdResult")]
        for kind, qn in gops:
            if k >= len(rest):
                break
            pn, pt, a = rest[k]
            k += 1
            t, en = builderdesc.ptype(pt, self.enums, self.flags)
            out += self.arg_tokens(kind, qn, t, a)
            if kind in self.g.args and k < len(rest) and builderdesc.ptype(rest[k][1], self.enums, self.flags)[0] == "POps":
                inner = rest[k][2][1:-1]
                out += inner.split(",") if inner else []
                k += 1
            elif kind == "ExecutionMode" and k < len(rest) and builderdesc.ptype(rest[k][1], self.enums, self.flags)[0] == "PListW":
                inner = rest[k][2][1:-1]
                vals = inner.split(",") if inner else []
                slots = self.g.params_of("ExecutionMode", int(a, 16))
                for (variant, _), v in zip(slots, vals):
                    out.append({"IdRef": "R", "LiteralBit32": "L"}.get(variant, "?") + v)
                k += 1
        if name in ("constant_bit64", "spec_constant_bit64"):
            out = ["Q" + args[1]]
        if name == "spec_constant_op":
            out = ["P" + args[1]]
        return "%x/%s/%s/%s" % (self.g.opnum[opname], rt, rid, ",".join(out) if out else "-")

    def arg_tokens(self, kind, qn, t, a):
        idt = sg.ID_TOK.get(kind)
        def one(v):
            if idt:
                return [idt + v]
            if kind in ("LiteralInteger", "LiteralFloat", "LiteralContextDependentNumber"):
                return ["L" + v]
            if kind == "LiteralExtInstInteger":
                return ["X" + v]
            if kind == "LiteralSpecConstantOpInteger":
                return ["P" + v]
            if kind in self.g.kidx and (kind in self.g.enums or kind in self.g.flags):
                return ["E%d.%s" % (self.g.kidx[kind], v)]
            return ["?" + v]
        if t == "PStr":
            return ["S" + a[1:]]
        if t == "POptStr":
            return [] if a == "_" else ["S" + a[1:]]
        if t == "PW":
            return one(a)
        if t == "POptW":
            return [] if a == "_" else one(a)
        if t == "PListW":
            inner = a[1:-1]
            return [x for v in (inner.split(",") if inner else []) for x in one(v)]
        if t == "PPairsWW":
            inner = a[1:-1]
            out = []
            for pr in (inner.split(",") if inner else []):
                x, y = pr.split(":")
                if kind == "PairIdRefLiteralInteger":
                    out += ["R" + x, "L" + y]
                elif kind == "PairIdRefIdRef":
                    out += ["R" + x, "R" + y]
                else:
                    out += ["L" + x, "R" + y]
            return out
        if t == "PPairsOW":
            inner = a[1:-1]
            out = []
            for pr in (inner.split(",") if inner else []):
                x, y = pr.split(":")
                out += [x, "R" + y]
            return out
        if t == "POps":
            inner = a[1:-1]
            return inner.split(",") if inner else []
        return ["?"]

    HAND_OPCODE = {"ret": "Return", "ret_value": "ReturnValue", "constant_bit32": "Constant", "constant_bit64": "Constant",
                   "spec_constant_bit32": "SpecConstant", "spec_constant_bit64": "SpecConstant", "begin_function": "Function",
                   "end_function": "FunctionEnd", "begin_block": "Label"}

    def method_opcode(self, name):
        if not hasattr(self, "_snake"):
            self._snake = {snake(e["name"]): e["name"] for e in self.g.core}
            for e in self.g.core:
                self._snake.setdefault(e["name"].lower(), e["name"])
        flat = name.replace("_", "")
        for cand in (flat, flat[len("insert"):] if flat.startswith("insert") else None):
            if cand and cand in self._snake and name not in self.HAND_OPCODE:
                return self._snake[cand]
        n = name
        if n in self.HAND_OPCODE:
            return self.HAND_OPCODE[n]
        for cand in (n, n[len("insert_"):] if n.startswith("insert_") else None, n[:-3] if n.endswith("_id") and n.startswith("type_") else None):
            if cand and cand in self._snake:
                return self._snake[cand]
            if cand and cand in self.HAND_OPCODE:
                return self.HAND_OPCODE[cand]
        return None
