"""The common proof stage of every property check."""
import os
import core
from core import log


def proof_stage(rep, prop, extra_targets=()):
    """make Props/<prop>.vo; hygiene; Print Assumptions.  Returns (ok, info)."""
    pv = "Props/%s.v" % prop
    deps = core.coq_deps(pv)
    ok, out = core.coq_make(["Props/%s.vo" % prop] + list(extra_targets))
    total, done, detail = core.count_obligations(deps)
    rep.cov["obligations"] = total
    rep.cov["discharged"] = done
    rep.cov["proof_files"] = detail
    info = None
    if not ok:
        info = core.failing_lemma(out) or {"file": None, "lemma": None, "error": out[-2000:]}
        log("proof obligation broken: %s" % (info.get("lemma") or info.get("file")))
        return False, info
    probs = core.hygiene(deps)
    if probs:
        rep.cov["discharged"] = 0
        return False, {"file": None, "lemma": "hygiene", "error": "\n".join(probs)}
    rc, closed, axioms, aout = core.print_assumptions(pv)
    rep.cov["print_assumptions"] = {"closed": closed, "axioms": axioms}
    if rc != 0 or axioms or closed == 0:
        rep.cov["discharged"] = 0
        return False, {"file": pv, "lemma": "Print Assumptions", "error": "axioms: %s\n%s" % (axioms, aout[-1500:])}
    rep.assumptions.append("Print Assumptions: %d theorems closed under the global context, no axioms" % closed)
    return True, None
