"""The common proof stage of every property check."""
import os
import core
from core import log


def proof_stage(rep, prop, pre_broken=None):
    """make Props/<prop>.vo; hygiene; Print Assumptions.  Returns (ok, info)."""
    pv = "Props/%s.v" % prop
    deps = core.coq_deps(pv)
    if pre_broken:
        total, done, detail = core.count_obligations(deps)
        rep.cov["obligations"], rep.cov["discharged"] = total, 0
        return False, pre_broken[0]
    ok, out = core.coq_make(["Props/%s.vo" % prop])
    total, done, detail = core.count_obligations(deps, all_ok=ok)
    rep.cov["obligations"] = total
    rep.cov["discharged"] = done
    rep.cov["proof_files"] = detail
    if not ok:
        info = core.failing_lemma(out) or {"file": None, "lemma": None, "error": out[-2000:]}
        log("proof obligation broken: %s" % (info.get("lemma") or info.get("file")))
        return False, info
    probs = core.hygiene(deps)
    if probs:
        rep.cov["discharged"] = 0
        return False, {"file": None, "lemma": "hygiene", "error": "\n".join(probs)}
    rc, closed, axioms, aout = core.print_assumptions(pv)
    rep.cov["print_assumptions"] = {"closed": closed, "axioms": axioms}
    if rc != 0 or axioms or closed == 0:
        rep.cov["discharged"] = 0
        return False, {"file": pv, "lemma": "Print Assumptions", "error": "axioms: %s\n%s" % (axioms, aout[-1500:])}
    rep.assumptions.append("Print Assumptions: %d theorems closed under the global context, no axioms" % closed)
    if rep.tier == "thorough":
        # independent re-check of the compiled theory (and everything it depends on) with coqchk
        rc, out, dt = core.run(["coqchk", "-o", "-silent", "-Q", ".", "RV", "RV.Props.%s" % prop], cwd=core.COQ, timeout=3000)
        okc = rc == 0 and "* Axioms: <none>" in out and "type-in-type: <none>" in out and "unsafe (co)fixpoints: <none>" in out and "positivity is assumed: <none>" in out
        rep.cov["coqchk"] = {"ok": okc, "seconds": round(dt, 1)}
        if not okc:
            rep.cov["discharged"] = 0
            return False, {"file": pv, "lemma": "coqchk", "error": out[-2000:]}
        rep.assumptions.append("coqchk -o: re-checked, Axioms: <none>")
    return True, None


def conclude(rep, ok, info, bad, fmt=None, limit=5):
    """Standard ending: concrete failing inputs if any, otherwise the broken
    obligation with no-failing-input-found."""
    for b in bad[:limit]:
        rep.violation(fmt(b) if fmt else str(b.get("what")), b)
    if not ok and not bad:
        rep.violation(
            "obligation `%s` no longer checks and no failing input was found" % (info.get("lemma") or info.get("file")),
            {"broken": info},
            found_input=False,
        )


def split_known(rep, prop, bad, calls_of):
    """separates counterexamples inside a listed known-finding class; prints KNOWN-FINDING lines"""
    known = [e for e in core.load_known().get("open", []) if e["property"] == prop]
    rest, hit = [], {}
    for b in bad:
        k = None
        for e in known:
            cls = e.get("class", {})
            names = set(cls.get("history_calls_any", []))
            if names and any(c.split(" ")[0] in names for c in calls_of(b)):
                k = e
                break
        if k is None:
            rest.append(b)
        else:
            hit.setdefault(k["id"], (k, b))
    for fid, (e, b) in hit.items():
        rep.known("%s %s" % (fid, e["what"][:160]))
    return rest
