"""Compares the token lines of the Coq disassembly model (modelrun `libdis`) with the text the real
disassembler printed.  The model is at token level; this is the lexical layer: decimal digits, float
text, Rust `{:?}` string escaping, `%`-ids."""
import struct
from fractions import Fraction


def lex(line):
    """words of a disassembly line; a quoted string is one word"""
    out, i, n = [], 0, len(line)
    while i < n:
        if line[i] == " ":
            i += 1
            continue
        if line[i] == '"':
            j = i + 1
            while j < n:
                if line[j] == "\\":
                    j += 2
                    continue
                if line[j] == '"':
                    break
                j += 1
            out.append(line[i:j + 1])
            i = j + 1
        else:
            j = i
            while j < n and line[j] != " ":
                j += 1
            out.append(line[i:j])
            i = j
    return out


def unescape_rust(q):
    """bytes of a Rust Debug-quoted string"""
    assert q[0] == '"' and q[-1] == '"', q
    s, out, i = q[1:-1], [], 0
    while i < len(s):
        c = s[i]
        if c != "\\":
            out.append(c)
            i += 1
            continue
        d = s[i + 1]
        if d == "u":
            j = s.index("}", i)
            out.append(chr(int(s[i + 3:j], 16)))
            i = j + 1
            continue
        out.append({"n": "\n", "r": "\r", "t": "\t", "0": "\0", "\\": "\\", '"': '"', "'": "'"}[d])
        i += 2
    return "".join(out).encode("utf-8")


def float_matches(word, bits, width):
    fmt, ifmt, nan_mask = ("<f", "<I", 0x7F800000) if width == 32 else ("<d", "<Q", 0x7FF0000000000000)
    frac_mask = (1 << 23) - 1 if width == 32 else (1 << 52) - 1
    is_nan = (bits & nan_mask) == nan_mask and (bits & frac_mask) != 0
    if word == "NaN":
        return is_nan
    if is_nan:
        return False
    try:
        x = float(word)
    except ValueError:
        return False
    try:
        got = struct.unpack(ifmt, struct.pack(fmt, x))[0]
    except OverflowError:
        return False
    if got == bits:
        return True
    # double rounding guard: the printed decimal must be nearest to the model's value among its neighbours
    try:
        val = Fraction(struct.unpack(fmt, struct.pack(ifmt, bits))[0])
        lo = Fraction(struct.unpack(fmt, struct.pack(ifmt, bits - 1))[0]) if bits & ~(1 << (width - 1)) else val
        hi = Fraction(struct.unpack(fmt, struct.pack(ifmt, bits + 1))[0])
        d = Fraction(word)
        return abs(d - val) <= abs(d - lo) and abs(d - val) <= abs(d - hi)
    except (ValueError, OverflowError, struct.error):
        return False


def token_matches(tok, word):
    if tok == "=":
        return word == "="
    if tok[0] == "%":
        return word == "%%%d" % int(tok[1:], 16)
    if tok.startswith("Op"):
        return word == tok
    if tok[0] == "N":
        name = bytes.fromhex(tok[1:]).decode("utf-8") if tok[1:] != "-" else ""
        return word == name
    if tok[0] == "#":
        t = tok[1:]
        v = -int(t[1:], 16) if t.startswith("-") else int(t, 16)
        return word == str(v)
    if tok.startswith("F32:"):
        return float_matches(word, int(tok[4:], 16), 32)
    if tok.startswith("F64:"):
        return float_matches(word, int(tok[4:], 16), 64)
    if tok[0] == "S":
        want = bytes.fromhex(tok[1:]) if tok[1:] != "-" else b""
        try:
            return word.startswith('"') and unescape_rust(word) == want
        except (KeyError, ValueError, AssertionError, IndexError):
            return False
    return False


def line_mismatch(model_line, real_line):
    toks = model_line.split(",") if model_line else []
    # a DName "" (the model's rendering of an empty word) prints nothing
    toks = [t for t in toks if t != "N-"]
    words = lex(real_line)
    if len(toks) != len(words):
        return "%d words printed, the model has %d tokens" % (len(words), len(toks))
    for k, (t, w) in enumerate(zip(toks, words)):
        if not token_matches(t, w):
            return "word %d is `%s`, the model token is %s" % (k, w, t)
    return None


def compare(model_ans, real_text, own_lines=None):
    """model answer of modelrun `libdis`, text of Module::disassemble(); returns None or a description"""
    f = dict(x.split("=", 1) for x in model_ans.split(" ")[1:])
    lines = real_text.split("\n") if real_text else []
    body = lines
    if f["H"] != "-":
        maj, mnr, tool, bound = [int(x, 16) for x in f["H"].split(".")]
        tool_name = bytes.fromhex(f["T"]).decode() if f["T"] != "-" else ""
        want = ["; SPIR-V", "; Version: %d.%d" % (maj, mnr), "; Generator: %s" % tool_name, "; Bound: %d" % bound]
        if lines[:4] != want:
            return "header comment `%s`, the model has `%s`" % (" / ".join(lines[:4]), " / ".join(want))
        body = lines[4:]
    ml = f["L"].split(";") if f["L"] != "-" else []
    if len(ml) != len(body):
        return "%d lines printed, the model has %d" % (len(body), len(ml))
    for k, (a, b) in enumerate(zip(ml, body)):
        r = line_mismatch(a, b)
        if r:
            return "line %d `%s`: %s" % (k, b[:120], r)
    if own_lines is not None:
        mi = f["I"].split(";") if f["I"] != "-" else []
        if len(mi) != len(own_lines):
            return "%d instruction disassemblies, the model has %d" % (len(own_lines), len(mi))
        for k, (a, b) in enumerate(zip(mi, own_lines)):
            r = line_mismatch(a, b)
            if r:
                return "Instruction::disassemble %d `%s`: %s" % (k, b[:120], r)
    return None
