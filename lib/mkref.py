"""One-off: snapshot the reference tables under /verif/ref from the facts of
the *pinned* tree. Never run by a check; the committed files are the reference."""
import json, os, sys
sys.path.insert(0, os.path.dirname(os.path.abspath(__file__)))
from core import VERIF, run_rs2coq

facts = run_rs2coq()
assert not facts["failures"], facts["failures"]
which = sys.argv[1:]
ref = os.path.join(VERIF, "ref")
def dump(name, obj):
    with open(os.path.join(ref, name), "w") as f:
        json.dump(obj, f, indent=0, sort_keys=True)
if "spirv" in which:
    sp = facts["spirv"]
    dump("spirv.json", {
        "enums": [{"name": e["name"], "variants": e["variants"], "aliases": e["aliases"], "arms": [], "fromstr": None} for e in sp["enums"]],
        "flags": sp["flags"], "consts": sp["consts"]})
if "table" in which:
    t = facts["table"]
    dump("table.json", {"core": t["core"], "glsl": t["glsl"], "opencl": t["opencl"], "kinds": t["kinds"]})

if "params" in which:
    o = facts["operand"]
    dump("params.json", {"arms": o["parse"]["arms"], "args": o["parse"]["args"], "decode": o["decode"], "variants": o["variants"]})
