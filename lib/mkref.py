"""One-off: snapshot the reference tables under /verif/ref from the facts of
the *pinned* tree. Never run by a check; the committed files are the reference."""
import json, os, sys
sys.path.insert(0, os.path.dirname(os.path.abspath(__file__)))
from core import VERIF, run_rs2coq

facts = run_rs2coq()
assert not facts["failures"], facts["failures"]
which = sys.argv[1:]
ref = os.path.join(VERIF, "ref")
def dump(name, obj):
    with open(os.path.join(ref, name), "w") as f:
        json.dump(obj, f, indent=0, sort_keys=True)
if "spirv" in which:
    sp = facts["spirv"]
    dump("spirv.json", {
        "enums": [{"name": e["name"], "variants": e["variants"], "aliases": e["aliases"], "arms": [], "fromstr": None} for e in sp["enums"]],
        "flags": sp["flags"], "consts": sp["consts"]})
if "table" in which:
    t = facts["table"]
    dump("table.json", {"core": t["core"], "glsl": t["glsl"], "opencl": t["opencl"], "kinds": t["kinds"]})

if "params" in which:
    o = facts["operand"]
    dump("params.json", {"arms": o["parse"]["arms"], "args": o["parse"]["args"], "decode": o["decode"], "variants": o["variants"]})

if "panics" in which:
    def disp(site):
        f, fn, kind, text = site
        base = f.split("/")[-1]
        if base == "main.rs":
            return "OutOfScope: argument parsing / unreadable file (the property assumes a readable input file)"
        if base == "decoder.rs" and fn == "word":
            return "Unreachable: guarded by has_limit()/limit_reached() and by the bounds test before the slice (Proofs/DecoderFacts.v word_ok, word_inv)"
        if base == "decoder.rs" and fn == "string":
            return "Unreachable: window clamped to the unread bytes, padded words checked against the buffer (string_ok, string_inv; offset <= len invariant)"
        if base == "decoder.rs":
            return "Unreachable: u64 shift of a value < 2^32"
        if base == "autogen_decode_operand.rs":
            return "Unreachable: evaluated only after a successful word(), so offset >= 4"
        if base == "parser.rs" and fn == "parse_header":
            return "Unreachable: words(5) returned exactly five words"
        if base == "parser.rs" and fn == "parse_inst":
            return "Unreachable: after a successful word() offset >= 4; wc != 0 checked before wc - 1"
        if base == "parser.rs" and fn == "parse_words":
            return "OutOfScope: length of an existing slice times 4 cannot overflow usize"
        if base == "parser.rs":
            return "Modelled: Panic outcome in Model/Parser.v step_kind/parse_lops; unreachable for well-formed tables (context kinds only in OpConstant/OpSpecConstant/OpSwitch entries behind their result type / selector)"
        if base == "autogen_parse_operand.rs":
            return "Modelled: APanic arm; unreachable because parse_operands and parse_spec_constant_op handle / reject these five kinds before calling parse_operand"
        if base == "tracker.rs":
            return "Unreachable for parser output: OpTypeInt/OpTypeFloat have required operands; result_id checked is_some (Model/Parser.v track returns None otherwise)"
        if base == "assemble.rs":
            return "Unreachable: remainder.len() < 4, chunks_exact(4), index of a just-pushed word; (end as u32) << 16 truncates silently (modelled)"
        if base == "disassemble.rs":
            return "Unreachable after fix 8007120: type resolved with and_then, operands.first(); debug_asserts hold for OpConstant from the loader; ext-inst indexing guarded by operands.len() < 2"
        if base == "loader.rs":
            return "Modelled: LPanic in Model/Loader.v act; unreachable by the invariant block.is_some() -> function.is_some() and the preceding if_ret_err! checks"
        return "UNREVIEWED"
    dump("panic_audit.json", [{"site": p["site"], "count": p["count"], "disposition": disp(p["site"])} for p in facts["panics"]])

if "disas" in which:
    d = facts["disas"]
    dump("disas.json", {"masks": d["masks"], "display": d["display"]})
