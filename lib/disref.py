"""Reading a disassembly back (C07): a grammar-directed reader of the text
`Module::disassemble()` produces, using only the reference vocabulary
(opcode names, enumerant names, mask bit names, extended-instruction names)."""
import json
import os
import re
import struct
import spirvgen as sg

VERIF = os.path.dirname(os.path.dirname(os.path.abspath(__file__)))

TOOLS = {0: "The Khronos Group", 1: "LunarG", 2: "Valve", 3: "Codeplay", 4: "NVIDIA", 5: "ARM", 6: "LLVM/SPIR-V Translator",
         7: "SPIR-V Tools Assembler", 8: "Glslang", 9: "Qualcomm", 10: "AMD", 11: "Intel", 12: "Imagination", 13: "Shaderc",
         14: "spiregg", 15: "rspirv"}


class Reader:
    def __init__(self, g):
        self.g = g
        with open(os.path.join(VERIF, "ref", "disas.json")) as f:
            d = json.load(f)
        with open(os.path.join(VERIF, "ref", "table.json")) as f:
            t = json.load(f)
        self.maskbits = {}
        for m in d["masks"]:
            vals = {n: v for n, v in g.flags[m["type"]]["consts"]}
            self.maskbits[m["type"]] = {name: vals[flag] for flag, name in m["bits"]}
        self.enumval = {}
        for k, e in g.enums.items():
            mp = {}
            for n, v in e["variants"]:
                mp[n[3:] if k == "Dim" else n] = v
            self.enumval[k] = mp
        self.opname = {e["name"]: e for e in g.core}
        self.ext = {"GLSL.std.450": {e["name"]: e["number"] for e in t["glsl"]}, "OpenCL.std": {e["name"]: e["number"] for e in t["opencl"]}}

    # ------------------------------------------------------------ lexing
    @staticmethod
    def lex(line):
        toks = []
        i = 0
        n = len(line)
        while i < n:
            c = line[i]
            if c == " ":
                i += 1
                continue
            if c == '"':
                j = i + 1
                buf = []
                while j < n and line[j] != '"':
                    if line[j] == "\\":
                        nxt = line[j + 1]
                        if nxt == "u":
                            k = line.index("}", j)
                            buf.append(chr(int(line[j + 3:k], 16)))
                            j = k + 1
                            continue
                        buf.append({"n": "\n", "r": "\r", "t": "\t", "0": "\0", "\\": "\\", '"': '"', "'": "'"}.get(nxt, nxt))
                        j += 2
                        continue
                    buf.append(line[j])
                    j += 1
                if j >= n:
                    raise ValueError("unterminated string")
                toks.append(("str", "".join(buf)))
                i = j + 1
                continue
            j = i
            while j < n and line[j] != " ":
                j += 1
            toks.append(("tok", line[i:j]))
            i = j
        return toks

    # ------------------------------------------------------------ one line
    def read_line(self, line, types, imports):
        toks = self.lex(line)
        pos = 0
        rid = None
        if len(toks) >= 2 and toks[0][1].startswith("%") and toks[1][1] == "=":
            rid = int(toks[0][1][1:])
            pos = 2
        op = toks[pos][1]
        if not op.startswith("Op") or op[2:] not in self.opname:
            raise ValueError("unknown opcode name " + op)
        e = self.opname[op[2:]]
        pos += 1
        cur = {"p": pos}

        def more():
            return cur["p"] < len(toks)

        def nxt(kind=None):
            if cur["p"] >= len(toks):
                raise ValueError("line ends early")
            t = toks[cur["p"]]
            cur["p"] += 1
            return t

        def ident():
            k, t = nxt()
            if k != "tok" or not t.startswith("%"):
                raise ValueError("expected id, got " + t)
            return int(t[1:])

        def number():
            k, t = nxt()
            return int(t)

        rt = None
        has_rt = any(k == "IdResultType" for k, _ in e["operands"])
        has_rid = any(k == "IdResult" for k, _ in e["operands"])
        if has_rt:
            rt = ident()
        if has_rid != (rid is not None):
            raise ValueError("result id presence does not match the grammar of " + op)
        out = []
        g = self.g

        def slot(variant):
            if variant in sg.ID_TOK:
                return sg.ID_TOK[variant] + "%x" % ident()
            if variant == "LiteralBit32":
                return "L%x" % number()
            if variant == "LiteralExtInstInteger":
                return "X%x" % number()
            if variant == "LiteralString":
                k, t = nxt()
                if k != "str":
                    raise ValueError("expected string")
                return "S" + (t.encode("utf-8").hex() or "-")
            return enumtok(variant, params=False)[0]

        def enumtok(kind, params=True):
            k, t = nxt()
            if kind in g.flags:
                if kind not in self.maskbits:
                    raise ValueError("mask %s has no specification names" % kind)
                v = 0
                if t != "None":
                    for nme in t.split("|"):
                        if nme not in self.maskbits[kind]:
                            raise ValueError("unknown bit name %s of %s" % (nme, kind))
                        v |= self.maskbits[kind][nme]
            else:
                if t not in self.enumval[kind]:
                    raise ValueError("unknown enumerant %s of %s" % (t, kind))
                v = self.enumval[kind][t]
            res = ["E%d.%x" % (g.kidx[kind], v)]
            if params:
                for variant, _ in g.params_of(kind, v):
                    res.append(slot(variant))
            return res

        def literal(type_id, typed):
            t = types.get(type_id)
            k, tok = nxt()
            if t is None or not typed:
                v = int(tok)
                return ("Q%x" if (t and t[1] == 64) else "L%x") % v
            kind, width, signed = t
            if kind == "int":
                v = int(tok)
                if v < 0:
                    v += 1 << (64 if width == 64 else 32)
                return ("Q%x" if width == 64 else "L%x") % v
            x = float(tok)
            if width == 64:
                return "Q%x" % struct.unpack("<Q", struct.pack("<d", x))[0]
            return "L%x" % struct.unpack("<I", struct.pack("<f", x))[0]

        def group(kind):
            if kind in sg.ID_TOK:
                return [sg.ID_TOK[kind] + "%x" % ident()]
            if kind in ("LiteralInteger", "LiteralFloat"):
                return ["L%x" % number()]
            if kind == "LiteralExtInstInteger":
                k, t = nxt()
                setid = int(out[0][1:], 16) if out else None
                names = self.ext.get(imports.get(setid))
                if names is not None and t in names:
                    return ["X%x" % names[t]]
                if names is not None and t.isdigit():
                    # C07: numbers of GLSL.std.450 / OpenCL.std are shown by name; a bare number is only right
                    # for a number the set does not declare
                    named = [nm for nm, v in names.items() if v == int(t)]
                    if named:
                        raise ValueError("extended instruction %s of set %s is printed as a number, its specification name is %s"
                                         % (t, imports.get(setid), named[0]))
                return ["X%x" % int(t)]
            if kind == "LiteralString":
                k, t = nxt()
                if k != "str":
                    raise ValueError("expected string")
                return ["S" + (t.encode("utf-8").hex() or "-")]
            if kind == "PairIdRefLiteralInteger":
                return ["R%x" % ident(), "L%x" % number()]
            if kind == "PairIdRefIdRef":
                return ["R%x" % ident(), "R%x" % ident()]
            if kind == "LiteralContextDependentNumber":
                return [literal(rt, e["name"] == "Constant")]
            if kind == "PairLiteralIntegerIdRef":
                sel = int(out[0][1:], 16)
                return [literal(sel, False), "R%x" % ident()]
            if kind == "LiteralSpecConstantOpInteger":
                k, t = nxt()
                ne = self.opname.get(t)
                if ne is None:
                    raise ValueError("unknown embedded opcode " + t)
                res = ["P%x" % g.opnum[t]]
                for kk, qn in ne["operands"]:
                    if kk in ("IdResultType", "IdResult"):
                        continue
                    if qn == "One":
                        res += group(kk)
                    elif qn == "ZeroOrOne":
                        if more():
                            res += group(kk)
                    else:
                        while more():
                            res += group(kk)
                return res
            return enumtok(kind)

        ops = [o for o in e["operands"] if o[0] not in ("IdResultType", "IdResult")]
        i = 0
        while i < len(ops):
            kind, qn = ops[i]
            if not more():
                if qn == "One":
                    raise ValueError("operand %s missing" % kind)
                break
            out += group(kind)
            if qn != "ZeroOrMore":
                i += 1
        if more():
            raise ValueError("tokens left over")
        o = lambda x: "-" if x is None else "%x" % x
        return "%x/%s/%s/%s" % (g.opnum[e["name"]], o(rt), o(rid), ",".join(out) if out else "-")

    # ------------------------------------------------------------ whole text
    def read(self, text, module_types, imports, has_header=True):
        """returns (header dict, [instruction texts]); module_types: id -> (kind,width,signed) from the module's
        global types (the disassembler tracks them over the whole section before printing)"""
        lines = text.split("\n") if text else []
        hdr = None
        if has_header:
            if len(lines) < 4 or lines[0] != "; SPIR-V":
                raise ValueError("header comment missing")
            m1 = re.fullmatch(r"; Version: (\d+)\.(\d+)", lines[1])
            m2 = re.fullmatch(r"; Generator: (.*)", lines[2])
            m3 = re.fullmatch(r"; Bound: (\d+)", lines[3])
            if not (m1 and m2 and m3):
                raise ValueError("malformed header comment")
            hdr = {"major": int(m1.group(1)), "minor": int(m1.group(2)), "tool": m2.group(1), "bound": int(m3.group(1))}
            lines = lines[4:]
        types = dict(module_types)
        out = []
        for l in lines:
            t = self.read_line(l, types, imports)
            out.append(t)
            op, rt, rid, _ = t.split("/")
            # a value inherits the tracked type of its result type (as the parser's tracker does)
            if rid != "-" and rt != "-" and int(rt, 16) in types and not self.g.by_opcode[int(op, 16)]["name"].startswith("Type"):
                types[int(rid, 16)] = types[int(rt, 16)]
        return hdr, out


def module_context(insts):
    """types tracked over types_global_values and the imported extended instruction sets"""
    types, imports = {}, {}
    for t in insts:
        op, rt, rid, ops = t.split("/")
        toks = ops.split(",") if ops != "-" else []
        if op == "15" and rid != "-":
            types[int(rid, 16)] = ("int", int(toks[0][1:], 16), toks[1] == "L1")
        elif op == "16" and rid != "-":
            types[int(rid, 16)] = ("float", int(toks[0][1:], 16), False)
        elif op == "b" and rid != "-":
            imports[int(rid, 16)] = bytes.fromhex(toks[0][1:]).decode("utf-8") if toks[0][1:] != "-" else ""
    return types, imports
