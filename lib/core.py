"""Shared machinery of the check driver: build steps, Coq runs, hygiene,
evidence, violation reporting, known findings."""
import fcntl
import hashlib
import json
import os
import re
import subprocess
import sys
import time

VERIF = os.path.dirname(os.path.dirname(os.path.abspath(__file__)))
REPO = os.environ.get("VERIF_REPO", "/repo")
CACHE = os.path.join(VERIF, ".cache")
COQ = os.path.join(VERIF, "coq")
EVID = os.path.join(VERIF, "evidence")
REPLAY = os.path.join(EVID, "replay")
GUARD_CFG = "--cfg rspirv_verif"

ENV = dict(os.environ)
ENV.update(
    {
        "CARGO_NET_OFFLINE": "true",
        "CARGO_TERM_COLOR": "never",
    }
)

TRUSTED_BASE = [
    "Coq 8.16.1 kernel incl. vm_compute (no native_compute)",
    "axioms: none (every property theorem is 'Closed under the global context'; checked from Print Assumptions on every run)",
    "rs2coq (tools/rs2coq, syn-based T-src translator) and lib/gen_coq.py (JSON -> Gallina data)",
    "harness (tools/harness, T-dump and implementation side of the correspondence) linked against /repo's crates",
    "extraction: ExtrOcamlBasic only (Extract Inductive for bool/option/unit/list/prod/sumbool), no Extract Constant; ocaml/driver.ml",
    "/verif/ref snapshot standing in for the Khronos JSON grammar (not present in the sandbox)",
    "Rust semantics assumed by the models: first-match `match`, derive(Debug) prints the variant identifier, repr(u32) `as u32` = discriminant, bitflags 2.x from_bits/contains/intersects",
    "hand-written engine code is modelled, not translated: tied by differential execution only",
]


def log(msg):
    print("[check] " + msg, flush=True)


class Lock:
    def __init__(self, name="lock"):
        os.makedirs(CACHE, exist_ok=True)
        self.path = os.path.join(CACHE, name)

    def __enter__(self):
        self.f = open(self.path, "w")
        fcntl.flock(self.f, fcntl.LOCK_EX)
        return self

    def __exit__(self, *a):
        fcntl.flock(self.f, fcntl.LOCK_UN)
        self.f.close()


def run(cmd, cwd=None, timeout=1800, env=None, capture=True, input=None):
    e = dict(ENV)
    if env:
        e.update(env)
    t0 = time.time()
    try:
        p = subprocess.run(
            cmd,
            cwd=cwd,
            env=e,
            timeout=timeout,
            stdout=subprocess.PIPE if capture else None,
            stderr=subprocess.STDOUT if capture else None,
            text=True,
            input=input,
            shell=isinstance(cmd, str),
        )
        out = p.stdout or ""
        rc = p.returncode
    except subprocess.TimeoutExpired as ex:
        out = (ex.stdout or "") if isinstance(ex.stdout, str) else ""
        out += "\n<<timeout after %ss>>" % timeout
        rc = 124
    out = "\n".join(l for l in out.splitlines() if "conda" not in l.lower() or "warning" not in l.lower())
    return rc, out, time.time() - t0


def sha(path):
    h = hashlib.sha256()
    with open(path, "rb") as f:
        h.update(f.read())
    return h.hexdigest()


# ------------------------------------------------------------------ builds
def build_rs2coq():
    with Lock("lock-rs2coq"):
        rc, out, dt = run(
            ["cargo", "build", "--offline", "--quiet"],
            cwd=os.path.join(VERIF, "tools", "rs2coq"),
            env={"CARGO_TARGET_DIR": os.path.join(CACHE, "target-rs2coq")},
        )
    if rc != 0:
        raise RuntimeError("rs2coq build failed:\n" + out[-3000:])
    return os.path.join(CACHE, "target-rs2coq", "debug", "rs2coq")


def run_rs2coq():
    exe = build_rs2coq()
    out = os.path.join(CACHE, "facts.json")
    rc, txt, dt = run([exe, REPO, out])
    if rc != 0:
        raise RuntimeError("rs2coq failed:\n" + txt[-3000:])
    with open(out) as f:
        return json.load(f)


def build_harness(release=False):
    """Rebuilds the harness against /repo's working tree. Returns (exe, error_text)."""
    hdir = os.path.join(VERIF, "tools", "harness")
    lock_src = os.path.join(REPO, "Cargo.lock")
    lock_dst = os.path.join(hdir, "Cargo.lock")
    if os.path.exists(lock_src) and not os.path.exists(lock_dst):
        import shutil

        shutil.copy(lock_src, lock_dst)
    cmd = ["cargo", "build", "--offline", "--quiet"]
    if release:
        cmd.append("--release")
    with Lock("lock-harness"):
        rc, out, dt = run(
            cmd,
            cwd=hdir,
            env={
                "CARGO_TARGET_DIR": os.path.join(CACHE, "target-harness"),
                "RUSTFLAGS": GUARD_CFG + " -Awarnings",
            },
            timeout=1500,
        )
    exe = os.path.join(CACHE, "target-harness", "release" if release else "debug", "harness")
    if rc != 0:
        return None, out
    return exe, ""


def build_dis():
    """builds rspirv-dis from /repo's working tree; returns (exe, error)"""
    tgt = os.path.join(CACHE, "target-dis")
    with Lock("lock-dis"):
        rc, out, dt = run(["cargo", "build", "--offline", "--quiet", "-p", "rspirv-dis"], cwd=REPO,
                          env={"CARGO_TARGET_DIR": tgt, "RUSTFLAGS": "-Awarnings"}, timeout=1500)
    exe = os.path.join(tgt, "debug", "rspirv-dis")
    if rc != 0 or not os.path.exists(exe):
        return None, out
    return exe, ""


# ------------------------------------------------------------------ Coq
def coq_makefile():
    mk = os.path.join(COQ, "Makefile")
    proj = os.path.join(COQ, "_CoqProject")
    if not os.path.exists(mk) or os.path.getmtime(mk) < os.path.getmtime(proj):
        rc, out, _ = run(["coq_makefile", "-f", "_CoqProject", "-o", "Makefile"], cwd=COQ)
        if rc != 0:
            raise RuntimeError("coq_makefile failed: " + out)


def coq_make(targets, timeout=1500):
    """Full .vo build of the targets (never -vos). Returns (ok, output)."""
    with Lock("lock-coq"):
        coq_makefile()
        rc, out, dt = run(
            ["make", "-j16", "-k"] + targets, cwd=COQ, timeout=timeout
        )
    return rc == 0, out


def coq_deps(target_v):
    """Transitive .v dependencies (inside coq/) of a file, via coqdep."""
    with open(os.path.join(COQ, "_CoqProject")) as f:
        files = [l.strip() for l in f if l.strip().endswith(".v")]
    if target_v not in files:
        files.append(target_v)
    rc, out, _ = run(["coqdep", "-Q", ".", "RV"] + files, cwd=COQ)
    deps = {}
    for line in out.splitlines():
        if ":" not in line:
            continue
        lhs, rhs = line.split(":", 1)
        tgt = [t for t in lhs.split() if t.endswith(".vo")]
        if not tgt:
            continue
        src = tgt[0][:-1]
        deps[src] = [d[:-1] for d in rhs.split() if d.endswith(".vo") and not d.startswith("/")]
    seen = []

    def go(v):
        if v in seen:
            return
        seen.append(v)
        for d in deps.get(v, []):
            go(d)

    go(target_v)
    return seen


STMT_RE = re.compile(r"^\s*(Lemma|Theorem|Corollary|Example|Fact|Proposition)\s+([A-Za-z0-9_']+)", re.M)


def count_obligations(vfiles, all_ok=False):
    """(obligations, discharged, per-file list): named statements in the files.
    discharged = statements of the files whose .vo is up to date (all of them
    when the target was just built successfully; otherwise asked of make -q)."""
    total = 0
    done = 0
    detail = []
    for v in vfiles:
        p = os.path.join(COQ, v)
        if not os.path.exists(p):
            continue
        with open(p) as f:
            names = [m.group(2) for m in STMT_RE.finditer(f.read())]
        if all_ok:
            ok = True
        else:
            rc, _, _ = run(["make", "-q", v + "o"], cwd=COQ, timeout=120)
            ok = rc == 0 and os.path.exists(p + "o")
        total += len(names)
        if ok:
            done += len(names)
        detail.append({"file": v, "statements": len(names), "compiled": ok})
    return total, done, detail


FORBIDDEN = re.compile(
    r"\b(Admitted|admit|Axiom|Axioms|Parameter|Parameters|Conjecture|Conjectures|Admit Obligations|Unset Guard Checking|Unset Positivity Checking|Unset Universe Checking|bypass_check|type-in-type|impredicative-set)\b"
)
SECTION_ONLY = re.compile(r"^\s*(Variable|Variables|Hypothesis|Hypotheses|Context)\b")


def strip_comments(src):
    out = []
    depth = 0
    i = 0
    instr = False
    while i < len(src):
        if not instr and src.startswith("(*", i):
            depth += 1
            i += 2
            continue
        if not instr and depth > 0 and src.startswith("*)", i):
            depth -= 1
            i += 2
            continue
        c = src[i]
        if depth == 0:
            if c == '"':
                instr = not instr
            out.append(c)
        elif c == "\n":
            out.append(c)
        i += 1
    return "".join(out)


def hygiene(vfiles):
    """Returns a list of problems (empty = clean)."""
    problems = []
    for v in vfiles:
        p = os.path.join(COQ, v)
        if not os.path.exists(p):
            continue
        with open(p) as f:
            src = strip_comments(f.read())
        # drop string literals
        src_ns = re.sub(r'"(?:[^"]|"")*"', '""', src)
        depth = 0
        for ln, line in enumerate(src_ns.splitlines(), 1):
            if re.match(r"^\s*Section\b", line):
                depth += 1
            if re.match(r"^\s*End\b", line) and depth > 0:
                depth -= 1
            m = FORBIDDEN.search(line)
            if m:
                problems.append("%s:%d: forbidden `%s`" % (v, ln, m.group(1)))
            if depth == 0 and SECTION_ONLY.match(line):
                problems.append("%s:%d: Variable/Hypothesis outside a section" % (v, ln))
    return problems


def parse_assumptions(make_output_or_file):
    """Parses the Print Assumptions blocks echoed by coqc."""
    return make_output_or_file


def print_assumptions(prop_v):
    """Re-runs coqc on the Props file alone (its deps are compiled) and returns
    the list of (axiom lines) found; 'Closed under the global context' -> []"""
    rc, out, _ = run(
        ["coqc", "-Q", ".", "RV", "-w", "-notation-overridden", prop_v], cwd=COQ, timeout=600
    )
    closed = out.count("Closed under the global context")
    axioms = []
    cur = False
    for line in out.splitlines():
        if line.startswith("Axioms:"):
            cur = True
            continue
        if cur:
            if line.startswith(" ") or line.startswith("\t"):
                pass
            m = re.match(r"^([A-Za-z0-9_.']+)\s*:", line)
            if m:
                axioms.append(m.group(1))
            elif not line.strip():
                cur = False
    return rc, closed, axioms, out


def failing_lemma(make_out):
    """From a coqc error: (file, line, enclosing statement name)."""
    m = re.search(r'File "\./([^"]+)", line (\d+)', make_out)
    if not m:
        return None
    f, ln = m.group(1), int(m.group(2))
    name = None
    try:
        with open(os.path.join(COQ, f)) as fh:
            lines = fh.read().splitlines()
        for i in range(min(ln, len(lines)) - 1, -1, -1):
            mm = STMT_RE.match(lines[i])
            if mm:
                name = mm.group(2)
                break
    except OSError:
        pass
    err = make_out[m.start():][:1500]
    return {"file": f, "line": ln, "lemma": name, "error": err}


# ------------------------------------------------------------------ findings
def load_known():
    p = os.path.join(VERIF, "known_findings.json")
    if not os.path.exists(p):
        return {"open": [], "fixed": []}
    with open(p) as f:
        return json.load(f)


class Report:
    """Collects the outcome of one check run and writes evidence."""

    def __init__(self, prop, tier, seed):
        self.prop = prop
        self.tier = tier
        self.seed = seed
        self.t0 = time.time()
        self.violations = []
        self.known_hits = []
        self.cov = {
            "obligations": 0,
            "discharged": 0,
            "checker_cmd": "make -j16 -C coq Props/%s.vo  (coq_makefile full .vo build) + coqc Print Assumptions" % prop,
            "trusted_base": list(TRUSTED_BASE),
            "evaluations": 0,
            "distinct_nontrivial": 0,
            "rule": "",
            "samples": [],
        }
        self.assumptions = []
        self.notes = []
        # replay files of earlier runs of this property are stale
        try:
            for fn in os.listdir(REPLAY):
                if fn.startswith(prop + "-"):
                    os.remove(os.path.join(REPLAY, fn))
        except OSError:
            pass

    def violation(self, what, replay_obj, found_input=True):
        os.makedirs(REPLAY, exist_ok=True)
        h = hashlib.sha256(json.dumps(replay_obj, sort_keys=True).encode()).hexdigest()[:12]
        path = os.path.join(REPLAY, "%s-%s.json" % (self.prop, h))
        replay_obj = dict(replay_obj)
        replay_obj["property"] = self.prop
        replay_obj["what"] = what
        with open(path, "w") as f:
            json.dump(replay_obj, f, indent=1)
        rel = os.path.relpath(path, VERIF)
        suffix = "" if found_input else " no-failing-input-found"
        print("VIOLATION property=%s replay=%s%s" % (self.prop, rel, suffix), flush=True)
        log("  -> " + what)
        self.violations.append({"what": what, "replay": rel})

    def known(self, what):
        print("KNOWN-FINDING: property=%s %s" % (self.prop, what), flush=True)
        self.known_hits.append(what)

    def finish(self, level="proof"):
        os.makedirs(EVID, exist_ok=True)
        ev = {
            "property_id": self.prop,
            "tier": self.tier,
            "seed": self.seed,
            "level": level,
            "coverage": self.cov,
            "assumptions": self.assumptions,
            "wall_s": round(time.time() - self.t0, 2),
            "violations": len(self.violations),
        }
        if self.notes:
            ev["coverage"]["notes"] = self.notes
        if self.known_hits:
            ev["coverage"]["known_findings_reproduced"] = self.known_hits
        with open(os.path.join(EVID, self.prop + ".json"), "w") as f:
            json.dump(ev, f, indent=1)
        return 1 if self.violations else 0
