"""Reference (specification) parser of SPIR-V word streams per the reference
grammar: decides conformance, independent of the implementation and of the
Coq model.  Used as the searcher's oracle for C03/C10/C01."""
import spirvgen as sg


class Fault(Exception):
    def __init__(self, cls, detail=""):
        self.cls = cls
        self.detail = detail


class RefParser:
    def __init__(self, g):
        self.g = g

    def parse_stream(self, data):
        """data: bytes. Returns dict(accepted, header, insts[text], fault=None|dict)"""
        n = len(data)
        if n < 20:
            return {"accepted": False, "header": None, "insts": [], "fault": {"cls": "header_incomplete", "index": 0}}
        w = [int.from_bytes(data[i:i + 4], "little") for i in range(0, n - n % 4, 4)]
        if w[0] != sg.MAGIC:
            cls = "endianness" if w[0] == int.from_bytes(sg.MAGIC.to_bytes(4, "little"), "big") else "header_incorrect"
            return {"accepted": False, "header": None, "insts": [], "fault": {"cls": cls, "index": 0}}
        header = "%x.%x.%x.%x.%x" % (sg.MAGIC, w[1] & 0x00FFFF00, 0x000F0000, w[3], 0)
        types = {}
        insts = []
        pos = 5
        idx = 0
        while pos < len(w):
            idx += 1
            first = w[pos]
            wc, opc = first >> 16, first & 0xFFFF
            start = pos * 4
            fault = None
            if wc == 0:
                fault = ("zero_word_count", "")
            elif opc not in self.g.by_opcode:
                fault = ("unknown_opcode", "")
            else:
                avail = w[pos + 1:pos + wc]
                truncated = pos + wc > len(w)
                try:
                    text = self.parse_inst(opc, avail, wc - 1, types, truncated, data, (pos + 1) * 4)
                except Fault as f:
                    fault = (f.cls, f.detail)
            if fault:
                return {"accepted": False, "header": header, "insts": insts,
                        "fault": {"cls": fault[0], "detail": fault[1], "index": idx, "start": start, "extent": start + 4 * wc}}
            insts.append(text)
            self.track(text, types)
            pos += wc
        return {"accepted": True, "header": header, "insts": insts, "fault": None}

    def track(self, text, types):
        op, rt, rid, ops = text.split("/")
        if rid == "-":
            return
        rid = int(rid, 16)
        opc = int(op, 16)
        toks = ops.split(",") if ops != "-" else []
        name = self.g.by_opcode[opc]["name"]
        if name.startswith("Type"):
            if name == "TypeInt":
                types[rid] = ("int", int(toks[0][1:], 16))
            elif name == "TypeFloat":
                types[rid] = ("float", int(toks[0][1:], 16))
        elif rt != "-" and int(rt, 16) in types:
            types[rid] = types[int(rt, 16)]

    def parse_inst(self, opc, words, declared, types, truncated, data, byte_off):
        g = self.g
        e = g.by_opcode[opc]
        cur = {"i": 0}
        rt = rid = None
        toks = []

        def more():
            return cur["i"] < declared

        def word():
            if cur["i"] >= declared:
                raise Fault("missing", "operand word beyond the declared word count")
            if cur["i"] >= len(words):
                raise Fault("missing", "instruction extends past the end of the stream")
            x = words[cur["i"]]
            cur["i"] += 1
            return x

        def string():
            # bytes from the current word to the first NUL, inside the declared extent and the stream
            b = bytearray()
            while True:
                x = word()
                bs = x.to_bytes(4, "little")
                if 0 in bs:
                    b += bs[:bs.index(0)]
                    break
                b += bs
            try:
                b.decode("utf-8")
            except UnicodeDecodeError:
                raise Fault("undecodable", "string is not UTF-8")
            return bytes(b)

        def literal(type_id):
            t = types.get(type_id)
            if t is None:
                return "L%x" % word()
            kind, width = t
            ok32 = (8, 16, 32) if kind == "int" else (16, 32)
            if width in ok32:
                return "L%x" % word()
            if width == 64:
                lo = word()
                hi = word()
                return "Q%x" % ((hi << 32) | lo)
            raise Fault("undecodable", "unsupported literal width")

        def slot(variant):
            if variant in sg.ID_TOK:
                return sg.ID_TOK[variant] + "%x" % word()
            if variant == "LiteralBit32":
                return "L%x" % word()
            if variant == "LiteralExtInstInteger":
                return "X%x" % word()
            if variant == "LiteralString":
                s = string()
                return "S" + (s.hex() or "-")
            return enumtok(variant, word(), params=False)[0]

        def enumtok(kind, v, params=True):
            if kind in g.flags:
                if v & ~g.flag_all(kind):
                    raise Fault("undecodable", "undeclared bit of " + kind)
            else:
                if v not in g.enum_values(kind):
                    raise Fault("undecodable", "undeclared enumerant of " + kind)
            out = ["E%d.%x" % (g.kidx[kind], v)]
            if params:
                for variant, _ in g.params_of(kind, v):
                    out.append(slot(variant))
            return out

        def group(kind, nested=False):
            if kind in sg.ID_TOK:
                return [sg.ID_TOK[kind] + "%x" % word()]
            if kind in ("LiteralInteger", "LiteralFloat"):
                return ["L%x" % word()]
            if kind == "LiteralExtInstInteger":
                return ["X%x" % word()]
            if kind == "LiteralString":
                s = string()
                return ["S" + (s.hex() or "-")]
            if kind == "PairIdRefLiteralInteger":
                return ["R%x" % word(), "L%x" % word()]
            if kind == "PairIdRefIdRef":
                return ["R%x" % word(), "R%x" % word()]
            if kind == "LiteralContextDependentNumber":
                return [literal(rt)]
            if kind == "PairLiteralIntegerIdRef":
                sel = int(toks[0][1:], 16)
                return [literal(sel), "R%x" % word()]
            if kind == "LiteralSpecConstantOpInteger":
                num = word()
                ne = g.by_opcode.get(num) if num < 65536 else None
                if ne is None or any(k in ("LiteralContextDependentNumber", "PairLiteralIntegerIdRef", "LiteralSpecConstantOpInteger") for k, _ in ne["operands"]):
                    raise Fault("undecodable", "bad OpSpecConstantOp opcode")
                out = ["P%x" % num]
                for k, qn in ne["operands"]:
                    if k in ("IdResultType", "IdResult"):
                        continue
                    if qn == "One":
                        out += group(k, True)
                    elif qn == "ZeroOrOne":
                        if more():
                            out += group(k, True)
                    else:
                        while more():
                            out += group(k, True)
                return out
            return enumtok(kind, word())

        ops = e["operands"]
        i = 0
        while i < len(ops):
            kind, qn = ops[i]
            if not more():
                if qn == "One":
                    raise Fault("missing", "required operand %s absent" % kind)
                break
            if kind == "IdResultType":
                rt = word()
            elif kind == "IdResult":
                rid = word()
            else:
                toks += group(kind)
            if qn != "ZeroOrMore":
                i += 1
        if more():
            raise Fault("surplus", "words left over")
        if cur["i"] > len(words):
            raise Fault("missing", "past the end of the stream")
        o = lambda x: "-" if x is None else "%x" % x
        return "%x/%s/%s/%s" % (opc, o(rt), o(rid), ",".join(toks) if toks else "-")


KIND_OF_STATE = {
    "HIN": "header_incomplete", "HBAD": "header_incorrect", "ENDIAN": "endianness",
    "WCZ": "zero_word_count", "OPU": "unknown_opcode",
    "OEX": "missing", "OXC": "surplus", "TUN": "undecodable", "SCI": "undecodable",
}


def state_class(r):
    """fault class named by a canonical ParseState text"""
    head = r.split(":")[0]
    if head == "OE":
        # OperandError(DecodeError)
        parts = r.split(":")
        k = parts[2]
        return {"SE": "missing", "LR": "missing", "UK": "undecodable", "DS": "undecodable"}.get(k, "?")
    return KIND_OF_STATE.get(head, "?")


def state_offset_index(r):
    parts = r.split(":")
    head = parts[0]
    try:
        if head in ("WCZ", "OPU", "OEX", "OXC", "TUN", "SCI"):
            return int(parts[1], 16), int(parts[2], 16)
        if head == "OE":
            k = parts[2]
            if k in ("SE", "LR", "DS"):
                return int(parts[3], 16), None
            if k == "UK":
                return int(parts[4], 16), None
    except (ValueError, IndexError):
        pass
    return None, None
