"""Regenerates every Gen artefact from /repo's working tree:
T-src (rs2coq) -> facts, harness stubs -> harness build -> T-dump -> coq/Gen/*.v"""
import json
import os
import core
import gen_coq
import gen_harness
from core import CACHE, VERIF, log


def load_ref(name):
    with open(os.path.join(VERIF, "ref", name)) as f:
        return json.load(f)


class Prep:
    def __init__(self):
        self.facts = None
        self.broken = []      # list of {"lemma":..., "error":...}
        self.exe = None
        self.dump_spirv = None
        self.dump_grammar = None

    def failures(self, prefixes):
        return [f for f in self.facts["failures"] if any(f.startswith(p) for p in prefixes)]


def prepare(release=False):
    p = Prep()
    p.facts = core.run_rs2coq()
    facts = p.facts
    gen_harness.gen_spirv(facts["spirv"])
    gen_harness.gen_reflect(facts["reflect"])
    gen_harness.gen_decode(facts["operand"], {f["name"] for f in facts["spirv"]["flags"]})
    gen_harness.gen_operand(facts)
    gen_harness.gen_builder(facts)
    gen_harness.gen_convert(facts)
    p.exe, err = core.build_harness(release=False)
    if p.exe is None:
        p.broken.append({"lemma": "harness build (T-dump call stubs generated from T-src)", "error": err[-3000:]})
    else:
        d1 = os.path.join(CACHE, "dump_spirv.json")
        rc, out, _ = core.run([p.exe, "dump-spirv", os.path.join(CACHE, "facts.json"), d1])
        if rc == 0:
            with open(d1) as f:
                p.dump_spirv = json.load(f)
        else:
            p.broken.append({"lemma": "harness dump-spirv", "error": out[-2000:]})
        d3 = os.path.join(CACHE, "dump_operand.json")
        rc, out, _ = core.run([p.exe, "dump-operand", os.path.join(CACHE, "facts.json"), d3])
        p.dump_operand = None
        if rc == 0:
            with open(d3) as f:
                p.dump_operand = json.load(f)
            gen_coq.gen_operand_dump(p.dump_operand, "DumpOperand")
        else:
            p.broken.append({"lemma": "harness dump-operand", "error": out[-2000:]})
        d2 = os.path.join(CACHE, "dump_grammar.json")
        rc, out, _ = core.run([p.exe, "dump-grammar", d2])
        if rc == 0:
            with open(d2) as f:
                p.dump_grammar = json.load(f)
        else:
            p.broken.append({"lemma": "harness dump-grammar", "error": out[-2000:]})
    if release:
        p.rexe, err = core.build_harness(release=True)
    # Coq data
    gen_coq.gen_spirv(facts["spirv"], "SpirvData", "spirv/autogen_spirv.rs via rs2coq")
    gen_coq.gen_spirv(load_ref("spirv.json"), "RefSpirv", "ref/spirv.json")
    gen_coq.gen_table(facts["table"], "TableData", "rspirv/grammar/autogen_*.rs via rs2coq")
    gen_coq.gen_table(load_ref("table.json"), "RefTable", "ref/table.json")
    gen_coq.gen_reflect(facts["reflect"], facts["builder"], "ReflectData", "rspirv/grammar/reflect.rs, rspirv/dr/build/*.rs via rs2coq")
    gen_coq.gen_ref_classes(load_ref("opclass.json"), "RefClasses")
    gen_coq.gen_parse(facts["operand"], facts["engine"], "ParseData", "rspirv/binary/autogen_{parse,decode}_operand.rs, assemble.rs, dr/autogen_operand.rs via rs2coq")
    p.builder_failures = gen_coq.gen_builder(facts, "BuilderData", "rspirv/dr/build/*.rs via rs2coq")
    gen_coq.gen_panics(facts["panics"], "PanicSites", "rs2coq panic-site visitor over the files C04/C20 anchor")
    gen_coq.gen_panics(load_ref("panic_audit.json"), "RefPanicAudit", "ref/panic_audit.json", with_disposition=True)
    gen_coq.gen_disas(facts["disas"], "DisasData", "rspirv/binary/{disassemble,autogen_disas_operand}.rs, dr/autogen_operand.rs via rs2coq")
    gen_coq.gen_disas(load_ref("disas.json"), "RefDisas", "ref/disas.json")
    rp = load_ref("params.json")
    gen_coq.gen_parse({"decode": rp["decode"], "parse": {"arms": rp["arms"], "args": rp["args"]},
                       "assemble": {"operand_arms": []}, "variants": rp["variants"]}, {"storage_index_type": "u32"},
                      "RefParams", "ref/params.json")
    p.loader_failures = gen_coq.gen_loader(facts["loader"], "LoaderData", "rspirv/dr/loader.rs via rs2coq")
    p.lift_failures = gen_coq.gen_lift(facts.get("lift"), "LiftData", "rspirv/lift/autogen_context.rs via rs2coq")
    p.opreflect_failures = gen_coq.gen_opreflect(facts.get("opreflect"), load_ref("operand_reflect.json"))
    gen_coq.gen_traverse(facts["traverse"], "TraverseData", "rspirv/dr/constructs.rs, rspirv/binary/assemble.rs via rs2coq")
    if p.dump_spirv is not None:
        gen_coq.gen_spirv_dump(p.dump_spirv, "DumpSpirv")
    if p.dump_grammar is not None:
        gen_coq.gen_table_dump(p.dump_grammar, facts["table"]["kinds"], "DumpTable")
        gen_coq.gen_reflect_dump(p.dump_grammar, "DumpReflect")
    return p


def all_gen(facts=None, build=True):
    return prepare(release=build)
