"""Regenerates every Gen artefact (used by setup; checks regenerate what they need)."""
import json
import os
import core
import gen_coq
import gen_harness
from core import CACHE, VERIF, log


def load_ref(name):
    with open(os.path.join(VERIF, "ref", name)) as f:
        return json.load(f)


def all_gen(facts, build=True):
    gen_harness.gen_spirv(facts["spirv"])
    exe, err = core.build_harness(release=False)
    if exe is None:
        log("harness build failed:\n" + err[-2000:])
        return
    if build:
        core.build_harness(release=True)
    dpath = os.path.join(CACHE, "dump_spirv.json")
    core.run([exe, "dump-spirv", os.path.join(CACHE, "facts.json"), dpath])
    with open(dpath) as f:
        dump = json.load(f)
    gen_coq.gen_spirv(facts["spirv"], "SpirvData", "spirv/autogen_spirv.rs via rs2coq")
    gen_coq.gen_spirv(load_ref("spirv.json"), "RefSpirv", "ref/spirv.json")
    gen_coq.gen_spirv_dump(dump, "DumpSpirv")
