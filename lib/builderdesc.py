"""Builder method descriptors: classification of parameter types, the
hand-written emitting methods of build/mod.rs described in the same
descriptor language (guarded by source fingerprints), and resolution of
wrappers."""

PTYPE = {
    "spirv :: Word": "PW", "u32": "PW", "u64": "PW", "u8": "PW",
    "Option < spirv :: Word >": "POptW",
    "impl IntoIterator < Item = spirv :: Word >": "PListW", "impl IntoIterator < Item = u32 >": "PListW",
    "impl AsRef < [ u32 ] >": "PListW", "impl AsRef < [ spirv :: Word ] >": "PListW",
    "impl IntoIterator < Item = dr :: Operand >": "POps",
    "impl IntoIterator < Item = ( spirv :: Word , spirv :: Word ) >": "PPairsWW",
    "impl IntoIterator < Item = ( spirv :: Word , u32 ) >": "PPairsWW",
    "impl IntoIterator < Item = ( dr :: Operand , spirv :: Word ) >": "PPairsOW",
    "impl Into < String >": "PStr", "& str": "PStr", "Option < impl Into < String > >": "POptStr",
    "InsertPoint": "PPoint",
}


def ptype(t, enums, flags):
    if t in PTYPE:
        return PTYPE[t], None
    if t.startswith("spirv :: "):
        n = t[len("spirv :: "):]
        if n in enums or n in flags:
            return "PW", n
    if t.startswith("Option < spirv :: ") and t.endswith(" >"):
        n = t[len("Option < spirv :: "):-2]
        if n in enums or n in flags:
            return "POptW", n
    return None, None


SEC = {"capabilities": 0, "extensions": 1, "ext_inst_imports": 2, "entry_points": 4, "execution_modes": 5,
       "debug_string_source": 6, "debug_names": 7, "debug_module_processed": 8, "annotations": 9, "types_global_values": 10}

# hand-written emitting methods of build/mod.rs, in the descriptor language
HAND = {
    "capability": {"opcode": "Capability", "rtype": {"mode": "none"}, "rid": {"mode": "none"}, "ret": None,
                   "slots": [{"q": "one", "kind": "Capability", "param": "capability"}], "sink": {"sink": "section", "section": "capabilities"}},
    "extension": {"opcode": "Extension", "rtype": {"mode": "none"}, "rid": {"mode": "none"}, "ret": None,
                  "slots": [{"q": "one", "kind": "LiteralString", "param": "extension"}], "sink": {"sink": "section", "section": "extensions"}},
    "ext_inst_import": {"opcode": "ExtInstImport", "rtype": {"mode": "none"}, "rid": {"mode": "fresh"}, "ret": "id",
                        "slots": [{"q": "one", "kind": "LiteralString", "param": "extended_inst_set"}], "sink": {"sink": "section", "section": "ext_inst_imports"}},
    "memory_model": {"opcode": "MemoryModel", "rtype": {"mode": "none"}, "rid": {"mode": "none"}, "ret": None,
                     "slots": [{"q": "one", "kind": "AddressingModel", "param": "addressing_model"}, {"q": "one", "kind": "MemoryModel", "param": "memory_model"}],
                     "sink": {"sink": "memory_model"}},
    "entry_point": {"opcode": "EntryPoint", "rtype": {"mode": "none"}, "rid": {"mode": "none"}, "ret": None,
                    "slots": [{"q": "one", "kind": "ExecutionModel", "param": "execution_model"}, {"q": "one", "kind": "IdRef", "param": "entry_point"},
                              {"q": "one", "kind": "LiteralString", "param": "name"}, {"q": "many", "kind": "IdRef", "param": "interface"}],
                    "sink": {"sink": "section", "section": "entry_points"}},
    "execution_mode": {"opcode": "ExecutionMode", "rtype": {"mode": "none"}, "rid": {"mode": "none"}, "ret": None,
                       "slots": [{"q": "one", "kind": "IdRef", "param": "entry_point"}, {"q": "one", "kind": "ExecutionMode", "param": "execution_mode"},
                                 {"q": "many", "kind": "LiteralBit32", "param": "params"}], "sink": {"sink": "section", "section": "execution_modes"}},
    "execution_mode_id": {"opcode": "ExecutionModeId", "rtype": {"mode": "none"}, "rid": {"mode": "none"}, "ret": None,
                          "slots": [{"q": "one", "kind": "IdRef", "param": "entry_point"}, {"q": "one", "kind": "ExecutionMode", "param": "execution_mode"},
                                    {"q": "many", "kind": "IdRef", "param": "params"}], "sink": {"sink": "section", "section": "execution_modes"}},
    "ext_inst": {"opcode": "ExtInst", "rtype": {"mode": "param", "param": "result_type"}, "rid": {"mode": "opt_param_else_fresh", "param": "result_id"}, "ret": "ok_id",
                 "slots": [{"q": "one", "kind": "IdRef", "param": "extension_set"}, {"q": "one", "kind": "LiteralExtInstInteger", "param": "instruction"},
                           {"q": "extras", "param": "operands"}], "sink": {"sink": "block", "point": "end"}},
    "line": {"opcode": "Line", "rtype": {"mode": "none"}, "rid": {"mode": "none"}, "ret": None,
             "slots": [{"q": "one", "kind": "IdRef", "param": "file"}, {"q": "one", "kind": "LiteralBit32", "param": "line"}, {"q": "one", "kind": "LiteralBit32", "param": "column"}],
             "sink": {"sink": "line_rule"}},
    "no_line": {"opcode": "NoLine", "rtype": {"mode": "none"}, "rid": {"mode": "none"}, "ret": None, "slots": [], "sink": {"sink": "line_rule"}},
    "decoration_group": {"opcode": "DecorationGroup", "rtype": {"mode": "none"}, "rid": {"mode": "fresh"}, "ret": "id", "slots": [],
                         "sink": {"sink": "section", "section": "annotations"}},
    "string": {"opcode": "String", "rtype": {"mode": "none"}, "rid": {"mode": "fresh"}, "ret": "id",
               "slots": [{"q": "one", "kind": "LiteralString", "param": "s"}], "sink": {"sink": "section", "section": "debug_string_source"}},
    "type_forward_pointer": {"opcode": "TypeForwardPointer", "rtype": {"mode": "none"}, "rid": {"mode": "none"}, "ret": None,
                             "slots": [{"q": "one", "kind": "IdRef", "param": "pointer_type"}, {"q": "one", "kind": "StorageClass", "param": "storage_class"}],
                             "sink": {"sink": "section", "section": "types_global_values"}},
    "type_pointer": {"opcode": "TypePointer", "rtype": {"mode": "none"}, "rid": {"mode": "opt_param", "param": "result_id"}, "ret": "id",
                     "slots": [{"q": "one", "kind": "StorageClass", "param": "storage_class"}, {"q": "one", "kind": "IdRef", "param": "pointee_type"}],
                     "sink": {"sink": "dedup_type"}},
    "type_opaque": {"opcode": "TypeOpaque", "rtype": {"mode": "none"}, "rid": {"mode": "fresh"}, "ret": "id",
                    "slots": [{"q": "one", "kind": "LiteralString", "param": "type_name"}], "sink": {"sink": "section", "section": "types_global_values"}},
    "constant_bit32": {"opcode": "Constant", "rtype": {"mode": "param", "param": "result_type"}, "rid": {"mode": "fresh"}, "ret": "id",
                       "slots": [{"q": "one", "kind": "LiteralBit32", "param": "value"}], "sink": {"sink": "section", "section": "types_global_values"}},
    "constant_bit64": {"opcode": "Constant", "rtype": {"mode": "param", "param": "result_type"}, "rid": {"mode": "fresh"}, "ret": "id",
                       "slots": [{"q": "one", "kind": "LiteralBit64", "param": "value"}], "sink": {"sink": "section", "section": "types_global_values"}},
    "spec_constant_bit32": {"opcode": "SpecConstant", "rtype": {"mode": "param", "param": "result_type"}, "rid": {"mode": "fresh"}, "ret": "id",
                            "slots": [{"q": "one", "kind": "LiteralBit32", "param": "value"}], "sink": {"sink": "section", "section": "types_global_values"}},
    "spec_constant_bit64": {"opcode": "SpecConstant", "rtype": {"mode": "param", "param": "result_type"}, "rid": {"mode": "fresh"}, "ret": "id",
                            "slots": [{"q": "one", "kind": "LiteralBit64", "param": "value"}], "sink": {"sink": "section", "section": "types_global_values"}},
    "variable": {"opcode": "Variable", "rtype": {"mode": "param", "param": "result_type"}, "rid": {"mode": "opt_param_else_fresh", "param": "result_id"}, "ret": "id",
                 "slots": [{"q": "one", "kind": "StorageClass", "param": "storage_class"}, {"q": "opt", "kind": "IdRef", "param": "initializer"}],
                 "sink": {"sink": "block_else_global"}},
    "undef": {"opcode": "Undef", "rtype": {"mode": "param", "param": "result_type"}, "rid": {"mode": "opt_param_else_fresh", "param": "result_id"}, "ret": "id",
              "slots": [], "sink": {"sink": "block_else_global"}},
}

# structural methods modelled by hand in Model/Builder.v (no descriptor)
STRUCTURAL = ["begin_function", "end_function", "function_parameter", "begin_block", "begin_block_no_label",
              "select_function", "select_block", "pop_instruction", "id", "set_version"]


def resolve(methods):
    """name -> (descriptor dict, params) for every method the generic call protocol can drive"""
    by = {m["name"]: m for m in methods}
    out = {}
    for m in methods:
        if not m["public"]:
            continue
        d = m["desc"]
        if m["name"] in HAND:
            d = HAND[m["name"]]
        elif "delegate" in d:
            callee = by.get(d["delegate"])
            if callee is None or "opcode" not in callee["desc"]:
                continue
            cd = callee["desc"]
            # same body with result_id = None and the parameters renamed positionally
            cparams = [p for p, _ in callee["params"]]
            ren = dict(zip(cparams[1:], d["args"]))
            nd = json_copy(cd)
            for sl in nd["slots"]:
                sl["param"] = ren.get(sl["param"], sl["param"])
            if nd["rtype"].get("param"):
                nd["rtype"]["param"] = ren.get(nd["rtype"]["param"], nd["rtype"]["param"])
            nd["rid"] = {"mode": "opt_param_const_none"}
            d = nd
        elif "opcode" not in d:
            continue
        out[m["name"]] = (d, m["params"], m["ret"])
    return out


def json_copy(x):
    import json
    return json.loads(json.dumps(x))
