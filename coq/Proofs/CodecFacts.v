(** Assemble / parse round trip for grammar-conforming instructions
    (Spec/Conforms.v): the assembler's words, laid out as little-endian bytes,
    are parsed back to the very same instruction, for every linked grammar
    [G] that passes the boolean check [wf_gdata]. *)
From RV Require Import Model.Base Model.Bytes Model.Spirv Model.Grammar Model.Decoder Model.Inst Model.Parser.
From RV Require Import Proofs.DecoderFacts Proofs.GrammarFacts Spec.Conforms.

(** ---------------------------------------------------------------- *)
(** * Step 0: bytes / words bridge                                    *)
(** ---------------------------------------------------------------- *)

Lemma bytes_word_inv b0 b1 b2 b3 :
  b0 < 256 -> b1 < 256 -> b2 < 256 -> b3 < 256 ->
  bytes_of_word (word_of_bytes b0 b1 b2 b3) = [b0; b1; b2; b3].
Proof.
  intros H0 H1 H2 H3. unfold bytes_of_word, word_of_bytes.
  f_equal; [|f_equal; [|f_equal; [|f_equal]]]; timeout 20 lia.
Qed.

Lemma word_bytes_inv w : w < w32 ->
  word_of_bytes (w mod 256) ((w / 256) mod 256) ((w / 65536) mod 256) ((w / 16777216) mod 256) = w.
Proof. unfold w32, word_of_bytes. intros H. timeout 20 lia. Qed.

Lemma word_of_bytes_lt b0 b1 b2 b3 :
  b0 < 256 -> b1 < 256 -> b2 < 256 -> b3 < 256 -> word_of_bytes b0 b1 b2 b3 < w32.
Proof. unfold w32, word_of_bytes. lia. Qed.

Lemma bytes_of_words_app a b : bytes_of_words (a ++ b) = bytes_of_words a ++ bytes_of_words b.
Proof. apply flat_map_app. Qed.

Lemma bytes_of_words_cons w ws : bytes_of_words (w :: ws) = bytes_of_word w ++ bytes_of_words ws.
Proof. reflexivity. Qed.

Lemma bytes_of_words_single w : bytes_of_words [w] = bytes_of_word w.
Proof. unfold bytes_of_words. cbn [flat_map]. apply app_nil_r. Qed.

Lemma bytes_of_words_length ws : length (bytes_of_words ws) = (4 * length ws)%nat.
Proof.
  induction ws as [|w ws IH]; [reflexivity|].
  rewrite bytes_of_words_cons, app_length, IH. cbn [bytes_of_word length]. lia.
Qed.

(** decoder states with a limit *)
Definition dst (bs : list N) (o l : N) : dec := {| rest := bs; off := o; lim := Some l |}.

Lemma dst_ext bs o o' l l' : o = o' -> l = l' -> dst bs o l = dst bs o' l'.
Proof. intros -> ->. reflexivity. Qed.

Lemma Ok_dst_ext {A} (a : A) bs o o' l l' : o = o' -> l = l' -> Ok (a, dst bs o l) = Ok (a, dst bs o' l').
Proof. intros -> ->. reflexivity. Qed.

Lemma limit_reached_dst bs o l : limit_reached (dst bs o l) = (l =? 0).
Proof. unfold limit_reached, dst. cbn [lim]. destruct l; reflexivity. Qed.

(** D1: reading back one assembled word *)
Lemma word_read w r o l : w < w32 -> 1 <= l ->
  word (dst (bytes_of_word w ++ r) o l) = (inl w, dst r (o + 4) (l - 1)).
Proof.
  intros Hw Hl. unfold word. rewrite limit_reached_dst.
  destruct (l =? 0) eqn:E; [lia|].
  unfold dst. cbn [rest off lim bytes_of_word app dec_lim]. rewrite word_bytes_inv by exact Hw. reflexivity.
Qed.

Theorem word_read_lim w r o n : w < w32 ->
  word {| rest := bytes_of_word w ++ r; off := o; lim := Some (n + 1) |}
  = (inl w, {| rest := r; off := o + 4; lim := Some n |}).
Proof.
  intros Hw. change (word (dst (bytes_of_word w ++ r) o (n + 1)) = (inl w, dst r (o + 4) n)).
  rewrite word_read by (exact Hw || lia). f_equal. apply dst_ext; lia.
Qed.

Theorem word_read_nolim w r o : w < w32 ->
  word {| rest := bytes_of_word w ++ r; off := o; lim := None |}
  = (inl w, {| rest := r; off := o + 4; lim := None |}).
Proof.
  intros Hw. unfold word, limit_reached. cbn [rest off lim bytes_of_word app dec_lim].
  rewrite word_bytes_inv by exact Hw. reflexivity.
Qed.

(** D2: a 64-bit literal, low word first *)
Lemma bit64_read v r o l : v < w32 * w32 -> 2 <= l ->
  bit64 (dst (bytes_of_words [v mod w32; (v / w32) mod w32] ++ r) o l) = (inl v, dst r (o + 8) (l - 2)).
Proof.
  intros Hv Hl. unfold bit64.
  rewrite bytes_of_words_cons, bytes_of_words_single, <- app_assoc.
  assert (H32: 0 < w32) by (unfold w32; lia).
  rewrite word_read by (try apply N.mod_lt; lia).
  rewrite word_read by (try apply N.mod_lt; lia).
  f_equal; [f_equal|apply dst_ext; lia].
  unfold w32 in *. timeout 20 lia.
Qed.

(** D3: strings *)
Lemma list_ind4 {A} (P : list A -> Prop) :
  P [] -> (forall a, P [a]) -> (forall a b, P [a; b]) -> (forall a b c, P [a; b; c]) ->
  (forall a b c d r, P r -> P (a :: b :: c :: d :: r)) -> forall l, P l.
Proof.
  intros H0 H1 H2 H3 H4. fix IH 1. intros [|a [|b [|c [|d r]]]]; [apply H0|apply H1|apply H2|apply H3|apply H4; apply IH].
Qed.

Lemma chunks_spec s : Forall (fun b => b < 256) s ->
  exists pad, bytes_of_words (chunks s) = s ++ 0 :: pad /\
              N.of_nat (length (chunks s)) = N.of_nat (length s) / 4 + 1.
Proof.
  induction s as [|a|a b|a b c|a b c d r IH] using list_ind4; intros HF.
  - exists [0; 0; 0]. split; reflexivity.
  - inversion HF; subst. exists [0; 0]. split; [|reflexivity].
    cbn [chunks]. rewrite bytes_of_words_single, bytes_word_inv by lia. reflexivity.
  - inversion HF as [|? ? ? HF1]; subst. inversion HF1; subst. exists [0]. split; [|reflexivity].
    cbn [chunks]. rewrite bytes_of_words_single, bytes_word_inv by lia. reflexivity.
  - inversion HF as [|? ? ? HF1]; subst. inversion HF1 as [|? ? ? HF2]; subst. inversion HF2; subst.
    exists []. split; [|reflexivity].
    cbn [chunks]. rewrite bytes_of_words_single, bytes_word_inv by lia. reflexivity.
  - inversion HF as [|? ? ? HF1]; subst. inversion HF1 as [|? ? ? HF2]; subst.
    inversion HF2 as [|? ? ? HF3]; subst. inversion HF3 as [|? ? ? HF4]; subst.
    destruct (IH HF4) as (pad & Hb & Hl). exists pad. split.
    + cbn [chunks]. rewrite bytes_of_words_cons, bytes_word_inv, Hb by lia. reflexivity.
    + cbn [chunks length] in *. lia.
Qed.

Lemma chunks_nonempty s : (1 <= length (chunks s))%nat.
Proof.
  induction s as [|a|a b|a b c|a b c d r IH] using list_ind4; cbn [chunks length]; lia.
Qed.

Lemma index0_app s x : Forall (fun b => b <> 0) s -> index0 (s ++ 0 :: x) = Some (length s).
Proof.
  induction s as [|b s IH]; intros HF; cbn [app index0 length].
  - reflexivity.
  - inversion HF; subst. destruct (N.eqb b 0) eqn:E; [apply N.eqb_eq in E; contradiction|].
    rewrite IH by assumption. reflexivity.
Qed.

Lemma index0_firstn_ge l : forall i k, index0 l = Some i -> (i < k)%nat -> index0 (firstn k l) = Some i.
Proof.
  induction l as [|b l IH]; intros i k H Hk; [discriminate|].
  destruct k as [|k]; [lia|]. cbn [firstn index0] in *.
  destruct (N.eqb b 0); [exact H|].
  destruct (index0 l) as [j|] eqn:E; [|discriminate]. cbn [option_map] in H. inversion H; subst.
  rewrite (IH j k eq_refl) by lia. reflexivity.
Qed.

Lemma str_ok_spec s : str_ok s = true ->
  Forall (fun b => b < 256) s /\ Forall (fun b => b <> 0) s /\ utf8_valid s = true.
Proof.
  unfold str_ok. intros H. apply andb_prop in H as [H1 H2]. rewrite forallb_forall in H1.
  split; [|split; [|exact H2]]; apply Forall_forall; intros b Hb; specialize (H1 b Hb); lia.
Qed.

Theorem string_read s r o l : str_ok s = true -> N.of_nat (length (chunks s)) <= l ->
  dstring (dst (bytes_of_words (chunks s) ++ r) o l)
  = (inl s, dst r (o + 4 * N.of_nat (length (chunks s))) (l - N.of_nat (length (chunks s)))).
Proof.
  intros Hs Hl. apply str_ok_spec in Hs as (Hb & Hnz & Hu).
  destruct (chunks_spec s Hb) as (pad & Hbytes & Hlen).
  pose proof (bytes_of_words_length (chunks s)) as HL.
  set (bs := bytes_of_words (chunks s)) in *.
  set (cw := N.of_nat (length (chunks s))) in *.
  assert (HI: index0 (bs ++ r) = Some (length s)).
  { rewrite Hbytes, <- app_assoc. apply index0_app. exact Hnz. }
  assert (HF: firstn (length s) (bs ++ r) = s).
  { rewrite Hbytes, <- app_assoc, firstn_app, Nat.sub_diag, firstn_all. cbn [firstn]. apply app_nil_r. }
  assert (Hcw: N.of_nat (length s) / 4 + 1 = cw) by lia.
  assert (HW: exists w lm, string_window (dst (bs ++ r) o l) = (w, lm) /\
                           index0 w = Some (length s) /\ firstn (length s) w = s).
  { unfold string_window, dst. cbn [lim rest].
    destruct (4 * l <=? N.of_nat (length (bs ++ r))) eqn:C.
    - eexists _, _. split; [reflexivity|]. split.
      + apply index0_firstn_ge; [exact HI|lia].
      + rewrite firstn_firstn. replace (Nat.min (length s) (N.to_nat (4 * l))) with (length s) by lia. exact HF.
    - eexists _, _. split; [reflexivity|]. split; [exact HI|exact HF]. }
  destruct HW as (w & lm & HW & HIw & HFw).
  unfold dstring. rewrite HW, HIw, HFw, Hu, Hcw.
  unfold dst at 1 2 3 4. cbn [rest off lim dec_lim].
  assert (Hfit: 4 * cw <=? N.of_nat (length (bs ++ r)) = true) by (rewrite app_length; lia).
  rewrite Hfit. f_equal. unfold dst. f_equal.
  replace (N.to_nat (4 * cw)) with (length bs) by lia.
  rewrite skipn_app, skipn_all, Nat.sub_diag. reflexivity.
Qed.

(** the task's D3, with the limit counted in words *)
Corollary string_read_lim s r o n : str_ok s = true ->
  dstring {| rest := bytes_of_words (chunks s) ++ r; off := o; lim := Some (N.of_nat (length (chunks s)) + n) |}
  = (inl s, {| rest := r; off := o + 4 * N.of_nat (length (chunks s)); lim := Some n |}).
Proof.
  intros Hs.
  change (dstring (dst (bytes_of_words (chunks s) ++ r) o (N.of_nat (length (chunks s)) + n))
          = (inl s, dst r (o + 4 * N.of_nat (length (chunks s))) n)).
  rewrite string_read by (exact Hs || lia). f_equal. apply dst_ext; lia.
Qed.

(** ---------------------------------------------------------------- *)
(** * Reading back operands: slot -> slots -> parse_operand          *)
(** ---------------------------------------------------------------- *)

(** [f] reads the words [ws] (whatever follows them), returns [a], charges
    the limit with exactly [length ws] words *)
Definition Reads {A} (f : dec -> res (A * dec)) (ws : list N) (a : A) : Prop :=
  forall r o l, N.of_nat (length ws) <= l ->
    f (dst (bytes_of_words ws ++ r) o l)
    = Ok (a, dst r (o + 4 * N.of_nat (length ws)) (l - N.of_nat (length ws))).

Lemma asm_operand_nonempty o : (1 <= length (asm_operand o))%nat.
Proof. destruct o; cbn [asm_operand length]; try lia. apply chunks_nonempty. Qed.

Lemma flat_asm_nonempty o os : (1 <= length (flat_map asm_operand (o :: os)))%nat.
Proof. cbn [flat_map]. rewrite app_length. pose proof (asm_operand_nonempty o). lia. Qed.

Lemma word_operand_spec m o : word_operand m o = true ->
  o = make_operand m (operand_value o) /\ operand_value o < w32 /\
  asm_operand o = [operand_value o] /\ m <> MkStr.
Proof.
  destruct m, o; cbn [word_operand make_operand operand_value asm_operand]; try discriminate; intros H;
    (split; [|split; [|split]]); try reflexivity; try discriminate; try lia.
  apply andb_prop in H as [H1 _]. apply N.eqb_eq in H1. subst. reflexivity.
Qed.

Lemma read_slot_word m : m <> MkStr ->
  read_slot (RdWord, m) = fun d => do (w, d1) <- dreq (word d); Ok (make_operand m w, d1).
Proof. destruct m; try congruence; reflexivity. Qed.

Lemma read_slot_typed c m : m <> MkStr ->
  read_slot (RdTyped c, m) = fun d => do (w, d1) <- dreq (typed c d); Ok (make_operand m w, d1).
Proof. destruct m; try congruence; reflexivity. Qed.

Lemma read_slot_ok s o : slot_ok s o = true -> Reads (read_slot s) (asm_operand o) o.
Proof.
  destruct s as [rd m]. intros H r off l Hl. destruct rd as [| |c]; cbn [slot_ok] in H.
  - destruct (word_operand_spec m o H) as (Ho & Hv & Ha & Hm). rewrite Ha in *. cbn [length] in *.
    rewrite bytes_of_words_single, read_slot_word by exact Hm.
    rewrite word_read by lia. cbn [dreq bind]. rewrite <- Ho. apply Ok_dst_ext; lia.
  - destruct m; try discriminate. destruct o as [| | | | | | | |s]; try discriminate.
    cbn [read_slot asm_operand] in *. rewrite string_read by assumption. reflexivity.
  - apply andb_prop in H as [H Hc].
    destruct (word_operand_spec m o H) as (Ho & Hv & Ha & Hm). rewrite Ha in *. cbn [length] in *.
    rewrite bytes_of_words_single, read_slot_typed by exact Hm.
    unfold typed. rewrite word_read by lia. rewrite Hc. cbn [dreq bind]. rewrite <- Ho.
    apply Ok_dst_ext; lia.
Qed.

Lemma parse_slots_ok : forall ss os a rest, split_slots ss os = Some (a, rest) ->
  os = a ++ rest /\ Reads (parse_slots ss) (flat_map asm_operand a) a.
Proof.
  induction ss as [|s ss IH]; intros os a rest H; cbn [split_slots] in H.
  - inversion H; subst. split; [reflexivity|]. intros r o l Hl.
    cbn [flat_map parse_slots bytes_of_words app length]. apply Ok_dst_ext; lia.
  - destruct os as [|o1 os1]; [discriminate|]. destruct (slot_ok s o1) eqn:Hs; [|discriminate].
    destruct (split_slots ss os1) as [[a1 rest1]|] eqn:E; [|discriminate].
    inversion H; subst. destruct (IH _ _ _ E) as [-> HR]. split; [reflexivity|].
    intros r off l Hl. cbn [flat_map parse_slots] in *.
    rewrite bytes_of_words_app, <- app_assoc. rewrite app_length in Hl.
    rewrite (read_slot_ok s o1 Hs) by lia. cbn [bind].
    rewrite HR by lia. cbn [bind]. apply Ok_dst_ext; rewrite app_length; lia.
Qed.

Lemma parse_operand_ok G k os a rest : split_kind G k os = Some (a, rest) ->
  os = a ++ rest /\ Reads (parse_operand G k) (flat_map asm_operand a) a.
Proof.
  unfold split_kind, parse_operand. destruct (nth_error (gd_arms G) (N.to_nat k)) as [[|ss|s t]|]; try discriminate.
  - apply parse_slots_ok.
  - intros H. destruct os as [|o1 os1]; [discriminate|]. destruct (slot_ok s o1) eqn:Hs; [|discriminate].
    destruct (split_slots (table_params t (operand_value o1)) os1) as [[a1 rest1]|] eqn:E; [|discriminate].
    inversion H; subst. destruct (parse_slots_ok _ _ _ _ E) as [-> HR]. split; [reflexivity|].
    intros r off l Hl. cbn [flat_map] in *.
    rewrite bytes_of_words_app, <- app_assoc. rewrite app_length in Hl.
    rewrite (read_slot_ok s o1 Hs) by lia. cbn [bind].
    rewrite HR by lia. cbn [bind]. apply Ok_dst_ext; rewrite app_length; lia.
Qed.

(** context-dependent literals *)
Lemma parse_literal_width t id idx d :
  parse_literal t id idx d =
  match lit_width t id with
  | Some W32 => lit32 d
  | Some W64 => lit64 d
  | None => Er (PTypeUnsupported (off d) idx)
  end.
Proof.
  unfold parse_literal, lit_width. destruct (resolve t id) as [[size sg|size]|]; [| |reflexivity].
  - destruct (N.eqb size 8 || N.eqb size 16 || N.eqb size 32); [reflexivity|].
    destruct (N.eqb size 64); reflexivity.
  - destruct (N.eqb size 16 || N.eqb size 32); [reflexivity|].
    destruct (N.eqb size 64); reflexivity.
Qed.

Lemma parse_literal_ok t id idx o : literal_ok t id o = true ->
  Reads (parse_literal t id idx) (asm_operand o) o.
Proof.
  unfold literal_ok. intros H r off l Hl. rewrite parse_literal_width.
  destruct (lit_width t id) as [[|]|]; [| |discriminate].
  - destruct o; try discriminate. cbn [asm_operand length] in *. unfold lit32.
    rewrite bytes_of_words_single, word_read by lia. cbn [dreq bind]. apply Ok_dst_ext; lia.
  - destruct o; try discriminate. cbn [asm_operand length] in *. unfold lit64.
    rewrite bit64_read by lia. cbn [dreq bind]. apply Ok_dst_ext; lia.
Qed.

(** ---------------------------------------------------------------- *)
(** * OpSpecConstantOp: nested operands                               *)
(** ---------------------------------------------------------------- *)
Notation flat := (flat_map asm_operand).

Lemma parse_star_nil G fuel k acc r o :
  parse_star G (S fuel) k (dst r o 0) acc = Ok (acc, dst r o 0).
Proof. cbn [parse_star]. rewrite limit_reached_dst. reflexivity. Qed.

Lemma parse_star_ok G k : forall sf os, split_star G k sf os = true ->
  forall fuel acc r o l,
    l = N.of_nat (length (flat os)) -> (length (flat os) < fuel)%nat ->
    parse_star G fuel k (dst (bytes_of_words (flat os) ++ r) o l) acc = Ok (acc ++ os, dst r (o + 4 * l) 0).
Proof.
  assert (Hnil: forall fuel acc r o l, l = N.of_nat (length (flat [])) -> (length (flat []) < fuel)%nat ->
            parse_star G fuel k (dst (bytes_of_words (flat []) ++ r) o l) acc = Ok (acc ++ [], dst r (o + 4 * l) 0)).
  { intros fuel acc r o l -> Hf. destruct fuel; [cbn in Hf; lia|].
    cbn [flat_map bytes_of_words app length]. rewrite parse_star_nil, app_nil_r. apply Ok_dst_ext; lia. }
  induction sf as [|sf IH]; intros os H fuel acc r o l Hl Hf.
  - destruct os; [|discriminate]. apply Hnil; assumption.
  - destruct os as [|o1 os1]; [apply Hnil; assumption|]. cbn [split_star] in H.
    destruct (split_kind G k (o1 :: os1)) as [[[|a0 a] rest]|] eqn:E; try discriminate.
    destruct (parse_operand_ok _ _ _ _ _ E) as [Heq HR]. rewrite Heq in *. clear Heq E.
    rewrite flat_map_app, app_length in *. pose proof (flat_asm_nonempty a0 a) as Hne.
    destruct fuel; [lia|]. cbn [parse_star]. rewrite limit_reached_dst.
    destruct (l =? 0) eqn:E0; [lia|].
    rewrite bytes_of_words_app, <- app_assoc, HR by lia. cbn [bind].
    rewrite (IH _ H) by lia. rewrite app_assoc. apply Ok_dst_ext; lia.
Qed.

Section Nested.
Variable G : gdata.

Lemma conf_nested_ok : forall lops os a rest, conf_nested G lops os = Some (a, rest) ->
  os = a ++ rest /\
  forall idx acc r o l, l = N.of_nat (length (flat os)) ->
    parse_nested G lops idx (dst (bytes_of_words (flat os) ++ r) o l) acc
    = Ok (acc ++ a, dst (bytes_of_words (flat rest) ++ r) (o + 4 * N.of_nat (length (flat a)))
                        (N.of_nat (length (flat rest)))).
Proof.
  induction lops as [|[k q] lops IH]; intros os a rest H; cbn [conf_nested] in H.
  - inversion H; subst. split; [reflexivity|]. intros idx acc r o l ->. cbn [parse_nested flat_map length].
    rewrite app_nil_r. apply Ok_dst_ext; lia.
  - destruct (N.eqb k (gd_k_rt G) || N.eqb k (gd_k_rid G)) eqn:Eres.
    { destruct (IH _ _ _ H) as [Heq HP]. split; [exact Heq|]. intros idx acc r o l Hl.
      cbn [parse_nested]. rewrite Eres. apply HP. exact Hl. }
    destruct (N.eqb k (gd_k_ctx G) || N.eqb k (gd_k_pairlitid G) || N.eqb k (gd_k_specop G)) eqn:Espec;
      [discriminate|].
    (* the "exactly one" case, shared by One and a present ZeroOrOne *)
    assert (Hone: forall os, match split_kind G k os with
              | Some (a0, os1) => match conf_nested G lops os1 with
                                  | Some (b, rest) => Some (a0 ++ b, rest) | None => None end
              | None => None end = Some (a, rest) ->
              os = a ++ rest /\
              forall idx acc r o l, l = N.of_nat (length (flat os)) ->
                (do (a1, d1) <- parse_operand G k (dst (bytes_of_words (flat os) ++ r) o l);
                 parse_nested G lops idx d1 (acc ++ a1))
                = Ok (acc ++ a, dst (bytes_of_words (flat rest) ++ r) (o + 4 * N.of_nat (length (flat a)))
                                    (N.of_nat (length (flat rest))))).
    { clear H. intros os0 H. destruct (split_kind G k os0) as [[a0 os1]|] eqn:E; [|discriminate].
      destruct (conf_nested G lops os1) as [[b rest1]|] eqn:EN; [|discriminate]. inversion H; subst. clear H.
      destruct (parse_operand_ok _ _ _ _ _ E) as [-> HR]. destruct (IH _ _ _ EN) as [-> HP].
      split; [apply app_assoc|]. intros idx acc r o l ->.
      rewrite (flat_map_app asm_operand a0), app_length, bytes_of_words_app, <- app_assoc.
      rewrite HR by lia. cbn [bind].
      rewrite HP by lia.
      rewrite app_assoc. apply Ok_dst_ext; rewrite ?flat_map_app, ?app_length; lia. }
    destruct q.
    + destruct (Hone _ H) as [Heq HP]. split; [exact Heq|]. intros idx acc r o l Hl.
      cbn [parse_nested]. rewrite Eres, Espec. apply HP. exact Hl.
    + destruct os as [|o1 os1].
      * destruct (IH _ _ _ H) as [Heq HP]. split; [exact Heq|]. intros idx acc r o l Hl.
        cbn [parse_nested]. rewrite Eres, Espec, limit_reached_dst.
        cbn [flat_map length] in Hl. subst l. cbn. apply HP. reflexivity.
      * destruct (Hone _ H) as [Heq HP]. split; [exact Heq|]. intros idx acc r o l Hl.
        cbn [parse_nested]. rewrite Eres, Espec, limit_reached_dst.
        pose proof (flat_asm_nonempty o1 os1). destruct (l =? 0) eqn:E0; [lia|]. apply HP. exact Hl.
    + destruct (split_star G k (length os) os) eqn:ES; [|discriminate].
      destruct (conf_nested G lops []) as [[b rest1]|] eqn:EN; [|discriminate]. inversion H; subst. clear H.
      destruct (IH _ _ _ EN) as [Hnil HP].
      symmetry in Hnil. apply app_eq_nil in Hnil as [-> ->].
      split; [rewrite !app_nil_r; reflexivity|]. intros idx acc r o l Hl.
      cbn [parse_nested]. rewrite Eres, Espec.
      unfold star_fuel, dst at 1. cbn [lim].
      rewrite (parse_star_ok G k _ _ ES) by lia. cbn [bind].
      specialize (HP idx (acc ++ os) r (o + 4 * l) 0 eq_refl).
      cbn [flat_map bytes_of_words app length] in HP. rewrite HP.
      rewrite !app_nil_r. cbn [flat_map bytes_of_words app length]. apply Ok_dst_ext; lia.
Qed.

Hypothesis SMALL : small_opcodes (gd_table G) = true.

Lemma lookup_core_opcode n g : lookup_core (gd_table G) n = Some g -> g_opcode g = n /\ n < 65536.
Proof.
  unfold lookup_core. intros H. apply find_some in H as [Hin Heq]. apply N.eqb_eq in Heq.
  unfold small_opcodes in SMALL. rewrite forallb_forall in SMALL. specialize (SMALL g Hin).
  rewrite N.mod_small in Heq by lia. lia.
Qed.

Lemma parse_spec_constant_op_ok n os1 g a rest :
  lookup_core (gd_table G) n = Some g -> conf_nested G (g_operands g) os1 = Some (a, rest) ->
  os1 = a ++ rest /\
  forall idx r o l, l = N.of_nat (length (flat (OSpecOp n :: os1))) ->
    parse_spec_constant_op G idx (dst (bytes_of_words (flat (OSpecOp n :: os1)) ++ r) o l)
    = Ok (OSpecOp n :: a, dst (bytes_of_words (flat rest) ++ r) (o + 4 * N.of_nat (length (flat (OSpecOp n :: a))))
                              (N.of_nat (length (flat rest)))).
Proof.
  intros HL HN. destruct (lookup_core_opcode _ _ HL) as [Hop Hn].
  destruct (conf_nested_ok _ _ _ _ HN) as [Heq HP]. split; [exact Heq|].
  intros idx r o l ->. unfold parse_spec_constant_op.
  cbn [flat_map asm_operand app length]. rewrite bytes_of_words_cons, <- app_assoc.
  rewrite word_read by (unfold w32; lia). cbn [dreq bind].
  destruct (n <? 65536) eqn:E; [|lia]. rewrite HL, Hop.
  rewrite HP by lia. cbn [app]. apply Ok_dst_ext; lia.
Qed.
End Nested.

(** ---------------------------------------------------------------- *)
(** * The quantifier loop                                             *)
(** ---------------------------------------------------------------- *)
Definition final (p b : option N) : option N := match p with Some v => Some v | None => b end.

(** the words still to be read: pending result type / id, then the operands *)
Definition enc (prt prid : option N) (os : list operand) : list N :=
  oword prt ++ oword prid ++ flat os.

Lemma enc_nonempty prt prid os : none prt && none prid && nil os = false -> (1 <= length (enc prt prid os))%nat.
Proof.
  unfold enc. destruct prt, prid, os as [|o1 os1]; cbn [none nil andb oword app length]; try discriminate; try lia.
  intros _. apply flat_asm_nonempty.
Qed.

Lemma Ok4_ext {A B C} (a : A) (b : B) (c c' : C) bs o o' l l' :
  c = c' -> o = o' -> l = l' -> Ok (a, b, c, dst bs o l) = Ok (a, b, c', dst bs o' l').
Proof. intros -> -> ->. reflexivity. Qed.

Lemma parse_lops_step G fuel t opc k q lops idx d rt rid acc : limit_reached d = false ->
  parse_lops G (S fuel) t opc ((k, q) :: lops) idx d rt rid acc =
  do (rt1, rid1, acc1, d1) <- step_kind G t opc k idx d rt rid acc;
  match q with
  | ZeroOrMore => parse_lops G fuel t opc ((k, q) :: lops) idx d1 rt1 rid1 acc1
  | _ => parse_lops G fuel t opc lops idx d1 rt1 rid1 acc1
  end.
Proof. intros H. cbn [parse_lops]. rewrite H. destruct q; reflexivity. Qed.

Lemma parse_lops_break G fuel t opc k q lops idx d rt rid acc : limit_reached d = true -> q <> One ->
  parse_lops G (S fuel) t opc ((k, q) :: lops) idx d rt rid acc = Ok (rt, rid, acc, d).
Proof. intros H Hq. cbn [parse_lops]. rewrite H. destruct q; [congruence|reflexivity|reflexivity]. Qed.

Section Loop.
Variables (G : gdata) (t : tracker) (opc : N).
Hypothesis SMALL : small_opcodes (gd_table G) = true.

(** an ordinary kind *)
Definition ordinary (k : N) : Prop :=
  N.eqb k (gd_k_rt G) = false /\ N.eqb k (gd_k_rid G) = false /\ N.eqb k (gd_k_ctx G) = false /\
  N.eqb k (gd_k_pairlitid G) = false /\ N.eqb k (gd_k_specop G) = false.

Lemma step_ordinary k idx os a rest rt rid acc : ordinary k -> split_kind G k os = Some (a, rest) ->
  os = a ++ rest /\
  forall r o l, N.of_nat (length (flat a)) <= l ->
    step_kind G t opc k idx (dst (bytes_of_words (flat a) ++ r) o l) rt rid acc
    = Ok (rt, rid, acc ++ a, dst r (o + 4 * N.of_nat (length (flat a))) (l - N.of_nat (length (flat a)))).
Proof.
  intros (E1 & E2 & E3 & E4 & E5) HS. destruct (parse_operand_ok _ _ _ _ _ HS) as [Heq HR].
  split; [exact Heq|]. intros r o l Hl. unfold step_kind. rewrite E1, E2, E3, E4, E5.
  rewrite HR by exact Hl. reflexivity.
Qed.

Lemma lops_star_ok k lops : ordinary k -> forall sf os, split_star G k sf os = true ->
  forall fuel idx rt rid acc r o l,
    l = N.of_nat (length (flat os)) -> (length (flat os) < fuel)%nat ->
    parse_lops G fuel t opc ((k, ZeroOrMore) :: lops) idx (dst (bytes_of_words (flat os) ++ r) o l) rt rid acc
    = Ok (rt, rid, acc ++ os, dst r (o + 4 * l) 0).
Proof.
  intros Hk.
  assert (Hnil: forall fuel idx rt rid acc r o l, l = N.of_nat (length (flat [])) -> (length (flat []) < fuel)%nat ->
    parse_lops G fuel t opc ((k, ZeroOrMore) :: lops) idx (dst (bytes_of_words (flat []) ++ r) o l) rt rid acc
    = Ok (rt, rid, acc ++ [], dst r (o + 4 * l) 0)).
  { intros fuel idx rt rid acc r o l -> Hf. destruct fuel; [cbn in Hf; lia|].
    cbn [flat_map bytes_of_words app length].
    rewrite parse_lops_break by (try apply limit_reached_dst; discriminate).
    rewrite app_nil_r. f_equal. f_equal. apply dst_ext; lia. }
  induction sf as [|sf IH]; intros os H fuel idx rt rid acc r o l Hl Hf.
  - destruct os; [|discriminate]. apply Hnil; assumption.
  - destruct os as [|o1 os1]; [apply Hnil; assumption|]. cbn [split_star] in H.
    destruct (split_kind G k (o1 :: os1)) as [[[|a0 a] rest]|] eqn:E; try discriminate.
    destruct (step_ordinary k idx _ _ _ rt rid acc Hk E) as [Heq HR]. rewrite Heq in *. clear Heq E.
    rewrite flat_map_app, app_length in *. pose proof (flat_asm_nonempty a0 a) as Hne.
    destruct fuel; [lia|].
    rewrite parse_lops_step by (rewrite limit_reached_dst; lia).
    rewrite bytes_of_words_app, <- app_assoc, HR by lia. cbn [bind].
    rewrite (IH _ H) by lia. rewrite app_assoc. f_equal. f_equal. apply dst_ext; lia.
Qed.

(** OpSwitch: (literal, label) pairs *)
Lemma pairs_ind (P : list operand -> Prop) :
  P [] -> (forall l, P [l]) -> (forall l x r, P r -> P (l :: x :: r)) -> forall os, P os.
Proof. intros H0 H1 H2. fix IH 1. intros [|l [|x r]]; [apply H0|apply H1|apply H2; apply IH]. Qed.

Lemma step_pair k idx sel lit w rt rid acc :
  N.eqb k (gd_k_rt G) = false -> N.eqb k (gd_k_rid G) = false -> N.eqb k (gd_k_ctx G) = false ->
  N.eqb k (gd_k_pairlitid G) = true -> N.eqb opc OP_SWITCH = true ->
  literal_ok t sel lit = true -> w < w32 ->
  forall r o l, N.of_nat (length (flat [lit; OIdRef w])) <= l ->
    step_kind G t opc k idx (dst (bytes_of_words (flat [lit; OIdRef w]) ++ r) o l) rt rid (OIdRef sel :: acc)
    = Ok (rt, rid, (OIdRef sel :: acc) ++ [lit; OIdRef w],
          dst r (o + 4 * N.of_nat (length (flat [lit; OIdRef w]))) (l - N.of_nat (length (flat [lit; OIdRef w])))).
Proof.
  intros E1 E2 E3 E4 EO HL Hw r o l Hl. unfold step_kind. rewrite E1, E2, E3, E4, EO.
  cbn [flat_map asm_operand app] in *. rewrite ?app_nil_r in *. rewrite app_length in Hl. cbn [length] in Hl.
  rewrite bytes_of_words_app, <- app_assoc.
  rewrite (parse_literal_ok t sel idx lit HL) by lia. cbn [bind].
  rewrite bytes_of_words_single, word_read by lia. cbn [dreq bind].
  f_equal. f_equal. apply dst_ext; rewrite app_length; cbn [length]; lia.
Qed.

Lemma lops_pairs_ok k lops sel :
  N.eqb k (gd_k_rt G) = false -> N.eqb k (gd_k_rid G) = false -> N.eqb k (gd_k_ctx G) = false ->
  N.eqb k (gd_k_pairlitid G) = true -> N.eqb opc OP_SWITCH = true ->
  forall os, pairs_ok t sel os = true ->
  forall fuel idx rt rid acc r o l,
    l = N.of_nat (length (flat os)) -> (length (flat os) < fuel)%nat ->
    parse_lops G fuel t opc ((k, ZeroOrMore) :: lops) idx (dst (bytes_of_words (flat os) ++ r) o l)
               rt rid (OIdRef sel :: acc)
    = Ok (rt, rid, (OIdRef sel :: acc) ++ os, dst r (o + 4 * l) 0).
Proof.
  intros E1 E2 E3 E4 EO.
  induction os as [|l0|l0 x os IH] using pairs_ind; intros H fuel idx rt rid acc r o l Hl Hf.
  - subst l. destruct fuel; [cbn in Hf; lia|]. cbn [flat_map bytes_of_words app length].
    rewrite parse_lops_break by (try apply limit_reached_dst; discriminate).
    rewrite app_nil_r. f_equal. f_equal. apply dst_ext; lia.
  - discriminate.
  - cbn [pairs_ok] in H. destruct x as [|w| | | | | | |]; try discriminate.
    apply andb_prop in H as [H H3]. apply andb_prop in H as [H1 H2].
    change (l0 :: OIdRef w :: os) with ([l0; OIdRef w] ++ os) in *.
    rewrite flat_map_app, app_length in *.
    pose proof (flat_asm_nonempty l0 [OIdRef w]) as Hne.
    destruct fuel; [lia|].
    rewrite parse_lops_step by (rewrite limit_reached_dst; lia).
    rewrite bytes_of_words_app, <- app_assoc.
    rewrite (step_pair k idx sel l0 w rt rid acc E1 E2 E3 E4 EO H1) by lia. cbn [bind].
    change ((OIdRef sel :: acc) ++ [l0; OIdRef w]) with (OIdRef sel :: (acc ++ [l0; OIdRef w])).
    rewrite (IH H3) by lia. cbn [app]. rewrite <- app_assoc. f_equal. f_equal. apply dst_ext; lia.
Qed.

(** the main loop lemma *)
Lemma lops_ok ity : forall lops prt prid acc os,
  conf_lops G t opc ity lops prt prid acc os = true ->
  forall fuel idx rt rid r o l,
    final prt rt = ity ->
    l = N.of_nat (length (enc prt prid os)) ->
    (length lops + length (enc prt prid os) < fuel)%nat ->
    parse_lops G fuel t opc lops idx (dst (bytes_of_words (enc prt prid os) ++ r) o l) rt rid acc
    = Ok (final prt rt, final prid rid, acc ++ os, dst r (o + 4 * l) 0).
Proof.
  induction lops as [|[k q] lops IH]; intros prt prid acc os H fuel idx rt rid r o l Hity Hl Hf.
  - cbn [conf_lops] in H. destruct prt, prid, os; try discriminate.
    destruct fuel; [lia|]. subst l. cbn [parse_lops enc oword flat_map app bytes_of_words length final].
    rewrite app_nil_r. f_equal. f_equal. apply dst_ext; lia.
  - cbn [conf_lops] in H. cbn [length] in Hf. destruct fuel as [|fuel]; [lia|].
    destruct (none prt && none prid && nil os) eqn:Edone.
    { (* nothing left *)
      destruct prt, prid, os; try discriminate. subst l.
      cbn [enc oword flat_map app bytes_of_words length final].
      rewrite parse_lops_break; [|apply limit_reached_dst|destruct q; [discriminate|discriminate|discriminate]].
      rewrite app_nil_r. f_equal. f_equal. apply dst_ext; lia. }
    pose proof (enc_nonempty _ _ _ Edone) as Hne.
    destruct (N.eqb k (gd_k_rt G)) eqn:E1.
    { (* result type *)
      destruct prt as [v|]; [|discriminate].
      apply andb_prop in H as [H H3]. apply andb_prop in H as [H1 H2].
      unfold enc in *. cbn [oword app length] in *.
      rewrite parse_lops_step by (rewrite limit_reached_dst; lia).
      unfold step_kind. rewrite E1. rewrite bytes_of_words_cons, <- app_assoc.
      rewrite word_read by lia. cbn [dreq bind].
      assert (HI := IH None prid acc os H3 fuel idx (Some v) rid r (o + 4) (l - 1)).
      unfold enc in HI. cbn [oword app final] in HI. cbn [final] in *.
      destruct q; cbn [variadic negb] in H1; try discriminate;
        (rewrite HI by (auto; lia); f_equal; f_equal; apply dst_ext; lia). }
    destruct (N.eqb k (gd_k_rid G)) eqn:E2.
    { (* result id *)
      destruct prt as [|]; [discriminate|]. destruct prid as [v|]; [|discriminate].
      apply andb_prop in H as [H H3]. apply andb_prop in H as [H1 H2].
      unfold enc in *. cbn [oword app length] in *.
      rewrite parse_lops_step by (rewrite limit_reached_dst; lia).
      unfold step_kind. rewrite E1, E2. rewrite bytes_of_words_cons, <- app_assoc.
      rewrite word_read by lia. cbn [dreq bind].
      assert (HI := IH None None acc os H3 fuel idx rt (Some v) r (o + 4) (l - 1)).
      unfold enc in HI. cbn [oword app final] in HI. cbn [final] in *.
      destruct q; cbn [variadic negb] in H1; try discriminate;
        (rewrite HI by (auto; lia); f_equal; f_equal; apply dst_ext; lia). }
    destruct prt as [|]; [discriminate|]. destruct prid as [|]; [discriminate|].
    cbn [none andb negb] in H, Edone. unfold enc in *. cbn [oword app final] in *.
    assert (IH' : forall a os1 fuel' rid' o' l',
              conf_lops G t opc ity lops None None (acc ++ a) os1 = true ->
              l' = N.of_nat (length (flat os1)) -> (length lops + length (flat os1) < fuel')%nat ->
              parse_lops G fuel' t opc lops idx (dst (bytes_of_words (flat os1) ++ r) o' l') rt rid' (acc ++ a)
              = Ok (rt, rid', (acc ++ a) ++ os1, dst r (o' + 4 * l') 0)).
    { intros a os1 fuel' rid' o' l' HC Hl' Hf'.
      assert (HI := IH None None (acc ++ a) os1 HC fuel' idx rt rid' r o' l').
      unfold enc in HI. cbn [oword app final] in HI. apply HI; auto. }
    destruct (N.eqb k (gd_k_ctx G)) eqn:E3.
    { (* context-dependent literal *)
      apply andb_prop in H as [H H3]. apply andb_prop in H as [H1 H2].
      destruct ity as [id|]; [|discriminate]. destruct os as [|o1 os1]; [discriminate|].
      apply andb_prop in H3 as [H3 H4].
      rewrite parse_lops_step by (rewrite limit_reached_dst; lia).
      subst rt. unfold step_kind. rewrite E1, E2, E3, H1.
      cbn [flat_map] in *. rewrite app_length in *. rewrite bytes_of_words_app, <- app_assoc.
      rewrite (parse_literal_ok t id idx o1 H3) by lia. cbn [bind].
      pose proof (asm_operand_nonempty o1).
      destruct q; cbn [variadic negb] in H2; try discriminate;
        (rewrite (IH' [o1] os1) by (auto; lia); apply Ok4_ext; [rewrite <- ?app_assoc; reflexivity|lia|lia]). }
    destruct (N.eqb k (gd_k_pairlitid G)) eqn:E4.
    { (* OpSwitch pairs *)
      apply andb_prop in H as [H1 H]. destruct acc as [|[|sel| | | | | | |] acc]; try discriminate.
      destruct (variadic q) eqn:EV.
      - destruct q; try discriminate.
        rewrite (lops_pairs_ok k lops sel E1 E2 E3 E4 H1 os H) by lia. reflexivity.
      - destruct os as [|l0 [|[|w| | | | | | |] os1]]; try discriminate.
        apply andb_prop in H as [H H4]. apply andb_prop in H as [H2 H3].
        rewrite parse_lops_step by (rewrite limit_reached_dst; lia).
        change (l0 :: OIdRef w :: os1) with ([l0; OIdRef w] ++ os1) in *.
        rewrite flat_map_app, app_length in *.
        pose proof (flat_asm_nonempty l0 [OIdRef w]) as Hne2.
        rewrite bytes_of_words_app, <- app_assoc.
        rewrite (step_pair k idx sel l0 w rt rid acc E1 E2 E3 E4 H1 H2) by lia. cbn [bind].
        destruct q; try discriminate;
          (rewrite (IH' [l0; OIdRef w] os1) by (auto; lia); apply Ok4_ext; [rewrite <- ?app_assoc; reflexivity|lia|lia]). }
    destruct (N.eqb k (gd_k_specop G)) eqn:E5.
    { (* OpSpecConstantOp *)
      apply andb_prop in H as [H1 H]. destruct os as [|[| | | | | | |n|] os1]; try discriminate.
      apply andb_prop in H as [H2 H].
      destruct (lookup_core (gd_table G) n) as [g|] eqn:EL; [|discriminate].
      destruct (conf_nested G (g_operands g) os1) as [[a os2]|] eqn:EN; [|discriminate].
      destruct (parse_spec_constant_op_ok G SMALL n os1 g a os2 EL EN) as [Heq HP].
      rewrite parse_lops_step by (rewrite limit_reached_dst; lia).
      unfold step_kind. rewrite E1, E2, E3, E4, E5.
      rewrite HP by exact Hl. cbn [bind].
      subst os1. change (OSpecOp n :: a ++ os2) with ((OSpecOp n :: a) ++ os2) in *.
      rewrite flat_map_app, app_length in *.
      pose proof (flat_asm_nonempty (OSpecOp n) a) as Hne2.
      destruct q; cbn [variadic negb] in H1; try discriminate;
        (rewrite (IH' (OSpecOp n :: a) os2) by (auto; lia); apply Ok4_ext; [rewrite <- ?app_assoc; reflexivity|lia|lia]). }
    assert (Hk: ordinary k) by (unfold ordinary; auto).
    destruct (variadic q) eqn:EV.
    + destruct q; try discriminate.
      rewrite (lops_star_ok k lops Hk _ _ H) by lia. reflexivity.
    + destruct (split_kind G k os) as [[a os1]|] eqn:ES; [|discriminate].
      destruct (step_ordinary k idx _ _ _ rt rid acc Hk ES) as [Heq HR]. subst os.
      rewrite flat_map_app, app_length in *.
      rewrite parse_lops_step by (rewrite limit_reached_dst; lia).
      rewrite bytes_of_words_app, <- app_assoc, HR by lia. cbn [bind].
      destruct q; try discriminate;
        (rewrite (IH' a os1) by (auto; lia); apply Ok4_ext; [rewrite <- ?app_assoc; reflexivity|lia|lia]).
Qed.
End Loop.

(** ---------------------------------------------------------------- *)
(** * R1: the first word                                              *)
(** ---------------------------------------------------------------- *)
Lemma land_low_shifted a b : a < 65536 -> N.land a (b * 65536) = 0.
Proof.
  intros Ha. apply N.bits_inj. intros n. rewrite N.land_spec, N.bits_0.
  change 65536 with (2 ^ 16) in *. rewrite <- N.shiftl_mul_pow2.
  destruct (N.lt_ge_cases n 16) as [Hn|Hn].
  - rewrite N.shiftl_spec_low by exact Hn. apply andb_false_r.
  - rewrite <- (N.mod_small a (2 ^ 16)) by exact Ha.
    rewrite N.mod_pow2_bits_high by exact Hn. reflexivity.
Qed.

Lemma first_word_ok opc len : opc < 65536 -> N.of_nat len < 65536 ->
  first_word opc len = N.of_nat len * 65536 + opc.
Proof.
  intros Ho Hl. unfold first_word. rewrite N.mod_small by (unfold w32; lia).
  pose proof (land_low_shifted opc (N.of_nat len) Ho) as HL.
  rewrite <- (N.lxor_lor _ _ HL), <- (N.add_nocarry_lxor _ _ HL). lia.
Qed.

Lemma first_word_fields len opc : len < 65536 -> opc < 65536 ->
  ((len * 65536 + opc) / 65536) mod 65536 = len /\ (len * 65536 + opc) mod 65536 = opc /\
  len * 65536 + opc < w32.
Proof. unfold w32. intros H1 H2. split; [|split]; timeout 20 lia. Qed.

Lemma conforms_spec G t i : conforms G t i = true ->
  exists g, lookup_core (gd_table G) (i_opcode i) = Some g /\
            conf_lops G t (i_opcode i) (i_rtype i) (g_operands g) (i_rtype i) (i_rid i) [] (i_ops i) = true /\
            N.of_nat (S (length (asm_body i))) < 65536 /\ i_opcode i < 65536.
Proof.
  unfold conforms. destruct (lookup_core (gd_table G) (i_opcode i)) as [g|] eqn:EL; [|discriminate].
  intros H. apply andb_prop in H as [H1 H2]. exists g. split; [reflexivity|]. split; [exact H1|].
  split; [lia|]. unfold lookup_core in EL. apply find_some in EL as [_ Heq]. apply N.eqb_eq in Heq.
  rewrite <- Heq. apply N.mod_lt. lia.
Qed.

(** R1: the assembled first word is (word count << 16) + opcode, the word
    count is the number of words emitted (nothing is truncated), and both
    16-bit fields read back *)
Theorem asm_first_word G t i : conforms G t i = true ->
  asm_inst i = (N.of_nat (length (asm_inst i)) * 65536 + i_opcode i) :: asm_body i /\
  N.of_nat (length (asm_inst i)) < 65536 /\ i_opcode i < 65536 /\
  (hd 0 (asm_inst i) / 65536) mod 65536 = N.of_nat (length (asm_inst i)) /\
  hd 0 (asm_inst i) mod 65536 = i_opcode i.
Proof.
  intros H. destruct (conforms_spec G t i H) as (g & _ & _ & Hlen & Hop).
  assert (HL: length (asm_inst i) = S (length (asm_body i))) by reflexivity.
  assert (HA: asm_inst i = (N.of_nat (length (asm_inst i)) * 65536 + i_opcode i) :: asm_body i).
  { rewrite HL. unfold asm_inst. cbv zeta. rewrite first_word_ok by assumption. reflexivity. }
  split; [exact HA|]. split; [rewrite HL; exact Hlen|]. split; [exact Hop|].
  destruct (first_word_fields _ _ Hlen Hop) as (F1 & F2 & _).
  rewrite HA. cbn [hd length]. rewrite HL. split; assumption.
Qed.

(** ---------------------------------------------------------------- *)
(** * R2: parse (assemble i) = i                                      *)
(** ---------------------------------------------------------------- *)
(** what the round trip needs of the linked grammar data: table opcodes fit
    16 bits, so that the entry [lookup_core] finds for a number carries that
    number as its opcode.  (Arms that would panic ("slot"), unknown kinds and
    ill-ordered result kinds need not be excluded for this direction: no
    instruction conforms to them.)  The converse direction (R3) needs more;
    [wf_gdata] is the conjunction. *)
Definition res_free (G : gdata) (lops : list (N * quant)) : bool :=
  forallb (fun o => negb (is_res (gd_k_rt G) (gd_k_rid G) (fst o))) lops.

Definition special_quant_ok (G : gdata) (lops : list (N * quant)) : bool :=
  forallb (fun o => negb (variadic (snd o)) || negb (N.eqb (fst o) (gd_k_ctx G) || N.eqb (fst o) (gd_k_specop G))) lops.

Definition arms_nonempty (G : gdata) : bool :=
  forallb (fun a => match a with ASimple [] => false | _ => true end) (gd_arms G).

Definition wf_gdata (G : gdata) : bool :=
  small_opcodes (gd_table G)                                                   (* R2 and R3 *)
  && forallb (fun e => wf_operands (gd_k_rt G) (gd_k_rid G) (g_operands e)) (gd_table G)   (* R3 *)
  && forallb (fun e => special_quant_ok G (g_operands e)) (gd_table G)          (* R3 *)
  && negb (N.eqb (gd_k_rt G) (gd_k_rid G))                                      (* R3 *)
  && arms_nonempty G.                                                          (* R3 *)

Lemma wf_gdata_spec G : wf_gdata G = true ->
  small_opcodes (gd_table G) = true /\
  (forall e, In e (gd_table G) -> wf_operands (gd_k_rt G) (gd_k_rid G) (g_operands e) = true) /\
  (forall e, In e (gd_table G) -> special_quant_ok G (g_operands e) = true) /\
  N.eqb (gd_k_rt G) (gd_k_rid G) = false /\ arms_nonempty G = true.
Proof.
  unfold wf_gdata. intros H. apply andb_prop in H as [H H5]. apply andb_prop in H as [H H4].
  apply andb_prop in H as [H H3]. apply andb_prop in H as [H1 H2].
  rewrite forallb_forall in H2, H3. apply negb_true_iff in H4. auto.
Qed.

Theorem roundtrip_small G t i : small_opcodes (gd_table G) = true -> conforms G t i = true ->
  forall r o idx,
    parse_inst G t idx {| rest := bytes_of_words (asm_inst i) ++ r; off := o; lim := None |}
    = Ok (i, {| rest := r; off := o + 4 * N.of_nat (length (asm_inst i)); lim := None |}).
Proof.
  intros WF H r o idx.
  destruct (asm_first_word G t i H) as (HA & Hlen & Hop & _).
  destruct (conforms_spec G t i H) as (g & EL & HC & _ & _).
  destruct (lookup_core_opcode G WF _ _ EL) as [Hg _].
  assert (HL: length (asm_inst i) = S (length (asm_body i))) by reflexivity.
  destruct (first_word_fields _ _ Hlen Hop) as (F1 & F2 & F3).
  rewrite HA at 1. rewrite HL in *. clear HA.
  unfold parse_inst. rewrite bytes_of_words_cons, <- app_assoc.
  rewrite word_read_nolim by exact F3. cbv zeta. rewrite F1, F2.
  destruct (N.eqb (N.of_nat (S (length (asm_body i)))) 0) eqn:E0; [lia|].
  rewrite EL, Hg.
  change (set_limit {| rest := bytes_of_words (asm_body i) ++ r; off := o + 4; lim := None |}
                    (N.of_nat (S (length (asm_body i))) - 1))
    with (dst (bytes_of_words (asm_body i) ++ r) (o + 4) (N.of_nat (S (length (asm_body i))) - 1)).
  pose proof (lops_ok G t (i_opcode i) WF (i_rtype i) (g_operands g) (i_rtype i) (i_rid i) [] (i_ops i) HC) as HP.
  change (enc (i_rtype i) (i_rid i) (i_ops i)) with (asm_body i) in HP.
  rewrite HP.
  - cbn [bind]. rewrite limit_reached_dst. cbn [N.eqb]. change (0 =? 0) with true. cbv iota.
    unfold clear_limit, dst. cbn [rest off app].
    destruct i as [opc irt irid ops]. cbn [i_opcode i_rtype i_rid i_ops final] in *.
    f_equal. f_equal.
    + f_equal; [destruct irt|destruct irid]; reflexivity.
    + f_equal. lia.
  - destruct (i_rtype i); reflexivity.
  - lia.
  - unfold lops_fuel, dst. cbn [lim]. lia.
Qed.

Theorem roundtrip G t i : wf_gdata G = true -> conforms G t i = true ->
  forall r o idx,
    parse_inst G t idx {| rest := bytes_of_words (asm_inst i) ++ r; off := o; lim := None |}
    = Ok (i, {| rest := r; off := o + 4 * N.of_nat (length (asm_inst i)); lim := None |}).
Proof. intros WF. apply roundtrip_small. apply wf_gdata_spec in WF. tauto. Qed.


(** ---------------------------------------------------------------- *)
(** * R3: what the parser accepts conforms                            *)
(** ---------------------------------------------------------------- *)
Definition byte (b : N) : Prop := b < 256.

(** a limited decoder over bytes *)
Definition Good (d : dec) : Prop := Forall byte (rest d) /\ exists l, lim d = Some l.

(** from [d] to [d'] exactly [n] words were charged to the limit *)
Definition Cons (d d' : dec) (n : N) : Prop :=
  Good d' /\ forall l, lim d = Some l -> n <= l /\ lim d' = Some (l - n).

Lemma Cons_refl d : Good d -> Cons d d 0.
Proof. intros H. split; [exact H|]. intros l Hl. split; [lia|]. rewrite Hl. f_equal. lia. Qed.

Lemma Cons_trans d d1 d2 n m : Cons d d1 n -> Cons d1 d2 m -> Cons d d2 (n + m).
Proof.
  intros [G1 H1] [G2 H2]. split; [exact G2|]. intros l Hl.
  destruct (H1 l Hl) as [A B]. destruct (H2 _ B) as [C D]. split; [lia|]. rewrite D. f_equal. lia.
Qed.

Lemma Cons_eq d d' n m : n = m -> Cons d d' n -> Cons d d' m.
Proof. intros ->. auto. Qed.

Lemma Cons_good d d' n : Cons d d' n -> Good d'.
Proof. intros [H _]. exact H. Qed.

Lemma Forall_firstn_skipn {A} (P : A -> Prop) n l : Forall P l -> Forall P (firstn n l) /\ Forall P (skipn n l).
Proof. intros H. rewrite <- (firstn_skipn n l) in H. apply Forall_app in H. exact H. Qed.

Lemma word_rev d w d' : Good d -> word d = (inl w, d') -> w < w32 /\ Cons d d' 1.
Proof.
  intros [HB [l0 HL]] H. destruct (word_ok _ _ _ H) as (b0 & b1 & b2 & b3 & HR & -> & _ & HLim & HLR).
  rewrite HR in HB.
  pose proof (Forall_inv HB) as B0. apply Forall_inv_tail in HB.
  pose proof (Forall_inv HB) as B1. apply Forall_inv_tail in HB.
  pose proof (Forall_inv HB) as B2. apply Forall_inv_tail in HB.
  pose proof (Forall_inv HB) as B3. apply Forall_inv_tail in HB.
  split; [apply word_of_bytes_lt; assumption|]. split.
  - split; [exact HB|]. rewrite HLim, HL. eexists. reflexivity.
  - intros l Hl. rewrite HLim, Hl. cbn [dec_lim]. unfold limit_reached in HLR. rewrite Hl in HLR.
    split; [destruct l; [discriminate|lia]|reflexivity].
Qed.

Lemma bit64_rev d v d' : Good d -> bit64 d = (inl v, d') ->
  v < w32 * w32 /\ Cons d d' 2.
Proof.
  intros HG H. destruct (bit64_ok _ _ _ H) as (lo & hi & d1 & W1 & W2 & -> & _).
  destruct (word_rev _ _ _ HG W1) as [Hlo C1].
  destruct (word_rev _ _ _ (Cons_good _ _ _ C1) W2) as [Hhi C2].
  split; [unfold w32 in *; lia|]. apply (Cons_trans _ _ _ 1 1 C1 C2).
Qed.

Lemma string_rev d s d' : Good d -> dstring d = (inl s, d') ->
  str_ok s = true /\ Cons d d' (N.of_nat (length (chunks s))).
Proof.
  intros [HB [l0 HL]] H.
  destruct (string_ok _ _ _ H) as (i & HI & Hs & Hu & Hnz & Hfit & HR & _ & HLim & Hle).
  destruct (index0_spec _ _ HI) as (Hi & _ & _).
  assert (Hlen: length s = i) by (rewrite Hs; apply firstn_length_le; lia).
  assert (Hbs: Forall byte s) by (rewrite Hs; apply (Forall_firstn_skipn byte i _ HB)).
  destruct (chunks_spec s Hbs) as (_ & _ & Hcl). rewrite Hlen in Hcl.
  split.
  - unfold str_ok. rewrite Hu, andb_true_r. apply forallb_forall. intros b Hb.
    specialize (Hnz b Hb). rewrite Forall_forall in Hbs. specialize (Hbs b Hb). unfold byte in Hbs. lia.
  - rewrite Hcl. split.
    + split; [rewrite HR; apply (Forall_firstn_skipn byte _ _ HB)|]. rewrite HLim, HL. eexists. reflexivity.
    + intros l Hl. split; [apply Hle; exact Hl|]. rewrite HLim, Hl. reflexivity.
Qed.

Lemma make_operand_ok m w : m <> MkStr -> w < w32 ->
  word_operand m (make_operand m w) = true /\ operand_value (make_operand m w) = w /\
  asm_operand (make_operand m w) = [w].
Proof.
  intros Hm Hw. destruct m; try congruence; cbn [make_operand word_operand operand_value asm_operand];
    (split; [|split; reflexivity]); lia.
Qed.

Lemma read_slot_rev s d o d' : Good d -> read_slot s d = Ok (o, d') ->
  slot_ok s o = true /\ Cons d d' (N.of_nat (length (asm_operand o))).
Proof.
  intros HG H. destruct s as [[| |c] m].
  - assert (Hm: m <> MkStr) by (intros ->; discriminate H).
    rewrite read_slot_word in H by exact Hm.
    destruct (word d) as [[w|e] d1] eqn:W; cbn [dreq bind] in H; [|discriminate]. inversion H; subst.
    destruct (word_rev _ _ _ HG W) as [Hw C]. destruct (make_operand_ok m w Hm Hw) as (A & B & E).
    cbn [slot_ok]. rewrite E. split; [exact A|exact C].
  - destruct m; try discriminate H. cbn [read_slot] in H.
    destruct (dstring d) as [[s|e] d1] eqn:S; cbn [dreq bind] in H; [|discriminate]. inversion H; subst.
    cbn [slot_ok asm_operand]. apply string_rev; assumption.
  - assert (Hm: m <> MkStr) by (intros ->; discriminate H).
    rewrite read_slot_typed in H by exact Hm.
    destruct (typed c d) as [[w|e] d1] eqn:T; cbn [dreq bind] in H; [|discriminate]. inversion H; subst.
    destruct (typed_ok _ _ _ _ T) as [W Hc].
    destruct (word_rev _ _ _ HG W) as [Hw C]. destruct (make_operand_ok m w Hm Hw) as (A & B & E).
    cbn [slot_ok]. rewrite E, A, B, Hc. split; [reflexivity|exact C].
Qed.

Lemma parse_slots_rev : forall ss d a d', Good d -> parse_slots ss d = Ok (a, d') ->
  (forall rest, split_slots ss (a ++ rest) = Some (a, rest)) /\ Cons d d' (N.of_nat (length (flat a))) /\
  length a = length ss.
Proof.
  induction ss as [|s ss IH]; intros d a d' HG H; cbn [parse_slots] in H.
  - inversion H; subst. split; [reflexivity|]. split; [apply Cons_refl; exact HG|reflexivity].
  - destruct (read_slot s d) as [[o d1]|e|p] eqn:R; cbn [bind] in H; try discriminate.
    destruct (read_slot_rev _ _ _ _ HG R) as [Hs C1].
    destruct (parse_slots ss d1) as [[os d2]|e|p] eqn:P; cbn [bind] in H; try discriminate.
    inversion H; subst. destruct (IH _ _ _ (Cons_good _ _ _ C1) P) as (HS & C2 & HL).
    split; [|split].
    + intros rest. cbn [app split_slots]. rewrite Hs, HS. reflexivity.
    + cbn [flat_map]. rewrite app_length. eapply Cons_eq; [|exact (Cons_trans _ _ _ _ _ C1 C2)]. lia.
    + cbn [length]. rewrite HL. reflexivity.
Qed.

Lemma parse_operand_rev G k d a d' : Good d -> parse_operand G k d = Ok (a, d') ->
  (forall rest, split_kind G k (a ++ rest) = Some (a, rest)) /\ Cons d d' (N.of_nat (length (flat a))) /\
  (arms_nonempty G = true -> a <> []).
Proof.
  intros HG H. unfold parse_operand in H. unfold split_kind.
  destruct (nth_error (gd_arms G) (N.to_nat k)) as [[|ss|s t]|] eqn:EA; try discriminate.
  - destruct (parse_slots_rev _ _ _ _ HG H) as (HS & C & HL). split; [exact HS|]. split; [exact C|].
    intros HN. unfold arms_nonempty in HN. rewrite forallb_forall in HN.
    specialize (HN _ (nth_error_In _ _ EA)). destruct ss; [discriminate|]. destruct a; discriminate.
  - destruct (read_slot s d) as [[o d1]|e|p] eqn:R; cbn [bind] in H; try discriminate.
    destruct (read_slot_rev _ _ _ _ HG R) as [Hs C1].
    destruct (parse_slots (table_params t (operand_value o)) d1) as [[os d2]|e|p] eqn:P; cbn [bind] in H; try discriminate.
    inversion H; subst. destruct (parse_slots_rev _ _ _ _ (Cons_good _ _ _ C1) P) as (HS & C2 & _).
    split; [|split].
    + intros rest. cbn [app]. rewrite Hs, HS. reflexivity.
    + cbn [flat_map]. rewrite app_length. eapply Cons_eq; [|exact (Cons_trans _ _ _ _ _ C1 C2)]. lia.
    + intros _. discriminate.
Qed.

Lemma parse_literal_rev t id idx d o d' : Good d -> parse_literal t id idx d = Ok (o, d') ->
  literal_ok t id o = true /\ Cons d d' (N.of_nat (length (asm_operand o))).
Proof.
  intros HG H. rewrite parse_literal_width in H. unfold literal_ok.
  destruct (lit_width t id) as [[|]|]; [| |discriminate].
  - unfold lit32 in H. destruct (word d) as [[w|e] d1] eqn:W; cbn [dreq bind] in H; [|discriminate].
    inversion H; subst. destruct (word_rev _ _ _ HG W) as [Hw C]. split; [lia|exact C].
  - unfold lit64 in H. destruct (bit64 d) as [[w|e] d1] eqn:W; cbn [dreq bind] in H; [|discriminate].
    inversion H; subst. destruct (bit64_rev _ _ _ HG W) as [Hw C]. split; [lia|exact C].
Qed.

Lemma limit_zero d : Good d -> limit_reached d = true -> lim d = Some 0.
Proof.
  intros [_ [l HL]] H. unfold limit_reached in H. rewrite HL in *. destruct l; [reflexivity|discriminate].
Qed.

Lemma Cons_zero d d' n : lim d = Some 0 -> Cons d d' n -> n = 0 /\ lim d' = Some 0.
Proof. intros HL [_ H]. destruct (H 0 HL) as [A B]. split; [lia|]. rewrite B. f_equal; lia. Qed.

Lemma flat_len0 a : N.of_nat (length (flat a)) = 0 -> a = [].
Proof. destruct a as [|o a]; [reflexivity|]. pose proof (flat_asm_nonempty o a). lia. Qed.

Lemma split_star_nil G k sf : split_star G k sf [] = true.
Proof. destruct sf; reflexivity. Qed.

Lemma split_star_mono G k : forall sf os, split_star G k sf os = true ->
  forall sf', (sf <= sf')%nat -> split_star G k sf' os = true.
Proof.
  induction sf as [|sf IH]; intros os H sf' Hle; destruct os as [|o os]; try apply split_star_nil;
    cbn [split_star] in H; try discriminate.
  destruct sf'; [lia|]. cbn [split_star].
  destruct (split_kind G k (o :: os)) as [[[|a0 a] rest]|]; try discriminate.
  apply (IH _ H). lia.
Qed.

Section Rev.
Variable G : gdata.
Hypothesis SMALL : small_opcodes (gd_table G) = true.
Hypothesis NONEMPTY : arms_nonempty G = true.

Lemma parse_star_rev k : forall fuel d acc acc' d', Good d -> parse_star G fuel k d acc = Ok (acc', d') ->
  exists os, acc' = acc ++ os /\ Cons d d' (N.of_nat (length (flat os))) /\ limit_reached d' = true /\
             forall sf, (length os <= sf)%nat -> split_star G k sf os = true.
Proof.
  induction fuel as [|f IH]; intros d acc acc' d' HG H; cbn [parse_star] in H; [discriminate|].
  destruct (limit_reached d) eqn:LR.
  - inversion H; subst. exists []. rewrite app_nil_r. split; [reflexivity|].
    split; [apply Cons_refl; exact HG|]. split; [exact LR|]. intros sf _. apply split_star_nil.
  - destruct (parse_operand G k d) as [[a d1]|e|p] eqn:P; cbn [bind] in H; try discriminate.
    destruct (parse_operand_rev _ _ _ _ _ HG P) as (HS & C1 & HA). specialize (HA NONEMPTY).
    destruct (IH _ _ _ _ (Cons_good _ _ _ C1) H) as (os1 & -> & C2 & LR' & HSS).
    exists (a ++ os1). split; [rewrite app_assoc; reflexivity|]. split.
    { rewrite flat_map_app, app_length. eapply Cons_eq; [|exact (Cons_trans _ _ _ _ _ C1 C2)]. lia. }
    split; [exact LR'|].
    intros sf Hsf. destruct a as [|a0 a]; [congruence|]. rewrite app_length in Hsf. cbn [length] in Hsf.
    destruct sf; [lia|]. cbn [app split_star]. change (a0 :: a ++ os1) with ((a0 :: a) ++ os1).
    rewrite HS. apply HSS. lia.
Qed.

Lemma parse_nested_rev : forall lops idx d acc acc' d', Good d -> parse_nested G lops idx d acc = Ok (acc', d') ->
  exists a, acc' = acc ++ a /\ Cons d d' (N.of_nat (length (flat a))) /\
    forall rest, lim d' = Some (N.of_nat (length (flat rest))) -> conf_nested G lops (a ++ rest) = Some (a, rest).
Proof.
  induction lops as [|[k q] lops IH]; intros idx d acc acc' d' HG H; cbn [parse_nested] in H.
  - inversion H; subst. exists []. rewrite app_nil_r. split; [reflexivity|].
    split; [apply Cons_refl; exact HG|]. intros rest _. reflexivity.
  - cbn [conf_nested].
    destruct (N.eqb k (gd_k_rt G) || N.eqb k (gd_k_rid G)) eqn:Eres; [apply (IH _ _ _ _ _ HG H)|].
    destruct (N.eqb k (gd_k_ctx G) || N.eqb k (gd_k_pairlitid G) || N.eqb k (gd_k_specop G)) eqn:Espec;
      [discriminate|].
    assert (Hone: forall d acc acc' d', Good d ->
              (do (a, d1) <- parse_operand G k d; parse_nested G lops idx d1 (acc ++ a)) = Ok (acc', d') ->
              exists a, acc' = acc ++ a /\ a <> [] /\ Cons d d' (N.of_nat (length (flat a))) /\
                forall rest, lim d' = Some (N.of_nat (length (flat rest))) ->
                  match split_kind G k (a ++ rest) with
                  | Some (a0, os1) => match conf_nested G lops os1 with
                                      | Some (b, rest) => Some (a0 ++ b, rest) | None => None end
                  | None => None end = Some (a, rest)).
    { clear H HG d acc acc' d'. intros d acc acc' d' HG H.
      destruct (parse_operand G k d) as [[a1 d1]|e|p] eqn:P; cbn [bind] in H; try discriminate.
      destruct (parse_operand_rev _ _ _ _ _ HG P) as (HS & C1 & HA). specialize (HA NONEMPTY).
      destruct (IH _ _ _ _ _ (Cons_good _ _ _ C1) H) as (a2 & -> & C2 & HC).
      exists (a1 ++ a2). split; [rewrite app_assoc; reflexivity|]. split.
      { destruct a1; [congruence|discriminate]. }
      split.
      { rewrite flat_map_app, app_length. eapply Cons_eq; [|exact (Cons_trans _ _ _ _ _ C1 C2)]. lia. }
      intros rest HL. rewrite <- app_assoc, HS, (HC rest HL). reflexivity. }
    destruct q.
    + destruct (Hone _ _ _ _ HG H) as (a & E & _ & C & HC). exists a. auto.
    + destruct (limit_reached d) eqn:LR.
      * destruct (IH _ _ _ _ _ HG H) as (a & E & C & HC). exists a. split; [exact E|]. split; [exact C|].
        intros rest HL. destruct (Cons_zero _ _ _ (limit_zero _ HG LR) C) as [Hn HL'].
        apply flat_len0 in Hn. subst a. rewrite HL' in HL. inversion HL as [HL0]. symmetry in HL0.
        apply flat_len0 in HL0. subst rest. cbn [app]. apply (HC []). exact HL'.
      * destruct (Hone _ _ _ _ HG H) as (a & E & HA & C & HC). exists a. split; [exact E|]. split; [exact C|].
        intros rest HL. destruct a as [|a0 a]; [congruence|]. cbn [app]. apply (HC rest HL).
    + destruct (parse_star G (star_fuel d) k d acc) as [[acc1 d1]|e|p] eqn:PS; cbn [bind] in H; try discriminate.
      destruct (parse_star_rev _ _ _ _ _ _ HG PS) as (os & -> & C1 & LR1 & HSS).
      destruct (IH _ _ _ _ _ (Cons_good _ _ _ C1) H) as (a2 & -> & C2 & HC).
      destruct (Cons_zero _ _ _ (limit_zero _ (Cons_good _ _ _ C1) LR1) C2) as [Hn HL'].
      apply flat_len0 in Hn. subst a2. exists os. split; [rewrite app_nil_r; reflexivity|]. split.
      { eapply Cons_eq; [|exact (Cons_trans _ _ _ _ _ C1 C2)]. cbn [flat_map length]. lia. }
      intros rest HL. rewrite HL' in HL. inversion HL as [HL0]. symmetry in HL0.
      apply flat_len0 in HL0. subst rest. rewrite app_nil_r.
      rewrite (HSS _ (le_n _)). specialize (HC [] HL'). cbn [app] in HC. rewrite HC, app_nil_r. reflexivity.
Qed.

Lemma parse_spec_constant_op_rev idx d a d' : Good d -> parse_spec_constant_op G idx d = Ok (a, d') ->
  exists n g nested, a = OSpecOp n :: nested /\ n < 65536 /\ lookup_core (gd_table G) n = Some g /\
    Cons d d' (N.of_nat (length (flat a))) /\
    forall rest, lim d' = Some (N.of_nat (length (flat rest))) ->
      conf_nested G (g_operands g) (nested ++ rest) = Some (nested, rest).
Proof.
  intros HG H. unfold parse_spec_constant_op in H.
  destruct (word d) as [[n|e] d1] eqn:W; cbn [dreq bind] in H; [|discriminate].
  destruct (word_rev _ _ _ HG W) as [Hn C1].
  destruct (n <? 65536) eqn:E; [|discriminate].
  destruct (lookup_core (gd_table G) n) as [g|] eqn:EL; [|discriminate].
  destruct (lookup_core_opcode G SMALL _ _ EL) as [Hg _]. rewrite Hg in H.
  destruct (parse_nested_rev _ _ _ _ _ _ (Cons_good _ _ _ C1) H) as (nested & -> & C2 & HC).
  exists n, g, nested. split; [reflexivity|]. split; [lia|]. split; [exact EL|]. split; [|exact HC].
  cbn [app flat_map asm_operand length]. eapply Cons_eq; [|exact (Cons_trans _ _ _ _ _ C1 C2)]. lia.
Qed.
End Rev.

Section RevLoop.
Variables (G : gdata) (t : tracker) (opc : N).
Hypothesis SMALL : small_opcodes (gd_table G) = true.
Hypothesis NONEMPTY : arms_nonempty G = true.

Lemma step_rev k idx d rt rid acc rt1 rid1 acc1 d1 :
  Good d -> N.eqb k (gd_k_rt G) = false -> N.eqb k (gd_k_rid G) = false ->
  step_kind G t opc k idx d rt rid acc = Ok (rt1, rid1, acc1, d1) ->
  exists a, rt1 = rt /\ rid1 = rid /\ acc1 = acc ++ a /\ a <> [] /\ Cons d d1 (N.of_nat (length (flat a))) /\
    (forall q r os', variadic q = false -> lim d1 = Some (N.of_nat (length (flat os'))) ->
        conf_lops G t opc rt ((k, q) :: r) None None acc (a ++ os')
        = conf_lops G t opc rt r None None (acc ++ a) os') /\
    (N.eqb k (gd_k_ctx G) = false -> N.eqb k (gd_k_specop G) = false -> forall r os',
        conf_lops G t opc rt ((k, ZeroOrMore) :: r) None None (acc ++ a) os' = true ->
        conf_lops G t opc rt ((k, ZeroOrMore) :: r) None None acc (a ++ os') = true).
Proof.
  intros HG E1 E2 H. unfold step_kind in H. rewrite E1, E2 in H.
  destruct (N.eqb k (gd_k_ctx G)) eqn:E3.
  { destruct (N.eqb opc OP_CONSTANT || N.eqb opc OP_SPEC_CONSTANT) eqn:EO; [|discriminate].
    destruct rt as [id|]; [|discriminate].
    destruct (parse_literal t id idx d) as [[o d2]|e|p] eqn:P; cbn [bind] in H; try discriminate.
    inversion H; subst. destruct (parse_literal_rev _ _ _ _ _ _ HG P) as [HL C].
    exists [o]. split; [reflexivity|]. split; [reflexivity|]. split; [reflexivity|]. split; [discriminate|].
    split; [cbn [flat_map]; rewrite app_nil_r; exact C|]. split.
    - intros q r os' Hq _. cbn [conf_lops app none nil andb negb]. rewrite E1, E2, E3, EO, Hq, HL.
      cbn [andb negb]. reflexivity.
    - intros; discriminate. }
  destruct (N.eqb k (gd_k_pairlitid G)) eqn:E4.
  { destruct (N.eqb opc OP_SWITCH) eqn:EO; [|discriminate].
    destruct acc as [|[|sel| | | | | | |] acc0]; try discriminate.
    destruct (parse_literal t sel idx d) as [[o d2]|e|p] eqn:P; cbn [bind] in H; try discriminate.
    destruct (word d2) as [[w|e] d3] eqn:W; cbn [dreq bind] in H; [|discriminate].
    inversion H; subst. destruct (parse_literal_rev _ _ _ _ _ _ HG P) as [HL C1].
    destruct (word_rev _ _ _ (Cons_good _ _ _ C1) W) as [Hw C2].
    assert (Hwb: (w <? w32) = true) by lia.
    exists [o; OIdRef w]. split; [reflexivity|]. split; [reflexivity|]. split; [reflexivity|]. split; [discriminate|].
    split.
    { eapply Cons_eq; [|exact (Cons_trans _ _ _ _ _ C1 C2)].
      cbn [flat_map asm_operand]. rewrite !app_length. cbn [length]. lia. }
    split.
    - intros q r os' Hq _. cbn [conf_lops app none nil andb negb]. rewrite E1, E2, E3, E4, EO, Hq, HL, Hwb.
      cbn [andb]. reflexivity.
    - intros _ _ r os' HC. cbn [conf_lops app none nil andb negb]. rewrite E1, E2, E3, E4, EO.
      cbn [variadic andb pairs_ok]. rewrite HL, Hwb. cbn [andb].
      destruct os' as [|o' os'']; [reflexivity|].
      cbn [conf_lops app none nil andb negb] in HC. rewrite E1, E2, E3, E4, EO in HC.
      cbn [variadic andb] in HC. exact HC. }
  destruct (N.eqb k (gd_k_specop G)) eqn:E5.
  { destruct (parse_spec_constant_op G idx d) as [[os d2]|e|p] eqn:P; cbn [bind] in H; try discriminate.
    inversion H; subst.
    destruct (parse_spec_constant_op_rev G SMALL NONEMPTY _ _ _ _ HG P) as (n & g & nested & -> & Hn & EL & C & HC).
    assert (Hnb: (n <? 65536) = true) by lia.
    exists (OSpecOp n :: nested). split; [reflexivity|]. split; [reflexivity|]. split; [reflexivity|].
    split; [discriminate|]. split; [exact C|]. split.
    - intros q r os' Hq HL. cbn [conf_lops app none nil andb negb].
      rewrite E1, E2, E3, E4, E5, Hq, Hnb, EL, (HC os' HL). cbn [andb negb]. reflexivity.
    - intros _ Hx; discriminate. }
  destruct (parse_operand G k d) as [[a d2]|e|p] eqn:P; cbn [bind] in H; try discriminate.
  inversion H; subst. destruct (parse_operand_rev _ _ _ _ _ HG P) as (HS & C & HA). specialize (HA NONEMPTY).
  exists a. split; [reflexivity|]. split; [reflexivity|]. split; [reflexivity|]. split; [exact HA|].
  split; [exact C|]. destruct a as [|a0 a']; [congruence|]. split.
  - intros q r os' Hq _. cbn [conf_lops app none nil andb negb]. rewrite E1, E2, E3, E4, E5, Hq.
    change (a0 :: a' ++ os') with ((a0 :: a') ++ os'). rewrite HS. reflexivity.
  - intros _ _ r os' HC. cbn [conf_lops app none nil andb negb]. rewrite E1, E2, E3, E4, E5.
    cbn [variadic length split_star]. change (a0 :: a' ++ os') with ((a0 :: a') ++ os'). rewrite HS.
    apply split_star_mono with (sf := length os'); [|rewrite app_length; lia].
    destruct os' as [|o' os'']; [apply split_star_nil|].
    cbn [conf_lops none nil andb negb] in HC. rewrite E1, E2, E3, E4, E5 in HC. cbn [variadic] in HC. exact HC.
Qed.

Lemma lops_rev_free : forall fuel lops idx d rt rid acc rt' rid' acc' d',
  Good d -> res_free G lops = true -> special_quant_ok G lops = true ->
  parse_lops G fuel t opc lops idx d rt rid acc = Ok (rt', rid', acc', d') ->
  exists os, rt' = rt /\ rid' = rid /\ acc' = acc ++ os /\ Cons d d' (N.of_nat (length (flat os))) /\
    (limit_reached d' = true -> conf_lops G t opc rt lops None None acc os = true).
Proof.
  induction fuel as [|f IH]; intros lops idx d rt rid acc rt' rid' acc' d' HG HF HQ H; [discriminate|].
  destruct lops as [|[k q] r].
  - cbn [parse_lops] in H. inversion H; subst. exists []. rewrite app_nil_r.
    split; [reflexivity|]. split; [reflexivity|]. split; [reflexivity|]. split; [apply Cons_refl; exact HG|].
    intros _. reflexivity.
  - destruct (limit_reached d) eqn:LR.
    + cbn [parse_lops] in H. rewrite LR in H.
      destruct q; [discriminate| |]; inversion H; subst; exists []; rewrite app_nil_r;
        (split; [reflexivity|]; split; [reflexivity|]; split; [reflexivity|];
         split; [apply Cons_refl; exact HG|]); intros _; reflexivity.
    + rewrite parse_lops_step in H by exact LR.
      destruct (step_kind G t opc k idx d rt rid acc) as [[[[rt1 rid1] acc1] d1]|e|p] eqn:ES;
        cbn [bind] in H; try discriminate.
      pose proof HF as HF0. pose proof HQ as HQ0.
      cbn [res_free special_quant_ok forallb fst snd] in HF, HQ.
      apply andb_prop in HF as [HF1 HF2]. apply andb_prop in HQ as [HQ1 HQ2].
      unfold is_res in HF1. apply negb_true_iff in HF1. apply orb_false_iff in HF1 as [E1 E2].
      destruct (step_rev k idx d rt rid acc _ _ _ _ HG E1 E2 ES) as (a & -> & -> & -> & HA & C1 & HNV & HV).
      assert (Hrec: forall lops', res_free G lops' = true -> special_quant_ok G lops' = true ->
                parse_lops G f t opc lops' idx d1 rt rid (acc ++ a) = Ok (rt', rid', acc', d') ->
                exists os', rt' = rt /\ rid' = rid /\ acc' = acc ++ a ++ os' /\
                  Cons d d' (N.of_nat (length (flat (a ++ os')))) /\
                  (limit_reached d' = true -> lim d1 = Some (N.of_nat (length (flat os'))) /\
                      conf_lops G t opc rt lops' None None (acc ++ a) os' = true)).
      { intros lops' F1 F2 HP.
        destruct (IH _ _ _ _ _ _ _ _ _ _ (Cons_good _ _ _ C1) F1 F2 HP) as (os' & ? & ? & ? & C2 & HC).
        exists os'. split; [assumption|]. split; [assumption|]. split; [rewrite app_assoc; assumption|]. split.
        { rewrite flat_map_app, app_length. eapply Cons_eq; [|exact (Cons_trans _ _ _ _ _ C1 C2)]. lia. }
        intros LR'. split; [|apply HC; exact LR'].
        destruct (Cons_good _ _ _ C1) as [_ [l1 HL1]]. destruct C2 as [G2 C2]. destruct (C2 l1 HL1) as [A B].
        pose proof (limit_zero _ G2 LR') as Z. rewrite Z in B. inversion B. rewrite HL1. f_equal. lia. }
      destruct q.
      * destruct (Hrec r HF2 HQ2 H) as (os' & -> & -> & -> & C2 & HC). exists (a ++ os').
        split; [reflexivity|]. split; [reflexivity|]. split; [reflexivity|]. split; [exact C2|].
        intros LR'. destruct (HC LR') as [HL HC']. rewrite HNV by (reflexivity || exact HL). exact HC'.
      * destruct (Hrec r HF2 HQ2 H) as (os' & -> & -> & -> & C2 & HC). exists (a ++ os').
        split; [reflexivity|]. split; [reflexivity|]. split; [reflexivity|]. split; [exact C2|].
        intros LR'. destruct (HC LR') as [HL HC']. rewrite HNV by (reflexivity || exact HL). exact HC'.
      * destruct (Hrec _ HF0 HQ0 H) as (os' & -> & -> & -> & C2 & HC). exists (a ++ os').
        split; [reflexivity|]. split; [reflexivity|]. split; [reflexivity|]. split; [exact C2|].
        intros LR'. destruct (HC LR') as [HL HC'].
        cbn [variadic negb orb] in HQ1. apply negb_true_iff in HQ1. apply orb_false_iff in HQ1 as [E3 E5].
        apply HV; assumption.
Qed.
End RevLoop.

(** result type / result id come first: the shape [wf_operands] guarantees *)
Section Front.
Variables (G : gdata) (t : tracker) (opc : N).
Hypothesis SMALL : small_opcodes (gd_table G) = true.
Hypothesis NONEMPTY : arms_nonempty G = true.
Hypothesis DISTINCT : N.eqb (gd_k_rt G) (gd_k_rid G) = false.

Definition shape1 (lops : list (N * quant)) : bool :=
  match lops with
  | (k, q) :: r => if N.eqb k (gd_k_rid G) then negb (variadic q) && res_free G r else res_free G lops
  | [] => true
  end.

Definition shape0 (lops : list (N * quant)) : bool :=
  match lops with
  | (k, q) :: r => if N.eqb k (gd_k_rt G) then negb (variadic q) && shape1 r else shape1 lops
  | [] => true
  end.

Lemma res_free_shape1 lops : res_free G lops = true -> shape1 lops = true.
Proof.
  destruct lops as [|[k q] r]; [reflexivity|]. cbn [shape1]. intros H.
  destruct (N.eqb k (gd_k_rid G)) eqn:E; [|exact H].
  cbn [res_free forallb fst] in H. unfold is_res in H. rewrite E, orb_true_r in H. discriminate.
Qed.

Lemma res_free_shape0 lops : res_free G lops = true -> shape0 lops = true.
Proof.
  destruct lops as [|[k q] r]; [reflexivity|]. cbn [shape0]. intros H.
  destruct (N.eqb k (gd_k_rt G)) eqn:E; [|apply res_free_shape1; exact H].
  cbn [res_free forallb fst] in H. unfold is_res in H. rewrite E in H. discriminate.
Qed.

Lemma wf_operands_shape0 ops : wf_operands (gd_k_rt G) (gd_k_rid G) ops = true -> shape0 ops = true.
Proof.
  unfold wf_operands. intros H. apply andb_prop in H as [H1 _].
  change (res_free G (strip_front (gd_k_rt G) (gd_k_rid G) ops) = true) in H1.
  destruct ops as [|[k q] r]; [reflexivity|]. cbn [strip_front] in H1.
  destruct q; try (apply res_free_shape0; exact H1).
  destruct (N.eqb k (gd_k_rt G)) eqn:Ert.
  - cbn [shape0]. rewrite Ert. cbn [variadic negb andb].
    destruct r as [|[k2 q2] r2]; [reflexivity|].
    destruct q2; try (apply res_free_shape1; exact H1).
    destruct (N.eqb k2 (gd_k_rid G)) eqn:Erid; [|apply res_free_shape1; exact H1].
    cbn [shape1]. rewrite Erid. exact H1.
  - destruct (N.eqb k (gd_k_rid G)) eqn:Erid; [|apply res_free_shape0; exact H1].
    cbn [shape0]. rewrite Ert. cbn [shape1]. rewrite Erid. exact H1.
Qed.

Lemma special_quant_tail k q r : special_quant_ok G ((k, q) :: r) = true -> special_quant_ok G r = true.
Proof. cbn [special_quant_ok forallb]. intros H. apply andb_prop in H as [_ H]. exact H. Qed.

Lemma lops_rev_rid fuel lops idx d rt rid acc rt' rid' acc' d' :
  Good d -> shape1 lops = true -> special_quant_ok G lops = true ->
  parse_lops G fuel t opc lops idx d rt rid acc = Ok (rt', rid', acc', d') ->
  exists os prid, rt' = rt /\ rid' = final prid rid /\ acc' = acc ++ os /\
    Cons d d' (N.of_nat (length (enc None prid os))) /\
    (limit_reached d' = true -> conf_lops G t opc rt lops None prid acc os = true).
Proof.
  intros HG HS HQ H.
  assert (Hfree: res_free G lops = true -> exists os prid, rt' = rt /\ rid' = final prid rid /\ acc' = acc ++ os /\
            Cons d d' (N.of_nat (length (enc None prid os))) /\
            (limit_reached d' = true -> conf_lops G t opc rt lops None prid acc os = true)).
  { intros HF. destruct (lops_rev_free G t opc SMALL NONEMPTY _ _ _ _ _ _ _ _ _ _ _ HG HF HQ H)
      as (os & -> & -> & -> & C & HC).
    exists os, None. split; [reflexivity|]. split; [reflexivity|]. split; [reflexivity|]. split; [exact C|exact HC]. }
  destruct lops as [|[k q] r]; [apply Hfree; reflexivity|]. cbn [shape1] in HS.
  destruct (N.eqb k (gd_k_rid G)) eqn:Ek; [|apply Hfree; exact HS]. clear Hfree.
  apply andb_prop in HS as [HV HF]. apply negb_true_iff in HV.
  assert (Ert: N.eqb k (gd_k_rt G) = false).
  { apply N.eqb_eq in Ek. subst k. rewrite N.eqb_sym. exact DISTINCT. }
  destruct fuel as [|f]; [discriminate|]. destruct (limit_reached d) eqn:LR.
  - cbn [parse_lops] in H. rewrite LR in H.
    destruct q; [discriminate| |]; inversion H; subst; exists [], None; rewrite app_nil_r;
      (split; [reflexivity|]; split; [reflexivity|]; split; [reflexivity|];
       split; [apply Cons_refl; exact HG|]); intros _; reflexivity.
  - rewrite parse_lops_step in H by exact LR. unfold step_kind in H. rewrite Ert, Ek in H.
    destruct (word d) as [[w|e] d1] eqn:W; cbn [dreq bind] in H; [|discriminate].
    destruct (word_rev _ _ _ HG W) as [Hw C1].
    assert (H': parse_lops G f t opc r idx d1 rt (Some w) acc = Ok (rt', rid', acc', d'))
      by (destruct q; [exact H|exact H|discriminate]).
    destruct (lops_rev_free G t opc SMALL NONEMPTY _ _ _ _ _ _ _ _ _ _ _ (Cons_good _ _ _ C1) HF
                (special_quant_tail _ _ _ HQ) H') as (os & -> & -> & -> & C2 & HC).
    exists os, (Some w). split; [reflexivity|]. split; [reflexivity|]. split; [reflexivity|]. split.
    { eapply Cons_eq; [|exact (Cons_trans _ _ _ _ _ C1 C2)]. unfold enc. cbn [oword app length]. lia. }
    intros LR'. cbn [conf_lops none nil andb]. rewrite Ert, Ek, HV, (HC LR').
    assert (Hwb: (w <? w32) = true) by lia. rewrite Hwb. reflexivity.
Qed.

Lemma lops_rev_front fuel lops idx d rt rid acc rt' rid' acc' d' :
  Good d -> shape0 lops = true -> special_quant_ok G lops = true ->
  parse_lops G fuel t opc lops idx d rt rid acc = Ok (rt', rid', acc', d') ->
  exists os prt prid, rt' = final prt rt /\ rid' = final prid rid /\ acc' = acc ++ os /\
    Cons d d' (N.of_nat (length (enc prt prid os))) /\
    (limit_reached d' = true -> conf_lops G t opc rt' lops prt prid acc os = true).
Proof.
  intros HG HS HQ H.
  assert (Hrid: shape1 lops = true -> exists os prt prid, rt' = final prt rt /\ rid' = final prid rid /\
            acc' = acc ++ os /\ Cons d d' (N.of_nat (length (enc prt prid os))) /\
            (limit_reached d' = true -> conf_lops G t opc rt' lops prt prid acc os = true)).
  { intros HS1. destruct (lops_rev_rid _ _ _ _ _ _ _ _ _ _ _ HG HS1 HQ H) as (os & prid & -> & -> & -> & C & HC).
    exists os, None, prid. split; [reflexivity|]. split; [reflexivity|]. split; [reflexivity|].
    split; [exact C|exact HC]. }
  destruct lops as [|[k q] r]; [apply Hrid; reflexivity|]. cbn [shape0] in HS.
  destruct (N.eqb k (gd_k_rt G)) eqn:Ek; [|apply Hrid; exact HS]. clear Hrid.
  apply andb_prop in HS as [HV HS1]. apply negb_true_iff in HV.
  destruct fuel as [|f]; [discriminate|]. destruct (limit_reached d) eqn:LR.
  - cbn [parse_lops] in H. rewrite LR in H.
    destruct q; [discriminate| |]; inversion H; subst; exists [], None, None; rewrite app_nil_r;
      (split; [reflexivity|]; split; [reflexivity|]; split; [reflexivity|];
       split; [apply Cons_refl; exact HG|]); intros _; reflexivity.
  - rewrite parse_lops_step in H by exact LR. unfold step_kind in H. rewrite Ek in H.
    destruct (word d) as [[w|e] d1] eqn:W; cbn [dreq bind] in H; [|discriminate].
    destruct (word_rev _ _ _ HG W) as [Hw C1].
    assert (H': parse_lops G f t opc r idx d1 (Some w) rid acc = Ok (rt', rid', acc', d'))
      by (destruct q; [exact H|exact H|discriminate]).
    destruct (lops_rev_rid _ _ _ _ _ _ _ _ _ _ _ (Cons_good _ _ _ C1) HS1 (special_quant_tail _ _ _ HQ) H')
      as (os & prid & -> & -> & -> & C2 & HC).
    exists os, (Some w), prid. split; [reflexivity|]. split; [reflexivity|]. split; [reflexivity|]. split.
    { eapply Cons_eq; [|exact (Cons_trans _ _ _ _ _ C1 C2)]. unfold enc. cbn [oword app length]. lia. }
    intros LR'. cbn [conf_lops none nil andb]. rewrite Ek, HV, (HC LR').
    assert (Hwb: (w <? w32) = true) by lia. rewrite Hwb. reflexivity.
Qed.
End Front.

Lemma final_None p : final p None = p.
Proof. destruct p; reflexivity. Qed.

(** R3: an instruction the parser returns from a byte buffer conforms to the
    grammar - and hence (R2) assembles to words that parse back to itself.
    The bytes must be bytes: the model's buffer is a [list N]; see
    [parse_sound_needs_bytes] below for what happens otherwise. *)
Theorem parse_sound_full G t idx d i d1 :
  wf_gdata G = true -> Forall byte (rest d) ->
  parse_inst G t idx d = Ok (i, d1) ->
  conforms G t i = true /\
  exists w d0, word d = (inl w, d0) /\ (w / 65536) mod 65536 = N.of_nat (length (asm_inst i)) /\
               w mod 65536 = i_opcode i.
Proof.
  intros WF HB H. destruct (wf_gdata_spec G WF) as (SMALL & WFO & SQ & DIST & NE).
  unfold parse_inst in H. destruct (word d) as [[w|e] d0] eqn:W; [|discriminate]. cbv zeta in H.
  destruct (N.eqb ((w / 65536) mod 65536) 0) eqn:E0; [discriminate|].
  destruct (lookup_core (gd_table G) (w mod 65536)) as [g|] eqn:EL; [|discriminate].
  set (d2 := set_limit d0 ((w / 65536) mod 65536 - 1)) in *.
  destruct (parse_lops G (lops_fuel (g_operands g) d2) t (g_opcode g) (g_operands g) idx d2 None None [])
    as [[[[rt rid] ops] d3]|e|p] eqn:PL; cbn [bind] in H; try discriminate.
  destruct (limit_reached d3) eqn:LR; [|discriminate]. inversion H; subst. clear H.
  destruct (lookup_core_opcode G SMALL _ _ EL) as [Hg _].
  assert (Hin: In g (gd_table G)) by (unfold lookup_core in EL; apply find_some in EL; tauto).
  assert (HG2: Good d2).
  { destruct (word_ok _ _ _ W) as (b0 & b1 & b2 & b3 & HR & _).
    rewrite HR in HB. do 4 apply Forall_inv_tail in HB.
    split; [exact HB|]. eexists. reflexivity. }
  destruct (lops_rev_front G t (g_opcode g) SMALL NE DIST _ _ _ _ _ _ _ _ _ _ _ HG2
              (wf_operands_shape0 G _ (WFO g Hin)) (SQ g Hin) PL)
    as (os & prt & prid & -> & -> & -> & C & HC).
  rewrite !final_None in *. cbn [app] in *.
  destruct C as [G3 C]. destruct (C _ eq_refl) as [A B].
  rewrite (limit_zero _ G3 LR) in B. inversion B.
  assert ((w / 65536) mod 65536 < 65536) by (apply N.mod_lt; lia).
  split.
  - unfold conforms. cbn [i_opcode i_rtype i_rid i_ops]. rewrite Hg, EL, <- Hg, (HC LR). cbn [andb].
    unfold asm_body. cbn [i_rtype i_rid i_ops]. fold (enc prt prid os). lia.
  - exists w, d0. split; [reflexivity|]. cbn [i_opcode]. split; [|symmetry; exact Hg].
    unfold asm_inst, asm_body. cbv zeta. cbn [i_rtype i_rid i_ops length]. fold (enc prt prid os). lia.
Qed.

Theorem parse_sound G t idx d i d1 :
  wf_gdata G = true -> Forall byte (rest d) ->
  parse_inst G t idx d = Ok (i, d1) -> conforms G t i = true.
Proof. intros WF HB H. apply (parse_sound_full G t idx d i d1 WF HB H). Qed.

(** R3, padding-insensitive round trip: re-assembling what was parsed and
    parsing again yields the same instruction *)
Corollary parse_asm_parse G t idx d i d1 :
  wf_gdata G = true -> Forall byte (rest d) ->
  parse_inst G t idx d = Ok (i, d1) ->
  forall r o idx',
    parse_inst G t idx' {| rest := bytes_of_words (asm_inst i) ++ r; off := o; lim := None |}
    = Ok (i, {| rest := r; off := o + 4 * N.of_nat (length (asm_inst i)); lim := None |}).
Proof. intros WF HB H. apply roundtrip; [exact WF|]. exact (parse_sound G t idx d i d1 WF HB H). Qed.

(** ---------------------------------------------------------------- *)
(** * The linked tables of this run, and checks by evaluation          *)
(** ---------------------------------------------------------------- *)
From RV Require Inst.Linked.

Example wf_gdata_linked : wf_gdata Linked.G = true.
Proof. vm_cast_no_check (eq_refl true). Qed.

(** without the byte bound R3 fails for the model: the "byte" 256 makes the
    result id of this OpTypeInt 2^32, which no conforming instruction has
    (and which the assembler would not emit as one word) *)
Example parse_sound_needs_bytes :
  let bytes := [21; 0; 4; 0;  0; 0; 0; 256;  32; 0; 0; 0;  1; 0; 0; 0] in
  exists i d1, parse_inst Linked.G [] 0 (mkdec bytes) = Ok (i, d1) /\ i_rid i = Some 4294967296 /\
               conforms Linked.G [] i = false.
Proof. eexists _, _. split; [vm_compute; reflexivity|]. split; vm_compute; reflexivity. Qed.

(** the round trip, evaluated: OpEntryPoint Fragment %4 "main" %9 %10 *)
Example roundtrip_entry_point :
  let i := {| i_opcode := 15; i_rtype := None; i_rid := None;
              i_ops := [OEnum 12 4; OIdRef 4; OStr [109; 97; 105; 110]; OIdRef 9; OIdRef 10] |} in
  conforms Linked.G [] i = true /\
  parse_inst Linked.G [] 0 (mkdec (bytes_of_words (asm_inst i) ++ [1; 2; 3]))
  = Ok (i, {| rest := [1; 2; 3]; off := 4 * N.of_nat (length (asm_inst i)); lim := None |}).
Proof. split; vm_compute; reflexivity. Qed.

Print Assumptions word_read_lim.
Print Assumptions word_read_nolim.
Print Assumptions bit64_read.
Print Assumptions string_read_lim.
Print Assumptions asm_first_word.
Print Assumptions roundtrip_small.
Print Assumptions roundtrip.
Print Assumptions parse_sound_full.
Print Assumptions parse_sound.
Print Assumptions parse_asm_parse.
Print Assumptions wf_gdata_linked.
