(** Assemble / parse round trip for grammar-conforming instructions
    (Spec/Conforms.v): the assembler's words, laid out as little-endian bytes,
    are parsed back to the very same instruction, for every linked grammar
    [G] that passes the boolean check [wf_gdata]. *)
From RV Require Import Model.Base Model.Bytes Model.Spirv Model.Grammar Model.Decoder Model.Inst Model.Parser.
From RV Require Import Proofs.DecoderFacts Proofs.GrammarFacts Spec.Conforms.

(** ---------------------------------------------------------------- *)
(** * Step 0: bytes / words bridge                                    *)
(** ---------------------------------------------------------------- *)

Lemma bytes_word_inv b0 b1 b2 b3 :
  b0 < 256 -> b1 < 256 -> b2 < 256 -> b3 < 256 ->
  bytes_of_word (word_of_bytes b0 b1 b2 b3) = [b0; b1; b2; b3].
Proof.
  intros H0 H1 H2 H3. unfold bytes_of_word, word_of_bytes.
  f_equal; [|f_equal; [|f_equal; [|f_equal]]]; timeout 20 lia.
Qed.

Lemma word_bytes_inv w : w < w32 ->
  word_of_bytes (w mod 256) ((w / 256) mod 256) ((w / 65536) mod 256) ((w / 16777216) mod 256) = w.
Proof. unfold w32, word_of_bytes. intros H. timeout 20 lia. Qed.

Lemma word_of_bytes_lt b0 b1 b2 b3 :
  b0 < 256 -> b1 < 256 -> b2 < 256 -> b3 < 256 -> word_of_bytes b0 b1 b2 b3 < w32.
Proof. unfold w32, word_of_bytes. lia. Qed.

Lemma bytes_of_words_app a b : bytes_of_words (a ++ b) = bytes_of_words a ++ bytes_of_words b.
Proof. apply flat_map_app. Qed.

Lemma bytes_of_words_cons w ws : bytes_of_words (w :: ws) = bytes_of_word w ++ bytes_of_words ws.
Proof. reflexivity. Qed.

Lemma bytes_of_words_single w : bytes_of_words [w] = bytes_of_word w.
Proof. unfold bytes_of_words. cbn [flat_map]. apply app_nil_r. Qed.

Lemma bytes_of_words_length ws : length (bytes_of_words ws) = (4 * length ws)%nat.
Proof.
  induction ws as [|w ws IH]; [reflexivity|].
  rewrite bytes_of_words_cons, app_length, IH. cbn [bytes_of_word length]. lia.
Qed.

(** decoder states with a limit *)
Definition dst (bs : list N) (o l : N) : dec := {| rest := bs; off := o; lim := Some l |}.

Lemma dst_ext bs o o' l l' : o = o' -> l = l' -> dst bs o l = dst bs o' l'.
Proof. intros -> ->. reflexivity. Qed.

Lemma Ok_dst_ext {A} (a : A) bs o o' l l' : o = o' -> l = l' -> Ok (a, dst bs o l) = Ok (a, dst bs o' l').
Proof. intros -> ->. reflexivity. Qed.

Lemma limit_reached_dst bs o l : limit_reached (dst bs o l) = (l =? 0).
Proof. unfold limit_reached, dst. cbn [lim]. destruct l; reflexivity. Qed.

(** D1: reading back one assembled word *)
Lemma word_read w r o l : w < w32 -> 1 <= l ->
  word (dst (bytes_of_word w ++ r) o l) = (inl w, dst r (o + 4) (l - 1)).
Proof.
  intros Hw Hl. unfold word. rewrite limit_reached_dst.
  destruct (l =? 0) eqn:E; [lia|].
  unfold dst. cbn [rest off lim bytes_of_word app dec_lim]. rewrite word_bytes_inv by exact Hw. reflexivity.
Qed.

Theorem word_read_lim w r o n : w < w32 ->
  word {| rest := bytes_of_word w ++ r; off := o; lim := Some (n + 1) |}
  = (inl w, {| rest := r; off := o + 4; lim := Some n |}).
Proof.
  intros Hw. change (word (dst (bytes_of_word w ++ r) o (n + 1)) = (inl w, dst r (o + 4) n)).
  rewrite word_read by (exact Hw || lia). f_equal. apply dst_ext; lia.
Qed.

Theorem word_read_nolim w r o : w < w32 ->
  word {| rest := bytes_of_word w ++ r; off := o; lim := None |}
  = (inl w, {| rest := r; off := o + 4; lim := None |}).
Proof.
  intros Hw. unfold word, limit_reached. cbn [rest off lim bytes_of_word app dec_lim].
  rewrite word_bytes_inv by exact Hw. reflexivity.
Qed.

(** D2: a 64-bit literal, low word first *)
Lemma bit64_read v r o l : v < w32 * w32 -> 2 <= l ->
  bit64 (dst (bytes_of_words [v mod w32; (v / w32) mod w32] ++ r) o l) = (inl v, dst r (o + 8) (l - 2)).
Proof.
  intros Hv Hl. unfold bit64.
  rewrite bytes_of_words_cons, bytes_of_words_single, <- app_assoc.
  assert (H32: 0 < w32) by (unfold w32; lia).
  rewrite word_read by (try apply N.mod_lt; lia).
  rewrite word_read by (try apply N.mod_lt; lia).
  f_equal; [f_equal|apply dst_ext; lia].
  unfold w32 in *. timeout 20 lia.
Qed.

(** D3: strings *)
Lemma list_ind4 {A} (P : list A -> Prop) :
  P [] -> (forall a, P [a]) -> (forall a b, P [a; b]) -> (forall a b c, P [a; b; c]) ->
  (forall a b c d r, P r -> P (a :: b :: c :: d :: r)) -> forall l, P l.
Proof.
  intros H0 H1 H2 H3 H4. fix IH 1. intros [|a [|b [|c [|d r]]]]; auto. apply H4. apply IH.
Qed.

Lemma chunks_spec s : Forall (fun b => b < 256) s ->
  exists pad, bytes_of_words (chunks s) = s ++ 0 :: pad /\
              N.of_nat (length (chunks s)) = N.of_nat (length s) / 4 + 1.
Proof.
  induction s as [|a|a b|a b c|a b c d r IH] using list_ind4; intros HF.
  - exists [0; 0; 0]. split; reflexivity.
  - inversion HF; subst. exists [0; 0]. split; [|reflexivity].
    cbn [chunks]. rewrite bytes_of_words_single, bytes_word_inv by lia. reflexivity.
  - inversion HF as [|? ? ? HF1]; subst. inversion HF1; subst. exists [0]. split; [|reflexivity].
    cbn [chunks]. rewrite bytes_of_words_single, bytes_word_inv by lia. reflexivity.
  - inversion HF as [|? ? ? HF1]; subst. inversion HF1 as [|? ? ? HF2]; subst. inversion HF2; subst.
    exists []. split; [|reflexivity].
    cbn [chunks]. rewrite bytes_of_words_single, bytes_word_inv by lia. reflexivity.
  - inversion HF as [|? ? ? HF1]; subst. inversion HF1 as [|? ? ? HF2]; subst.
    inversion HF2 as [|? ? ? HF3]; subst. inversion HF3 as [|? ? ? HF4]; subst.
    destruct (IH HF4) as (pad & Hb & Hl). exists pad. split.
    + cbn [chunks]. rewrite bytes_of_words_cons, bytes_word_inv, Hb by lia. reflexivity.
    + cbn [chunks length] in *. lia.
Qed.

Lemma chunks_nonempty s : (1 <= length (chunks s))%nat.
Proof.
  induction s as [|a|a b|a b c|a b c d r IH] using list_ind4; cbn [chunks length]; lia.
Qed.

Lemma index0_app s x : Forall (fun b => b <> 0) s -> index0 (s ++ 0 :: x) = Some (length s).
Proof.
  induction s as [|b s IH]; intros HF; cbn [app index0 length].
  - reflexivity.
  - inversion HF; subst. destruct (N.eqb b 0) eqn:E; [apply N.eqb_eq in E; contradiction|].
    rewrite IH by assumption. reflexivity.
Qed.

Lemma index0_firstn_ge l : forall i k, index0 l = Some i -> (i < k)%nat -> index0 (firstn k l) = Some i.
Proof.
  induction l as [|b l IH]; intros i k H Hk; [discriminate|].
  destruct k as [|k]; [lia|]. cbn [firstn index0] in *.
  destruct (N.eqb b 0); [exact H|].
  destruct (index0 l) as [j|] eqn:E; [|discriminate]. cbn [option_map] in H. inversion H; subst.
  rewrite (IH j k eq_refl) by lia. reflexivity.
Qed.

Lemma str_ok_spec s : str_ok s = true ->
  Forall (fun b => b < 256) s /\ Forall (fun b => b <> 0) s /\ utf8_valid s = true.
Proof.
  unfold str_ok. intros H. apply andb_prop in H as [H1 H2]. rewrite forallb_forall in H1.
  split; [|split; [|exact H2]]; apply Forall_forall; intros b Hb; specialize (H1 b Hb); lia.
Qed.

Theorem string_read s r o l : str_ok s = true -> N.of_nat (length (chunks s)) <= l ->
  dstring (dst (bytes_of_words (chunks s) ++ r) o l)
  = (inl s, dst r (o + 4 * N.of_nat (length (chunks s))) (l - N.of_nat (length (chunks s)))).
Proof.
  intros Hs Hl. apply str_ok_spec in Hs as (Hb & Hnz & Hu).
  destruct (chunks_spec s Hb) as (pad & Hbytes & Hlen).
  pose proof (bytes_of_words_length (chunks s)) as HL.
  set (bs := bytes_of_words (chunks s)) in *.
  set (cw := N.of_nat (length (chunks s))) in *.
  assert (HI: index0 (bs ++ r) = Some (length s)).
  { rewrite Hbytes, <- app_assoc. apply index0_app. exact Hnz. }
  assert (HF: firstn (length s) (bs ++ r) = s).
  { rewrite Hbytes, <- app_assoc, firstn_app, Nat.sub_diag, firstn_all. cbn [firstn]. apply app_nil_r. }
  assert (Hcw: N.of_nat (length s) / 4 + 1 = cw) by lia.
  assert (HW: exists w lm, string_window (dst (bs ++ r) o l) = (w, lm) /\
                           index0 w = Some (length s) /\ firstn (length s) w = s).
  { unfold string_window, dst. cbn [lim rest].
    destruct (4 * l <=? N.of_nat (length (bs ++ r))) eqn:C.
    - eexists _, _. split; [reflexivity|]. split.
      + apply index0_firstn_ge; [exact HI|lia].
      + rewrite firstn_firstn. replace (Nat.min (length s) (N.to_nat (4 * l))) with (length s) by lia. exact HF.
    - eexists _, _. split; [reflexivity|]. split; [exact HI|exact HF]. }
  destruct HW as (w & lm & HW & HIw & HFw).
  unfold dstring. rewrite HW, HIw, HFw, Hu, Hcw.
  unfold dst at 1 2 3 4. cbn [rest off lim dec_lim].
  assert (Hfit: 4 * cw <=? N.of_nat (length (bs ++ r)) = true) by (rewrite app_length; lia).
  rewrite Hfit. f_equal. unfold dst. f_equal.
  replace (N.to_nat (4 * cw)) with (length bs + 0)%nat by lia.
  rewrite skipn_app, Nat.add_0_r, skipn_all.
  replace (length bs + 0 - length bs)%nat with 0%nat by lia. reflexivity.
Qed.

(** the task's D3, with the limit counted in words *)
Corollary string_read_lim s r o n : str_ok s = true ->
  dstring {| rest := bytes_of_words (chunks s) ++ r; off := o; lim := Some (N.of_nat (length (chunks s)) + n) |}
  = (inl s, {| rest := r; off := o + 4 * N.of_nat (length (chunks s)); lim := Some n |}).
Proof.
  intros Hs.
  change (dstring (dst (bytes_of_words (chunks s) ++ r) o (N.of_nat (length (chunks s)) + n))
          = (inl s, dst r (o + 4 * N.of_nat (length (chunks s))) n)).
  rewrite string_read by (exact Hs || lia). f_equal. apply dst_ext; lia.
Qed.
