(** P3b: Builder id discipline and type deduplication.
    All statements hold for every [k_fc] and every descriptor list [ds]. *)
From RV Require Import Model.Base Model.Bytes Model.Spirv Model.Grammar Model.Module Model.Inst
  Model.Parser Model.Loader Model.Builder.

Notation types s := (m_types_global_values inst (bs_module s)).

(** ------------------------------------------------------------------ *)
(** * Basic state algebra *)

Definition bump (s : bstate) : bstate :=
  {| bs_module := bs_module s; bs_header := bs_header s; bs_next := bs_next s + 1;
     bs_fn := bs_fn s; bs_blk := bs_blk s |}.

Lemma take_id_some s id s1 :
  take_id s = Some (id, s1) -> id = bs_next s /\ s1 = bump s /\ bs_next s + 1 < w32.
Proof.
  unfold take_id. destruct (bs_next s + 1 <? w32) eqn:E; intros H; [|discriminate].
  inversion H; subst. split; [reflexivity|]. split; [reflexivity|]. lia.
Qed.

Lemma take_id_none s : take_id s = None -> ~ (bs_next s + 1 < w32).
Proof.
  unfold take_id. destruct (bs_next s + 1 <? w32) eqn:E; intros H; [discriminate|]. lia.
Qed.

Lemma take_id_ok s : bs_next s + 1 < w32 -> take_id s = Some (bs_next s, bump s).
Proof.
  intros H. unfold take_id. destruct (bs_next s + 1 <? w32) eqn:E; [reflexivity|lia].
Qed.

(** the id a call allocated *)
Definition alloc (s s' : bstate) : list N :=
  if N.eqb (bs_next s') (bs_next s) then [] else [bs_next s].

Definition nstep (s s' : bstate) : Prop :=
  bs_next s' = bs_next s \/ (bs_next s' = bs_next s + 1 /\ bs_next s + 1 < w32).

Lemma alloc_same s s' : bs_next s' = bs_next s -> alloc s s' = [].
Proof. intros H. unfold alloc. rewrite H, N.eqb_refl. reflexivity. Qed.

Lemma alloc_bump s s' : bs_next s' = bs_next s + 1 -> alloc s s' = [bs_next s].
Proof.
  intros H. unfold alloc. destruct (N.eqb (bs_next s') (bs_next s)) eqn:E; [|reflexivity].
  apply N.eqb_eq in E. lia.
Qed.

(** frame of the block-insertion helpers: only the function list changes *)
Definition same_globals (m m' : module inst) : Prop :=
  m_caps inst m' = m_caps inst m /\ m_exts inst m' = m_exts inst m /\
  m_imports inst m' = m_imports inst m /\ m_memory_model inst m' = m_memory_model inst m /\
  m_entry_points inst m' = m_entry_points inst m /\ m_exec_modes inst m' = m_exec_modes inst m /\
  m_debug_string_source inst m' = m_debug_string_source inst m /\
  m_debug_names inst m' = m_debug_names inst m /\
  m_debug_module_processed inst m' = m_debug_module_processed inst m /\
  m_annotations inst m' = m_annotations inst m /\
  m_types_global_values inst m' = m_types_global_values inst m.

Lemma same_globals_refl m : same_globals m m.
Proof. unfold same_globals. tauto. Qed.

Lemma same_globals_set_functions m fs : same_globals m (set_functions m fs).
Proof. unfold same_globals, set_functions. cbn. tauto. Qed.

Lemma same_globals_types m m' : same_globals m m' ->
  m_types_global_values inst m' = m_types_global_values inst m.
Proof. unfold same_globals. tauto. Qed.

(** [fstep s s']: the call touched at most the function list and the selection *)
Definition fstep (s s' : bstate) : Prop :=
  bs_next s' = bs_next s /\ bs_header s' = bs_header s /\ same_globals (bs_module s) (bs_module s').

Lemma fstep_refl s : fstep s s.
Proof. unfold fstep. auto using same_globals_refl. Qed.

Lemma fstep_types s s' : fstep s s' -> types s' = types s.
Proof. intros [_ [_ H]]. apply same_globals_types. exact H. Qed.

Lemma fstep_next s s' : fstep s s' -> bs_next s' = bs_next s.
Proof. intros [H _]. exact H. Qed.

Lemma fstep_trans s1 s2 s3 : fstep s1 s2 -> fstep s2 s3 -> fstep s1 s3.
Proof.
  unfold fstep, same_globals. intros H1 H2.
  destruct H1 as [A1 [A2 A3]]. destruct H2 as [B1 [B2 B3]].
  split; [congruence|]. split; [congruence|].
  destruct A3 as [C0 [C1 [C2 [C3 [C4 [C5 [C6 [C7 [C8 [C9 C10]]]]]]]]]].
  destruct B3 as [D0 [D1 [D2 [D3 [D4 [D5 [D6 [D7 [D8 [D9 D10]]]]]]]]]].
  split; [congruence|]. split; [congruence|]. split; [congruence|]. split; [congruence|].
  split; [congruence|]. split; [congruence|]. split; [congruence|]. split; [congruence|].
  split; [congruence|]. split; congruence.
Qed.

Lemma fstep_setf s fs : fstep s (with_mod s (set_functions (bs_module s) fs)).
Proof.
  unfold fstep. cbn [with_mod bs_next bs_header bs_module].
  split; [reflexivity|]. split; [reflexivity|]. apply same_globals_set_functions.
Qed.

Lemma fstep_sel s f b : fstep s (with_sel s f b).
Proof. unfold fstep. cbn [with_sel bs_next bs_header bs_module]. auto using same_globals_refl. Qed.

Lemma fstep_bump_setf s fs :
  bs_next (with_mod (bump s) (set_functions (bs_module (bump s)) fs)) = bs_next s + 1 /\
  types (with_mod (bump s) (set_functions (bs_module (bump s)) fs)) = types s.
Proof. cbn. auto. Qed.

Lemma insert_into_block_fstep s p i s' o : insert_into_block s p i = (s', o) -> fstep s s'.
Proof.
  unfold insert_into_block. intros H.
  destruct (bs_fn s) as [f|]; [|inversion H; subst; apply fstep_refl].
  destruct (bs_blk s) as [b|]; [|inversion H; subst; apply fstep_refl].
  destruct (nth_error (m_functions inst (bs_module s)) f) as [fn|]; [|inversion H; subst; apply fstep_refl].
  destruct (nth_error (f_blocks inst fn) b) as [blk|]; [|inversion H; subst; apply fstep_refl].
  destruct (place p i (b_insts inst blk)) as [is'|]; [|inversion H; subst; apply fstep_refl].
  inversion H; subst. apply fstep_setf.
Qed.

Lemma insert_end_block_fstep s p i s' o : insert_end_block s p i = (s', o) -> fstep s s'.
Proof.
  unfold insert_end_block. intros H.
  destruct (bs_blk s) as [b|]; [|inversion H; subst; apply fstep_refl].
  destruct (insert_into_block s p i) as [s1 o1] eqn:E.
  apply insert_into_block_fstep in E.
  destruct o1; inversion H; subst; exact E.
Qed.

(** ------------------------------------------------------------------ *)
(** * run_descriptor, decomposed *)

Definition rt_of (d : descriptor) (e : env) : option (option N) :=
  match d_rt d with
  | RtNone => Some None
  | RtParam p => match assoc p e with Some (AW v) => Some (Some v) | _ => None end
  end.

Definition idr_of (d : descriptor) (s : bstate) (e : env) : option (option (option N * bstate)) :=
  match d_rid d with
  | RidNone => Some (Some (None, s))
  | RidFresh => Some (match take_id s with Some (id, s1) => Some (Some id, s1) | None => None end)
  | RidOptParam p => match assoc p e with Some (AOptW v) => Some (Some (v, s)) | _ => None end
  | RidOptParamElseFresh p =>
      match assoc p e with
      | Some (AOptW (Some v)) => Some (Some (Some v, s))
      | Some (AOptW None) => Some (match take_id s with Some (id, s1) => Some (Some id, s1) | None => None end)
      | _ => None
      end
  | RidConstNone => Some (Some (None, s))
  end.

Definition sink_run (d : descriptor) (e : env) (s1 : bstate) (i : inst) (idv : option N)
  : option (bstate * bout) :=
  match d_sink d with
  | SSection sec =>
      match push_section (bs_module s1) sec i with
      | Some m => Some (with_mod s1 m, ret_val (d_ret d) idv) | None => None end
  | SMemoryModel => Some (with_mod s1 (set_memory_model (bs_module s1) i), BUnit)
  | SBlock pt =>
      match point_of e pt with
      | None => None
      | Some p => match insert_into_block s1 p i with
                  | (s2, BUnit) => Some (s2, ret_val (d_ret d) idv)
                  | other => Some other
                  end
      end
  | SEndBlock pt =>
      match point_of e pt with
      | None => None
      | Some p => Some (insert_end_block s1 p i)
      end
  | SBlockElseGlobal =>
      match bs_fn s1, bs_blk s1 with
      | Some _, Some _ => match insert_into_block s1 IEnd i with
                          | (s2, BUnit) => Some (s2, ret_val (d_ret d) idv)
                          | other => Some other end
      | _, _ => match push_section (bs_module s1) 10 i with
                | Some m => Some (with_mod s1 m, ret_val (d_ret d) idv) | None => None end
      end
  | SLineRule =>
      match bs_blk s1 with
      | Some _ => match insert_into_block s1 IEnd i with
                  | (s2, BUnit) => Some (s2, BUnit)
                  | (s2, _) => Some (s2, BPanic)
                  end
      | None => match push_section (bs_module s1) 10 i with
                | Some m => Some (with_mod s1 m, BUnit) | None => None end
      end
  | SDedupType => None
  end.

(** the explicit/implicit request of a type method *)
Definition dedup_req (d : descriptor) (e : env) : option (option N) :=
  match d_rid d with
  | RidOptParam p => match assoc p e with Some (AOptW v) => Some v | _ => None end
  | RidConstNone => Some None
  | _ => None
  end.

Definition add_type (m : module inst) (i : inst) : module inst :=
  {| m_caps := m_caps inst m; m_exts := m_exts inst m; m_imports := m_imports inst m;
     m_memory_model := m_memory_model inst m; m_entry_points := m_entry_points inst m;
     m_exec_modes := m_exec_modes inst m; m_debug_string_source := m_debug_string_source inst m;
     m_debug_names := m_debug_names inst m; m_debug_module_processed := m_debug_module_processed inst m;
     m_annotations := m_annotations inst m;
     m_types_global_values := m_types_global_values inst m ++ [i];
     m_functions := m_functions inst m |}.

Lemma push_section_10 m i : push_section m 10 i = Some (add_type m i).
Proof. reflexivity. Qed.

Definition dedup_run (d : descriptor) (s : bstate) (rtv : option N) (ops : list operand)
  (req : option N) : bstate * bout :=
  match req with
  | Some id => (with_mod s (add_type (bs_module s) (mk_inst (d_opcode d) rtv (Some id) ops)), BVal id)
  | None =>
      match dedup_find (types s) (mk_inst (d_opcode d) rtv None ops) with
      | Some id => (s, BVal id)
      | None =>
          match take_id s with
          | None => (s, BPanic)
          | Some (id, s1) =>
              (with_mod s1 (add_type (bs_module s1) (mk_inst (d_opcode d) rtv (Some id) ops)), BVal id)
          end
      end
  end.

Lemma run_descriptor_dedup d s e :
  d_sink d = SDedupType ->
  run_descriptor d s e =
  match all_operands e (d_slots d), rt_of d e, dedup_req d e with
  | Some ops, Some rtv, Some req => Some (dedup_run d s rtv ops req)
  | _, _, _ => None
  end.
Proof.
  intros Hs. unfold run_descriptor, rt_of, dedup_req, dedup_run.
  destruct (all_operands e (d_slots d)) as [ops|]; [|reflexivity].
  rewrite Hs.
  destruct (d_rt d) as [|p].
  - destruct (d_rid d) as [| |q|q|]; try reflexivity.
    + destruct (assoc q e) as [[]|]; try reflexivity.
      destruct v as [id|]; [reflexivity|].
      destruct (dedup_find _ _); [reflexivity|].
      destruct (take_id s) as [[id s1]|]; reflexivity.
    + destruct (dedup_find _ _); [reflexivity|].
      destruct (take_id s) as [[id s1]|]; reflexivity.
  - destruct (assoc p e) as [[]|]; try reflexivity.
    destruct (d_rid d) as [| |q|q|]; try reflexivity.
    + destruct (assoc q e) as [[]|]; try reflexivity.
      destruct v0 as [id|]; [reflexivity|].
      destruct (dedup_find _ _); [reflexivity|].
      destruct (take_id s) as [[id s1]|]; reflexivity.
    + destruct (dedup_find _ _); [reflexivity|].
      destruct (take_id s) as [[id s1]|]; reflexivity.
Qed.

Lemma run_descriptor_plain d s e :
  d_sink d <> SDedupType ->
  run_descriptor d s e =
  match all_operands e (d_slots d), rt_of d e with
  | Some ops, Some rtv =>
      match idr_of d s e with
      | None => None
      | Some None => Some (s, BPanic)
      | Some (Some (idv, s1)) => sink_run d e s1 (mk_inst (d_opcode d) rtv idv ops) idv
      end
  | _, _ => None
  end.
Proof.
  intros Hs. unfold run_descriptor, rt_of, idr_of, sink_run.
  destruct (all_operands e (d_slots d)) as [ops|]; [|reflexivity].
  destruct (d_rt d) as [|p].
  - destruct (d_sink d); try reflexivity. congruence.
  - destruct (assoc p e) as [[]|]; try reflexivity.
    destruct (d_sink d); try reflexivity. congruence.
Qed.

Lemma idr_of_spec d s e idv s1 :
  idr_of d s e = Some (Some (idv, s1)) ->
  s1 = s \/ (s1 = bump s /\ idv = Some (bs_next s) /\ bs_next s + 1 < w32).
Proof.
  unfold idr_of. intros H.
  destruct (d_rid d) as [| |q|q|].
  - inversion H; auto.
  - destruct (take_id s) as [[id s2]|] eqn:T; [|discriminate].
    apply take_id_some in T as [-> [-> T]]. inversion H; subst. right. auto.
  - destruct (assoc q e) as [[]|]; try discriminate. inversion H; auto.
  - destruct (assoc q e) as [[]|]; try discriminate. destruct v as [v|].
    + inversion H; auto.
    + destruct (take_id s) as [[id s2]|] eqn:T; [|discriminate].
      apply take_id_some in T as [-> [-> T]]. inversion H; subst. right. auto.
  - inversion H; auto.
Qed.

(** does the sink leave section 10 (types_global_values) alone? *)
Definition sink_avoids10 (d : descriptor) (s : bstate) : bool :=
  match d_sink d with
  | SSection sec => negb (N.eqb sec 10)
  | SMemoryModel | SBlock _ | SEndBlock _ => true
  | SDedupType => false
  | SBlockElseGlobal => match bs_fn s, bs_blk s with Some _, Some _ => true | _, _ => false end
  | SLineRule => match bs_blk s with Some _ => true | None => false end
  end.

Lemma push_section_types m sec i m' :
  push_section m sec i = Some m' ->
  (sec <> 10 -> m_types_global_values inst m' = m_types_global_values inst m) /\
  (sec = 10 -> m' = add_type m i).
Proof.
  intros H.
  destruct sec as [|p]; [|do 4 (try destruct p as [p|p|])]; try discriminate H;
    (split; [intros Hn|intros Hn; try discriminate Hn]);
    try (inversion H; subst; reflexivity); try (exfalso; apply Hn; reflexivity).
Qed.

Lemma push_section_frame s1 sec i m :
  push_section (bs_module s1) sec i = Some m ->
  (sec <> 10 -> types (with_mod s1 m) = types s1) /\
  (types (with_mod s1 m) = types s1 \/ types (with_mod s1 m) = types s1 ++ [i]).
Proof.
  intros H. apply push_section_types in H as [H1 H2]. cbn [with_mod bs_module].
  split; [exact H1|].
  destruct (N.eq_dec sec 10) as [E|E].
  - right. rewrite (H2 E). reflexivity.
  - left. apply H1. exact E.
Qed.

Lemma sink_run_frame d e s1 i idv s' o :
  sink_run d e s1 i idv = Some (s', o) ->
  bs_next s' = bs_next s1 /\ bs_header s' = bs_header s1 /\
  (sink_avoids10 d s1 = true -> types s' = types s1) /\
  (types s' = types s1 \/ types s' = types s1 ++ [i]).
Proof.
  unfold sink_run, sink_avoids10. intros H.
  destruct (d_sink d) as [sec| |pt|pt| | |].
  - destruct (push_section (bs_module s1) sec i) as [m|] eqn:P; [|discriminate].
    inversion H; subst. apply push_section_frame in P as [P1 P2].
    split; [reflexivity|]. split; [reflexivity|]. split; [|exact P2].
    intros Hs. apply P1. intros ->. discriminate Hs.
  - inversion H; subst. cbn. auto.
  - destruct (point_of e pt) as [p|]; [|discriminate].
    destruct (insert_into_block s1 p i) as [s2 o2] eqn:I.
    apply insert_into_block_fstep in I.
    assert (s' = s2) as -> by (destruct o2; inversion H; reflexivity).
    split; [apply fstep_next; exact I|]. split; [apply I|].
    pose proof (fstep_types _ _ I). auto.
  - destruct (point_of e pt) as [p|]; [|discriminate].
    inversion H as [I]. apply insert_end_block_fstep in I.
    split; [apply fstep_next; exact I|]. split; [apply I|].
    pose proof (fstep_types _ _ I). auto.
  - discriminate.
  - assert (forall X : option (bstate * bout),
      X = Some (s', o) ->
      X = match insert_into_block s1 IEnd i with
          | (s2, BUnit) => Some (s2, ret_val (d_ret d) idv) | other => Some other end ->
      bs_next s' = bs_next s1 /\ bs_header s' = bs_header s1 /\ types s' = types s1) as HB.
    { intros X HX ->. destruct (insert_into_block s1 IEnd i) as [s2 o2] eqn:I.
      apply insert_into_block_fstep in I.
      assert (s' = s2) as -> by (destruct o2; inversion HX; reflexivity).
      split; [apply fstep_next; exact I|]. split; [apply I|]. apply fstep_types; exact I. }
    assert (forall X : option (bstate * bout),
      X = Some (s', o) ->
      X = match push_section (bs_module s1) 10 i with
          | Some m => Some (with_mod s1 m, ret_val (d_ret d) idv) | None => None end ->
      bs_next s' = bs_next s1 /\ bs_header s' = bs_header s1 /\ types s' = types s1 ++ [i]) as HP.
    { intros X HX ->. rewrite push_section_10 in HX. inversion HX; subst. cbn. auto. }
    destruct (bs_fn s1) as [f|].
    + destruct (bs_blk s1) as [b|].
      * destruct (HB _ H eq_refl) as [A [B C]]. auto.
      * destruct (HP _ H eq_refl) as [A [B C]].
        split; [exact A|]. split; [exact B|]. split; [discriminate|auto].
    + destruct (HP _ H eq_refl) as [A [B C]].
      split; [exact A|]. split; [exact B|]. split; [discriminate|auto].
  - destruct (bs_blk s1) as [b|].
    + destruct (insert_into_block s1 IEnd i) as [s2 o2] eqn:I.
      apply insert_into_block_fstep in I.
      assert (s' = s2) as -> by (destruct o2; inversion H; reflexivity).
      split; [apply fstep_next; exact I|]. split; [apply I|].
      pose proof (fstep_types _ _ I). auto.
    + rewrite push_section_10 in H. inversion H; subst. cbn.
      split; [reflexivity|]. split; [reflexivity|]. split; [discriminate|auto].
Qed.

(** the frame of a non-dedup descriptor call *)
Lemma run_plain_frame d s e s' o :
  d_sink d <> SDedupType -> run_descriptor d s e = Some (s', o) ->
  nstep s s' /\ bs_header s' = bs_header s /\
  (sink_avoids10 d s = true -> types s' = types s) /\
  (types s' = types s \/ exists i, types s' = types s ++ [i]).
Proof.
  intros Hs H. rewrite (run_descriptor_plain d s e Hs) in H.
  destruct (all_operands e (d_slots d)) as [ops|]; [|discriminate].
  destruct (rt_of d e) as [rtv|]; [|discriminate].
  destruct (idr_of d s e) as [[[idv s1]|]|] eqn:I; [| |discriminate].
  - apply sink_run_frame in H as [A [B [C D]]].
    apply idr_of_spec in I as [->|[-> [-> Hlt]]].
    + split; [left; exact A|]. split; [exact B|]. split; [exact C|].
      destruct D as [D|D]; [left; exact D|right; eexists; exact D].
    + split; [right; split; [exact A|exact Hlt]|]. split; [exact B|]. split; [exact C|].
      destruct D as [D|D]; [left; exact D|right; eexists; exact D].
  - inversion H; subst. split; [left; reflexivity|]. auto.
Qed.

(** the frame of a type-method call *)
Lemma dedup_run_nstep d s rtv ops req s' o :
  dedup_run d s rtv ops req = (s', o) -> nstep s s' /\ bs_header s' = bs_header s.
Proof.
  unfold dedup_run. intros H. destruct req as [id|].
  - inversion H; subst. split; [left; reflexivity|reflexivity].
  - destruct (dedup_find _ _) as [id|].
    + inversion H; subst. split; [left; reflexivity|reflexivity].
    + destruct (take_id s) as [[id s1]|] eqn:T.
      * apply take_id_some in T as [-> [-> T]]. inversion H; subst.
        split; [right; split; [reflexivity|exact T]|reflexivity].
      * inversion H; subst. split; [left; reflexivity|reflexivity].
Qed.

Lemma run_descriptor_nstep d s e s' o :
  run_descriptor d s e = Some (s', o) -> nstep s s' /\ bs_header s' = bs_header s.
Proof.
  intros H. destruct (d_sink d) eqn:Hs;
    try (apply run_plain_frame in H as [A [B _]]; [auto|congruence]).
  rewrite (run_descriptor_dedup d s e Hs) in H.
  destruct (all_operands e (d_slots d)) as [ops|]; [|discriminate].
  destruct (rt_of d e) as [rtv|]; [|discriminate].
  destruct (dedup_req d e) as [req|]; [|discriminate].
  inversion H as [H']. apply dedup_run_nstep in H'. exact H'.
Qed.

(** ------------------------------------------------------------------ *)
(** * The hand-written calls *)

Lemma begin_function_frame k s r f c t s' o :
  begin_function k s r f c t = (s', o) ->
  nstep s s' /\ types s' = types s /\
  (match f with Some _ => bs_next s' = bs_next s | None => True end).
Proof.
  unfold begin_function. intros H.
  destruct (bs_fn s); [inversion H; subst; split; [left; reflexivity|]; split; [reflexivity|destruct f; auto]|].
  destruct f as [v|].
  - inversion H; subst. cbn. split; [left; reflexivity|auto].
  - destruct (take_id s) as [[id s1]|] eqn:T.
    + apply take_id_some in T as [-> [-> T]]. inversion H; subst. cbn.
      split; [right; auto|auto].
    + inversion H; subst. split; [left; reflexivity|auto].
Qed.

Lemma end_function_fstep s s' o : end_function s = (s', o) -> fstep s s'.
Proof.
  unfold end_function. intros H.
  destruct (bs_fn s) as [f|]; [|inversion H; subst; apply fstep_refl].
  destruct (nth_error _ f) as [fn|]; [|inversion H; subst; apply fstep_refl].
  inversion H; subst. eapply fstep_trans; [apply fstep_setf|apply fstep_sel].
Qed.

Lemma function_parameter_frame s t s' o :
  function_parameter s t = (s', o) -> nstep s s' /\ types s' = types s.
Proof.
  unfold function_parameter. intros H.
  destruct (bs_fn s) as [f|]; [|inversion H; subst; split; [left; reflexivity|reflexivity]].
  destruct (take_id s) as [[id s1]|] eqn:T.
  - apply take_id_some in T as [-> [-> T]].
    destruct (nth_error _ f) as [fn|]; inversion H; subst; cbn; split; try reflexivity; right; auto.
  - inversion H; subst; split; [left; reflexivity|reflexivity].
Qed.

Lemma begin_block_gen_frame w s l s' o :
  begin_block_gen w s l = (s', o) ->
  nstep s s' /\ types s' = types s /\
  (match l with Some _ => bs_next s' = bs_next s | None => True end).
Proof.
  unfold begin_block_gen. intros H.
  assert (nstep s s /\ types s = types s /\ match l with Some _ => bs_next s = bs_next s | None => True end) as R.
  { split; [left; reflexivity|]. split; [reflexivity|destruct l; auto]. }
  destruct (bs_fn s) as [f|]; [|inversion H; subst; exact R].
  destruct (bs_blk s) as [b|]; [inversion H; subst; exact R|].
  destruct l as [v|].
  - destruct (nth_error _ f) as [fn|]; inversion H; subst; cbn; (split; [left; reflexivity|auto]).
  - destruct (take_id s) as [[id s1]|] eqn:T; [|inversion H; subst; exact R].
    apply take_id_some in T as [-> [-> T]].
    destruct (nth_error _ f) as [fn|]; inversion H; subst; cbn; (split; [right; auto|auto]).
Qed.

Lemma select_function_fstep s i s' o : select_function s i = (s', o) -> fstep s s'.
Proof.
  unfold select_function. intros H. destruct i as [i|].
  - destruct (_ <? _)%nat; inversion H; subst; [apply fstep_sel|apply fstep_refl].
  - inversion H; subst. apply fstep_sel.
Qed.

Lemma select_block_fstep s i s' o : select_block s i = (s', o) -> fstep s s'.
Proof.
  unfold select_block. intros H. destruct i as [i|].
  - destruct (bs_fn s) as [f|]; [|inversion H; subst; apply fstep_refl].
    destruct (nth_error _ f) as [fn|]; [|inversion H; subst; apply fstep_refl].
    destruct (_ <? _)%nat; inversion H; subst; [apply fstep_sel|apply fstep_refl].
  - inversion H; subst. apply fstep_sel.
Qed.

Lemma pop_instruction_fstep s s' o : pop_instruction s = (s', o) -> fstep s s'.
Proof.
  unfold pop_instruction. intros H.
  destruct (bs_fn s) as [f|]; [|inversion H; subst; apply fstep_refl].
  destruct (bs_blk s) as [b|]; [|inversion H; subst; apply fstep_refl].
  destruct (nth_error _ f) as [fn|]; [|inversion H; subst; apply fstep_refl].
  destruct (nth_error _ b) as [blk|]; [|inversion H; subst; apply fstep_refl].
  destruct (rev _) as [|last r]; inversion H; subst; [apply fstep_refl|apply fstep_setf].
Qed.

Lemma fstep_nstep s s' : fstep s s' -> nstep s s'.
Proof. intros H. left. apply fstep_next. exact H. Qed.

(** ------------------------------------------------------------------ *)
(** * I1: a call allocates at most one id, the next one *)

Theorem one_id_per_call k_fc ds s c s' o :
  bstep k_fc ds s c = Some (s', o) ->
  bs_next s' = bs_next s \/ (bs_next s' = bs_next s + 1 /\ bs_next s + 1 < w32).
Proof.
  change (bstep k_fc ds s c = Some (s', o) -> nstep s s').
  destruct c; cbn [bstep]; intros H.
  - destruct (find_desc ds method) as [d|]; [|discriminate].
    apply run_descriptor_nstep in H. apply H.
  - inversion H as [H']. apply begin_function_frame in H'. apply H'.
  - inversion H as [H']. apply end_function_fstep in H'. apply fstep_nstep; exact H'.
  - inversion H as [H']. apply function_parameter_frame in H'. apply H'.
  - inversion H as [H']. apply begin_block_gen_frame in H'. apply H'.
  - inversion H as [H']. apply begin_block_gen_frame in H'. apply H'.
  - inversion H as [H']. apply select_function_fstep in H'. apply fstep_nstep; exact H'.
  - inversion H as [H']. apply select_block_fstep in H'. apply fstep_nstep; exact H'.
  - inversion H as [H']. apply pop_instruction_fstep in H'. apply fstep_nstep; exact H'.
  - destruct (take_id s) as [[id s1]|] eqn:T.
    + apply take_id_some in T as [-> [-> T]]. inversion H; subst. right. auto.
    + inversion H; subst. left. reflexivity.
  - inversion H; subst. left. reflexivity.
Qed.

(** ------------------------------------------------------------------ *)
(** * I2: the ids allocated by a run are consecutive *)

Fixpoint brun_ids (k_fc : N) (ds : list descriptor) (s : bstate) (cs : list bcall)
  : option (bstate * list N) :=
  match cs with
  | [] => Some (s, [])
  | c :: r =>
      match bstep k_fc ds s c with
      | None => None
      | Some (s1, _) =>
          match brun_ids k_fc ds s1 r with
          | None => None
          | Some (s', ids) => Some (s', alloc s s1 ++ ids)
          end
      end
  end.

Definition iota_from (a : N) (n : nat) : list N := map (fun k => a + N.of_nat k) (seq 0 n).

Lemma iota_from_S a n : iota_from a (S n) = a :: iota_from (a + 1) n.
Proof.
  unfold iota_from. cbn [seq map]. f_equal; [lia|].
  rewrite <- seq_shift, map_map. apply map_ext. intros k. lia.
Qed.

Theorem ids_consecutive k_fc ds s cs s' ids :
  brun_ids k_fc ds s cs = Some (s', ids) ->
  ids = map (fun k => bs_next s + N.of_nat k) (seq 0 (length ids)) /\
  bs_next s' = bs_next s + N.of_nat (length ids).
Proof.
  revert s s' ids. induction cs as [|c r IH]; intros s s' ids H; cbn [brun_ids] in H.
  - inversion H; subst. cbn. split; [reflexivity|lia].
  - destruct (bstep k_fc ds s c) as [[s1 o]|] eqn:B; [|discriminate].
    destruct (brun_ids k_fc ds s1 r) as [[s2 ids2]|] eqn:R; [|discriminate].
    inversion H; subst. apply IH in R as [R1 R2].
    apply one_id_per_call in B as [B|[B Hlt]].
    + rewrite (alloc_same _ _ B). cbn [app]. rewrite <- B. auto.
    + rewrite (alloc_bump _ _ B). cbn [app length].
      change (map (fun k => bs_next s + N.of_nat k) (seq 0 (S (length ids2))))
        with (iota_from (bs_next s) (S (length ids2))).
      rewrite iota_from_S. split; [|lia].
      f_equal. rewrite <- B. exact R1.
Qed.

Lemma iota_from_In a n x : In x (iota_from a n) <-> a <= x < a + N.of_nat n.
Proof.
  unfold iota_from. rewrite in_map_iff. split.
  - intros [k [<- Hk]]. apply in_seq in Hk. lia.
  - intros H. exists (N.to_nat (x - a)). split; [lia|]. apply in_seq. lia.
Qed.

Lemma iota_from_nth a n k : (k < n)%nat -> nth_error (iota_from a n) k = Some (a + N.of_nat k).
Proof.
  revert a k. induction n as [|n IH]; intros a k H; [lia|].
  rewrite iota_from_S. destruct k as [|k]; cbn [nth_error].
  - f_equal. lia.
  - rewrite IH by lia. f_equal. lia.
Qed.

Lemma iota_from_length a n : length (iota_from a n) = n.
Proof. unfold iota_from. rewrite map_length, seq_length. reflexivity. Qed.

(** Corollaries of I2 *)
Corollary ids_nth k_fc ds s cs s' ids k :
  brun_ids k_fc ds s cs = Some (s', ids) -> (k < length ids)%nat ->
  nth_error ids k = Some (bs_next s + N.of_nat k).
Proof.
  intros H Hk. apply ids_consecutive in H as [H _]. rewrite H at 1.
  apply iota_from_nth. exact Hk.
Qed.

Corollary ids_strictly_increasing k_fc ds s cs s' ids j k a b :
  brun_ids k_fc ds s cs = Some (s', ids) ->
  nth_error ids j = Some a -> nth_error ids k = Some b -> (j < k)%nat -> a < b.
Proof.
  intros H Ha Hb Hjk.
  assert (k < length ids)%nat as Hk by (apply nth_error_Some; congruence).
  rewrite (ids_nth _ _ _ _ _ _ j H) in Ha by lia.
  rewrite (ids_nth _ _ _ _ _ _ k H) in Hb by lia.
  inversion Ha; inversion Hb; subst. lia.
Qed.

Corollary ids_NoDup k_fc ds s cs s' ids :
  brun_ids k_fc ds s cs = Some (s', ids) -> NoDup ids.
Proof.
  intros H. apply NoDup_nth_error. intros i j Hi E.
  destruct (nth_error ids i) as [a|] eqn:Ea; [|apply nth_error_None in Ea; lia].
  symmetry in E.
  destruct (Nat.lt_trichotomy i j) as [L|[L|L]]; [|exact L|].
  - pose proof (ids_strictly_increasing _ _ _ _ _ _ _ _ _ _ H Ea E L). lia.
  - pose proof (ids_strictly_increasing _ _ _ _ _ _ _ _ _ _ H E Ea L). lia.
Qed.

Corollary ids_below_next k_fc ds s cs s' ids x :
  brun_ids k_fc ds s cs = Some (s', ids) -> In x ids -> bs_next s <= x < bs_next s'.
Proof.
  intros H Hx. apply ids_consecutive in H as [H1 H2]. rewrite H1 in Hx.
  apply (iota_from_In (bs_next s) (length ids) x) in Hx. lia.
Qed.

Corollary ids_first k_fc ds s cs s' ids :
  brun_ids k_fc ds s cs = Some (s', ids) -> ids <> [] -> hd_error ids = Some (bs_next s).
Proof.
  intros H Hne. destruct ids as [|a r]; [congruence|].
  pose proof (ids_nth _ _ _ _ _ _ 0%nat H ltac:(cbn; lia)) as E. cbn in E.
  cbn. rewrite E. f_equal. lia.
Qed.

Corollary ids_first_bnew k_fc ds cs s' ids :
  brun_ids k_fc ds bnew cs = Some (s', ids) -> ids <> [] -> hd_error ids = Some 1.
Proof. intros H Hne. apply (ids_first _ _ _ _ _ _ H Hne). Qed.

Corollary ids_first_bfrom k_fc ds m h s cs s' ids :
  bfrom m (Some h) = Some s ->
  brun_ids k_fc ds s cs = Some (s', ids) -> ids <> [] -> hd_error ids = Some (h_bound h).
Proof.
  intros Hf H Hne. cbn in Hf. inversion Hf; subst. apply (ids_first _ _ _ _ _ _ H Hne).
Qed.

(** ------------------------------------------------------------------ *)
(** * I3: the header bound is the next id *)

Theorem bound_is_next s' h : fst (finish s') = Some h -> h_bound h = bs_next s'.
Proof.
  unfold finish. cbn [fst]. intros H. inversion H; subst.
  destruct (bs_header s'); reflexivity.
Qed.

Corollary bound_exceeds_ids k_fc ds s cs s' ids h x :
  brun_ids k_fc ds s cs = Some (s', ids) -> fst (finish s') = Some h -> In x ids -> x < h_bound h.
Proof.
  intros H Hf Hx. rewrite (bound_is_next _ _ Hf).
  apply (ids_below_next _ _ _ _ _ _ _ H Hx).
Qed.

(** finish always produces a header *)
Lemma finish_header s : exists h, fst (finish s) = Some h.
Proof. unfold finish. cbn [fst]. eexists; reflexivity. Qed.

(** ------------------------------------------------------------------ *)
(** * I5: the type methods (sink SDedupType) *)

(** the pieces a descriptor call computes from its arguments *)
Definition call_parts (d : descriptor) (e : env) : option (option N * list operand) :=
  match all_operands e (d_slots d), rt_of d e with
  | Some ops, Some rt => Some (rt, ops)
  | _, _ => None
  end.

Lemma dedup_parts d s e s' o :
  d_sink d = SDedupType -> run_descriptor d s e = Some (s', o) ->
  exists rt ops req, call_parts d e = Some (rt, ops) /\ dedup_req d e = Some req /\
                     dedup_run d s rt ops req = (s', o).
Proof.
  intros Hs H. rewrite (run_descriptor_dedup d s e Hs) in H. unfold call_parts.
  destruct (all_operands e (d_slots d)) as [ops|]; [|discriminate].
  destruct (rt_of d e) as [rtv|]; [|discriminate].
  destruct (dedup_req d e) as [req|]; [|discriminate].
  inversion H. exists rtv, ops, req. auto.
Qed.

Lemma dedup_req_explicit d e p id :
  d_rid d = RidOptParam p -> assoc p e = Some (AOptW (Some id)) -> dedup_req d e = Some (Some id).
Proof. intros H1 H2. unfold dedup_req. rewrite H1, H2. reflexivity. Qed.

Lemma dedup_req_implicit_param d e p :
  d_rid d = RidOptParam p -> assoc p e = Some (AOptW None) -> dedup_req d e = Some None.
Proof. intros H1 H2. unfold dedup_req. rewrite H1, H2. reflexivity. Qed.

Lemma dedup_req_implicit_const d e : d_rid d = RidConstNone -> dedup_req d e = Some None.
Proof. intros H1. unfold dedup_req. rewrite H1. reflexivity. Qed.

(** every explicit / implicit request arises in exactly the ways listed in the task *)
Lemma dedup_req_cases d e req :
  dedup_req d e = Some req ->
  (exists p, d_rid d = RidOptParam p /\ assoc p e = Some (AOptW req)) \/
  (d_rid d = RidConstNone /\ req = None).
Proof.
  unfold dedup_req. intros H. destruct (d_rid d) as [| |p|p|]; try discriminate.
  - left. exists p. split; [reflexivity|].
    destruct (assoc p e) as [[]|]; try discriminate. inversion H; subst. reflexivity.
  - right. inversion H. auto.
Qed.

(** (a) explicit id *)
Theorem dedup_explicit d s e s' o id :
  d_sink d = SDedupType -> run_descriptor d s e = Some (s', o) ->
  dedup_req d e = Some (Some id) ->
  exists rt ops, call_parts d e = Some (rt, ops) /\
    o = BVal id /\
    s' = with_mod s (add_type (bs_module s) (mk_inst (d_opcode d) rt (Some id) ops)) /\
    types s' = types s ++ [mk_inst (d_opcode d) rt (Some id) ops] /\
    alloc s s' = [].
Proof.
  intros Hs H Hr. destruct (dedup_parts _ _ _ _ _ Hs H) as [rt [ops [req [P [Q R]]]]].
  rewrite Hr in Q. inversion Q; subst req. exists rt, ops. split; [exact P|].
  cbn [dedup_run] in R. inversion R; subst. split; [reflexivity|]. split; [reflexivity|].
  split; [reflexivity|]. apply alloc_same. reflexivity.
Qed.

Theorem dedup_explicit_param d s e s' o p id :
  d_sink d = SDedupType -> run_descriptor d s e = Some (s', o) ->
  d_rid d = RidOptParam p -> assoc p e = Some (AOptW (Some id)) ->
  exists rt ops, call_parts d e = Some (rt, ops) /\
    o = BVal id /\
    s' = with_mod s (add_type (bs_module s) (mk_inst (d_opcode d) rt (Some id) ops)) /\
    types s' = types s ++ [mk_inst (d_opcode d) rt (Some id) ops] /\
    alloc s s' = [].
Proof.
  intros Hs H H1 H2. apply (dedup_explicit d s e s' o id Hs H).
  apply (dedup_req_explicit _ _ _ _ H1 H2).
Qed.

(** (b) implicit request *)
Theorem dedup_implicit d s e s' o :
  d_sink d = SDedupType -> run_descriptor d s e = Some (s', o) ->
  dedup_req d e = Some None ->
  exists rt ops, call_parts d e = Some (rt, ops) /\
    let i := mk_inst (d_opcode d) rt None ops in
    match dedup_find (types s) i with
    | Some id => o = BVal id /\ s' = s
    | None =>
        (bs_next s + 1 < w32 ->
           o = BVal (bs_next s) /\
           s' = with_mod (bump s) (add_type (bs_module s) (mk_inst (d_opcode d) rt (Some (bs_next s)) ops)) /\
           types s' = types s ++ [mk_inst (d_opcode d) rt (Some (bs_next s)) ops] /\
           alloc s s' = [bs_next s]) /\
        (~ bs_next s + 1 < w32 -> o = BPanic /\ s' = s)
    end.
Proof.
  intros Hs H Hr. destruct (dedup_parts _ _ _ _ _ Hs H) as [rt [ops [req [P [Q R]]]]].
  rewrite Hr in Q. inversion Q; subst req. exists rt, ops. split; [exact P|].
  cbn [dedup_run] in R. cbn zeta.
  destruct (dedup_find (types s) (mk_inst (d_opcode d) rt None ops)) as [id|].
  - inversion R; subst. auto.
  - split; intros Hlt.
    + rewrite (take_id_ok _ Hlt) in R. inversion R; subst.
      split; [reflexivity|]. split; [reflexivity|]. split; [reflexivity|].
      apply alloc_bump. reflexivity.
    + destruct (take_id s) as [[id s1]|] eqn:T.
      * apply take_id_some in T as [_ [_ T]]. contradiction.
      * inversion R; subst. auto.
Qed.

(** (c) dedup_find returns the id of the FIRST identical declaration that has one *)
Definition dd_match (i t : inst) : Prop := type_identical t i = true /\ i_rid t <> None.

Theorem dedup_find_some tys i id :
  dedup_find tys i = Some id <->
  exists n t, nth_error tys n = Some t /\ type_identical t i = true /\ i_rid t = Some id /\
              (forall m t', (m < n)%nat -> nth_error tys m = Some t' -> ~ dd_match i t').
Proof.
  revert id. induction tys as [|x r IH]; intros id; cbn [dedup_find].
  - split; [discriminate|]. intros [n [t [H _]]]. destruct n; discriminate.
  - split.
    + intros H. destruct (type_identical x i) eqn:E.
      * destruct (i_rid x) as [xid|] eqn:Ex.
        -- inversion H; subst. exists 0%nat, x. split; [reflexivity|]. split; [exact E|].
           split; [exact Ex|]. intros m t' Hm. lia.
        -- apply IH in H as [n [t [H1 [H2 [H3 H4]]]]]. exists (S n), t.
           split; [exact H1|]. split; [exact H2|]. split; [exact H3|].
           intros m t' Hm Hn. destruct m as [|m]; cbn [nth_error] in Hn.
           ++ inversion Hn; subst. intros [_ F]. congruence.
           ++ apply (H4 m t'); [lia|exact Hn].
      * apply IH in H as [n [t [H1 [H2 [H3 H4]]]]]. exists (S n), t.
        split; [exact H1|]. split; [exact H2|]. split; [exact H3|].
        intros m t' Hm Hn. destruct m as [|m]; cbn [nth_error] in Hn.
        -- inversion Hn; subst. intros [F _]. congruence.
        -- apply (H4 m t'); [lia|exact Hn].
    + intros [n [t [H1 [H2 [H3 H4]]]]]. destruct n as [|n]; cbn [nth_error] in H1.
      * inversion H1; subst. rewrite H2, H3. reflexivity.
      * assert (~ dd_match i x) as Hx by (apply (H4 0%nat x); [lia|reflexivity]).
        assert (dedup_find r i = Some id) as Hr.
        { apply IH. exists n, t. split; [exact H1|]. split; [exact H2|]. split; [exact H3|].
          intros m t' Hm Hn. apply (H4 (S m) t'); [lia|exact Hn]. }
        destruct (type_identical x i) eqn:E; [|exact Hr].
        destruct (i_rid x) as [xid|] eqn:Ex; [|exact Hr].
        exfalso. apply Hx. split; [exact E|congruence].
Qed.

Theorem dedup_find_none tys i :
  dedup_find tys i = None <-> (forall t, In t tys -> type_identical t i = true -> i_rid t = None).
Proof.
  induction tys as [|x r IH]; cbn [dedup_find].
  - split; [intros _ t []|reflexivity].
  - split.
    + intros H t [<-|Hin] Ht.
      * rewrite Ht in H. destruct (i_rid x); [discriminate|reflexivity].
      * apply IH; [|exact Hin|exact Ht].
        destruct (type_identical x i); [destruct (i_rid x); [discriminate|exact H]|exact H].
    + intros H. assert (dedup_find r i = None) as Hr.
      { apply IH. intros t Hin. apply H. right. exact Hin. }
      destruct (type_identical x i) eqn:E; [|exact Hr].
      rewrite (H x (or_introl eq_refl) E). exact Hr.
Qed.

(** "no t in tys is type_identical to i with a result id" *)
Corollary dedup_find_none' tys i :
  dedup_find tys i = None <-> ~ exists t, In t tys /\ dd_match i t.
Proof.
  rewrite dedup_find_none. split.
  - intros H [t [Hin [H1 H2]]]. apply H2. apply H; assumption.
  - intros H t Hin Ht. destruct (i_rid t) eqn:E; [|reflexivity].
    exfalso. apply H. exists t. split; [exact Hin|]. split; [exact Ht|congruence].
Qed.

Corollary dedup_find_some_in tys i id :
  dedup_find tys i = Some id ->
  exists t, In t tys /\ type_identical t i = true /\ i_rid t = Some id.
Proof.
  intros H. apply dedup_find_some in H as [n [t [H1 [H2 [H3 _]]]]].
  exists t. split; [eapply nth_error_In; exact H1|auto].
Qed.

(** ------------------------------------------------------------------ *)
(** * type_identical is an equivalence *)

Lemma list_eqb_iff {A} (eqb : A -> A -> bool) :
  (forall x y, eqb x y = true <-> x = y) -> forall a b, list_eqb eqb a b = true <-> a = b.
Proof.
  intros Heq. induction a as [|x a IH]; intros [|y b]; cbn [list_eqb];
    try (split; [discriminate|congruence]); [tauto|].
  rewrite andb_true_iff, Heq, IH. split; [intros [-> ->]; reflexivity|intros H; inversion H; auto].
Qed.

Lemma operand_eqb_iff a b : operand_eqb a b = true <-> a = b.
Proof.
  destruct a, b; cbn [operand_eqb]; try (split; [discriminate|congruence]);
    try (rewrite N.eqb_eq; split; [intros ->; reflexivity|intros H; inversion H; reflexivity]).
  - rewrite andb_true_iff, !N.eqb_eq.
    split; [intros [-> ->]; reflexivity|intros H; inversion H; auto].
  - rewrite (list_eqb_iff N.eqb N.eqb_eq).
    split; [intros ->; reflexivity|intros H; inversion H; reflexivity].
Qed.

Lemma type_identical_iff a b :
  type_identical a b = true <-> i_opcode a = i_opcode b /\ i_ops a = i_ops b.
Proof.
  unfold type_identical.
  rewrite andb_true_iff, N.eqb_eq, (list_eqb_iff operand_eqb operand_eqb_iff). tauto.
Qed.

Lemma type_identical_refl a : type_identical a a = true.
Proof. apply type_identical_iff. auto. Qed.

Lemma type_identical_sym a b : type_identical a b = true -> type_identical b a = true.
Proof. rewrite !type_identical_iff. intros [H1 H2]. auto. Qed.

Lemma type_identical_trans a b c :
  type_identical a b = true -> type_identical b c = true -> type_identical a c = true.
Proof. rewrite !type_identical_iff. intros [H1 H2] [H3 H4]. split; congruence. Qed.

Lemma type_identical_sym_eq a b : type_identical a b = type_identical b a.
Proof.
  destruct (type_identical a b) eqn:E1, (type_identical b a) eqn:E2; try reflexivity.
  - apply type_identical_sym in E1. congruence.
  - apply type_identical_sym in E2. congruence.
Qed.

(** the result id (and result type) play no role *)
Lemma type_identical_mk opc rt rt' rid rid' ops :
  type_identical (mk_inst opc rt rid ops) (mk_inst opc rt' rid' ops) = true.
Proof. apply type_identical_iff. cbn. auto. Qed.

Lemma inst_eqb_iff a b : inst_eqb a b = true <-> a = b.
Proof.
  assert (forall x y : option N, option_eqb N.eqb x y = true <-> x = y) as Ho.
  { intros [x|] [y|]; cbn [option_eqb]; try (split; [discriminate|congruence]); [|tauto].
    rewrite N.eqb_eq. split; [intros ->; reflexivity|intros H; inversion H; reflexivity]. }
  unfold inst_eqb. rewrite !andb_true_iff, N.eqb_eq, !Ho, (list_eqb_iff operand_eqb operand_eqb_iff).
  destruct a, b; cbn. split.
  - intros [[[-> ->] ->] ->]. reflexivity.
  - intros H. inversion H. auto.
Qed.

(** ------------------------------------------------------------------ *)
(** * I6: no duplicate types *)

Definition inj_pos {A} (R : A -> A -> Prop) (l : list A) : Prop :=
  forall n m a b, nth_error l n = Some a -> nth_error l m = Some b -> R a b -> n = m.

Lemma nth_error_snoc {A} (l : list A) x n a :
  nth_error (l ++ [x]) n = Some a ->
  (nth_error l n = Some a /\ In a l) \/ (n = length l /\ a = x).
Proof.
  intros H. destruct (Nat.lt_ge_cases n (length l)) as [L|L].
  - rewrite nth_error_app1 in H by exact L. left. split; [exact H|].
    eapply nth_error_In; exact H.
  - rewrite nth_error_app2 in H by exact L.
    destruct (n - length l)%nat as [|k] eqn:E; cbn in H.
    + inversion H; subst. right. split; [lia|reflexivity].
    + destruct k; discriminate.
Qed.

Lemma inj_pos_snoc {A} (R : A -> A -> Prop) l x :
  inj_pos R l -> (forall t, In t l -> ~ R t x /\ ~ R x t) -> inj_pos R (l ++ [x]).
Proof.
  intros Hl Hx n m a b Ha Hb Hr.
  apply nth_error_snoc in Ha as [[Ha Ia]|[-> ->]];
    apply nth_error_snoc in Hb as [[Hb Ib]|[-> ->]].
  - apply (Hl n m a b Ha Hb Hr).
  - exfalso. apply (proj1 (Hx a Ia)). exact Hr.
  - exfalso. apply (proj2 (Hx b Ib)). exact Hr.
  - reflexivity.
Qed.

Lemma inj_pos_nil {A} (R : A -> A -> Prop) : inj_pos R [].
Proof. intros n m a b H. destruct n; discriminate. Qed.

(** every declaration has a result id *)
Definition all_have_rid (l : list inst) : Prop := forall t, In t l -> i_rid t <> None.
(** no two declarations at different positions are type_identical *)
Definition no_ident_pair (l : list inst) : Prop :=
  inj_pos (fun a b => type_identical a b = true) l.

Definition types_unique (s : bstate) : Prop := all_have_rid (types s) /\ no_ident_pair (types s).

(** the additional invariants needed for "different requests never share an id" *)
Definition ids_below (s : bstate) : Prop :=
  forall t id, In t (types s) -> i_rid t = Some id -> id < bs_next s.
Definition same_rid (a b : inst) : Prop := exists id, i_rid a = Some id /\ i_rid b = Some id.
Definition rids_distinct (l : list inst) : Prop := inj_pos same_rid l.

Definition tinv (s : bstate) : Prop :=
  types_unique s /\ ids_below s /\ rids_distinct (types s).

Lemma types_unique_bnew : types_unique bnew.
Proof. split; [intros t []|apply inj_pos_nil]. Qed.

Lemma tinv_bnew : tinv bnew.
Proof.
  split; [apply types_unique_bnew|]. split; [intros t id []|apply inj_pos_nil].
Qed.

Lemma types_unique_same s s' : types s' = types s -> types_unique s -> types_unique s'.
Proof. unfold types_unique. intros ->. auto. Qed.

Lemma tinv_mono s s' :
  types s' = types s -> bs_next s <= bs_next s' -> tinv s -> tinv s'.
Proof.
  unfold tinv, types_unique, ids_below. intros -> Hle [U [B D]].
  split; [exact U|]. split; [|exact D].
  intros t id Hin Hid. specialize (B t id Hin Hid). lia.
Qed.

Lemma nstep_le s s' : nstep s s' -> bs_next s <= bs_next s'.
Proof. intros [H|[H _]]; lia. Qed.

(** appending a fresh, previously unmatched declaration *)
Lemma types_unique_snoc l opc rt ops id :
  all_have_rid l -> no_ident_pair l ->
  dedup_find l (mk_inst opc rt None ops) = None ->
  all_have_rid (l ++ [mk_inst opc rt (Some id) ops]) /\
  no_ident_pair (l ++ [mk_inst opc rt (Some id) ops]).
Proof.
  intros Ha Hn Hd. split.
  - intros t Hin. apply in_app_or in Hin as [Hin|[<-|[]]]; [apply Ha; exact Hin|discriminate].
  - apply inj_pos_snoc; [exact Hn|].
    assert (forall t, In t l -> type_identical t (mk_inst opc rt (Some id) ops) = true -> False) as F.
    { intros t Hin Ht. apply (Ha t Hin).
      apply (proj1 (dedup_find_none l _) Hd t Hin).
      eapply type_identical_trans; [exact Ht|apply type_identical_mk]. }
    intros t Hin. split; intros Ht; [|apply type_identical_sym in Ht]; apply (F t Hin Ht).
Qed.

(** an implicit type request *)
Definition implicit_dedup (d : descriptor) (e : env) : Prop :=
  d_sink d = SDedupType /\ dedup_req d e = Some None.

(** outcome analysis of an implicit request *)
Lemma implicit_cases d s e s' o :
  implicit_dedup d e -> run_descriptor d s e = Some (s', o) ->
  exists rt ops, call_parts d e = Some (rt, ops) /\
    ((exists id, dedup_find (types s) (mk_inst (d_opcode d) rt None ops) = Some id /\
                 o = BVal id /\ s' = s) \/
     (dedup_find (types s) (mk_inst (d_opcode d) rt None ops) = None /\
      o = BPanic /\ s' = s) \/
     (dedup_find (types s) (mk_inst (d_opcode d) rt None ops) = None /\
      o = BVal (bs_next s) /\ bs_next s' = bs_next s + 1 /\ bs_next s + 1 < w32 /\
      types s' = types s ++ [mk_inst (d_opcode d) rt (Some (bs_next s)) ops])).
Proof.
  intros [Hs Hr] H. destruct (dedup_implicit d s e s' o Hs H Hr) as [rt [ops [P Q]]].
  exists rt, ops. split; [exact P|]. cbn zeta in Q.
  destruct (dedup_find (types s) (mk_inst (d_opcode d) rt None ops)) as [id|].
  - left. exists id. destruct Q; auto.
  - right. destruct Q as [Q1 Q2]. destruct (N.lt_ge_cases (bs_next s + 1) w32) as [L|L].
    + right. destruct (Q1 L) as [A [B [C D]]]. subst s'. cbn. auto.
    + left. destruct (Q2 ltac:(lia)). auto.
Qed.

Theorem implicit_preserves_types_unique d s e s' o :
  implicit_dedup d e -> run_descriptor d s e = Some (s', o) -> types_unique s -> types_unique s'.
Proof.
  intros Hi H [Ha Hn]. destruct (implicit_cases _ _ _ _ _ Hi H) as [rt [ops [P Q]]].
  destruct Q as [[id [_ [_ ->]]]|[[_ [_ ->]]|[Hd [_ [_ [_ Ht]]]]]]; try (split; assumption).
  unfold types_unique. rewrite Ht. apply types_unique_snoc; assumption.
Qed.

Theorem implicit_preserves_tinv d s e s' o :
  implicit_dedup d e -> run_descriptor d s e = Some (s', o) -> tinv s -> tinv s'.
Proof.
  intros Hi H [U [B D]]. split; [apply (implicit_preserves_types_unique _ _ _ _ _ Hi H U)|].
  destruct (implicit_cases _ _ _ _ _ Hi H) as [rt [ops [P Q]]].
  destruct Q as [[id [_ [_ ->]]]|[[_ [_ ->]]|[Hd [_ [Hn [_ Ht]]]]]]; try (split; assumption).
  split.
  - intros t id Hin Hid. rewrite Ht in Hin. apply in_app_or in Hin as [Hin|[<-|[]]].
    + specialize (B t id Hin Hid). lia.
    + cbn in Hid. inversion Hid; subst. lia.
  - unfold rids_distinct. rewrite Ht. apply inj_pos_snoc; [exact D|].
    intros t Hin. split; intros [id [H1 H2]]; cbn in H1, H2.
    + inversion H2; subst. specialize (B t _ Hin H1). lia.
    + inversion H1; subst. specialize (B t _ Hin H2). lia.
Qed.

(** calls that leave section 10 alone: every hand-written call, and descriptor
    calls whose sink avoids section 10 in the current state *)
Definition safe_call (ds : list descriptor) (s : bstate) (c : bcall) : Prop :=
  match c with
  | CGen m e => forall d, find_desc ds m = Some d -> sink_avoids10 d s = true \/ implicit_dedup d e
  | _ => True
  end.

Definition avoids10_call (ds : list descriptor) (s : bstate) (c : bcall) : Prop :=
  match c with
  | CGen m e => forall d, find_desc ds m = Some d -> sink_avoids10 d s = true
  | _ => True
  end.

Lemma sink_avoids10_not_dedup d s : sink_avoids10 d s = true -> d_sink d <> SDedupType.
Proof. unfold sink_avoids10. intros H E. rewrite E in H. discriminate. Qed.

(** a call that does not push into section 10 leaves the type list untouched *)
Theorem avoids10_types k_fc ds s c s' o :
  avoids10_call ds s c -> bstep k_fc ds s c = Some (s', o) -> types s' = types s.
Proof.
  destruct c; cbn [bstep avoids10_call]; intros Hc H.
  - destruct (find_desc ds method) as [d|]; [|discriminate].
    specialize (Hc d eq_refl).
    apply run_plain_frame in H as [_ [_ [H _]]]; [auto|apply (sink_avoids10_not_dedup d s Hc)].
  - inversion H as [H']. apply begin_function_frame in H'. apply H'.
  - inversion H as [H']. apply end_function_fstep in H'. apply fstep_types; exact H'.
  - inversion H as [H']. apply function_parameter_frame in H'. apply H'.
  - inversion H as [H']. apply begin_block_gen_frame in H'. apply H'.
  - inversion H as [H']. apply begin_block_gen_frame in H'. apply H'.
  - inversion H as [H']. apply select_function_fstep in H'. apply fstep_types; exact H'.
  - inversion H as [H']. apply select_block_fstep in H'. apply fstep_types; exact H'.
  - inversion H as [H']. apply pop_instruction_fstep in H'. apply fstep_types; exact H'.
  - destruct (take_id s) as [[id s1]|] eqn:T.
    + apply take_id_some in T as [-> [-> T]]. inversion H; subst. reflexivity.
    + inversion H; subst. reflexivity.
  - inversion H; subst. reflexivity.
Qed.

Theorem avoids10_preserves_types_unique k_fc ds s c s' o :
  avoids10_call ds s c -> bstep k_fc ds s c = Some (s', o) -> types_unique s -> types_unique s'.
Proof.
  intros Hc H. apply types_unique_same. apply (avoids10_types _ _ _ _ _ _ Hc H).
Qed.

Lemma safe_call_cases ds s c :
  safe_call ds s c ->
  avoids10_call ds s c \/
  (exists m e d, c = CGen m e /\ find_desc ds m = Some d /\ implicit_dedup d e).
Proof.
  destruct c; cbn [safe_call avoids10_call]; auto.
  intros H. destruct (find_desc ds method) as [d|] eqn:F.
  - destruct (H d eq_refl) as [A|A].
    + left. intros d' E. inversion E; subst. exact A.
    + right. exists method, e, d. auto.
  - left. intros d' E. discriminate.
Qed.

Theorem safe_preserves_types_unique k_fc ds s c s' o :
  safe_call ds s c -> bstep k_fc ds s c = Some (s', o) -> types_unique s -> types_unique s'.
Proof.
  intros Hc H. destruct (safe_call_cases _ _ _ Hc) as [A|[m [e [d [-> [F I]]]]]].
  - apply (avoids10_preserves_types_unique _ _ _ _ _ _ A H).
  - cbn [bstep] in H. rewrite F in H. apply (implicit_preserves_types_unique _ _ _ _ _ I H).
Qed.

Theorem safe_preserves_tinv k_fc ds s c s' o :
  safe_call ds s c -> bstep k_fc ds s c = Some (s', o) -> tinv s -> tinv s'.
Proof.
  intros Hc H. destruct (safe_call_cases _ _ _ Hc) as [A|[m [e [d [-> [F I]]]]]].
  - apply tinv_mono; [apply (avoids10_types _ _ _ _ _ _ A H)|].
    apply nstep_le. apply (one_id_per_call _ _ _ _ _ _ H).
  - cbn [bstep] in H. rewrite F in H. apply (implicit_preserves_tinv _ _ _ _ _ I H).
Qed.

(** a safe call only ever appends to the type list *)
Lemma safe_types_prefix k_fc ds s c s' o :
  safe_call ds s c -> bstep k_fc ds s c = Some (s', o) -> exists ext, types s' = types s ++ ext.
Proof.
  intros Hc H. destruct (safe_call_cases _ _ _ Hc) as [A|[m [e [d [-> [F I]]]]]].
  - exists []. rewrite app_nil_r. apply (avoids10_types _ _ _ _ _ _ A H).
  - cbn [bstep] in H. rewrite F in H.
    destruct (implicit_cases _ _ _ _ _ I H) as [rt [ops [P Q]]].
    destruct Q as [[id [_ [_ ->]]]|[[_ [_ ->]]|[Hd [_ [Hn [_ Ht]]]]]];
      try (exists []; rewrite app_nil_r; reflexivity).
    eexists. exact Ht.
Qed.

(** runs of safe calls *)
Fixpoint safe_run (k_fc : N) (ds : list descriptor) (s : bstate) (cs : list bcall) : Prop :=
  match cs with
  | [] => True
  | c :: r => safe_call ds s c /\
              match bstep k_fc ds s c with
              | Some (s1, _) => safe_run k_fc ds s1 r
              | None => True
              end
  end.

Theorem safe_run_types_unique k_fc ds s cs s' ids :
  safe_run k_fc ds s cs -> brun_ids k_fc ds s cs = Some (s', ids) -> types_unique s -> types_unique s'.
Proof.
  revert s s' ids. induction cs as [|c r IH]; intros s s' ids Hs H U; cbn [brun_ids safe_run] in *.
  - inversion H; subst. exact U.
  - destruct Hs as [Hc Hs]. destruct (bstep k_fc ds s c) as [[s1 o]|] eqn:B; [|discriminate].
    destruct (brun_ids k_fc ds s1 r) as [[s2 ids2]|] eqn:R; [|discriminate].
    inversion H; subst. apply (IH s1 s' ids2 Hs R).
    apply (safe_preserves_types_unique _ _ _ _ _ _ Hc B U).
Qed.

Theorem safe_run_tinv k_fc ds s cs s' ids :
  safe_run k_fc ds s cs -> brun_ids k_fc ds s cs = Some (s', ids) -> tinv s ->
  tinv s' /\ exists ext, types s' = types s ++ ext.
Proof.
  revert s s' ids. induction cs as [|c r IH]; intros s s' ids Hs H U; cbn [brun_ids safe_run] in *.
  - inversion H; subst. split; [exact U|]. exists []. rewrite app_nil_r. reflexivity.
  - destruct Hs as [Hc Hs]. destruct (bstep k_fc ds s c) as [[s1 o]|] eqn:B; [|discriminate].
    destruct (brun_ids k_fc ds s1 r) as [[s2 ids2]|] eqn:R; [|discriminate].
    inversion H; subst.
    destruct (IH s1 s' ids2 Hs R (safe_preserves_tinv _ _ _ _ _ _ Hc B U)) as [T [ext2 E2]].
    split; [exact T|]. destruct (safe_types_prefix _ _ _ _ _ _ Hc B) as [ext1 E1].
    exists (ext1 ++ ext2). rewrite E2, E1, app_assoc. reflexivity.
Qed.

(** from a fresh builder, any run of such calls ends with unique types *)
Theorem no_duplicate_types k_fc ds cs s' ids :
  safe_run k_fc ds bnew cs -> brun_ids k_fc ds bnew cs = Some (s', ids) -> types_unique s'.
Proof. intros Hs H. apply (safe_run_types_unique _ _ _ _ _ _ Hs H types_unique_bnew). Qed.

Theorem tinv_from_bnew k_fc ds cs s' ids :
  safe_run k_fc ds bnew cs -> brun_ids k_fc ds bnew cs = Some (s', ids) -> tinv s'.
Proof. intros Hs H. apply (safe_run_tinv _ _ _ _ _ _ Hs H tinv_bnew). Qed.

(** ** different implicit requests never share an id *)

(** what a successful implicit request leaves behind *)
Lemma implicit_witness d s e s' id rt ops :
  implicit_dedup d e -> run_descriptor d s e = Some (s', BVal id) ->
  call_parts d e = Some (rt, ops) ->
  exists t, In t (types s') /\ i_rid t = Some id /\
            type_identical t (mk_inst (d_opcode d) rt None ops) = true.
Proof.
  intros Hi H P. destruct (implicit_cases _ _ _ _ _ Hi H) as [rt' [ops' [P' Q]]].
  rewrite P in P'. inversion P'; subst rt' ops'.
  destruct Q as [[id' [Hd [Ho ->]]]|[[_ [Ho _]]|[Hd [Ho [Hn [_ Ht]]]]]].
  - inversion Ho; subst id'. apply dedup_find_some_in in Hd as [t [A [B C]]]. exists t. auto.
  - discriminate.
  - inversion Ho; subst id. eexists. split; [rewrite Ht; apply in_or_app; right; left; reflexivity|].
    split; [reflexivity|apply type_identical_mk].
Qed.

Theorem implicit_requests_share_id_only_if_identical
  k_fc ds s0 d1 e1 s1 cs s2 ids d2 e2 s3 id rt1 ops1 rt2 ops2 :
  tinv s0 ->
  implicit_dedup d1 e1 -> run_descriptor d1 s0 e1 = Some (s1, BVal id) ->
  safe_run k_fc ds s1 cs -> brun_ids k_fc ds s1 cs = Some (s2, ids) ->
  implicit_dedup d2 e2 -> run_descriptor d2 s2 e2 = Some (s3, BVal id) ->
  call_parts d1 e1 = Some (rt1, ops1) -> call_parts d2 e2 = Some (rt2, ops2) ->
  type_identical (mk_inst (d_opcode d1) rt1 None ops1) (mk_inst (d_opcode d2) rt2 None ops2) = true.
Proof.
  intros T0 I1 R1 Sr Br I2 R2 P1 P2.
  pose proof (implicit_preserves_tinv _ _ _ _ _ I1 R1 T0) as T1.
  destruct (safe_run_tinv _ _ _ _ _ _ Sr Br T1) as [T2 [ext E]].
  destruct (implicit_witness _ _ _ _ _ _ _ I1 R1 P1) as [t [Hin [Hid Hty]]].
  assert (In t (types s2)) as Hin2 by (rewrite E; apply in_or_app; left; exact Hin).
  destruct T2 as [U2 [B2 D2]].
  destruct (implicit_cases _ _ _ _ _ I2 R2) as [rt' [ops' [P' Q]]].
  rewrite P2 in P'. inversion P'; subst rt' ops'.
  destruct Q as [[id' [Hd [Ho _]]]|[[_ [Ho _]]|[Hd [Ho _]]]].
  - inversion Ho; subst id'. apply dedup_find_some_in in Hd as [t' [Hin' [Hty' Hid']]].
    apply In_nth_error in Hin2 as [n Hn]. apply In_nth_error in Hin' as [m Hm].
    assert (n = m) as -> by (apply (D2 n m t t' Hn Hm); exists id; auto).
    rewrite Hn in Hm. inversion Hm; subst t'.
    eapply type_identical_trans; [apply type_identical_sym; exact Hty|exact Hty'].
  - discriminate.
  - inversion Ho; subst id. specialize (B2 t _ Hin2 Hid). lia.
Qed.

(** the same, phrased over the public calls of one run from a fresh builder *)
Corollary implicit_requests_from_bnew
  k_fc ds cs0 s0 ids0 m1 e1 d1 s1 cs s2 ids m2 e2 d2 s3 id rt1 ops1 rt2 ops2 :
  safe_run k_fc ds bnew cs0 -> brun_ids k_fc ds bnew cs0 = Some (s0, ids0) ->
  find_desc ds m1 = Some d1 -> implicit_dedup d1 e1 ->
  bstep k_fc ds s0 (CGen m1 e1) = Some (s1, BVal id) ->
  safe_run k_fc ds s1 cs -> brun_ids k_fc ds s1 cs = Some (s2, ids) ->
  find_desc ds m2 = Some d2 -> implicit_dedup d2 e2 ->
  bstep k_fc ds s2 (CGen m2 e2) = Some (s3, BVal id) ->
  call_parts d1 e1 = Some (rt1, ops1) -> call_parts d2 e2 = Some (rt2, ops2) ->
  type_identical (mk_inst (d_opcode d1) rt1 None ops1) (mk_inst (d_opcode d2) rt2 None ops2) = true.
Proof.
  intros S0 B0 F1 I1 R1 Sr Br F2 I2 R2 P1 P2.
  cbn [bstep] in R1, R2. rewrite F1 in R1. rewrite F2 in R2.
  apply (implicit_requests_share_id_only_if_identical k_fc ds s0 d1 e1 s1 cs s2 ids d2 e2 s3 id
           rt1 ops1 rt2 ops2); try assumption.
  apply (tinv_from_bnew _ _ _ _ _ S0 B0).
Qed.

(** ------------------------------------------------------------------ *)
(** * I4: returned ids are the allocated ones *)

Definition failed (o : bout) : Prop :=
  match o with BFail _ | BPanic => True | _ => False end.

(** (a) id() *)
Theorem id_call_returns_allocated k_fc ds s s' v :
  bstep k_fc ds s CId = Some (s', BVal v) -> v = bs_next s /\ alloc s s' = [v].
Proof.
  cbn [bstep]. intros H. destruct (take_id s) as [[id s1]|] eqn:T; [|discriminate].
  apply take_id_some in T as [-> [-> T]]. inversion H; subst.
  split; [reflexivity|apply alloc_bump; reflexivity].
Qed.

(** (b) begin_function *)
Definition new_function (k_fc ret id control fty : N) : func inst :=
  {| f_def := Some (mk_inst OP_FUNCTION (Some ret) (Some id) [OEnum k_fc control; OIdRef fty]);
     f_end := None; f_params := []; f_blocks := [] |}.

Theorem begin_function_fresh k_fc ds s ret control fty s' v :
  bstep k_fc ds s (CBeginFunction ret None control fty) = Some (s', BVal v) ->
  v = bs_next s /\ alloc s s' = [v] /\
  m_functions inst (bs_module s') =
    m_functions inst (bs_module s) ++ [new_function k_fc ret v control fty] /\
  (exists i, f_def inst (new_function k_fc ret v control fty) = Some i /\ i_rid i = Some v).
Proof.
  cbn [bstep]. unfold begin_function. intros H. inversion H as [H']. clear H.
  destruct (bs_fn s); [discriminate|].
  destruct (take_id s) as [[id s1]|] eqn:T; [|discriminate].
  apply take_id_some in T as [-> [-> T]]. inversion H'; subst.
  split; [reflexivity|]. split; [apply alloc_bump; reflexivity|]. split; [reflexivity|].
  eexists. split; reflexivity.
Qed.

Theorem begin_function_explicit k_fc ds s ret x control fty s' o :
  bstep k_fc ds s (CBeginFunction ret (Some x) control fty) = Some (s', o) ->
  alloc s s' = [] /\
  (forall v, o = BVal v -> v = x /\
     m_functions inst (bs_module s') =
       m_functions inst (bs_module s) ++ [new_function k_fc ret x control fty]) /\
  (~ failed o -> o = BVal x).
Proof.
  cbn [bstep]. unfold begin_function. intros H. inversion H as [H']. clear H.
  destruct (bs_fn s).
  - inversion H'; subst. split; [apply alloc_same; reflexivity|]. split; [discriminate|].
    intros F. exfalso. apply F. exact I.
  - inversion H'; subst. split; [apply alloc_same; reflexivity|]. split; [|reflexivity].
    intros v E. inversion E; subst. split; reflexivity.
Qed.

(** (c) begin_block / function_parameter *)
Lemma nth_error_update_nth {A} (l : list A) n f x :
  nth_error l n = Some x -> nth_error (update_nth n f l) n = Some (f x).
Proof.
  revert n. induction l as [|y r IH]; intros [|n] H; cbn in *; try discriminate.
  - inversion H; subst. reflexivity.
  - apply IH. exact H.
Qed.

Definition new_block (with_label : bool) (id : N) : block inst :=
  {| b_label := if with_label then Some (mk_inst OP_LABEL None (Some id) []) else None; b_insts := [] |}.

Lemma begin_block_gen_fresh w s s' v :
  begin_block_gen w s None = (s', BVal v) ->
  v = bs_next s /\ alloc s s' = [v] /\
  exists f fn fn', bs_fn s = Some f /\
    nth_error (m_functions inst (bs_module s)) f = Some fn /\
    nth_error (m_functions inst (bs_module s')) f = Some fn' /\
    f_blocks inst fn' = f_blocks inst fn ++ [new_block w v] /\
    f_def inst fn' = f_def inst fn /\ f_params inst fn' = f_params inst fn /\ f_end inst fn' = f_end inst fn.
Proof.
  unfold begin_block_gen. intros H.
  destruct (bs_fn s) as [f|]; [|discriminate].
  destruct (bs_blk s); [discriminate|].
  destruct (take_id s) as [[id s1]|] eqn:T; [|discriminate].
  apply take_id_some in T as [-> [-> T]].
  cbn [bump bs_module] in H.
  destruct (nth_error (m_functions inst (bs_module s)) f) as [fn|] eqn:E; [|discriminate].
  inversion H; subst. split; [reflexivity|]. split; [apply alloc_bump; reflexivity|].
  eexists f, fn, _. split; [reflexivity|]. split; [exact E|]. split.
  - cbn. apply nth_error_update_nth. exact E.
  - cbn. auto.
Qed.

Lemma begin_block_gen_explicit w s x s' o :
  begin_block_gen w s (Some x) = (s', o) ->
  alloc s s' = [] /\ (~ failed o -> o = BVal x) /\
  (forall v, o = BVal v -> v = x /\
    exists f fn fn', bs_fn s = Some f /\
      nth_error (m_functions inst (bs_module s)) f = Some fn /\
      nth_error (m_functions inst (bs_module s')) f = Some fn' /\
      f_blocks inst fn' = f_blocks inst fn ++ [new_block w x]).
Proof.
  intros H. split.
  - apply begin_block_gen_frame in H as [_ [_ H]]. apply alloc_same. exact H.
  - unfold begin_block_gen in H.
    destruct (bs_fn s) as [f|];
      [|inversion H; subst; split; [intros F; exfalso; apply F; exact I|discriminate]].
    destruct (bs_blk s);
      [inversion H; subst; split; [intros F; exfalso; apply F; exact I|discriminate]|].
    destruct (nth_error (m_functions inst (bs_module s)) f) as [fn|] eqn:E;
      [|inversion H; subst; split; [intros F; exfalso; apply F; exact I|discriminate]].
    inversion H; subst. split; [reflexivity|]. intros v Ev. inversion Ev; subst.
    split; [reflexivity|]. eexists f, fn, _. split; [reflexivity|]. split; [exact E|]. split.
    + cbn. apply nth_error_update_nth. exact E.
    + reflexivity.
Qed.

Theorem begin_block_fresh k_fc ds s s' v :
  bstep k_fc ds s (CBeginBlock None) = Some (s', BVal v) ->
  v = bs_next s /\ alloc s s' = [v] /\
  exists f fn fn', bs_fn s = Some f /\
    nth_error (m_functions inst (bs_module s)) f = Some fn /\
    nth_error (m_functions inst (bs_module s')) f = Some fn' /\
    f_blocks inst fn' = f_blocks inst fn ++ [new_block true v] /\
    b_label inst (new_block true v) = Some (mk_inst OP_LABEL None (Some v) []).
Proof.
  cbn [bstep]. intros H. inversion H as [H']. apply begin_block_gen_fresh in H'.
  destruct H' as [A [B [f [fn [fn' [C [D [E [F _]]]]]]]]].
  split; [exact A|]. split; [exact B|]. exists f, fn, fn'. auto.
Qed.

Theorem begin_block_no_label_fresh k_fc ds s s' v :
  bstep k_fc ds s (CBeginBlockNoLabel None) = Some (s', BVal v) ->
  v = bs_next s /\ alloc s s' = [v].
Proof.
  cbn [bstep]. intros H. inversion H as [H']. apply begin_block_gen_fresh in H'.
  destruct H' as [A [B _]]. auto.
Qed.

Theorem begin_block_explicit k_fc ds s x s' o :
  bstep k_fc ds s (CBeginBlock (Some x)) = Some (s', o) ->
  alloc s s' = [] /\ (~ failed o -> o = BVal x) /\
  (forall v, o = BVal v -> v = x /\
    exists f fn fn', bs_fn s = Some f /\
      nth_error (m_functions inst (bs_module s)) f = Some fn /\
      nth_error (m_functions inst (bs_module s')) f = Some fn' /\
      f_blocks inst fn' = f_blocks inst fn ++ [new_block true x]).
Proof. cbn [bstep]. intros H. inversion H as [H']. apply begin_block_gen_explicit in H'. exact H'. Qed.

Theorem function_parameter_fresh k_fc ds s rty s' v :
  bstep k_fc ds s (CFunctionParameter rty) = Some (s', BVal v) ->
  v = bs_next s /\ alloc s s' = [v] /\
  exists f fn fn', bs_fn s = Some f /\
    nth_error (m_functions inst (bs_module s)) f = Some fn /\
    nth_error (m_functions inst (bs_module s')) f = Some fn' /\
    f_params inst fn' = f_params inst fn ++ [mk_inst OP_FUNCTION_PARAMETER (Some rty) (Some v) []].
Proof.
  cbn [bstep]. unfold function_parameter. intros H. inversion H as [H']. clear H.
  destruct (bs_fn s) as [f|]; [|discriminate].
  destruct (take_id s) as [[id s1]|] eqn:T; [|discriminate].
  apply take_id_some in T as [-> [-> T]].
  cbn [bump bs_module] in H'.
  destruct (nth_error (m_functions inst (bs_module s)) f) as [fn|] eqn:E; [|discriminate].
  inversion H'; subst. split; [reflexivity|]. split; [apply alloc_bump; reflexivity|].
  eexists f, fn, _. split; [reflexivity|]. split; [exact E|]. split.
  - cbn. apply nth_error_update_nth. exact E.
  - reflexivity.
Qed.

(** (d) descriptor calls *)

(** does the call draw a fresh id? *)
Definition takes_fresh (d : descriptor) (e : env) : bool :=
  match d_rid d with
  | RidFresh => true
  | RidOptParamElseFresh p => match assoc p e with Some (AOptW None) => true | _ => false end
  | _ => false
  end.

(** the result id the built instruction carries *)
Definition rid_of (d : descriptor) (s : bstate) (e : env) : option (option N) :=
  match d_rid d with
  | RidNone | RidConstNone => Some None
  | RidFresh => Some (Some (bs_next s))
  | RidOptParam p => match assoc p e with Some (AOptW v) => Some v | _ => None end
  | RidOptParamElseFresh p =>
      match assoc p e with
      | Some (AOptW (Some v)) => Some (Some v)
      | Some (AOptW None) => Some (Some (bs_next s))
      | _ => None
      end
  end.

(** the instruction a (non-dedup) descriptor call builds, recomputed *)
Definition built_inst (d : descriptor) (s : bstate) (e : env) : option inst :=
  match call_parts d e, rid_of d s e with
  | Some (rt, ops), Some rid => Some (mk_inst (d_opcode d) rt rid ops)
  | _, _ => None
  end.

Lemma idr_of_rid d s e idv s1 :
  idr_of d s e = Some (Some (idv, s1)) ->
  rid_of d s e = Some idv /\
  (if takes_fresh d e then s1 = bump s /\ bs_next s + 1 < w32 else s1 = s).
Proof.
  unfold idr_of, rid_of, takes_fresh. intros H.
  destruct (d_rid d) as [| |q|q|].
  - inversion H; auto.
  - destruct (take_id s) as [[id s2]|] eqn:T; [|discriminate].
    apply take_id_some in T as [-> [-> T]]. inversion H; subst. auto.
  - destruct (assoc q e) as [[]|]; try discriminate. inversion H; auto.
  - destruct (assoc q e) as [[]|]; try discriminate. destruct v as [v|].
    + inversion H; auto.
    + destruct (take_id s) as [[id s2]|] eqn:T; [|discriminate].
      apply take_id_some in T as [-> [-> T]]. inversion H; subst. auto.
  - inversion H; auto.
Qed.

Definition section_list (m : module inst) (sec : N) : list inst :=
  match sec with
  | 0 => m_caps inst m | 1 => m_exts inst m | 2 => m_imports inst m
  | 4 => m_entry_points inst m | 5 => m_exec_modes inst m | 6 => m_debug_string_source inst m
  | 7 => m_debug_names inst m | 8 => m_debug_module_processed inst m | 9 => m_annotations inst m
  | 10 => m_types_global_values inst m
  | _ => []
  end.

Lemma push_section_spec m sec i m' :
  push_section m sec i = Some m' -> section_list m' sec = section_list m sec ++ [i].
Proof.
  intros H.
  destruct sec as [|p]; [|do 4 (try destruct p as [p|p|])]; try discriminate H;
    inversion H; subst; reflexivity.
Qed.

Definition blk_insts (s : bstate) (f b : nat) : option (list inst) :=
  match nth_error (m_functions inst (bs_module s)) f with
  | Some fn => match nth_error (f_blocks inst fn) b with
               | Some blk => Some (b_insts inst blk)
               | None => None
               end
  | None => None
  end.

(** the selected block received [i] at point [p] *)
Definition block_received (s s' : bstate) (p : ipoint) (i : inst) : Prop :=
  exists f b is0 is1, bs_fn s = Some f /\ bs_blk s = Some b /\
    blk_insts s f b = Some is0 /\ place p i is0 = Some is1 /\ blk_insts s' f b = Some is1.

Lemma insert_into_block_spec s p i s' o :
  insert_into_block s p i = (s', o) ->
  (o = BUnit /\ block_received s s' p i /\ bs_fn s' = bs_fn s /\ bs_blk s' = bs_blk s) \/
  (failed o /\ s' = s).
Proof.
  unfold insert_into_block, block_received, blk_insts. intros H.
  destruct (bs_fn s) as [f|] eqn:Efn; [|inversion H; subst; right; split; [exact I|reflexivity]].
  destruct (bs_blk s) as [b|] eqn:Ebk; [|inversion H; subst; right; split; [exact I|reflexivity]].
  destruct (nth_error (m_functions inst (bs_module s)) f) as [fn|] eqn:Ef;
    [|inversion H; subst; right; split; [exact I|reflexivity]].
  destruct (nth_error (f_blocks inst fn) b) as [blk|] eqn:Eb;
    [|inversion H; subst; right; split; [exact I|reflexivity]].
  destruct (place p i (b_insts inst blk)) as [is'|] eqn:Ep;
    [|inversion H; subst; right; split; [exact I|reflexivity]].
  inversion H; subst. left. split; [reflexivity|].
  split; [|split; [exact Efn|exact Ebk]].
  exists f, b, (b_insts inst blk), is'.
  split; [reflexivity|]. split; [reflexivity|].
  split; [rewrite Ef, Eb; reflexivity|]. split; [exact Ep|].
  cbn [with_mod bs_module set_functions m_functions].
  rewrite (nth_error_update_nth _ _ _ _ Ef). cbn [f_blocks].
  rewrite (nth_error_update_nth _ _ _ _ Eb). reflexivity.
Qed.

Lemma insert_end_block_spec s p i s' o :
  insert_end_block s p i = (s', o) ->
  (o = BUnit /\ block_received s s' p i /\ bs_blk s' = None) \/ (failed o /\ s' = s).
Proof.
  unfold insert_end_block. intros H.
  destruct (bs_blk s) as [b|] eqn:Eb; [|inversion H; subst; right; split; [exact I|reflexivity]].
  destruct (insert_into_block s p i) as [s1 o1] eqn:E.
  apply insert_into_block_spec in E as [[-> [R _]]|[F ->]].
  - inversion H; subst. left. split; [reflexivity|]. split; [|reflexivity].
    destruct R as [f [b' [is0 [is1 R]]]]. exists f, b', is0, is1. exact R.
  - right. destruct o1; try destruct F; inversion H; subst; split; try exact I; reflexivity.
Qed.

(** what "the sink received [i]" means, per sink *)
Definition received (d : descriptor) (e : env) (s s' : bstate) (i : inst) : Prop :=
  match d_sink d with
  | SSection sec => section_list (bs_module s') sec = section_list (bs_module s) sec ++ [i]
  | SMemoryModel => m_memory_model inst (bs_module s') = Some i
  | SBlock pt => exists p, point_of e pt = Some p /\ block_received s s' p i
  | SEndBlock pt => exists p, point_of e pt = Some p /\ block_received s s' p i /\ bs_blk s' = None
  | SBlockElseGlobal =>
      match bs_fn s, bs_blk s with
      | Some _, Some _ => block_received s s' IEnd i
      | _, _ => types s' = types s ++ [i]
      end
  | SLineRule =>
      match bs_blk s with
      | Some _ => block_received s s' IEnd i
      | None => types s' = types s ++ [i]
      end
  | SDedupType => False
  end.

Lemma received_bump d e s s' i : received d e (bump s) s' i -> received d e s s' i.
Proof. unfold received. destruct (d_sink d); intros H; exact H. Qed.

Lemma ret_val_BVal r idv v : ret_val r idv = BVal v -> idv = Some v.
Proof. unfold ret_val. destruct r, idv; intros H; inversion H; reflexivity. Qed.

Lemma sink_run_received d e s1 i idv s' o :
  sink_run d e s1 i idv = Some (s', o) -> ~ failed o ->
  received d e s1 s' i /\ (forall v, o = BVal v -> idv = Some v).
Proof.
  unfold sink_run, received. intros H Hf.
  destruct (d_sink d) as [sec| |pt|pt| | |].
  - destruct (push_section (bs_module s1) sec i) as [m|] eqn:P; [|discriminate].
    inversion H; subst. split; [apply push_section_spec; exact P|apply ret_val_BVal].
  - inversion H; subst. split; [reflexivity|discriminate].
  - destruct (point_of e pt) as [p|]; [|discriminate].
    destruct (insert_into_block s1 p i) as [s2 o2] eqn:E.
    apply insert_into_block_spec in E as [[-> [R _]]|[F ->]].
    + inversion H; subst. split; [exists p; auto|apply ret_val_BVal].
    + exfalso. apply Hf. destruct o2; try destruct F; inversion H; subst; exact I.
  - destruct (point_of e pt) as [p|]; [|discriminate].
    inversion H as [E]. apply insert_end_block_spec in E as [[-> [R B]]|[F _]].
    + split; [exists p; auto|discriminate].
    + contradiction.
  - discriminate.
  - destruct (bs_fn s1) as [f|].
    + destruct (bs_blk s1) as [b|].
      * destruct (insert_into_block s1 IEnd i) as [s2 o2] eqn:E.
        apply insert_into_block_spec in E as [[-> [R _]]|[F ->]].
        -- inversion H; subst. split; [exact R|apply ret_val_BVal].
        -- exfalso. apply Hf. destruct o2; try destruct F; inversion H; subst; exact I.
      * rewrite push_section_10 in H. inversion H; subst. split; [reflexivity|apply ret_val_BVal].
    + rewrite push_section_10 in H. inversion H; subst. split; [reflexivity|apply ret_val_BVal].
  - destruct (bs_blk s1) as [b|].
    + destruct (insert_into_block s1 IEnd i) as [s2 o2] eqn:E.
      apply insert_into_block_spec in E as [[-> [R _]]|[F ->]].
      * inversion H; subst. split; [exact R|discriminate].
      * exfalso. apply Hf. destruct o2; try destruct F; inversion H; subst; exact I.
    + rewrite push_section_10 in H. inversion H; subst. split; [reflexivity|discriminate].
Qed.

(** the general statement: a successful non-dedup descriptor call builds
    [built_inst d s e], hands it to its sink, returns its result id (when it
    returns an id at all) and allocates exactly when it draws a fresh id *)
Theorem descriptor_call_spec d s e s' o :
  d_sink d <> SDedupType -> run_descriptor d s e = Some (s', o) -> ~ failed o ->
  exists i, built_inst d s e = Some i /\ received d e s s' i /\
            (forall v, o = BVal v -> i_rid i = Some v) /\
            alloc s s' = (if takes_fresh d e then [bs_next s] else []).
Proof.
  intros Hs H Hf. rewrite (run_descriptor_plain d s e Hs) in H.
  unfold built_inst, call_parts.
  destruct (all_operands e (d_slots d)) as [ops|]; [|discriminate].
  destruct (rt_of d e) as [rtv|]; [|discriminate].
  destruct (idr_of d s e) as [[[idv s1]|]|] eqn:I; [| |discriminate].
  - apply idr_of_rid in I as [Hr Hfresh]. rewrite Hr.
    eexists. split; [reflexivity|].
    pose proof (sink_run_frame _ _ _ _ _ _ _ H) as [Hn _].
    apply sink_run_received in H as [R V]; [|exact Hf].
    destruct (takes_fresh d e).
    + destruct Hfresh as [-> Hlt]. split; [apply received_bump; exact R|]. split; [exact V|].
      apply alloc_bump. exact Hn.
    + subst s1. split; [exact R|]. split; [exact V|]. apply alloc_same. exact Hn.
  - inversion H; subst. exfalso. apply Hf. exact Logic.I.
Qed.

(** fresh id: RidFresh, or RidOptParamElseFresh with the argument None *)
Definition fresh_request (d : descriptor) (e : env) : Prop :=
  d_rid d = RidFresh \/ exists p, d_rid d = RidOptParamElseFresh p /\ assoc p e = Some (AOptW None).

(** explicit id [x] *)
Definition explicit_request (d : descriptor) (e : env) (x : N) : Prop :=
  exists p, (d_rid d = RidOptParam p \/ d_rid d = RidOptParamElseFresh p) /\
            assoc p e = Some (AOptW (Some x)).

Theorem descriptor_fresh_id d s e s' o :
  d_sink d <> SDedupType -> fresh_request d e ->
  run_descriptor d s e = Some (s', o) -> ~ failed o ->
  exists i, built_inst d s e = Some i /\ i_rid i = Some (bs_next s) /\
            received d e s s' i /\ alloc s s' = [bs_next s] /\
            (forall v, o = BVal v -> v = bs_next s).
Proof.
  intros Hs Hr H Hf. destruct (descriptor_call_spec _ _ _ _ _ Hs H Hf) as [i [B [R [V A]]]].
  assert (takes_fresh d e = true /\ rid_of d s e = Some (Some (bs_next s))) as [Ht Hrid].
  { unfold takes_fresh, rid_of. destruct Hr as [->|[p [-> ->]]]; auto. }
  rewrite Ht in A. exists i. split; [exact B|].
  assert (i_rid i = Some (bs_next s)) as Hi.
  { unfold built_inst in B. rewrite Hrid in B.
    destruct (call_parts d e) as [[rt ops]|]; [|discriminate]. inversion B; subst. reflexivity. }
  split; [exact Hi|]. split; [exact R|]. split; [exact A|].
  intros v Ev. specialize (V v Ev). congruence.
Qed.

Theorem descriptor_explicit_id d s e s' o x :
  d_sink d <> SDedupType -> explicit_request d e x ->
  run_descriptor d s e = Some (s', o) -> ~ failed o ->
  exists i, built_inst d s e = Some i /\ i_rid i = Some x /\
            received d e s s' i /\ alloc s s' = [] /\
            (forall v, o = BVal v -> v = x).
Proof.
  intros Hs Hr H Hf. destruct (descriptor_call_spec _ _ _ _ _ Hs H Hf) as [i [B [R [V A]]]].
  assert (takes_fresh d e = false /\ rid_of d s e = Some (Some x)) as [Ht Hrid].
  { unfold takes_fresh, rid_of. destruct Hr as [p [[->| ->] ->]]; auto. }
  rewrite Ht in A. exists i. split; [exact B|].
  assert (i_rid i = Some x) as Hi.
  { unfold built_inst in B. rewrite Hrid in B.
    destruct (call_parts d e) as [[rt ops]|]; [|discriminate]. inversion B; subst. reflexivity. }
  split; [exact Hi|]. split; [exact R|]. split; [exact A|].
  intros v Ev. specialize (V v Ev). congruence.
Qed.

(** the public-call forms *)
Corollary gen_call_fresh_id k_fc ds s m e d s' o :
  find_desc ds m = Some d -> d_sink d <> SDedupType -> fresh_request d e ->
  bstep k_fc ds s (CGen m e) = Some (s', o) -> ~ failed o ->
  exists i, built_inst d s e = Some i /\ i_rid i = Some (bs_next s) /\
            received d e s s' i /\ alloc s s' = [bs_next s] /\
            (forall v, o = BVal v -> v = bs_next s).
Proof.
  intros F Hs Hr H Hf. cbn [bstep] in H. rewrite F in H.
  apply (descriptor_fresh_id _ _ _ _ _ Hs Hr H Hf).
Qed.

Corollary gen_call_explicit_id k_fc ds s m e d s' o x :
  find_desc ds m = Some d -> d_sink d <> SDedupType -> explicit_request d e x ->
  bstep k_fc ds s (CGen m e) = Some (s', o) -> ~ failed o ->
  exists i, built_inst d s e = Some i /\ i_rid i = Some x /\
            received d e s s' i /\ alloc s s' = [] /\
            (forall v, o = BVal v -> v = x).
Proof.
  intros F Hs Hr H Hf. cbn [bstep] in H. rewrite F in H.
  apply (descriptor_explicit_id _ _ _ _ _ _ Hs Hr H Hf).
Qed.

(** ------------------------------------------------------------------ *)
(** * The sinks that DO push into section 10 (completing the characterisation) *)

Theorem not_avoiding10_pushes d s e s' o :
  d_sink d <> SDedupType -> sink_avoids10 d s = false ->
  run_descriptor d s e = Some (s', o) -> ~ failed o ->
  exists i, built_inst d s e = Some i /\ types s' = types s ++ [i].
Proof.
  intros Hs Ha H Hf. destruct (descriptor_call_spec _ _ _ _ _ Hs H Hf) as [i [B [R _]]].
  exists i. split; [exact B|]. unfold received in R. unfold sink_avoids10 in Ha.
  destruct (d_sink d) as [sec| |pt|pt| | |]; try discriminate; try contradiction.
  - apply negb_false_iff, N.eqb_eq in Ha. subst sec. exact R.
  - destruct (bs_fn s); [destruct (bs_blk s); [discriminate|exact R]|exact R].
  - destruct (bs_blk s); [discriminate|exact R].
Qed.

(** ------------------------------------------------------------------ *)
(** * Concrete witnesses: why the restrictions in I6 are needed *)

Module Witness.
Open Scope string_scope.

(** a type method in the style of the generated ones: type_xxx(result_id: Option<Word>, w) *)
Definition dT : descriptor :=
  {| d_name := "type_int"; d_params := [("result_id", POptW); ("w", PW)]; d_opcode := 21;
     d_rt := RtNone; d_rid := RidOptParam "result_id"; d_slots := [DOne KLit32 "w"];
     d_sink := SDedupType; d_ret := RetId |}.

Definition explicit_call (id w : N) : bcall := CGen "type_int" [("result_id", AOptW (Some id)); ("w", AW w)].
Definition implicit_call (w : N) : bcall := CGen "type_int" [("result_id", AOptW None); ("w", AW w)].

Definition run2 (s : bstate) (c1 c2 : bcall) : option (bout * bout * bstate) :=
  match bstep 0 [dT] s c1 with
  | Some (s1, o1) => match bstep 0 [dT] s1 c2 with
                     | Some (s2, o2) => Some (o1, o2, s2)
                     | None => None end
  | None => None
  end.

(** (1) explicit ids defeat deduplication: the same declaration twice, with an
    explicit id each time, yields two type_identical entries *)
Example explicit_duplicates :
  option_map (fun r => types (snd r)) (run2 bnew (explicit_call 5 32) (explicit_call 5 32))
  = Some [mk_inst 21 None (Some 5) [OLit32 32]; mk_inst 21 None (Some 5) [OLit32 32]].
Proof. vm_compute. reflexivity. Qed.

Example explicit_breaks_types_unique :
  exists s o1 o2, run2 bnew (explicit_call 5 32) (explicit_call 5 32) = Some (o1, o2, s) /\
                  ~ types_unique s.
Proof.
  eexists _, _, _. split; [vm_compute; reflexivity|].
  intros [_ U]. specialize (U 0%nat 1%nat _ _ eq_refl eq_refl eq_refl). discriminate.
Qed.

(** (2) an explicit id is not below [bs_next]; a later implicit request for a
    DIFFERENT type is handed the same id *)
Example explicit_then_implicit_share_id :
  option_map (fun r => fst r) (run2 bnew (explicit_call 1 32) (implicit_call 64))
  = Some (BVal 1, BVal 1)
  /\ type_identical (mk_inst 21 None None [OLit32 32]) (mk_inst 21 None None [OLit32 64]) = false.
Proof. vm_compute. split; reflexivity. Qed.

(** (3) [types_unique] and [ids_below] alone do not give "no shared ids": a
    loaded module whose two distinct types carry the same id (new_from_module
    does not check) answers two different implicit requests with that id.
    This is why [tinv] also contains [rids_distinct] (which holds from [bnew]). *)
Definition twin_module : module inst :=
  add_type (add_type empty_module (mk_inst 21 None (Some 1) [OLit32 32])) (mk_inst 21 None (Some 1) [OLit32 64]).
Definition twin_state : bstate :=
  {| bs_module := twin_module; bs_header := Some (new_header 2); bs_next := 2; bs_fn := None; bs_blk := None |}.

Example twin_state_is_bfrom : bfrom twin_module (Some (new_header 2)) = Some twin_state.
Proof. reflexivity. Qed.

Example twin_types_unique : types_unique twin_state /\ ids_below twin_state.
Proof.
  split; [split|].
  - intros t [<-|[<-|[]]]; discriminate.
  - intros n m a b Ha Hb Hab.
    destruct n as [|[|n]]; destruct m as [|[|m]]; cbn in Ha, Hb;
      try reflexivity; try (destruct n; discriminate); try (destruct m; discriminate);
      inversion Ha; inversion Hb; subst; vm_compute in Hab; discriminate.
  - intros t id [<-|[<-|[]]] Hid; inversion Hid; subst; vm_compute; reflexivity.
Qed.

Example twin_shares_id :
  option_map (fun r => fst r) (run2 twin_state (implicit_call 32) (implicit_call 64))
  = Some (BVal 1, BVal 1)
  /\ type_identical (mk_inst 21 None None [OLit32 32]) (mk_inst 21 None None [OLit32 64]) = false.
Proof. vm_compute. split; reflexivity. Qed.

(** (4) deduplication at work from a fresh builder: same request twice -> same
    id, nothing added; different request -> next id *)
Example dedup_from_bnew :
  option_map (fun r => (fst r, types (snd r), bs_next (snd r)))
             (run2 bnew (implicit_call 32) (implicit_call 32))
  = Some ((BVal 1, BVal 1), [mk_inst 21 None (Some 1) [OLit32 32]], 2).
Proof. vm_compute. reflexivity. Qed.

End Witness.

(** ------------------------------------------------------------------ *)
Print Assumptions one_id_per_call.
Print Assumptions ids_consecutive.
Print Assumptions ids_strictly_increasing.
Print Assumptions ids_NoDup.
Print Assumptions ids_below_next.
Print Assumptions ids_first_bnew.
Print Assumptions ids_first_bfrom.
Print Assumptions bound_is_next.
Print Assumptions bound_exceeds_ids.
Print Assumptions id_call_returns_allocated.
Print Assumptions begin_function_fresh.
Print Assumptions begin_function_explicit.
Print Assumptions begin_block_fresh.
Print Assumptions begin_block_no_label_fresh.
Print Assumptions begin_block_explicit.
Print Assumptions function_parameter_fresh.
Print Assumptions descriptor_call_spec.
Print Assumptions descriptor_fresh_id.
Print Assumptions descriptor_explicit_id.
Print Assumptions gen_call_fresh_id.
Print Assumptions gen_call_explicit_id.
Print Assumptions not_avoiding10_pushes.
Print Assumptions dedup_explicit.
Print Assumptions dedup_explicit_param.
Print Assumptions dedup_implicit.
Print Assumptions dedup_find_some.
Print Assumptions dedup_find_none.
Print Assumptions dedup_find_none'.
Print Assumptions type_identical_refl.
Print Assumptions type_identical_sym.
Print Assumptions type_identical_trans.
Print Assumptions implicit_preserves_types_unique.
Print Assumptions avoids10_preserves_types_unique.
Print Assumptions safe_preserves_types_unique.
Print Assumptions safe_preserves_tinv.
Print Assumptions safe_run_types_unique.
Print Assumptions no_duplicate_types.
Print Assumptions tinv_from_bnew.
Print Assumptions implicit_requests_share_id_only_if_identical.
Print Assumptions implicit_requests_from_bnew.
Print Assumptions Witness.explicit_breaks_types_unique.
Print Assumptions Witness.twin_shares_id.
