(** P12 - byte-level half of C06: the instruction a Builder method emits
    conforms to the grammar entry of its opcode ([Spec.Conforms.conforms]).

    - [desc_matches G d] (static, boolean): the method descriptor [d] lines up
      with the grammar entry of [d_opcode d]: result type / result id present
      exactly when the entry has IdResultType / IdResult, and the descriptor's
      slots correspond, in order, to the remaining grammar operands.
    - [args_ok G t d e] (dynamic, boolean): the call arguments [e] conform to
      the instruction's grammar (words < 2^32, enumerants / masks accepted by
      their kind, parameter operands = the parameter list of the value,
      strings NUL-free valid UTF-8, optional arguments only as a trailing
      run, context-dependent literal widths agree with the tracker [t], the
      instruction fits the 16-bit word count).
    - Theorem [built_conforms]: then the instruction assembled from the
      call's parts and the settled result id conforms.  [built_inst_conforms]
      is the same for [BuilderIds.built_inst] (non-type methods),
      [call_conforms] / [type_call_conforms] are the run-level statements
      (the bound on a fresh result id comes from the successful call),
      [built_roundtrip] adds parse (assemble i) = i.

    All slot shapes are covered (DOne / DOpt / DMany / DPairs / DExtras,
    parameterised enumerants and masks, the context-dependent literal of
    OpConstant / OpSpecConstant, the pairs of OpSwitch).  [desc_matches]
    rejects, by design: the embedded opcode of OpSpecConstantOp (KSpecOp), a
    variadic grammar operand that is not the last one, and a parameterised
    kind without a slot of its own for the parameters.

    The check is evaluated on the descriptors of this run at the end of the
    file; the 11 methods that do not match are listed in [exceptions], each
    with the reason and a concrete non-conforming call. *)
From RV Require Import Model.Base Model.Bytes Model.Spirv Model.Grammar Model.Module Model.Decoder
                       Model.Inst Model.Parser Model.Loader Model.Builder.
From RV Require Import Spec.Conforms Proofs.BuilderIds.

(** ------------------------------------------------------------------ *)
(** * Static side: descriptor against grammar entry                      *)
(** ------------------------------------------------------------------ *)

(** the descriptor's operand kind [ok] builds the Operand variant the slot
    [s] of a grammar kind's parse arm reads *)
Definition ok_slot (ok : okind) (s : rslot) : bool :=
  match fst s with
  | RdStr => match ok, snd s with KStrK, MkStr => true | _, _ => false end
  | _ =>
      match ok, snd s with
      | KEnumK k, MkEnum k' => N.eqb k k'
      | KIdRef, MkIdRef | KIdScope, MkIdScope | KIdMemSem, MkIdMemSem
      | KLit32, MkLit32 | KExtInst, MkExtInst => true
      | _, _ => false
      end
  end.

(** how one grammar operand is realised by the descriptor *)
Inductive check :=
| CVal (opt : bool) (s : rslot) (tb : option ptable)
      (* one value ([opt]: optional) read by slot [s]; [tb]: the parameter
         table of a parameterised kind *)
| CMany (k : N) (s : rslot)              (* k*, one-slot kind, a list argument *)
| CPairs (k : N) (s0 s1 : rslot)         (* k*, two-slot kind, a list of pairs *)
| CFree (k : N)                          (* k*, the caller supplies the operands *)
| CCtx                                   (* LiteralContextDependentNumber *)
| CPairLit.                              (* PairLiteralIntegerIdRef* of OpSwitch *)

(** the slot carrying the parameters of a parameterised enumerant / mask:
    the operand list that follows it ([DExtras]), or - for the last grammar
    operand - a list argument ([DMany], e.g. execution_mode's params) *)
Definition carrier (r : list (N * quant)) (sl : list dslot) : option dslot * list dslot :=
  match sl with
  | DExtras p :: sl' => (Some (DExtras p), sl')
  | DMany ok p :: sl' => if nil r then (Some (DMany ok p), sl') else (None, sl)
  | _ => (None, sl)
  end.

Definition step_val (opt : bool) (a : arm) (r : list (N * quant)) (sl : list dslot)
  : option (check * dslot * option dslot * list dslot) :=
  match sl with
  | main :: sl1 =>
      match (match main, opt with
             | DOne ok _, false => Some ok
             | DOpt ok _, true => Some ok
             | _, _ => None
             end) with
      | Some ok =>
          match a with
          | ASimple [s] => if ok_slot ok s then Some (CVal opt s None, main, None, sl1) else None
          | AParam s tb =>
              (* a parameterised kind needs a slot of its own for the parameters *)
              if ok_slot ok s then
                match carrier r sl1 with
                | (Some c, sl2) => Some (CVal opt s (Some tb), main, Some c, sl2)
                | (None, _) => None
                end
              else None
          | _ => None
          end
      | None => None
      end
  | [] => None
  end.

(** a variadic operand is the last grammar operand and takes the last slot *)
Definition step_star (k : N) (a : arm) (r : list (N * quant)) (sl : list dslot)
  : option (check * dslot * option dslot * list dslot) :=
  match r, sl with
  | [], [main] =>
      match main with
      | DExtras _ => Some (CFree k, main, None, [])
      | DMany ok _ =>
          match a with
          | ASimple [s] => if ok_slot ok s then Some (CMany k s, main, None, []) else None
          | _ => None
          end
      | DPairs ok0 ok1 _ =>
          match a with
          | ASimple [s0; s1] =>
              if ok_slot ok0 s0 && ok_slot ok1 s1 then Some (CPairs k s0 s1, main, None, []) else None
          | _ => None
          end
      | _ => None
      end
  | _, _ => None
  end.

Definition is_lit (ok : okind) : bool := match ok with KLit32 | KLit64 => true | _ => false end.

Definition step_ctx (opc : N) (has_rt : bool) (q : quant) (sl : list dslot)
  : option (check * dslot * option dslot * list dslot) :=
  match q, sl with
  | One, DOne ok p :: sl1 =>
      if (N.eqb opc OP_CONSTANT || N.eqb opc OP_SPEC_CONSTANT) && has_rt && is_lit ok
      then Some (CCtx, DOne ok p, None, sl1) else None
  | _, _ => None
  end.

Definition step_pairlit (opc : N) (q : quant) (r : list (N * quant)) (sl : list dslot)
  : option (check * dslot * option dslot * list dslot) :=
  match q, r, sl with
  | ZeroOrMore, [], [DPairs KOperand KIdRef p] =>
      if N.eqb opc OP_SWITCH then Some (CPairLit, DPairs KOperand KIdRef p, None, []) else None
  | _, _, _ => None
  end.

(** one grammar operand [(k, q)] (the grammar continues with [r]) against the
    front of the slot list: the check, the slot, the parameter carrier, the
    slots left.  [None]: the descriptor does not follow the grammar (or uses a
    shape this development does not cover: OpSpecConstantOp's embedded
    opcode, a variadic operand that is not the last one). *)
Definition step (G : gdata) (opc : N) (has_rt : bool) (kq : N * quant) (r : list (N * quant))
           (sl : list dslot) : option (check * dslot * option dslot * list dslot) :=
  let '(k, q) := kq in
  if N.eqb k (gd_k_rt G) || N.eqb k (gd_k_rid G) then None
  else if N.eqb k (gd_k_ctx G) then step_ctx opc has_rt q sl
  else if N.eqb k (gd_k_pairlitid G) then step_pairlit opc q r sl
  else if N.eqb k (gd_k_specop G) then None
  else
    match nth_error (gd_arms G) (N.to_nat k) with
    | Some a =>
        match q with
        | One => step_val false a r sl
        | ZeroOrOne => step_val true a r sl
        | ZeroOrMore => step_star k a r sl
        end
    | None => None
    end.

Fixpoint match_slots (G : gdata) (opc : N) (has_rt : bool) (lops : list (N * quant)) (sl : list dslot) : bool :=
  match lops with
  | [] => nil sl
  | kq :: r =>
      match step G opc has_rt kq r sl with
      | Some (_, _, _, sl') => match_slots G opc has_rt r sl'
      | None => false
      end
  end.

(** does the emitted instruction carry a result id?  ([None]: a combination
    of result-id mode and sink the builder never uses)
    - the type methods (sink SDedupType) always push an instruction with a
      result id (the explicit one or a fresh one);
    - elsewhere RidFresh / RidOptParamElseFresh settle on an id, RidNone /
      RidConstNone on none. *)
Definition has_rid (d : descriptor) : option bool :=
  match d_sink d, d_rid d with
  | SDedupType, (RidOptParam _ | RidConstNone) => Some true
  | SDedupType, _ => None
  | _, (RidFresh | RidOptParamElseFresh _) => Some true
  | _, (RidNone | RidConstNone) => Some false
  | _, RidOptParam _ => None
  end.

Definition has_rt (d : descriptor) : bool := match d_rt d with RtNone => false | RtParam _ => true end.

(** the leading IdResultType / IdResult of the entry, present exactly when
    the method supplies them *)
Definition strip_res (G : gdata) (rt rid : bool) (lops : list (N * quant)) : option (list (N * quant)) :=
  let after_rt :=
    if rt then
      match lops with
      | (k, One) :: r => if N.eqb k (gd_k_rt G) then Some r else None
      | _ => None
      end
    else Some lops in
  match after_rt with
  | Some l1 =>
      if rid then
        match l1 with
        | (k, One) :: r => if N.eqb k (gd_k_rid G) && negb (N.eqb k (gd_k_rt G)) then Some r else None
        | _ => None
        end
      else Some l1
  | None => None
  end.

Definition desc_matches (G : gdata) (d : descriptor) : bool :=
  match lookup_core (gd_table G) (d_opcode d), has_rid d with
  | Some g, Some rid =>
      match strip_res G (has_rt d) rid (g_operands g) with
      | Some lops => match_slots G (d_opcode d) (has_rt d) lops (d_slots d)
      | None => false
      end
  | _, _ => false
  end.

(** ------------------------------------------------------------------ *)
(** * Dynamic side: the call arguments                                   *)
(** ------------------------------------------------------------------ *)

(** a word argument: fits 32 bits and, for an enumerant / mask slot, is a
    declared enumerant / uses declared bits only *)
Definition word_ok (s : rslot) (v : N) : bool :=
  (v <? w32) && match fst s with RdTyped c => conv_accepts c v | _ => true end.

(** an argument, as the operand it became: strings NUL-free valid UTF-8,
    anything else by its word value *)
Definition arg_ok (s : rslot) (o : operand) : bool :=
  match o with
  | OStr b => str_ok b
  | _ => word_ok s (operand_value o)
  end.

Fixpoint pairs_args_ok (s0 s1 : rslot) (os : list operand) : bool :=
  match os with
  | [] => true
  | o0 :: os1 =>
      match os1 with
      | o1 :: r => arg_ok s0 o0 && arg_ok s1 o1 && pairs_args_ok s0 s1 r
      | [] => false
      end
  end.

(** the parameters the value [o] requires (none for a plain kind) *)
Definition params_of (tb : option ptable) (o : operand) : list rslot :=
  match tb with Some tb => table_params tb (operand_value o) | None => [] end.

(** [a]: the operands of the slot, [cops]: those of its parameter carrier,
    [acc]: all operands before them, [ity]: the result type argument *)
Definition check_ok (G : gdata) (t : tracker) (ity : option N) (acc : list operand)
           (ch : check) (a cops : list operand) : bool :=
  match ch with
  | CVal _ s tb =>
      match a with
      | [] => nil cops                       (* optional argument absent: no parameters either *)
      | [o] =>
          arg_ok s o &&
          match split_slots (params_of tb o) cops with    (* exactly the value's parameter list *)
          | Some (_, []) => true
          | _ => false
          end
      | _ => false
      end
  | CMany _ s => forallb (arg_ok s) a
  | CPairs _ s0 s1 => pairs_args_ok s0 s1 a
  | CFree k => split_star G k (length a) a
  | CCtx =>
      match ity, a with
      | Some id, [o] => literal_ok t id o    (* width by the tracked result type *)
      | _, _ => false
      end
  | CPairLit =>
      nil a ||
      match acc with
      | OIdRef sel :: _ => pairs_ok t sel a  (* widths by the tracked selector type *)
      | _ => false
      end
  end.

Definition car_ops (e : env) (c : option dslot) : option (list operand) :=
  match c with Some c => slot_operands e c | None => Some [] end.

(** an absent optional argument: everything after it must be empty *)
Definition stops (ch : check) (a : list operand) : bool :=
  match ch, a with CVal true _ _, [] => true | _, _ => false end.

Fixpoint slots_ok (G : gdata) (t : tracker) (opc : N) (hrt : bool) (ity : option N) (e : env)
         (acc : list operand) (lops : list (N * quant)) (sl : list dslot) : bool :=
  match lops with
  | [] => true
  | kq :: r =>
      match step G opc hrt kq r sl with
      | Some (ch, main, c, sl') =>
          match slot_operands e main, car_ops e c with
          | Some a, Some cops =>
              check_ok G t ity acc ch a cops &&
              (if stops ch a
               then match all_operands e sl' with Some [] => true | _ => false end
               else slots_ok G t opc hrt ity e (acc ++ a ++ cops) r sl')
          | _, _ => false
          end
      | None => false
      end
  end.

(** explicit result type / result id arguments are words *)
Definition rt_arg_ok (d : descriptor) (e : env) : bool :=
  match d_rt d with
  | RtNone => true
  | RtParam p => match assoc p e with Some (AW v) => v <? w32 | _ => false end
  end.

Definition rid_arg_ok (d : descriptor) (e : env) : bool :=
  match d_rid d with
  | RidOptParam p | RidOptParamElseFresh p =>
      match assoc p e with Some (AOptW (Some v)) => v <? w32 | _ => true end
  | _ => true
  end.

(** words of the assembled instruction: first word, result type, result id, operands *)
Definition inst_words (rt : option N) (rid : bool) (ops : list operand) : nat :=
  S (length (oword rt) + (if rid then 1 else 0) + length (flat_map asm_operand ops)).

Definition args_okb (G : gdata) (t : tracker) (d : descriptor) (e : env) : bool :=
  match lookup_core (gd_table G) (d_opcode d), has_rid d, call_parts d e with
  | Some g, Some rid, Some (rt, ops) =>
      match strip_res G (has_rt d) rid (g_operands g) with
      | Some lops =>
          rt_arg_ok d e && rid_arg_ok d e
          && slots_ok G t (d_opcode d) (has_rt d) rt e [] lops (d_slots d)
          && (N.of_nat (inst_words rt rid ops) <? 65536)
      | None => false
      end
  | _, _, _ => false
  end.

Definition args_ok (G : gdata) (t : tracker) (d : descriptor) (e : env) : Prop := args_okb G t d e = true.

(** ------------------------------------------------------------------ *)
(** * Proofs                                                             *)
(** ------------------------------------------------------------------ *)

(** ** split_slots / split_star *)
Lemma split_slots_app ss : forall os a rest x,
  split_slots ss os = Some (a, rest) -> split_slots ss (os ++ x) = Some (a, rest ++ x).
Proof.
  induction ss as [|s r IH]; intros os a rest x H; cbn [split_slots] in *.
  - inversion H; subst. reflexivity.
  - destruct os as [|o os1]; [discriminate|]. cbn [app].
    destruct (slot_ok s o); [|discriminate].
    destruct (split_slots r os1) as [[a1 r1]|] eqn:E; [|discriminate].
    inversion H; subst. rewrite (IH _ _ _ x E). reflexivity.
Qed.

Lemma split_slots_eq ss : forall os a rest, split_slots ss os = Some (a, rest) -> os = a ++ rest.
Proof.
  induction ss as [|s r IH]; intros os a rest H; cbn [split_slots] in *.
  - inversion H; subst. reflexivity.
  - destruct os as [|o os1]; [discriminate|].
    destruct (slot_ok s o); [|discriminate].
    destruct (split_slots r os1) as [[a1 r1]|] eqn:E; [|discriminate].
    inversion H; subst. cbn [app]. f_equal. apply IH. exact E.
Qed.

Lemma star_nil G k n : split_star G k n [] = true.
Proof. destruct n; reflexivity. Qed.

(** ** what a slot produces *)
Definition produced (ok : okind) (o : operand) : Prop :=
  match ok with
  | KStrK => exists b, o = OStr b
  | _ => exists v, o = mk_op ok v
  end.

Lemma produced_mk_op ok v : produced ok (mk_op ok v).
Proof. destruct ok; cbn [produced mk_op]; eauto. Qed.

Lemma one_produced e ok p a : slot_operands e (DOne ok p) = Some a -> exists o, a = [o] /\ produced ok o.
Proof.
  destruct ok; cbn [slot_operands produced]; destruct (assoc p e) as [[]|]; intros H; inversion H; subst;
    eexists; (split; [reflexivity|]); eexists; reflexivity.
Qed.

Lemma opt_produced e ok p a :
  slot_operands e (DOpt ok p) = Some a -> a = [] \/ exists o, a = [o] /\ produced ok o.
Proof.
  destruct ok; cbn [slot_operands produced]; destruct (assoc p e) as [[]|]; intros H; try discriminate;
    match type of H with context [match ?v with _ => _ end] => destruct v end;
    inversion H; subst; auto; right; eexists; (split; [reflexivity|]); eexists; reflexivity.
Qed.

Lemma many_produced e ok p a : slot_operands e (DMany ok p) = Some a -> Forall (produced ok) a.
Proof.
  cbn [slot_operands]. destruct (assoc p e) as [[]|]; intros H; inversion H; subst.
  apply Forall_forall. intros o Ho. apply in_map_iff in Ho as [v [<- _]]. apply produced_mk_op.
Qed.

Lemma pairs_produced e ok0 ok1 p a : ok0 <> KOperand ->
  slot_operands e (DPairs ok0 ok1 p) = Some a ->
  exists l, a = flat_map (fun x : N * N => [mk_op ok0 (fst x); mk_op ok1 (snd x)]) l.
Proof.
  intros Hne. destruct ok0; try congruence; cbn [slot_operands];
    destruct (assoc p e) as [[]|]; intros H; inversion H; subst; eauto.
Qed.

(** ** the argument check implies the slot check of the specification *)
Lemma ok_slot_not_operand s : ok_slot KOperand s = false.
Proof. destruct s as [[] []]; reflexivity. Qed.

Lemma arg_slot ok s o : ok_slot ok s = true -> produced ok o -> arg_ok s o = true -> slot_ok s o = true.
Proof.
  destruct s as [r m]. unfold ok_slot, arg_ok, word_ok, slot_ok. cbn [fst snd].
  destruct r as [| |c].
  - destruct ok, m; try discriminate; intros H [v ->] A; cbn [mk_op word_operand operand_value] in *;
      try (apply andb_prop in A as [A _]; exact A).
    apply N.eqb_eq in H. subst. rewrite N.eqb_refl. apply andb_prop in A as [A _]. exact A.
  - destruct ok, m; try discriminate. intros _ [b ->] A. exact A.
  - destruct ok, m; try discriminate; intros H [v ->] A; cbn [mk_op word_operand operand_value] in *;
      apply andb_prop in A as [A1 A2]; rewrite A1, A2; try reflexivity.
    apply N.eqb_eq in H. subst. rewrite N.eqb_refl. reflexivity.
Qed.

(** ** ordinary kinds in [conf_lops] *)
Definition ordinary (G : gdata) (k : N) : Prop :=
  N.eqb k (gd_k_rt G) = false /\ N.eqb k (gd_k_rid G) = false /\ N.eqb k (gd_k_ctx G) = false /\
  N.eqb k (gd_k_pairlitid G) = false /\ N.eqb k (gd_k_specop G) = false.

Lemma conf_lops_nil_os G t opc ity k q r acc : q <> One ->
  conf_lops G t opc ity ((k, q) :: r) None None acc [] = true.
Proof. intros H. cbn [conf_lops none nil andb]. destruct q; congruence || reflexivity. Qed.

Lemma conf_lops_ord G t opc ity k q r acc o os : ordinary G k ->
  conf_lops G t opc ity ((k, q) :: r) None None acc (o :: os) =
  if variadic q then split_star G k (length (o :: os)) (o :: os)
  else match split_kind G k (o :: os) with
       | Some (a, os1) => conf_lops G t opc ity r None None (acc ++ a) os1
       | None => false
       end.
Proof.
  intros (H1 & H2 & H3 & H4 & H5). cbn [conf_lops none nil andb negb].
  rewrite H1, H2, H3, H4, H5. reflexivity.
Qed.

Section Step.
Variables (G : gdata) (t : tracker) (opc : N) (hrt : bool) (ity : option N) (e : env).

Notation CL := (conf_lops G t opc ity).

(** the conclusion of one step: the absent-optional case closes the
    instruction, every other case continues with the remaining grammar *)
Definition step_goal (k : N) (q : quant) (r : list (N * quant)) (acc : list operand)
           (ch : check) (a cops : list operand) (sl' : list dslot) : Prop :=
  forall os', all_operands e sl' = Some os' ->
    (stops ch a = true -> os' = [] -> CL ((k, q) :: r) None None acc (a ++ cops ++ os') = true) /\
    (stops ch a = false -> CL r None None (acc ++ a ++ cops) os' = true ->
     CL ((k, q) :: r) None None acc (a ++ cops ++ os') = true).

(** *** one value, possibly optional, possibly with parameters *)
Lemma val_conf k s tb o cops os' r acc q : ordinary G k -> q <> ZeroOrMore ->
  nth_error (gd_arms G) (N.to_nat k) = Some (match tb with Some tb => AParam s tb | None => ASimple [s] end) ->
  slot_ok s o = true ->
  split_slots (params_of tb o) cops = Some (cops, []) ->
  CL r None None (acc ++ [o] ++ cops) os' = true ->
  CL ((k, q) :: r) None None acc ([o] ++ cops ++ os') = true.
Proof.
  intros Hord Hq Harm Hs Hp Hrec. cbn [app]. rewrite conf_lops_ord by exact Hord.
  replace (variadic q) with false by (destruct q; congruence || reflexivity).
  unfold split_kind. rewrite Harm.
  apply (split_slots_app _ _ _ _ os') in Hp. cbn [app] in Hp.
  destruct tb as [tb|]; cbn [params_of] in Hp.
  - rewrite Hs, Hp. exact Hrec.
  - cbn [split_slots] in *. rewrite Hs.
    destruct cops as [|c0 cops]; [|discriminate]. cbn [app] in *. exact Hrec.
Qed.

Lemma step_val_conf opt arm k q r acc sl ch main c sl' a cops :
  step_val opt arm r sl = Some (ch, main, c, sl') ->
  nth_error (gd_arms G) (N.to_nat k) = Some arm -> ordinary G k ->
  q = (if opt then ZeroOrOne else One) ->
  slot_operands e main = Some a -> car_ops e c = Some cops ->
  check_ok G t ity acc ch a cops = true ->
  step_goal k q r acc ch a cops sl'.
Proof.
  intros Hstep Harm Hord Hq Ha Hc Hchk os' Hos'.
  unfold step_val in Hstep. destruct sl as [|main0 sl1]; [discriminate|].
  (* the slot form and the produced operand(s) *)
  assert (Hform: exists ok, ((opt = false /\ exists p, main0 = DOne ok p) \/ (opt = true /\ exists p, main0 = DOpt ok p)) /\
            match arm with
            | ASimple [s] => if ok_slot ok s then Some (CVal opt s None, main0, None, sl1) else None
            | AParam s tb =>
                if ok_slot ok s then
                  match carrier r sl1 with
                  | (Some c, sl2) => Some (CVal opt s (Some tb), main0, Some c, sl2)
                  | (None, _) => None
                  end
                else None
            | _ => None
            end = Some (ch, main, c, sl')).
  { destruct main0 as [ok p|ok p|ok p|ok0 ok1 p|p], opt; try discriminate; exists ok; split; eauto. }
  clear Hstep. destruct Hform as (ok & Hmain0 & Hstep).
  assert (Hinv: exists s tb, ch = CVal opt s tb /\ main = main0 /\ ok_slot ok s = true /\
                  arm = match tb with Some tb => AParam s tb | None => ASimple [s] end).
  { destruct arm as [|[|s [|]]|s tb]; try discriminate.
    - destruct (ok_slot ok s) eqn:Eok; [|discriminate]. inversion Hstep; subst. exists s, None. auto.
    - destruct (ok_slot ok s) eqn:Eok; [|discriminate].
      destruct (carrier r sl1) as [[c1|] sl2]; [|discriminate].
      inversion Hstep; subst. exists s, (Some tb). auto. }
  clear Hstep. destruct Hinv as (s & tb & -> & -> & Hok & ->).
  assert (Hprod: (a = [] /\ opt = true) \/ exists o, a = [o] /\ produced ok o).
  { destruct Hmain0 as [[-> [p ->]]|[-> [p ->]]].
    - right. apply one_produced in Ha. exact Ha.
    - apply opt_produced in Ha as [->|Ha]; auto. }
  cbn [check_ok] in Hchk.
  destruct Hprod as [[-> ->]|[o [-> Hprod]]].
  - (* absent optional *)
    subst q. destruct cops as [|c0 cops]; [|discriminate]. cbn [stops app]. split.
    + intros _ ->. apply conf_lops_nil_os. discriminate.
    + discriminate.
  - apply andb_prop in Hchk as [Harg Hpar].
    destruct (split_slots (params_of tb o) cops) as [[pa [|]]|] eqn:Esp; try discriminate.
    pose proof (split_slots_eq _ _ _ _ Esp) as Heq. rewrite app_nil_r in Heq. subst pa.
    assert (Hst: stops (CVal opt s tb) [o] = false) by (destruct opt; reflexivity).
    rewrite Hst. split; [discriminate|]. intros _ Hrec.
    apply val_conf with (s := s) (tb := tb); try assumption.
    + subst q. destruct opt; discriminate.
    + apply arg_slot with (ok := ok); assumption.
Qed.

(** *** a variadic operand *)
Lemma many_star k s ok : nth_error (gd_arms G) (N.to_nat k) = Some (ASimple [s]) -> ok_slot ok s = true ->
  forall a, Forall (produced ok) a -> forallb (arg_ok s) a = true ->
  forall n, (length a <= n)%nat -> split_star G k n a = true.
Proof.
  intros Harm Hok. induction a as [|o a IH]; intros HP HA n Hn.
  - apply star_nil.
  - destruct n as [|n]; [cbn [length] in Hn; lia|]. cbn [split_star].
    inversion HP as [|? ? Hpo HP']; subst. cbn [forallb] in HA. apply andb_prop in HA as [HAo HA'].
    unfold split_kind. rewrite Harm. cbn [split_slots].
    rewrite (arg_slot ok s o Hok Hpo HAo). apply IH; try assumption. cbn [length] in Hn. lia.
Qed.

Lemma pairs_star k s0 s1 ok0 ok1 :
  nth_error (gd_arms G) (N.to_nat k) = Some (ASimple [s0; s1]) -> ok_slot ok0 s0 = true -> ok_slot ok1 s1 = true ->
  forall l n, let a := flat_map (fun x : N * N => [mk_op ok0 (fst x); mk_op ok1 (snd x)]) l in
  pairs_args_ok s0 s1 a = true -> (length a <= n)%nat -> split_star G k n a = true.
Proof.
  intros Harm H0 H1. induction l as [|[x y] l IH]; intros n a HA Hn; subst a.
  - apply star_nil.
  - cbn [flat_map app fst snd] in *. destruct n as [|n]; [cbn [length] in Hn; lia|]. cbn [split_star].
    cbn [pairs_args_ok] in HA. apply andb_prop in HA as [HA HA']. apply andb_prop in HA as [HAx HAy].
    unfold split_kind. rewrite Harm. cbn [split_slots].
    rewrite (arg_slot ok0 s0 _ H0 (produced_mk_op ok0 x) HAx).
    rewrite (arg_slot ok1 s1 _ H1 (produced_mk_op ok1 y) HAy).
    apply IH; [exact HA'|]. cbn [length] in Hn. lia.
Qed.

Lemma step_star_conf arm k r acc sl ch main c sl' a cops :
  step_star k arm r sl = Some (ch, main, c, sl') ->
  nth_error (gd_arms G) (N.to_nat k) = Some arm -> ordinary G k ->
  slot_operands e main = Some a -> car_ops e c = Some cops ->
  check_ok G t ity acc ch a cops = true ->
  step_goal k ZeroOrMore r acc ch a cops sl'.
Proof.
  intros Hstep Harm Hord Ha Hc Hchk os' Hos'.
  unfold step_star in Hstep. destruct r as [|? ?]; [|discriminate].
  destruct sl as [|main0 [|? ?]]; try discriminate.
  assert (Hfin: c = None /\ sl' = [] /\ main = main0 /\
                split_star G k (length a) a = true /\ stops ch a = false).
  { destruct main0 as [ok p|ok p|ok p|ok0 ok1 p|p]; try discriminate.
    - destruct arm as [|[|s [|]]|]; try discriminate.
      destruct (ok_slot ok s) eqn:Eok; [|discriminate]. inversion Hstep; subst.
      split; [reflexivity|]. split; [reflexivity|]. split; [reflexivity|]. split; [|reflexivity].
      cbn [check_ok] in Hchk. apply many_star with (s := s) (ok := ok); auto.
      apply many_produced in Ha. exact Ha.
    - destruct arm as [|[|s0 [|s1 [|]]]|]; try discriminate.
      destruct (ok_slot ok0 s0) eqn:E0; [|discriminate]. destruct (ok_slot ok1 s1) eqn:E1; [|discriminate].
      cbn [andb] in Hstep. inversion Hstep; subst.
      split; [reflexivity|]. split; [reflexivity|]. split; [reflexivity|]. split; [|reflexivity].
      cbn [check_ok] in Hchk.
      assert (Hne: ok0 <> KOperand) by (intros ->; rewrite ok_slot_not_operand in E0; discriminate).
      destruct (pairs_produced _ _ _ _ _ Hne Ha) as [l ->].
      apply pairs_star with (s0 := s0) (s1 := s1); auto.
    - inversion Hstep; subst.
      split; [reflexivity|]. split; [reflexivity|]. split; [reflexivity|]. split; [|reflexivity].
      exact Hchk. }
  destruct Hfin as (-> & -> & -> & Hstar & Hst). rewrite Hst.
  cbn [car_ops] in Hc. inversion Hc; subst cops. cbn [all_operands] in Hos'. inversion Hos'; subst os'.
  split; [discriminate|]. intros _ _. cbn [app]. rewrite app_nil_r.
  destruct a as [|o a]; [apply conf_lops_nil_os; discriminate|].
  rewrite conf_lops_ord by exact Hord. cbn [variadic]. exact Hstar.
Qed.

(** *** the context-dependent literal of OpConstant / OpSpecConstant *)
Lemma step_ctx_conf k q r acc sl ch main c sl' a cops :
  step_ctx opc hrt q sl = Some (ch, main, c, sl') ->
  N.eqb k (gd_k_rt G) = false -> N.eqb k (gd_k_rid G) = false -> N.eqb k (gd_k_ctx G) = true ->
  slot_operands e main = Some a -> car_ops e c = Some cops ->
  check_ok G t ity acc ch a cops = true ->
  step_goal k q r acc ch a cops sl'.
Proof.
  intros Hstep H1 H2 H3 Ha Hc Hchk os' Hos'.
  unfold step_ctx in Hstep. destruct q; try discriminate.
  destruct sl as [|[ok p|ok p|ok p|ok0 ok1 p|p] sl1]; try discriminate.
  destruct ((N.eqb opc OP_CONSTANT || N.eqb opc OP_SPEC_CONSTANT) && hrt && is_lit ok) eqn:Ec; [|discriminate].
  inversion Hstep; subst. clear Hstep.
  apply andb_prop in Ec as [Ec _]. apply andb_prop in Ec as [Eopc _].
  cbn [car_ops] in Hc. inversion Hc; subst cops.
  cbn [check_ok] in Hchk. destruct ity as [id|]; [|discriminate].
  destruct a as [|o [|]]; try discriminate.
  cbn [stops]. split; [discriminate|]. intros _ Hrec. cbn [app] in *.
  cbn [conf_lops none nil andb negb]. rewrite H1, H2, H3, Eopc. cbn [variadic negb andb].
  rewrite Hchk. cbn [andb]. exact Hrec.
Qed.

(** *** the (literal, label) pairs of OpSwitch *)
Lemma step_pairlit_conf k q r acc sl ch main c sl' a cops :
  step_pairlit opc q r sl = Some (ch, main, c, sl') ->
  N.eqb k (gd_k_rt G) = false -> N.eqb k (gd_k_rid G) = false -> N.eqb k (gd_k_ctx G) = false ->
  N.eqb k (gd_k_pairlitid G) = true ->
  slot_operands e main = Some a -> car_ops e c = Some cops ->
  check_ok G t ity acc ch a cops = true ->
  step_goal k q r acc ch a cops sl'.
Proof.
  intros Hstep H1 H2 H3 H4 Ha Hc Hchk os' Hos'.
  unfold step_pairlit in Hstep. destruct q; try discriminate. destruct r as [|? ?]; [|discriminate].
  destruct sl as [|[ok p|ok p|ok p|ok0 ok1 p|p] [|? ?]]; try discriminate;
    (destruct ok0; try discriminate; destruct ok1; try discriminate).
  destruct (N.eqb opc OP_SWITCH) eqn:Eopc; [|discriminate].
  inversion Hstep; subst. clear Hstep.
  cbn [car_ops] in Hc. inversion Hc; subst cops. cbn [all_operands] in Hos'. inversion Hos'; subst os'.
  cbn [stops]. split; [discriminate|]. intros _ _. rewrite !app_nil_r.
  destruct a as [|o a]; [apply conf_lops_nil_os; discriminate|].
  cbn [check_ok nil orb] in Hchk.
  cbn [conf_lops none nil andb negb]. rewrite H1, H2, H3, H4, Eopc. cbn [andb variadic].
  destruct acc as [|[] ?]; try discriminate. exact Hchk.
Qed.

(** *** one step *)
Lemma step_conf k q r acc sl ch main c sl' a cops :
  step G opc hrt (k, q) r sl = Some (ch, main, c, sl') ->
  slot_operands e main = Some a -> car_ops e c = Some cops ->
  check_ok G t ity acc ch a cops = true ->
  step_goal k q r acc ch a cops sl'.
Proof.
  intros Hstep Ha Hc Hchk. unfold step in Hstep.
  destruct (N.eqb k (gd_k_rt G)) eqn:E1; [discriminate|].
  destruct (N.eqb k (gd_k_rid G)) eqn:E2; [discriminate|]. cbn [orb] in Hstep.
  destruct (N.eqb k (gd_k_ctx G)) eqn:E3.
  { eapply step_ctx_conf; eassumption. }
  destruct (N.eqb k (gd_k_pairlitid G)) eqn:E4.
  { eapply step_pairlit_conf; eassumption. }
  destruct (N.eqb k (gd_k_specop G)) eqn:E5; [discriminate|].
  assert (Hord: ordinary G k) by (unfold ordinary; auto).
  destruct (nth_error (gd_arms G) (N.to_nat k)) as [arm|] eqn:Harm; [|discriminate].
  destruct q.
  - eapply step_val_conf with (opt := false); try eassumption. reflexivity.
  - eapply step_val_conf with (opt := true); try eassumption. reflexivity.
  - eapply step_star_conf; eassumption.
Qed.

(** the slots a step consumes are the front of the slot list *)
Lemma step_slots kq r sl ch main c sl' :
  step G opc hrt kq r sl = Some (ch, main, c, sl') ->
  sl = main :: match c with Some c => c :: sl' | None => sl' end.
Proof.
  destruct kq as [k q]. unfold step.
  destruct (N.eqb k (gd_k_rt G) || N.eqb k (gd_k_rid G)); [discriminate|].
  destruct (N.eqb k (gd_k_ctx G)).
  { unfold step_ctx. destruct q; try discriminate.
    destruct sl as [|[ok p|ok p|ok p|ok0 ok1 p|p] sl1]; try discriminate.
    destruct (_ && _); [|discriminate]. intros H; inversion H; subst. reflexivity. }
  destruct (N.eqb k (gd_k_pairlitid G)).
  { unfold step_pairlit. destruct q; try discriminate. destruct r; [|discriminate].
    destruct sl as [|[ok p|ok p|ok p|ok0 ok1 p|p] [|? ?]]; try discriminate;
      (destruct ok0; try discriminate; destruct ok1; try discriminate).
    destruct (N.eqb opc OP_SWITCH); [|discriminate]. intros H; inversion H; subst. reflexivity. }
  destruct (N.eqb k (gd_k_specop G)); [discriminate|].
  destruct (nth_error (gd_arms G) (N.to_nat k)) as [arm|]; [|discriminate].
  assert (Hval: forall opt, step_val opt arm r sl = Some (ch, main, c, sl') ->
                sl = main :: match c with Some c => c :: sl' | None => sl' end).
  { intros opt. unfold step_val. destruct sl as [|main0 sl1]; [discriminate|].
    destruct (match main0, opt with DOne ok _, false => Some ok | DOpt ok _, true => Some ok | _, _ => None end)
      as [ok|]; [|discriminate].
    destruct arm as [|[|s [|]]|s tb]; try discriminate.
    - destruct (ok_slot ok s); [|discriminate]. intros H; inversion H; subst. reflexivity.
    - destruct (ok_slot ok s); [|discriminate].
      destruct (carrier r sl1) as [[c1|] sl2] eqn:Ecar; [|discriminate].
      intros H; inversion H; subst. f_equal.
      unfold carrier in Ecar. destruct sl1 as [|[ok' p|ok' p|ok' p|ok0 ok1 p|p] sl1']; try discriminate.
      + destruct (nil r); inversion Ecar; subst; reflexivity.
      + inversion Ecar; subst; reflexivity. }
  destruct q; [apply Hval|apply Hval|].
  unfold step_star. destruct r; [|discriminate]. destruct sl as [|main0 [|? ?]]; try discriminate.
  destruct main0 as [ok p|ok p|ok p|ok0 ok1 p|p]; try discriminate.
  - destruct arm as [|[|s [|]]|]; try discriminate. destruct (ok_slot ok s); [|discriminate].
    intros H; inversion H; subst. reflexivity.
  - destruct arm as [|[|s0 [|s1 [|]]]|]; try discriminate. destruct (_ && _); [|discriminate].
    intros H; inversion H; subst. reflexivity.
  - intros H; inversion H; subst. reflexivity.
Qed.

Lemma all_operands_step sl main c sl' os :
  sl = main :: match c with Some c => c :: sl' | None => sl' end ->
  all_operands e sl = Some os ->
  exists a cops os', slot_operands e main = Some a /\ car_ops e c = Some cops /\
                     all_operands e sl' = Some os' /\ os = a ++ cops ++ os'.
Proof.
  intros -> H. cbn [all_operands] in H.
  destruct (slot_operands e main) as [a|]; [|discriminate].
  destruct c as [c|]; cbn [car_ops].
  - cbn [all_operands] in H. destruct (slot_operands e c) as [cops|]; [|discriminate].
    destruct (all_operands e sl') as [os'|]; [|discriminate]. inversion H; subst. eauto 8.
  - destruct (all_operands e sl') as [os'|]; [|discriminate]. inversion H; subst.
    exists a, [], os'. auto.
Qed.

(** ** all slots against the grammar operands after result type / id *)
Lemma slots_conf : forall lops sl acc os,
  match_slots G opc hrt lops sl = true ->
  slots_ok G t opc hrt ity e acc lops sl = true ->
  all_operands e sl = Some os ->
  CL lops None None acc os = true.
Proof.
  induction lops as [|[k q] r IH]; intros sl acc os HM HS HO.
  - cbn [match_slots] in HM. destruct sl; [|discriminate]. cbn [all_operands] in HO. inversion HO. reflexivity.
  - cbn [match_slots] in HM. cbn [slots_ok] in HS.
    destruct (step G opc hrt (k, q) r sl) as [[[[ch main] c] sl']|] eqn:Est; [|discriminate].
    pose proof (step_slots _ _ _ _ _ _ _ Est) as Hsl.
    destruct (all_operands_step _ _ _ _ _ Hsl HO) as (a & cops & os' & Ha & Hc & Hos' & ->).
    rewrite Ha, Hc in HS. apply andb_prop in HS as [Hchk HS].
    destruct (step_conf _ _ _ _ _ _ _ _ _ _ _ Est Ha Hc Hchk os' Hos') as [Hstop Hgo].
    destruct (stops ch a) eqn:Est2.
    + rewrite Hos' in HS. destruct os'; [|discriminate]. apply Hstop; reflexivity.
    + apply Hgo; [reflexivity|]. apply IH with (sl := sl'); assumption.
Qed.

(** ** the leading result type / result id *)
Lemma strip_conf rt rid lops0 lops prt prid os :
  strip_res G rt rid lops0 = Some lops ->
  (if rt then exists v, prt = Some v /\ v < w32 else prt = None) ->
  (if rid then exists v, prid = Some v /\ v < w32 else prid = None) ->
  CL lops None None [] os = true ->
  CL lops0 prt prid [] os = true.
Proof.
  unfold strip_res. intros Hs Hrt Hrid Hrec.
  assert (Hridstep: forall l1, (if rid then
             match l1 with
             | (k, One) :: r => if N.eqb k (gd_k_rid G) && negb (N.eqb k (gd_k_rt G)) then Some r else None
             | _ => None
             end else Some l1) = Some lops -> CL l1 None prid [] os = true).
  { intros l1 H. destruct rid.
    - destruct Hrid as (w & -> & Hw). destruct l1 as [|[k []] r]; try discriminate.
      destruct (N.eqb k (gd_k_rid G)) eqn:E1; [|discriminate].
      destruct (N.eqb k (gd_k_rt G)) eqn:E2; [discriminate|]. cbn [andb negb] in H. inversion H; subst.
      cbn [conf_lops none nil andb negb]. rewrite E1, E2. cbn [variadic negb andb].
      apply N.ltb_lt in Hw. rewrite Hw. exact Hrec.
    - subst prid. inversion H; subst. exact Hrec. }
  destruct rt.
  - destruct Hrt as (v & -> & Hv). destruct lops0 as [|[k []] r]; try discriminate.
    destruct (N.eqb k (gd_k_rt G)) eqn:E1; [|discriminate].
    cbn [conf_lops none nil andb negb]. rewrite E1. cbn [variadic negb andb].
    apply N.ltb_lt in Hv. rewrite Hv. cbn [andb]. apply Hridstep. exact Hs.
  - subst prt. apply Hridstep. exact Hs.
Qed.

End Step.

(** ------------------------------------------------------------------ *)
(** * The main theorem                                                   *)
(** ------------------------------------------------------------------ *)

(** the result id the call settled on: present exactly when the method gives
    one, and a 32-bit word *)
Definition rid_settled (d : descriptor) (rid : option N) : Prop :=
  match rid with
  | Some v => has_rid d = Some true /\ v < w32
  | None => has_rid d = Some false
  end.

Lemma call_parts_inv d e rt ops : call_parts d e = Some (rt, ops) ->
  all_operands e (d_slots d) = Some ops /\ rt_of d e = Some rt.
Proof.
  unfold call_parts. destruct (all_operands e (d_slots d)) as [o|]; [|discriminate].
  destruct (rt_of d e) as [r|]; [|discriminate]. intros H; inversion H; subst. auto.
Qed.

(** the instruction assembled from the call's parts and the settled result
    id conforms to the grammar entry of the method's opcode *)
Theorem built_conforms G t d e rt ops rid :
  desc_matches G d = true -> args_ok G t d e ->
  call_parts d e = Some (rt, ops) -> rid_settled d rid ->
  conforms G t (mk_inst (d_opcode d) rt rid ops) = true.
Proof.
  unfold desc_matches, args_ok, args_okb. intros HM HA HP HR. rewrite HP in HA.
  destruct (lookup_core (gd_table G) (d_opcode d)) as [g|] eqn:EL; [|discriminate].
  destruct (has_rid d) as [hr|] eqn:Ehr; [|discriminate].
  destruct (strip_res G (has_rt d) hr (g_operands g)) as [lops|] eqn:Est; [|discriminate].
  apply andb_prop in HA as [HA Hsize]. apply andb_prop in HA as [HA Hslots].
  apply andb_prop in HA as [Hrt Hrid].
  destruct (call_parts_inv _ _ _ _ HP) as [Hops Hrtof].
  unfold conforms. cbn [mk_inst i_opcode i_rtype i_rid i_ops]. rewrite EL.
  apply andb_true_intro. split.
  - apply strip_conf with (rt := has_rt d) (rid := hr) (lops := lops); [exact Est| | |].
    + unfold has_rt, rt_of, rt_arg_ok in *. destruct (d_rt d) as [|p].
      * inversion Hrtof. reflexivity.
      * destruct (assoc p e) as [[]|]; try discriminate. inversion Hrtof; subst.
        eexists. split; [reflexivity|]. apply N.ltb_lt. exact Hrt.
    + unfold rid_settled in HR. rewrite Ehr in HR. destruct rid as [v|].
      * destruct HR as [HR Hv]. inversion HR; subst. exists v. split; [reflexivity|exact Hv].
      * inversion HR; subst. reflexivity.
    + apply slots_conf with (hrt := has_rt d) (e := e) (sl := d_slots d); assumption.
  - unfold asm_body. cbn [mk_inst i_rtype i_rid i_ops]. unfold inst_words in Hsize.
    rewrite !app_length.
    replace (length (oword rid)) with (if hr then 1 else 0)%nat.
    + apply N.ltb_lt in Hsize. apply N.ltb_lt. lia.
    + unfold rid_settled in HR. rewrite Ehr in HR. destruct rid as [v|].
      * destruct HR as [HR _]. inversion HR; subst. reflexivity.
      * inversion HR; subst. reflexivity.
Qed.

(** ** the instruction of a non-type method ([built_inst]) *)
Lemma rid_of_settled d s e rid :
  d_sink d <> SDedupType -> has_rid d <> None -> rid_of d s e = Some rid ->
  (forall v, rid = Some v -> v < w32) -> rid_settled d rid.
Proof.
  unfold rid_settled. unfold has_rid, rid_of. intros Hs Hh Hr Hb.
  destruct (d_sink d); try congruence; destruct (d_rid d) as [| |p|p|]; try congruence;
    try (destruct (assoc p e) as [[]|]; try discriminate;
         match type of Hr with context [match ?v with _ => _ end] => destruct v end);
    inversion Hr; subst; first [reflexivity | split; [reflexivity|apply Hb; reflexivity]].
Qed.

Lemma desc_matches_has_rid G d : desc_matches G d = true -> has_rid d <> None.
Proof.
  unfold desc_matches. destruct (lookup_core _ _); [|discriminate].
  destruct (has_rid d); [congruence|discriminate].
Qed.

Theorem built_inst_conforms G t d s e i :
  desc_matches G d = true -> args_ok G t d e -> d_sink d <> SDedupType ->
  built_inst d s e = Some i -> (forall v, i_rid i = Some v -> v < w32) ->
  conforms G t i = true.
Proof.
  intros HM HA Hs HB Hb. unfold built_inst in HB.
  destruct (call_parts d e) as [[rt ops]|] eqn:HP; [|discriminate].
  destruct (rid_of d s e) as [rid|] eqn:Hr; [|discriminate].
  inversion HB; subst. cbn [mk_inst i_rid] in Hb.
  apply built_conforms with (e := e); try assumption.
  apply rid_of_settled with (s := s) (e := e); try assumption.
  apply desc_matches_has_rid with (G := G). exact HM.
Qed.

(** ** run level: the result id bound comes with the call *)
Lemma args_ok_rid G t d e : args_ok G t d e -> rid_arg_ok d e = true.
Proof.
  unfold args_ok, args_okb. destruct (lookup_core _ _); [|discriminate].
  destruct (has_rid d); [|discriminate]. destruct (call_parts d e) as [[rt ops]|]; [|discriminate].
  destruct (strip_res _ _ _ _); [|discriminate]. intros H.
  apply andb_prop in H as [H _]. apply andb_prop in H as [H _]. apply andb_prop in H as [_ H]. exact H.
Qed.

Lemma rid_bound d s e idv :
  rid_of d s e = Some idv -> rid_arg_ok d e = true ->
  (takes_fresh d e = true -> bs_next s + 1 < w32) ->
  forall v, idv = Some v -> v < w32.
Proof.
  unfold rid_of, rid_arg_ok, takes_fresh. intros Hr Ha Hf v ->.
  destruct (d_rid d) as [| |p|p|]; try discriminate.
  - inversion Hr; subst. specialize (Hf eq_refl). lia.
  - destruct (assoc p e) as [[]|]; try discriminate. inversion Hr; subst. apply N.ltb_lt. exact Ha.
  - destruct (assoc p e) as [[]|]; try discriminate.
    match type of Hr with context [match ?x with _ => _ end] => destruct x end.
    + inversion Hr; subst. apply N.ltb_lt. exact Ha.
    + inversion Hr; subst. specialize (Hf eq_refl). lia.
Qed.

(** a successful call of a matching non-type method with conforming
    arguments hands a conforming instruction to its sink *)
Theorem call_conforms G t d s e s' o :
  desc_matches G d = true -> args_ok G t d e -> d_sink d <> SDedupType ->
  run_descriptor d s e = Some (s', o) -> ~ failed o ->
  exists i, built_inst d s e = Some i /\ received d e s s' i /\ conforms G t i = true.
Proof.
  intros HM HA Hs H Hf.
  destruct (descriptor_call_spec d s e s' o Hs H Hf) as (i & HB & HR & _ & _).
  exists i. split; [exact HB|]. split; [exact HR|].
  apply built_inst_conforms with (d := d) (s := s) (e := e); try assumption.
  rewrite (run_descriptor_plain d s e Hs) in H. unfold built_inst, call_parts in HB.
  destruct (all_operands e (d_slots d)) as [ops|]; [|discriminate].
  destruct (rt_of d e) as [rtv|]; [|discriminate].
  destruct (idr_of d s e) as [[[idv s1]|]|] eqn:I; [| |discriminate].
  - apply idr_of_rid in I as [Hr Hfresh]. rewrite Hr in HB. inversion HB; subst. cbn [mk_inst i_rid].
    apply rid_bound with (d := d) (s := s) (e := e); [exact Hr|apply args_ok_rid with (G := G) (t := t); exact HA|].
    intros Ht. rewrite Ht in Hfresh. tauto.
  - inversion H; subst. exfalso. apply Hf. exact Logic.I.
Qed.

(** a type method (sink SDedupType) either returns an existing id and
    leaves the types alone, or appends one conforming declaration *)
Theorem type_call_conforms G t d s e s' o :
  desc_matches G d = true -> args_ok G t d e -> d_sink d = SDedupType ->
  run_descriptor d s e = Some (s', o) ->
  types s' = types s \/ exists i, types s' = types s ++ [i] /\ conforms G t i = true.
Proof.
  intros HM HA Hs H.
  destruct (dedup_parts d s e s' o Hs H) as (rt & ops & req & HP & Hreq & Hrun).
  assert (Hh: has_rid d = Some true).
  { pose proof (desc_matches_has_rid G d HM) as Hn. unfold has_rid in *. rewrite Hs in *.
    destruct (d_rid d); congruence. }
  assert (Hconf: forall id, id < w32 -> conforms G t (mk_inst (d_opcode d) rt (Some id) ops) = true).
  { intros id Hid. apply built_conforms with (e := e); try assumption. split; assumption. }
  unfold dedup_run in Hrun. destruct req as [id|].
  - inversion Hrun; subst. right. eexists. split; [reflexivity|]. apply Hconf.
    apply dedup_req_cases in Hreq as [(p & Hp & Ha)|[_ Hx]]; [|discriminate].
    pose proof (args_ok_rid G t d e HA) as Hr. unfold rid_arg_ok in Hr. rewrite Hp, Ha in Hr.
    apply N.ltb_lt. exact Hr.
  - destruct (dedup_find (types s) (mk_inst (d_opcode d) rt None ops)) as [id|].
    + inversion Hrun; subst. left. reflexivity.
    + destruct (take_id s) as [[id s1]|] eqn:T.
      * apply take_id_some in T as (-> & -> & Hlt). inversion Hrun; subst. right.
        eexists. split; [reflexivity|]. apply Hconf. lia.
      * inversion Hrun; subst. left. reflexivity.
Qed.

(** ** [built_inst] needs the non-type-method hypothesis
    [built_inst] is, by its definition in Proofs/BuilderIds.v, the instruction
    of a NON-dedup call: for a type method it carries the requested id
    ([None] for an implicit request), whereas the instruction the method
    pushes always has one.  Without [d_sink d <> SDedupType] the statement of
    [built_inst_conforms] is false: for [type_int(32, 1)] the descriptor
    matches, the arguments are fine, and [built_inst] is
    [OpTypeInt 32 1] WITHOUT result id, which does not conform
    (see [built_inst_needs_non_dedup] below).  The type methods are covered
    by [built_conforms] (with the settled id) and [type_call_conforms]. *)

(** ------------------------------------------------------------------ *)
(** * Conforming instructions assemble and parse back                    *)
(** ------------------------------------------------------------------ *)
From RV Require Proofs.CodecFacts.

Corollary built_roundtrip G t d e rt ops rid :
  CodecFacts.wf_gdata G = true ->
  desc_matches G d = true -> args_ok G t d e ->
  call_parts d e = Some (rt, ops) -> rid_settled d rid ->
  let i := mk_inst (d_opcode d) rt rid ops in
  forall r o idx,
    parse_inst G t idx {| rest := bytes_of_words (asm_inst i) ++ r; off := o; lim := None |}
    = Ok (i, {| rest := r; off := o + 4 * N.of_nat (length (asm_inst i)); lim := None |}).
Proof.
  intros WF HM HA HP HR i. apply CodecFacts.roundtrip; [exact WF|].
  apply built_conforms with (e := e); assumption.
Qed.

(** ------------------------------------------------------------------ *)
(** * The descriptors of this run                                        *)
(** ------------------------------------------------------------------ *)
From RV Require Inst.Linked Gen.BuilderData.
Import Inst.Linked Gen.BuilderData.

(** The methods whose descriptor does not line up with the grammar entry of
    their opcode, i.e. that cannot be shown to emit conforming instructions:

    - [type_struct_continued_intel], [type_struct_continued_intel_id]
      (known finding F18): generated as type methods, they give the
      instruction a result id (explicit or fresh), but the grammar entry of
      OpTypeStructContinuedINTEL is [IdRef*] without IdResult.  EVERY
      instruction they push is non-conforming
      ([type_struct_continued_never_conforms]).

    - [spec_constant_op(result_type, opcode)]: emits OpSpecConstantOp with
      the single operand LiteralSpecConstantOpInteger(opcode); the method has
      no parameter for the operands of the embedded opcode, so the
      instruction conforms only for an embedded opcode without required
      operands ([spec_constant_op_iadd]: IAdd, not conforming).

    - [copy_memory], [copy_memory_sized] (+ insert_ variants): two optional
      MemoryAccess masks share ONE trailing [additional_params] list.  The
      grammar wants the parameters of the first mask (Aligned: a literal,
      MakePointerAvailable: a scope id, ...) BEFORE the second mask; the
      method appends them after it.  So with a parameterised first mask and a
      second mask present no argument list conforms
      ([copy_memory_two_masks]); with the second mask absent the call does
      conform ([copy_memory_one_mask]) - the descriptor is rejected as a
      whole because the position of the parameters depends on the arguments.

    - [cooperative_matrix_load_tensor_nv], [cooperative_matrix_store_tensor_nv]
      (+ insert_ variants): same shape with two REQUIRED parameterised masks
      (MemoryAccess, then TensorAddressingOperands) and one shared list
      ([tensor_two_masks]). *)
Definition exceptions : list string :=
  [ "cooperative_matrix_load_tensor_nv"; "cooperative_matrix_store_tensor_nv";
    "copy_memory"; "copy_memory_sized";
    "insert_cooperative_matrix_load_tensor_nv"; "insert_cooperative_matrix_store_tensor_nv";
    "insert_copy_memory"; "insert_copy_memory_sized";
    "spec_constant_op";
    "type_struct_continued_intel"; "type_struct_continued_intel_id" ]%string.

(** exactly these do not match ... *)
Example non_matching :
  map d_name (filter (fun d => negb (desc_matches G d)) descriptors) = exceptions.
Proof. vm_compute. reflexivity. Qed.

(** ... and every other descriptor of this run does *)
Example descs_match :
  forallb (desc_matches G) (filter (fun d => negb (mem_str (d_name d) exceptions)) descriptors) = true.
Proof. vm_compute. reflexivity. Qed.

(** the theorems, instantiated with the data of this run *)
Corollary run_call_conforms t name d s e s' o :
  find_desc descriptors name = Some d -> mem_str (d_name d) exceptions = false ->
  args_ok G t d e -> d_sink d <> SDedupType ->
  run_descriptor d s e = Some (s', o) -> ~ failed o ->
  exists i, built_inst d s e = Some i /\ received d e s s' i /\ conforms G t i = true.
Proof.
  intros Hf Hx. apply call_conforms.
  pose proof descs_match as H. rewrite forallb_forall in H. apply H.
  apply filter_In. split.
  - unfold find_desc in Hf. apply find_some in Hf. tauto.
  - rewrite Hx. reflexivity.
Qed.

Corollary run_type_call_conforms t name d s e s' o :
  find_desc descriptors name = Some d -> mem_str (d_name d) exceptions = false ->
  args_ok G t d e -> d_sink d = SDedupType ->
  run_descriptor d s e = Some (s', o) ->
  types s' = types s \/ exists i, types s' = types s ++ [i] /\ conforms G t i = true.
Proof.
  intros Hf Hx. apply type_call_conforms.
  pose proof descs_match as H. rewrite forallb_forall in H. apply H.
  apply filter_In. split.
  - unfold find_desc in Hf. apply find_some in Hf. tauto.
  - rewrite Hx. reflexivity.
Qed.

(** ** concrete calls *)
Definition no_desc : descriptor :=
  {| d_name := ""; d_params := []; d_opcode := 0; d_rt := RtNone; d_rid := RidNone; d_slots := [];
     d_sink := SLineRule; d_ret := RetUnit |}.
Definition the (name : string) : descriptor :=
  match find_desc descriptors name with Some d => d | None => no_desc end.

(** the instruction of a call from the empty builder and whether it conforms *)
Definition built_conf (t : tracker) (name : string) (e : env) : option (list operand * bool) :=
  match built_inst (the name) bnew e with
  | Some i => Some (i_ops i, conforms G t i)
  | None => None
  end.

Open Scope string_scope.

(** the exceptions *)
Example copy_memory_two_masks :    (* Aligned 4, then Volatile: the 4 lands after the second mask *)
  built_conf [] "copy_memory"
    [("target", AW 1); ("source", AW 2); ("memory_access", AOptW (Some 2));
     ("memory_access_2", AOptW (Some 1)); ("additional_params", AOps [OLit32 4])]
  = Some ([OIdRef 1; OIdRef 2; OEnum 6 2; OEnum 6 1; OLit32 4], false).
Proof. vm_compute. reflexivity. Qed.

Example copy_memory_one_mask :
  built_conf [] "copy_memory"
    [("target", AW 1); ("source", AW 2); ("memory_access", AOptW (Some 2));
     ("memory_access_2", AOptW None); ("additional_params", AOps [OLit32 4])]
  = Some ([OIdRef 1; OIdRef 2; OEnum 6 2; OLit32 4], true).
Proof. vm_compute. reflexivity. Qed.

Example tensor_two_masks :         (* Aligned 4, TensorView %9 *)
  built_conf [] "cooperative_matrix_store_tensor_nv"
    [("pointer", AW 1); ("object", AW 2); ("tensor_layout", AW 3); ("memory_operand", AW 2);
     ("tensor_addressing_operands", AW 1); ("additional_params", AOps [OLit32 4; OIdRef 9])]
  = Some ([OIdRef 1; OIdRef 2; OIdRef 3; OEnum 6 2; OEnum 47 1; OLit32 4; OIdRef 9], false).
Proof. vm_compute. reflexivity. Qed.

Example spec_constant_op_iadd :    (* %1 = OpSpecConstantOp %7 IAdd <nothing> *)
  built_conf [] "spec_constant_op" [("result_type", AW 7); ("opcode", AW 128)]
  = Some ([OSpecOp 128], false).
Proof. vm_compute. reflexivity. Qed.

(** F18: whatever the members and the result id, the pushed instruction does
    not conform (the entry has no IdResult) *)
Example type_struct_continued_never_conforms : forall t id ms,
  conforms G t (mk_inst 6090 None (Some id) (map OIdRef ms)) = false.
Proof.
  intros t id ms. unfold conforms. cbn [mk_inst i_opcode i_rtype i_rid i_ops].
  replace (lookup_core (gd_table G) 6090) with
    (Some {| g_name := "TypeStructContinuedINTEL"; g_opcode := 6090; g_caps := ["LongCompositesINTEL"];
             g_exts := []; g_operands := [(60, ZeroOrMore)] |}) by (vm_compute; reflexivity).
  cbn [g_operands conf_lops none nil andb negb gd_k_rt gd_k_rid G].
  change (N.eqb 60 k_rt) with false. change (N.eqb 60 k_rid) with false. cbn [negb andb]. reflexivity.
Qed.

Example type_struct_continued_pushes :
  option_map (fun r => types (fst r))
    (run_descriptor (the "type_struct_continued_intel") bnew [("member_0_type_member_1_type", AListW [3; 4])])
  = Some [mk_inst 6090 None (Some 1) [OIdRef 3; OIdRef 4]].
Proof. vm_compute. reflexivity. Qed.

(** the counterexample to [built_inst_conforms] without [d_sink d <> SDedupType] *)
Example built_inst_needs_non_dedup :
  let d := the "type_int" in
  let e := [("width", AW 32); ("signedness", AW 1)] in
  desc_matches G d = true /\ args_okb G [] d e = true /\ d_sink d = SDedupType /\
  built_inst d bnew e = Some (mk_inst 21 None None [OLit32 32; OLit32 1]) /\
  conforms G [] (mk_inst 21 None None [OLit32 32; OLit32 1]) = false /\
  (* what the call really pushes conforms *)
  conforms G [] (mk_inst 21 None (Some 1) [OLit32 32; OLit32 1]) = true.
Proof. vm_compute. repeat split; reflexivity. Qed.

(** [args_okb] on calls of matching methods: accepted calls build conforming
    instructions (the theorem), the rejected ones below do not conform *)
Definition call_ok (t : tracker) (name : string) (e : env) : bool * option (list operand * bool) :=
  (args_okb G t (the name) e, built_conf t name e).

Example decorate_builtin :         (* OpDecorate %5 BuiltIn Position *)
  call_ok [] "decorate" [("target", AW 5); ("decoration", AW 11); ("additional_params", AOps [OEnum 33 0])]
  = (true, Some ([OIdRef 5; OEnum 32 11; OEnum 33 0], true)).
Proof. vm_compute. reflexivity. Qed.
Example decorate_builtin_missing_param :
  call_ok [] "decorate" [("target", AW 5); ("decoration", AW 11); ("additional_params", AOps [])]
  = (false, Some ([OIdRef 5; OEnum 32 11], false)).
Proof. vm_compute. reflexivity. Qed.
Example decorate_unknown_enumerant :
  call_ok [] "decorate" [("target", AW 5); ("decoration", AW 99999); ("additional_params", AOps [])]
  = (false, Some ([OIdRef 5; OEnum 32 99999], false)).
Proof. vm_compute. reflexivity. Qed.
Example execution_mode_local_size :   (* LocalSize x y z: the list argument carries the parameters *)
  call_ok [] "execution_mode" [("entry_point", AW 5); ("execution_mode", AW 17); ("params", AListW [1; 2; 3])]
  = (true, Some ([OIdRef 5; OEnum 15 17; OLit32 1; OLit32 2; OLit32 3], true))
  /\ call_ok [] "execution_mode" [("entry_point", AW 5); ("execution_mode", AW 17); ("params", AListW [1; 2])]
  = (false, Some ([OIdRef 5; OEnum 15 17; OLit32 1; OLit32 2], false)).
Proof. split; vm_compute; reflexivity. Qed.
Example load_aligned :
  call_ok [] "load" [("result_type", AW 2); ("result_id", AOptW (Some 9)); ("pointer", AW 4);
                     ("memory_access", AOptW (Some 2)); ("additional_params", AOps [OLit32 4])]
  = (true, Some ([OIdRef 4; OEnum 6 2; OLit32 4], true)).
Proof. vm_compute. reflexivity. Qed.
Example source_skips_file :        (* the optional string without the optional file before it *)
  call_ok [] "source" [("source_language", AW 2); ("version", AW 450); ("file", AOptW None);
                       ("source", AOptStr (Some [97]))]
  = (false, Some ([OEnum 11 2; OLit32 450; OStr [97]], false)).
Proof. vm_compute. reflexivity. Qed.
Example constant_widths :          (* literal width by the tracked result type *)
  call_ok [(1, TInt 64 false)] "constant_bit64" [("result_type", AW 1); ("value", AW 5000000000)]
  = (true, Some ([OLit64 5000000000], true))
  /\ call_ok [(1, TInt 64 false)] "constant_bit32" [("result_type", AW 1); ("value", AW 5)]
  = (false, Some ([OLit32 5], false)).
Proof. split; vm_compute; reflexivity. Qed.
Example switch_targets :
  call_ok [(3, TInt 32 false)] "switch"
    [("selector", AW 3); ("default", AW 20); ("target", APairsOW [(OLit32 1, 21); (OLit32 2, 22)])]
  = (true, Some ([OIdRef 3; OIdRef 20; OLit32 1; OIdRef 21; OLit32 2; OIdRef 22], true))
  /\ call_ok [(3, TInt 64 false)] "switch"
    [("selector", AW 3); ("default", AW 20); ("target", APairsOW [(OLit32 1, 21)])]
  = (false, Some ([OIdRef 3; OIdRef 20; OLit32 1; OIdRef 21], false)).
Proof. split; vm_compute; reflexivity. Qed.
Example ext_inst_operands :
  call_ok [] "ext_inst" [("result_type", AW 2); ("result_id", AOptW (Some 9)); ("extension_set", AW 1);
                         ("instruction", AW 7); ("operands", AOps [OIdRef 4; OIdRef 5])]
  = (true, Some ([OIdRef 1; OExtInst 7; OIdRef 4; OIdRef 5], true)).
Proof. vm_compute. reflexivity. Qed.

(** the trailing-run restriction of [args_ok] is sufficient, not necessary:
    with two optional operands of the same kind the second alone is read as
    the first, and the instruction still conforms to the grammar *)
Example optional_shift :
  call_ok [] "reorder_thread_with_hit_object_nv"
    [("hit_object", AW 4); ("hint", AOptW None); ("bits", AOptW (Some 7))]
  = (false, Some ([OIdRef 4; OIdRef 7], true))      (* %7 is read back as the hint *)
  /\ call_ok [] "reorder_thread_with_hit_object_nv"
    [("hit_object", AW 4); ("hint", AOptW (Some 6)); ("bits", AOptW (Some 7))]
  = (true, Some ([OIdRef 4; OIdRef 6; OIdRef 7], true)).
Proof. split; vm_compute; reflexivity. Qed.

Print Assumptions built_conforms.
Print Assumptions built_inst_conforms.
Print Assumptions call_conforms.
Print Assumptions type_call_conforms.
Print Assumptions built_roundtrip.
Print Assumptions descs_match.
Print Assumptions non_matching.
Print Assumptions run_call_conforms.
Print Assumptions run_type_call_conforms.
Print Assumptions type_struct_continued_never_conforms.
Print Assumptions built_inst_needs_non_dedup.
