(** P12 - byte-level half of C06: the instruction a Builder method emits
    conforms to the grammar entry of its opcode ([Spec.Conforms.conforms]).

    - [desc_matches G d] (static, boolean): the method descriptor [d] lines up
      with the grammar entry of [d_opcode d]: result type / result id present
      exactly when the entry has IdResultType / IdResult, and the descriptor's
      slots correspond, in order, to the remaining grammar operands.
    - [args_ok G t d e] (dynamic, boolean): the call arguments [e] conform to
      the instruction's grammar (words < 2^32, enumerants / masks accepted by
      their kind, parameter operands = the parameter list of the value,
      strings NUL-free valid UTF-8, optional arguments only as a trailing
      run, context-dependent literal widths agree with the tracker [t], the
      instruction fits the 16-bit word count).
    - Theorem [built_conforms]: then the built instruction conforms.

    The check is evaluated on the descriptors of this run at the end of the
    file; the methods that cannot conform are listed in [exceptions]. *)
From RV Require Import Model.Base Model.Bytes Model.Spirv Model.Grammar Model.Module Model.Decoder
                       Model.Inst Model.Parser Model.Loader Model.Builder.
From RV Require Import Spec.Conforms Proofs.BuilderIds.

(** ------------------------------------------------------------------ *)
(** * Static side: descriptor against grammar entry                      *)
(** ------------------------------------------------------------------ *)

(** the descriptor's operand kind [ok] builds the Operand variant the slot
    [s] of a grammar kind's parse arm reads *)
Definition ok_slot (ok : okind) (s : rslot) : bool :=
  match fst s with
  | RdStr => match ok, snd s with KStrK, MkStr => true | _, _ => false end
  | _ =>
      match ok, snd s with
      | KEnumK k, MkEnum k' => N.eqb k k'
      | KIdRef, MkIdRef | KIdScope, MkIdScope | KIdMemSem, MkIdMemSem
      | KLit32, MkLit32 | KExtInst, MkExtInst => true
      | _, _ => false
      end
  end.

(** how one grammar operand is realised by the descriptor *)
Inductive check :=
| CVal (opt : bool) (s : rslot) (tb : option ptable)
      (* one value ([opt]: optional) read by slot [s]; [tb]: the parameter
         table of a parameterised kind *)
| CMany (k : N) (s : rslot)              (* k*, one-slot kind, a list argument *)
| CPairs (k : N) (s0 s1 : rslot)         (* k*, two-slot kind, a list of pairs *)
| CFree (k : N)                          (* k*, the caller supplies the operands *)
| CCtx                                   (* LiteralContextDependentNumber *)
| CPairLit.                              (* PairLiteralIntegerIdRef* of OpSwitch *)

(** the slot carrying the parameters of a parameterised enumerant / mask:
    the operand list that follows it ([DExtras]), or - for the last grammar
    operand - a list argument ([DMany], e.g. execution_mode's params) *)
Definition carrier (r : list (N * quant)) (sl : list dslot) : option dslot * list dslot :=
  match sl with
  | DExtras p :: sl' => (Some (DExtras p), sl')
  | DMany ok p :: sl' => if nil r then (Some (DMany ok p), sl') else (None, sl)
  | _ => (None, sl)
  end.

Definition step_val (opt : bool) (a : arm) (r : list (N * quant)) (sl : list dslot)
  : option (check * dslot * option dslot * list dslot) :=
  match sl with
  | main :: sl1 =>
      match (match main, opt with
             | DOne ok _, false => Some ok
             | DOpt ok _, true => Some ok
             | _, _ => None
             end) with
      | Some ok =>
          match a with
          | ASimple [s] => if ok_slot ok s then Some (CVal opt s None, main, None, sl1) else None
          | AParam s tb =>
              (* a parameterised kind needs a slot of its own for the parameters *)
              if ok_slot ok s then
                match carrier r sl1 with
                | (Some c, sl2) => Some (CVal opt s (Some tb), main, Some c, sl2)
                | (None, _) => None
                end
              else None
          | _ => None
          end
      | None => None
      end
  | [] => None
  end.

(** a variadic operand is the last grammar operand and takes the last slot *)
Definition step_star (k : N) (a : arm) (r : list (N * quant)) (sl : list dslot)
  : option (check * dslot * option dslot * list dslot) :=
  match r, sl with
  | [], [main] =>
      match main with
      | DExtras _ => Some (CFree k, main, None, [])
      | DMany ok _ =>
          match a with
          | ASimple [s] => if ok_slot ok s then Some (CMany k s, main, None, []) else None
          | _ => None
          end
      | DPairs ok0 ok1 _ =>
          match a with
          | ASimple [s0; s1] =>
              if ok_slot ok0 s0 && ok_slot ok1 s1 then Some (CPairs k s0 s1, main, None, []) else None
          | _ => None
          end
      | _ => None
      end
  | _, _ => None
  end.

Definition is_lit (ok : okind) : bool := match ok with KLit32 | KLit64 => true | _ => false end.

Definition step_ctx (opc : N) (has_rt : bool) (q : quant) (sl : list dslot)
  : option (check * dslot * option dslot * list dslot) :=
  match q, sl with
  | One, DOne ok p :: sl1 =>
      if (N.eqb opc OP_CONSTANT || N.eqb opc OP_SPEC_CONSTANT) && has_rt && is_lit ok
      then Some (CCtx, DOne ok p, None, sl1) else None
  | _, _ => None
  end.

Definition step_pairlit (opc : N) (q : quant) (r : list (N * quant)) (sl : list dslot)
  : option (check * dslot * option dslot * list dslot) :=
  match q, r, sl with
  | ZeroOrMore, [], [DPairs KOperand KIdRef p] =>
      if N.eqb opc OP_SWITCH then Some (CPairLit, DPairs KOperand KIdRef p, None, []) else None
  | _, _, _ => None
  end.

(** one grammar operand [(k, q)] (the grammar continues with [r]) against the
    front of the slot list: the check, the slot, the parameter carrier, the
    slots left.  [None]: the descriptor does not follow the grammar (or uses a
    shape this development does not cover: OpSpecConstantOp's embedded
    opcode, a variadic operand that is not the last one). *)
Definition step (G : gdata) (opc : N) (has_rt : bool) (kq : N * quant) (r : list (N * quant))
           (sl : list dslot) : option (check * dslot * option dslot * list dslot) :=
  let '(k, q) := kq in
  if N.eqb k (gd_k_rt G) || N.eqb k (gd_k_rid G) then None
  else if N.eqb k (gd_k_ctx G) then step_ctx opc has_rt q sl
  else if N.eqb k (gd_k_pairlitid G) then step_pairlit opc q r sl
  else if N.eqb k (gd_k_specop G) then None
  else
    match nth_error (gd_arms G) (N.to_nat k) with
    | Some a =>
        match q with
        | One => step_val false a r sl
        | ZeroOrOne => step_val true a r sl
        | ZeroOrMore => step_star k a r sl
        end
    | None => None
    end.

Fixpoint match_slots (G : gdata) (opc : N) (has_rt : bool) (lops : list (N * quant)) (sl : list dslot) : bool :=
  match lops with
  | [] => nil sl
  | kq :: r =>
      match step G opc has_rt kq r sl with
      | Some (_, _, _, sl') => match_slots G opc has_rt r sl'
      | None => false
      end
  end.

(** does the emitted instruction carry a result id?  ([None]: a combination
    of result-id mode and sink the builder never uses)
    - the type methods (sink SDedupType) always push an instruction with a
      result id (the explicit one or a fresh one);
    - elsewhere RidFresh / RidOptParamElseFresh settle on an id, RidNone /
      RidConstNone on none. *)
Definition has_rid (d : descriptor) : option bool :=
  match d_sink d, d_rid d with
  | SDedupType, (RidOptParam _ | RidConstNone) => Some true
  | SDedupType, _ => None
  | _, (RidFresh | RidOptParamElseFresh _) => Some true
  | _, (RidNone | RidConstNone) => Some false
  | _, RidOptParam _ => None
  end.

Definition has_rt (d : descriptor) : bool := match d_rt d with RtNone => false | RtParam _ => true end.

(** the leading IdResultType / IdResult of the entry, present exactly when
    the method supplies them *)
Definition strip_res (G : gdata) (rt rid : bool) (lops : list (N * quant)) : option (list (N * quant)) :=
  let after_rt :=
    if rt then
      match lops with
      | (k, One) :: r => if N.eqb k (gd_k_rt G) then Some r else None
      | _ => None
      end
    else Some lops in
  match after_rt with
  | Some l1 =>
      if rid then
        match l1 with
        | (k, One) :: r => if N.eqb k (gd_k_rid G) && negb (N.eqb k (gd_k_rt G)) then Some r else None
        | _ => None
        end
      else Some l1
  | None => None
  end.

Definition desc_matches (G : gdata) (d : descriptor) : bool :=
  match lookup_core (gd_table G) (d_opcode d), has_rid d with
  | Some g, Some rid =>
      match strip_res G (has_rt d) rid (g_operands g) with
      | Some lops => match_slots G (d_opcode d) (has_rt d) lops (d_slots d)
      | None => false
      end
  | _, _ => false
  end.

(** ------------------------------------------------------------------ *)
(** * Dynamic side: the call arguments                                   *)
(** ------------------------------------------------------------------ *)

(** a word argument: fits 32 bits and, for an enumerant / mask slot, is a
    declared enumerant / uses declared bits only *)
Definition word_ok (s : rslot) (v : N) : bool :=
  (v <? w32) && match fst s with RdTyped c => conv_accepts c v | _ => true end.

(** an argument, as the operand it became: strings NUL-free valid UTF-8,
    anything else by its word value *)
Definition arg_ok (s : rslot) (o : operand) : bool :=
  match o with
  | OStr b => str_ok b
  | _ => word_ok s (operand_value o)
  end.

Fixpoint pairs_args_ok (s0 s1 : rslot) (os : list operand) : bool :=
  match os with
  | [] => true
  | o0 :: os1 =>
      match os1 with
      | o1 :: r => arg_ok s0 o0 && arg_ok s1 o1 && pairs_args_ok s0 s1 r
      | [] => false
      end
  end.

(** the parameters the value [o] requires (none for a plain kind) *)
Definition params_of (tb : option ptable) (o : operand) : list rslot :=
  match tb with Some tb => table_params tb (operand_value o) | None => [] end.

(** [a]: the operands of the slot, [cops]: those of its parameter carrier,
    [acc]: all operands before them, [ity]: the result type argument *)
Definition check_ok (G : gdata) (t : tracker) (ity : option N) (acc : list operand)
           (ch : check) (a cops : list operand) : bool :=
  match ch with
  | CVal _ s tb =>
      match a with
      | [] => nil cops                       (* optional argument absent: no parameters either *)
      | [o] =>
          arg_ok s o &&
          match split_slots (params_of tb o) cops with    (* exactly the value's parameter list *)
          | Some (_, []) => true
          | _ => false
          end
      | _ => false
      end
  | CMany _ s => forallb (arg_ok s) a
  | CPairs _ s0 s1 => pairs_args_ok s0 s1 a
  | CFree k => split_star G k (length a) a
  | CCtx =>
      match ity, a with
      | Some id, [o] => literal_ok t id o    (* width by the tracked result type *)
      | _, _ => false
      end
  | CPairLit =>
      nil a ||
      match acc with
      | OIdRef sel :: _ => pairs_ok t sel a  (* widths by the tracked selector type *)
      | _ => false
      end
  end.

Definition car_ops (e : env) (c : option dslot) : option (list operand) :=
  match c with Some c => slot_operands e c | None => Some [] end.

(** an absent optional argument: everything after it must be empty *)
Definition stops (ch : check) (a : list operand) : bool :=
  match ch, a with CVal true _ _, [] => true | _, _ => false end.

Fixpoint slots_ok (G : gdata) (t : tracker) (opc : N) (hrt : bool) (ity : option N) (e : env)
         (acc : list operand) (lops : list (N * quant)) (sl : list dslot) : bool :=
  match lops with
  | [] => true
  | kq :: r =>
      match step G opc hrt kq r sl with
      | Some (ch, main, c, sl') =>
          match slot_operands e main, car_ops e c with
          | Some a, Some cops =>
              check_ok G t ity acc ch a cops &&
              (if stops ch a
               then match all_operands e sl' with Some [] => true | _ => false end
               else slots_ok G t opc hrt ity e (acc ++ a ++ cops) r sl')
          | _, _ => false
          end
      | None => false
      end
  end.

(** explicit result type / result id arguments are words *)
Definition rt_arg_ok (d : descriptor) (e : env) : bool :=
  match d_rt d with
  | RtNone => true
  | RtParam p => match assoc p e with Some (AW v) => v <? w32 | _ => false end
  end.

Definition rid_arg_ok (d : descriptor) (e : env) : bool :=
  match d_rid d with
  | RidOptParam p | RidOptParamElseFresh p =>
      match assoc p e with Some (AOptW (Some v)) => v <? w32 | _ => true end
  | _ => true
  end.

(** words of the assembled instruction: first word, result type, result id, operands *)
Definition inst_words (rt : option N) (rid : bool) (ops : list operand) : nat :=
  S (length (oword rt) + (if rid then 1 else 0) + length (flat_map asm_operand ops)).

Definition args_okb (G : gdata) (t : tracker) (d : descriptor) (e : env) : bool :=
  match lookup_core (gd_table G) (d_opcode d), has_rid d, call_parts d e with
  | Some g, Some rid, Some (rt, ops) =>
      match strip_res G (has_rt d) rid (g_operands g) with
      | Some lops =>
          rt_arg_ok d e && rid_arg_ok d e
          && slots_ok G t (d_opcode d) (has_rt d) rt e [] lops (d_slots d)
          && (N.of_nat (inst_words rt rid ops) <? 65536)
      | None => false
      end
  | _, _, _ => false
  end.

Definition args_ok (G : gdata) (t : tracker) (d : descriptor) (e : env) : Prop := args_okb G t d e = true.

(** ------------------------------------------------------------------ *)
(** * Proofs                                                             *)
(** ------------------------------------------------------------------ *)

(** ** split_slots / split_star *)
Lemma split_slots_app ss : forall os a rest x,
  split_slots ss os = Some (a, rest) -> split_slots ss (os ++ x) = Some (a, rest ++ x).
Proof.
  induction ss as [|s r IH]; intros os a rest x H; cbn [split_slots] in *.
  - inversion H; subst. reflexivity.
  - destruct os as [|o os1]; [discriminate|]. cbn [app].
    destruct (slot_ok s o); [|discriminate].
    destruct (split_slots r os1) as [[a1 r1]|] eqn:E; [|discriminate].
    inversion H; subst. rewrite (IH _ _ _ x E). reflexivity.
Qed.

Lemma split_slots_eq ss : forall os a rest, split_slots ss os = Some (a, rest) -> os = a ++ rest.
Proof.
  induction ss as [|s r IH]; intros os a rest H; cbn [split_slots] in *.
  - inversion H; subst. reflexivity.
  - destruct os as [|o os1]; [discriminate|].
    destruct (slot_ok s o); [|discriminate].
    destruct (split_slots r os1) as [[a1 r1]|] eqn:E; [|discriminate].
    inversion H; subst. cbn [app]. f_equal. apply IH. exact E.
Qed.

Lemma star_nil G k n : split_star G k n [] = true.
Proof. destruct n; reflexivity. Qed.

(** ** what a slot produces *)
Definition produced (ok : okind) (o : operand) : Prop :=
  match ok with
  | KStrK => exists b, o = OStr b
  | _ => exists v, o = mk_op ok v
  end.

Lemma produced_mk_op ok v : produced ok (mk_op ok v).
Proof. destruct ok; cbn [produced mk_op]; eauto. Qed.

Lemma one_produced e ok p a : slot_operands e (DOne ok p) = Some a -> exists o, a = [o] /\ produced ok o.
Proof.
  destruct ok; cbn [slot_operands produced]; destruct (assoc p e) as [[]|]; intros H; inversion H; subst;
    eexists; (split; [reflexivity|]); eexists; reflexivity.
Qed.

Lemma opt_produced e ok p a :
  slot_operands e (DOpt ok p) = Some a -> a = [] \/ exists o, a = [o] /\ produced ok o.
Proof.
  destruct ok; cbn [slot_operands produced]; destruct (assoc p e) as [[]|]; intros H; try discriminate;
    match type of H with context [match ?v with _ => _ end] => destruct v end;
    inversion H; subst; auto; right; eexists; (split; [reflexivity|]); eexists; reflexivity.
Qed.

Lemma many_produced e ok p a : slot_operands e (DMany ok p) = Some a -> Forall (produced ok) a.
Proof.
  cbn [slot_operands]. destruct (assoc p e) as [[]|]; intros H; inversion H; subst.
  apply Forall_forall. intros o Ho. apply in_map_iff in Ho as [v [<- _]]. apply produced_mk_op.
Qed.

Lemma pairs_produced e ok0 ok1 p a : ok0 <> KOperand ->
  slot_operands e (DPairs ok0 ok1 p) = Some a ->
  exists l, a = flat_map (fun x : N * N => [mk_op ok0 (fst x); mk_op ok1 (snd x)]) l.
Proof.
  intros Hne. destruct ok0; try congruence; cbn [slot_operands];
    destruct (assoc p e) as [[]|]; intros H; inversion H; subst; eauto.
Qed.

(** ** the argument check implies the slot check of the specification *)
Lemma ok_slot_not_operand s : ok_slot KOperand s = false.
Proof. destruct s as [[] []]; reflexivity. Qed.

Lemma arg_slot ok s o : ok_slot ok s = true -> produced ok o -> arg_ok s o = true -> slot_ok s o = true.
Proof.
  destruct s as [r m]. unfold ok_slot, arg_ok, word_ok, slot_ok. cbn [fst snd].
  destruct r as [| |c].
  - destruct ok, m; try discriminate; intros H [v ->] A; cbn [mk_op word_operand operand_value] in *;
      try (apply andb_prop in A as [A _]; exact A).
    apply N.eqb_eq in H. subst. rewrite N.eqb_refl. apply andb_prop in A as [A _]. exact A.
  - destruct ok, m; try discriminate. intros _ [b ->] A. exact A.
  - destruct ok, m; try discriminate; intros H [v ->] A; cbn [mk_op word_operand operand_value] in *;
      apply andb_prop in A as [A1 A2]; rewrite A1, A2; try reflexivity.
    apply N.eqb_eq in H. subst. rewrite N.eqb_refl. reflexivity.
Qed.

(** ** ordinary kinds in [conf_lops] *)
Definition ordinary (G : gdata) (k : N) : Prop :=
  N.eqb k (gd_k_rt G) = false /\ N.eqb k (gd_k_rid G) = false /\ N.eqb k (gd_k_ctx G) = false /\
  N.eqb k (gd_k_pairlitid G) = false /\ N.eqb k (gd_k_specop G) = false.

Lemma conf_lops_nil_os G t opc ity k q r acc : q <> One ->
  conf_lops G t opc ity ((k, q) :: r) None None acc [] = true.
Proof. intros H. cbn [conf_lops none nil andb]. destruct q; congruence || reflexivity. Qed.

Lemma conf_lops_ord G t opc ity k q r acc o os : ordinary G k ->
  conf_lops G t opc ity ((k, q) :: r) None None acc (o :: os) =
  if variadic q then split_star G k (length (o :: os)) (o :: os)
  else match split_kind G k (o :: os) with
       | Some (a, os1) => conf_lops G t opc ity r None None (acc ++ a) os1
       | None => false
       end.
Proof.
  intros (H1 & H2 & H3 & H4 & H5). cbn [conf_lops none nil andb negb].
  rewrite H1, H2, H3, H4, H5. reflexivity.
Qed.

Section Step.
Variables (G : gdata) (t : tracker) (opc : N) (hrt : bool) (ity : option N) (e : env).

Notation CL := (conf_lops G t opc ity).

(** the conclusion of one step: the absent-optional case closes the
    instruction, every other case continues with the remaining grammar *)
Definition step_goal (k : N) (q : quant) (r : list (N * quant)) (acc : list operand)
           (ch : check) (a cops : list operand) (sl' : list dslot) : Prop :=
  forall os', all_operands e sl' = Some os' ->
    (stops ch a = true -> os' = [] -> CL ((k, q) :: r) None None acc (a ++ cops ++ os') = true) /\
    (stops ch a = false -> CL r None None (acc ++ a ++ cops) os' = true ->
     CL ((k, q) :: r) None None acc (a ++ cops ++ os') = true).

(** *** one value, possibly optional, possibly with parameters *)
Lemma val_conf k s tb o cops os' r acc q : ordinary G k -> q <> ZeroOrMore ->
  nth_error (gd_arms G) (N.to_nat k) = Some (match tb with Some tb => AParam s tb | None => ASimple [s] end) ->
  slot_ok s o = true ->
  split_slots (params_of tb o) cops = Some (cops, []) ->
  CL r None None (acc ++ [o] ++ cops) os' = true ->
  CL ((k, q) :: r) None None acc ([o] ++ cops ++ os') = true.
Proof.
  intros Hord Hq Harm Hs Hp Hrec. cbn [app]. rewrite conf_lops_ord by exact Hord.
  replace (variadic q) with false by (destruct q; congruence || reflexivity).
  unfold split_kind. rewrite Harm.
  apply (split_slots_app _ _ _ _ os') in Hp. cbn [app] in Hp.
  destruct tb as [tb|]; cbn [params_of] in Hp.
  - rewrite Hs, Hp. exact Hrec.
  - cbn [split_slots] in *. rewrite Hs.
    destruct cops as [|c0 cops]; [|discriminate]. cbn [app] in *. exact Hrec.
Qed.

Lemma step_val_conf opt arm k q r acc sl ch main c sl' a cops :
  step_val opt arm r sl = Some (ch, main, c, sl') ->
  nth_error (gd_arms G) (N.to_nat k) = Some arm -> ordinary G k ->
  q = (if opt then ZeroOrOne else One) ->
  slot_operands e main = Some a -> car_ops e c = Some cops ->
  check_ok G t ity acc ch a cops = true ->
  step_goal k q r acc ch a cops sl'.
Proof.
  intros Hstep Harm Hord Hq Ha Hc Hchk os' Hos'.
  unfold step_val in Hstep. destruct sl as [|main0 sl1]; [discriminate|].
  (* the slot form and the produced operand(s) *)
  assert (Hform: exists ok, ((opt = false /\ exists p, main0 = DOne ok p) \/ (opt = true /\ exists p, main0 = DOpt ok p)) /\
            match arm with
            | ASimple [s] => if ok_slot ok s then Some (CVal opt s None, main0, None, sl1) else None
            | AParam s tb =>
                if ok_slot ok s then
                  match carrier r sl1 with
                  | (Some c, sl2) => Some (CVal opt s (Some tb), main0, Some c, sl2)
                  | (None, _) => None
                  end
                else None
            | _ => None
            end = Some (ch, main, c, sl')).
  { destruct main0 as [ok p|ok p|ok p|ok0 ok1 p|p], opt; try discriminate; exists ok; split; eauto. }
  clear Hstep. destruct Hform as (ok & Hmain0 & Hstep).
  assert (Hinv: exists s tb, ch = CVal opt s tb /\ main = main0 /\ ok_slot ok s = true /\
                  arm = match tb with Some tb => AParam s tb | None => ASimple [s] end).
  { destruct arm as [|[|s [|]]|s tb]; try discriminate.
    - destruct (ok_slot ok s) eqn:Eok; [|discriminate]. inversion Hstep; subst. exists s, None. auto.
    - destruct (ok_slot ok s) eqn:Eok; [|discriminate].
      destruct (carrier r sl1) as [[c1|] sl2]; [|discriminate].
      inversion Hstep; subst. exists s, (Some tb). auto. }
  clear Hstep. destruct Hinv as (s & tb & -> & -> & Hok & ->).
  assert (Hprod: (a = [] /\ opt = true) \/ exists o, a = [o] /\ produced ok o).
  { destruct Hmain0 as [[-> [p ->]]|[-> [p ->]]].
    - right. apply one_produced in Ha. exact Ha.
    - apply opt_produced in Ha as [->|Ha]; auto. }
  cbn [check_ok] in Hchk.
  destruct Hprod as [[-> ->]|[o [-> Hprod]]].
  - (* absent optional *)
    subst q. destruct cops as [|c0 cops]; [|discriminate]. cbn [stops app]. split.
    + intros _ ->. apply conf_lops_nil_os. discriminate.
    + discriminate.
  - apply andb_prop in Hchk as [Harg Hpar].
    destruct (split_slots (params_of tb o) cops) as [[pa [|]]|] eqn:Esp; try discriminate.
    pose proof (split_slots_eq _ _ _ _ Esp) as Heq. rewrite app_nil_r in Heq. subst pa.
    assert (Hst: stops (CVal opt s tb) [o] = false) by (destruct opt; reflexivity).
    rewrite Hst. split; [discriminate|]. intros _ Hrec.
    apply val_conf with (s := s) (tb := tb); try assumption.
    + subst q. destruct opt; discriminate.
    + apply arg_slot with (ok := ok); assumption.
Qed.

(** *** a variadic operand *)
Lemma many_star k s ok : nth_error (gd_arms G) (N.to_nat k) = Some (ASimple [s]) -> ok_slot ok s = true ->
  forall a, Forall (produced ok) a -> forallb (arg_ok s) a = true ->
  forall n, (length a <= n)%nat -> split_star G k n a = true.
Proof.
  intros Harm Hok. induction a as [|o a IH]; intros HP HA n Hn.
  - apply star_nil.
  - destruct n as [|n]; [cbn [length] in Hn; lia|]. cbn [split_star].
    inversion HP as [|? ? Hpo HP']; subst. cbn [forallb] in HA. apply andb_prop in HA as [HAo HA'].
    unfold split_kind. rewrite Harm. cbn [split_slots].
    rewrite (arg_slot ok s o Hok Hpo HAo). apply IH; try assumption. cbn [length] in Hn. lia.
Qed.

Lemma pairs_star k s0 s1 ok0 ok1 :
  nth_error (gd_arms G) (N.to_nat k) = Some (ASimple [s0; s1]) -> ok_slot ok0 s0 = true -> ok_slot ok1 s1 = true ->
  forall l n, let a := flat_map (fun x : N * N => [mk_op ok0 (fst x); mk_op ok1 (snd x)]) l in
  pairs_args_ok s0 s1 a = true -> (length a <= n)%nat -> split_star G k n a = true.
Proof.
  intros Harm H0 H1. induction l as [|[x y] l IH]; intros n a HA Hn; subst a.
  - apply star_nil.
  - cbn [flat_map app fst snd] in *. destruct n as [|n]; [cbn [length] in Hn; lia|]. cbn [split_star].
    cbn [pairs_args_ok] in HA. apply andb_prop in HA as [HA HA']. apply andb_prop in HA as [HAx HAy].
    unfold split_kind. rewrite Harm. cbn [split_slots].
    rewrite (arg_slot ok0 s0 _ H0 (produced_mk_op ok0 x) HAx).
    rewrite (arg_slot ok1 s1 _ H1 (produced_mk_op ok1 y) HAy).
    apply IH; [exact HA'|]. cbn [length] in Hn. lia.
Qed.

Lemma step_star_conf arm k r acc sl ch main c sl' a cops :
  step_star k arm r sl = Some (ch, main, c, sl') ->
  nth_error (gd_arms G) (N.to_nat k) = Some arm -> ordinary G k ->
  slot_operands e main = Some a -> car_ops e c = Some cops ->
  check_ok G t ity acc ch a cops = true ->
  step_goal k ZeroOrMore r acc ch a cops sl'.
Proof.
  intros Hstep Harm Hord Ha Hc Hchk os' Hos'.
  unfold step_star in Hstep. destruct r as [|? ?]; [|discriminate].
  destruct sl as [|main0 [|? ?]]; try discriminate.
  assert (Hfin: c = None /\ sl' = [] /\ main = main0 /\
                split_star G k (length a) a = true /\ stops ch a = false).
  { destruct main0 as [ok p|ok p|ok p|ok0 ok1 p|p]; try discriminate.
    - destruct arm as [|[|s [|]]|]; try discriminate.
      destruct (ok_slot ok s) eqn:Eok; [|discriminate]. inversion Hstep; subst.
      split; [reflexivity|]. split; [reflexivity|]. split; [reflexivity|]. split; [|reflexivity].
      cbn [check_ok] in Hchk. apply many_star with (s := s) (ok := ok); auto.
      apply many_produced in Ha. exact Ha.
    - destruct arm as [|[|s0 [|s1 [|]]]|]; try discriminate.
      destruct (ok_slot ok0 s0) eqn:E0; [|discriminate]. destruct (ok_slot ok1 s1) eqn:E1; [|discriminate].
      cbn [andb] in Hstep. inversion Hstep; subst.
      split; [reflexivity|]. split; [reflexivity|]. split; [reflexivity|]. split; [|reflexivity].
      cbn [check_ok] in Hchk.
      assert (Hne: ok0 <> KOperand) by (intros ->; rewrite ok_slot_not_operand in E0; discriminate).
      destruct (pairs_produced _ _ _ _ _ Hne Ha) as [l ->].
      apply pairs_star with (s0 := s0) (s1 := s1); auto.
    - inversion Hstep; subst.
      split; [reflexivity|]. split; [reflexivity|]. split; [reflexivity|]. split; [|reflexivity].
      exact Hchk. }
  destruct Hfin as (-> & -> & -> & Hstar & Hst). rewrite Hst.
  cbn [car_ops] in Hc. inversion Hc; subst cops. cbn [all_operands] in Hos'. inversion Hos'; subst os'.
  split; [discriminate|]. intros _ _. cbn [app]. rewrite app_nil_r.
  destruct a as [|o a]; [apply conf_lops_nil_os; discriminate|].
  rewrite conf_lops_ord by exact Hord. cbn [variadic]. exact Hstar.
Qed.

(** *** the context-dependent literal of OpConstant / OpSpecConstant *)
Lemma step_ctx_conf k q r acc sl ch main c sl' a cops :
  step_ctx opc hrt q sl = Some (ch, main, c, sl') ->
  N.eqb k (gd_k_rt G) = false -> N.eqb k (gd_k_rid G) = false -> N.eqb k (gd_k_ctx G) = true ->
  slot_operands e main = Some a -> car_ops e c = Some cops ->
  check_ok G t ity acc ch a cops = true ->
  step_goal k q r acc ch a cops sl'.
Proof.
  intros Hstep H1 H2 H3 Ha Hc Hchk os' Hos'.
  unfold step_ctx in Hstep. destruct q; try discriminate.
  destruct sl as [|[ok p|ok p|ok p|ok0 ok1 p|p] sl1]; try discriminate.
  destruct ((N.eqb opc OP_CONSTANT || N.eqb opc OP_SPEC_CONSTANT) && hrt && is_lit ok) eqn:Ec; [|discriminate].
  inversion Hstep; subst. clear Hstep.
  apply andb_prop in Ec as [Ec _]. apply andb_prop in Ec as [Eopc _].
  cbn [car_ops] in Hc. inversion Hc; subst cops.
  cbn [check_ok] in Hchk. destruct ity as [id|]; [|discriminate].
  destruct a as [|o [|]]; try discriminate.
  cbn [stops]. split; [discriminate|]. intros _ Hrec. cbn [app] in *.
  cbn [conf_lops none nil andb negb]. rewrite H1, H2, H3, Eopc. cbn [variadic negb andb].
  rewrite Hchk. cbn [andb]. exact Hrec.
Qed.

(** *** the (literal, label) pairs of OpSwitch *)
Lemma step_pairlit_conf k q r acc sl ch main c sl' a cops :
  step_pairlit opc q r sl = Some (ch, main, c, sl') ->
  N.eqb k (gd_k_rt G) = false -> N.eqb k (gd_k_rid G) = false -> N.eqb k (gd_k_ctx G) = false ->
  N.eqb k (gd_k_pairlitid G) = true ->
  slot_operands e main = Some a -> car_ops e c = Some cops ->
  check_ok G t ity acc ch a cops = true ->
  step_goal k q r acc ch a cops sl'.
Proof.
  intros Hstep H1 H2 H3 H4 Ha Hc Hchk os' Hos'.
  unfold step_pairlit in Hstep. destruct q; try discriminate. destruct r as [|? ?]; [|discriminate].
  destruct sl as [|[ok p|ok p|ok p|ok0 ok1 p|p] [|? ?]]; try discriminate.
  destruct ok0; try discriminate. destruct ok1; try discriminate.
  destruct (N.eqb opc OP_SWITCH) eqn:Eopc; [|discriminate].
  inversion Hstep; subst. clear Hstep.
  cbn [car_ops] in Hc. inversion Hc; subst cops. cbn [all_operands] in Hos'. inversion Hos'; subst os'.
  cbn [stops]. split; [discriminate|]. intros _ _. rewrite !app_nil_r.
  destruct a as [|o a]; [apply conf_lops_nil_os; discriminate|].
  cbn [check_ok nil orb] in Hchk.
  cbn [conf_lops none nil andb negb]. rewrite H1, H2, H3, H4, Eopc. cbn [andb variadic].
  destruct acc as [|[] ?]; try discriminate. exact Hchk.
Qed.

(** *** one step *)
Lemma step_conf k q r acc sl ch main c sl' a cops :
  step G opc hrt (k, q) r sl = Some (ch, main, c, sl') ->
  slot_operands e main = Some a -> car_ops e c = Some cops ->
  check_ok G t ity acc ch a cops = true ->
  step_goal k q r acc ch a cops sl'.
Proof.
  intros Hstep Ha Hc Hchk. unfold step in Hstep.
  destruct (N.eqb k (gd_k_rt G)) eqn:E1; [discriminate|].
  destruct (N.eqb k (gd_k_rid G)) eqn:E2; [discriminate|]. cbn [orb] in Hstep.
  destruct (N.eqb k (gd_k_ctx G)) eqn:E3.
  { eapply step_ctx_conf; eassumption. }
  destruct (N.eqb k (gd_k_pairlitid G)) eqn:E4.
  { eapply step_pairlit_conf; eassumption. }
  destruct (N.eqb k (gd_k_specop G)) eqn:E5; [discriminate|].
  assert (Hord: ordinary G k) by (unfold ordinary; auto).
  destruct (nth_error (gd_arms G) (N.to_nat k)) as [arm|] eqn:Harm; [|discriminate].
  destruct q.
  - eapply step_val_conf with (opt := false); try eassumption. reflexivity.
  - eapply step_val_conf with (opt := true); try eassumption. reflexivity.
  - eapply step_star_conf; eassumption.
Qed.

(** the slots a step consumes are the front of the slot list *)
Lemma step_slots kq r sl ch main c sl' :
  step G opc hrt kq r sl = Some (ch, main, c, sl') ->
  sl = main :: match c with Some c => c :: sl' | None => sl' end.
Proof.
  destruct kq as [k q]. unfold step.
  destruct (N.eqb k (gd_k_rt G) || N.eqb k (gd_k_rid G)); [discriminate|].
  destruct (N.eqb k (gd_k_ctx G)).
  { unfold step_ctx. destruct q; try discriminate.
    destruct sl as [|[ok p|ok p|ok p|ok0 ok1 p|p] sl1]; try discriminate.
    destruct (_ && _); [|discriminate]. intros H; inversion H; subst. reflexivity. }
  destruct (N.eqb k (gd_k_pairlitid G)).
  { unfold step_pairlit. destruct q; try discriminate. destruct r; [|discriminate].
    destruct sl as [|[ok p|ok p|ok p|ok0 ok1 p|p] [|? ?]]; try discriminate.
    destruct ok0; try discriminate. destruct ok1; try discriminate.
    destruct (N.eqb opc OP_SWITCH); [|discriminate]. intros H; inversion H; subst. reflexivity. }
  destruct (N.eqb k (gd_k_specop G)); [discriminate|].
  destruct (nth_error (gd_arms G) (N.to_nat k)) as [arm|]; [|discriminate].
  assert (Hval: forall opt, step_val opt arm r sl = Some (ch, main, c, sl') ->
                sl = main :: match c with Some c => c :: sl' | None => sl' end).
  { intros opt. unfold step_val. destruct sl as [|main0 sl1]; [discriminate|].
    destruct (match main0, opt with DOne ok _, false => Some ok | DOpt ok _, true => Some ok | _, _ => None end)
      as [ok|]; [|discriminate].
    destruct arm as [|[|s [|]]|s tb]; try discriminate.
    - destruct (ok_slot ok s); [|discriminate]. intros H; inversion H; subst. reflexivity.
    - destruct (ok_slot ok s); [|discriminate].
      destruct (carrier r sl1) as [[c1|] sl2] eqn:Ecar; [|discriminate].
      intros H; inversion H; subst. f_equal.
      unfold carrier in Ecar. destruct sl1 as [|[ok' p|ok' p|ok' p|ok0 ok1 p|p] sl1']; try discriminate.
      + destruct (nil r); inversion Ecar; subst; reflexivity.
      + inversion Ecar; subst; reflexivity. }
  destruct q; [apply Hval|apply Hval|].
  unfold step_star. destruct r; [|discriminate]. destruct sl as [|main0 [|? ?]]; try discriminate.
  destruct main0 as [ok p|ok p|ok p|ok0 ok1 p|p]; try discriminate.
  - destruct arm as [|[|s [|]]|]; try discriminate. destruct (ok_slot ok s); [|discriminate].
    intros H; inversion H; subst. reflexivity.
  - destruct arm as [|[|s0 [|s1 [|]]]|]; try discriminate. destruct (_ && _); [|discriminate].
    intros H; inversion H; subst. reflexivity.
  - intros H; inversion H; subst. reflexivity.
Qed.

Lemma all_operands_step sl main c sl' os :
  sl = main :: match c with Some c => c :: sl' | None => sl' end ->
  all_operands e sl = Some os ->
  exists a cops os', slot_operands e main = Some a /\ car_ops e c = Some cops /\
                     all_operands e sl' = Some os' /\ os = a ++ cops ++ os'.
Proof.
  intros -> H. cbn [all_operands] in H.
  destruct (slot_operands e main) as [a|]; [|discriminate].
  destruct c as [c|]; cbn [car_ops].
  - cbn [all_operands] in H. destruct (slot_operands e c) as [cops|]; [|discriminate].
    destruct (all_operands e sl') as [os'|]; [|discriminate]. inversion H; subst. eauto 8.
  - destruct (all_operands e sl') as [os'|]; [|discriminate]. inversion H; subst.
    exists a, [], os'. auto.
Qed.

(** ** all slots against the grammar operands after result type / id *)
Lemma slots_conf : forall lops sl acc os,
  match_slots G opc hrt lops sl = true ->
  slots_ok G t opc hrt ity e acc lops sl = true ->
  all_operands e sl = Some os ->
  CL lops None None acc os = true.
Proof.
  induction lops as [|[k q] r IH]; intros sl acc os HM HS HO.
  - cbn [match_slots] in HM. destruct sl; [|discriminate]. cbn [all_operands] in HO. inversion HO. reflexivity.
  - cbn [match_slots] in HM. cbn [slots_ok] in HS.
    destruct (step G opc hrt (k, q) r sl) as [[[[ch main] c] sl']|] eqn:Est; [|discriminate].
    pose proof (step_slots _ _ _ _ _ _ _ Est) as Hsl.
    destruct (all_operands_step _ _ _ _ _ Hsl HO) as (a & cops & os' & Ha & Hc & Hos' & ->).
    rewrite Ha, Hc in HS. apply andb_prop in HS as [Hchk HS].
    destruct (step_conf _ _ _ _ _ _ _ _ _ _ _ Est Ha Hc Hchk os' Hos') as [Hstop Hgo].
    destruct (stops ch a) eqn:Est2.
    + rewrite Hos' in HS. destruct os'; [|discriminate]. apply Hstop; reflexivity.
    + apply Hgo; [reflexivity|]. apply IH with (sl := sl'); assumption.
Qed.

(** ** the leading result type / result id *)
Lemma strip_conf rt rid lops0 lops prt prid os :
  strip_res G rt rid lops0 = Some lops ->
  (if rt then exists v, prt = Some v /\ v < w32 else prt = None) ->
  (if rid then exists v, prid = Some v /\ v < w32 else prid = None) ->
  CL lops None None [] os = true ->
  CL lops0 prt prid [] os = true.
Proof.
  unfold strip_res. intros Hs Hrt Hrid Hrec.
  assert (Hridstep: forall l1, (if rid then
             match l1 with
             | (k, One) :: r => if N.eqb k (gd_k_rid G) && negb (N.eqb k (gd_k_rt G)) then Some r else None
             | _ => None
             end else Some l1) = Some lops -> CL l1 None prid [] os = true).
  { intros l1 H. destruct rid.
    - destruct Hrid as (w & -> & Hw). destruct l1 as [|[k []] r]; try discriminate.
      destruct (N.eqb k (gd_k_rid G)) eqn:E1; [|discriminate].
      destruct (N.eqb k (gd_k_rt G)) eqn:E2; [discriminate|]. cbn [andb negb] in H. inversion H; subst.
      cbn [conf_lops none nil andb negb]. rewrite E1, E2. cbn [variadic negb andb].
      apply N.ltb_lt in Hw. rewrite Hw. exact Hrec.
    - subst prid. inversion H; subst. exact Hrec. }
  destruct rt.
  - destruct Hrt as (v & -> & Hv). destruct lops0 as [|[k []] r]; try discriminate.
    destruct (N.eqb k (gd_k_rt G)) eqn:E1; [|discriminate].
    cbn [conf_lops none nil andb negb]. rewrite E1. cbn [variadic negb andb].
    apply N.ltb_lt in Hv. rewrite Hv. cbn [andb]. apply Hridstep. exact Hs.
  - subst prt. apply Hridstep. exact Hs.
Qed.

End Step.
