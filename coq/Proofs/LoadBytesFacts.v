(** P8: loading from bytes = scanning the bytes into an instruction list
    (the stream the parser sees, together with the way it ends), then feeding
    that list to the loader.

    F1  [load_bytes_is_spec]   load_bytes = load_spec           (every grammar, every arm list)
    F2  [scan_wellop], [load_case_never_panics]                  (the linked data of this run)
    F3  [accepted_iff], [accepted_state]
    F4  [parse_error_surfaces], [loader_error_wins], [complete_stream_result] ... *)
From RV Require Import Model.Base Model.Bytes Model.Spirv Model.Grammar Model.Reflect Model.Decoder
  Model.Module Model.Inst Model.Parser Model.Loader.
From RV Require Import Spec.Layout Proofs.LoaderFacts Proofs.ProtocolFacts Proofs.NoPanicFacts.
From RV Require Import Gen.SpirvData Gen.ReflectData Gen.LoaderData Inst.Linked Inst.C05_inst Inst.Run.

(** ====================================================================== *)
(** * The pure scanner                                                       *)
(** ====================================================================== *)

(** the instruction stream as seen by successive [parse_inst] calls, and how
    the stream ends: [Ok tt] = the bytes were exhausted exactly at an
    instruction boundary, [Er e] = the next instruction is malformed,
    [Panic _] = tracker panic / out of fuel *)
Fixpoint scan (G : gdata) (fuel : nat) (t : tracker) (idx : N) (d : dec) : list inst * res unit :=
  match fuel with
  | O => ([], Panic "fuel")
  | S f =>
      match parse_inst G t (idx + 1) d with
      | Ok (i, d1) =>
          match track G t i with
          | None => ([], Panic "track")
          | Some t1 => let '(is, r) := scan G f t1 (idx + 1) d1 in (i :: is, r)
          end
      | Er PComplete => ([], Ok tt)
      | Er e => ([], Er e)
      | Panic p => ([], Panic p)
      end
  end.

Definition scan_bytes (G : gdata) (bytes : list N) : option header * list inst * res unit :=
  match parse_header (mkdec bytes) with
  | Ok (h, d1) => let '(is, r) := scan G (S (length bytes)) [] 0 d1 in (Some h, is, r)
  | Er e => (None, [], Er e)
  | Panic p => (None, [], Panic p)
  end.

(** the scanner never reports [Complete] as an error: running out of bytes at
    an instruction boundary is the normal end *)
Lemma scan_not_complete G : forall fuel t idx d, snd (scan G fuel t idx d) <> Er PComplete.
Proof.
  induction fuel as [|f IH]; intros t idx d; cbn [scan]; [discriminate|].
  destruct (parse_inst G t (idx + 1) d) as [[i d1]|e|p] eqn:PI.
  - destruct (track G t i) as [t1|]; [|discriminate].
    specialize (IH t1 (idx + 1) d1). destruct (scan G f t1 (idx + 1) d1) as [is r]. exact IH.
  - destruct e; discriminate.
  - discriminate.
Qed.

(** the scanner agrees with the instruction stream of ProtocolFacts *)
Lemma scan_insts_of G : forall fuel t idx d, fst (scan G fuel t idx d) = insts_of G fuel t idx d.
Proof.
  induction fuel as [|f IH]; intros t idx d; cbn [scan insts_of]; [reflexivity|].
  destruct (parse_inst G t (idx + 1) d) as [[i d1]|e|p] eqn:PI.
  - destruct (track G t i) as [t1|]; [|reflexivity].
    specialize (IH t1 (idx + 1) d1). destruct (scan G f t1 (idx + 1) d1) as [is r].
    cbn [fst] in *. rewrite IH. reflexivity.
  - destruct e; reflexivity.
  - reflexivity.
Qed.

(** ====================================================================== *)
(** * The header field is inert                                              *)
(** ====================================================================== *)

Definition set_header (oh : option header) (s : lstate) : lstate :=
  {| l_module := l_module s; l_header := oh; l_function := l_function s; l_block := l_block s |}.
Definition with_header (h : header) (s : lstate) : lstate := set_header (Some h) s.

Definition lres_map (f : lstate -> lstate) (r : lres) : lres :=
  match r with LCont s => LCont (f s) | LErr e => LErr e | LPanic => LPanic end.

Section Generic.
Variable Op : enum_decl.
Variable preds : list (string * pexpr).
Variable arms : list larm.
Variable fin : list (lcond * lerr).

Lemma guard_set_header oh g s : guard_holds g (set_header oh s) = guard_holds g s.
Proof. destruct g; reflexivity. Qed.

Lemma cond_set_header oh c s : cond_holds c (set_header oh s) = cond_holds c s.
Proof. destruct c; reflexivity. Qed.

Lemma first_failed_set_header oh cs s : first_failed cs (set_header oh s) = first_failed cs s.
Proof.
  induction cs as [|[c e] r IH]; cbn [first_failed]; [reflexivity|].
  rewrite cond_set_header, IH. reflexivity.
Qed.

Lemma act_set_header oh a s i : act a (set_header oh s) i = lres_map (set_header oh) (act a s i).
Proof.
  destruct a; unfold act; cbn [set_header l_module l_header l_function l_block].
  - destruct (push_section (l_module s) section i); reflexivity.
  - reflexivity.
  - destruct (l_block s) as [b|]; [reflexivity|].
    destruct (push_section (l_module s) 10 i); reflexivity.
  - reflexivity.
  - destruct (l_function s); reflexivity.
  - destruct (l_function s); reflexivity.
  - reflexivity.
  - destruct (l_block s); [|reflexivity]. destruct (l_function s); reflexivity.
  - destruct (l_block s); reflexivity.
Qed.

Lemma find_arm_set_header oh s opc (l : list larm) :
  find (fun a => pat_matches Op preds (la_pat a) opc && guard_holds (la_guard a) (set_header oh s)) l =
  find (fun a => pat_matches Op preds (la_pat a) opc && guard_holds (la_guard a) s) l.
Proof.
  induction l as [|a r IH]; cbn [find]; [reflexivity|].
  rewrite guard_set_header, IH. reflexivity.
Qed.

(** [consume_instruction] never reads [l_header] and carries it along unchanged *)
Lemma consume_set_header oh s i :
  consume_instruction Op preds arms (set_header oh s) i =
  lres_map (set_header oh) (consume_instruction Op preds arms s i).
Proof.
  unfold consume_instruction. rewrite find_arm_set_header.
  destruct (find _ arms) as [a|]; [|reflexivity].
  rewrite first_failed_set_header.
  destruct (first_failed (la_checks a) s); [reflexivity|].
  apply act_set_header.
Qed.

(** the state-with-header lemma: [feed] commutes with setting the header *)
Lemma feed_set_header oh is : forall s,
  feed Op preds arms (set_header oh s) is = lres_map (set_header oh) (feed Op preds arms s is).
Proof.
  induction is as [|i r IH]; intros s; cbn [feed]; [reflexivity|].
  rewrite consume_set_header.
  destruct (consume_instruction Op preds arms s i) as [s1| |]; cbn [lres_map]; [apply IH|reflexivity|reflexivity].
Qed.

Lemma feed_with_header h s is :
  feed Op preds arms (with_header h s) is = lres_map (with_header h) (feed Op preds arms s is).
Proof. apply feed_set_header. Qed.

Lemma finalize_set_header oh s : finalize fin (set_header oh s) = finalize fin s.
Proof. apply first_failed_set_header. Qed.

(** ====================================================================== *)
(** * Feeding with the last good state                                       *)
(** ====================================================================== *)

(** [feed], additionally returning the state in which the first non-[LCont]
    outcome happened (the state before the offending instruction); when all
    instructions are consumed this is the final state *)
Fixpoint feed_st (s : lstate) (is : list inst) : lstate * lres :=
  match is with
  | [] => (s, LCont s)
  | i :: r => match consume_instruction Op preds arms s i with
              | LCont s1 => feed_st s1 r
              | other => (s, other)
              end
  end.

Lemma feed_st_feed is : forall s, snd (feed_st s is) = feed Op preds arms s is.
Proof.
  induction is as [|i r IH]; intros s; cbn [feed_st feed]; [reflexivity|].
  destruct (consume_instruction Op preds arms s i); [apply IH|reflexivity|reflexivity].
Qed.

Lemma feed_st_cont is : forall s s', feed Op preds arms s is = LCont s' -> feed_st s is = (s', LCont s').
Proof.
  induction is as [|i r IH]; intros s s'; cbn [feed_st feed].
  - intros H. inversion H. reflexivity.
  - destruct (consume_instruction Op preds arms s i); [apply IH|discriminate|discriminate].
Qed.

(** what [feed_st] means: the stream splits at the offending instruction *)
Lemma feed_st_stop is : forall s s' o, feed_st s is = (s', o) ->
  (o = LCont s' /\ feed Op preds arms s is = LCont s') \/
  (exists pre i post, is = pre ++ i :: post /\ feed Op preds arms s pre = LCont s' /\
                      consume_instruction Op preds arms s' i = o /\ (forall x, o <> LCont x)).
Proof.
  induction is as [|i r IH]; intros s s' o; cbn [feed_st feed].
  - intros H. inversion H; subst. left. split; reflexivity.
  - destruct (consume_instruction Op preds arms s i) as [s1| |] eqn:CI.
    + intros H. destruct (IH _ _ _ H) as [[E1 E2]|(pre & j & post & E1 & E2 & E3 & E4)].
      * left. split; assumption.
      * right. exists (i :: pre), j, post. subst r. cbn [app feed]. rewrite CI. auto.
    + intros H. inversion H; subst. right. exists [], i, r. cbn [app feed].
      split; [reflexivity|]. split; [reflexivity|]. split; [exact CI|]. discriminate.
    + intros H. inversion H; subst. right. exists [], i, r. cbn [app feed].
      split; [reflexivity|]. split; [reflexivity|]. split; [exact CI|]. discriminate.
Qed.

(** the converse: a split determines [feed_st] *)
Lemma feed_st_split pre i post s s' o :
  feed Op preds arms s pre = LCont s' -> consume_instruction Op preds arms s' i = o ->
  (forall x, o <> LCont x) -> feed_st s (pre ++ i :: post) = (s', o).
Proof.
  revert s. induction pre as [|j r IH]; intros s F C NC; cbn [app feed_st feed] in *.
  - injection F as F. rewrite F, C. destruct o; [exfalso; eapply NC; reflexivity|reflexivity|reflexivity].
  - destruct (consume_instruction Op preds arms s j); [apply IH; assumption|discriminate|discriminate].
Qed.

Lemma feed_st_set_header oh is : forall s,
  feed_st (set_header oh s) is =
  (set_header oh (fst (feed_st s is)), lres_map (set_header oh) (snd (feed_st s is))).
Proof.
  induction is as [|i r IH]; intros s; cbn [feed_st]; [reflexivity|].
  rewrite consume_set_header.
  destruct (consume_instruction Op preds arms s i) as [s1| |]; cbn [lres_map fst snd];
    [apply IH|reflexivity|reflexivity].
Qed.

(** ====================================================================== *)
(** * F1: the fusion theorem                                                 *)
(** ====================================================================== *)

Definition fin_result (s : lstate) : res unit :=
  match finalize fin s with None => Ok tt | Some e => Er (PConsumerError (lerr_code e)) end.

(** the result of running the loader consumer over a scanned stream [is]
    ending in [r], from the wrapped state [(s0, p0)] *)
Definition loop_spec (s0 : lstate) (p0 : bool) (is : list inst) (r : res unit) : lwrap * res unit :=
  let '(s, o) := feed_st s0 is in
  match o with
  | LErr e => ({| lw_state := s; lw_panic := p0 |}, Er (PConsumerError (lerr_code e)))
  | LPanic => ({| lw_state := s; lw_panic := true |}, Er (PConsumerError 999))
  | LCont _ =>
      ({| lw_state := s; lw_panic := p0 |},
       match r with Ok _ => fin_result s | Er e => Er e | Panic p => Panic p end)
  end.

Definition load_spec (G : gdata) (bytes : list N) : lwrap * res unit :=
  match scan_bytes G bytes with
  | (None, _, r) => ({| lw_state := linit; lw_panic := false |}, r)
  | (Some h, is, r) =>
      let '(w, x) := loop_spec linit false is r in
      ({| lw_state := with_header h (lw_state w); lw_panic := lw_panic w |}, x)
  end.

Lemma parse_loop_is_spec G : forall fuel t idx d s0 p0,
  parse_loop G (loader_consumer Op preds arms fin) fuel t idx d {| lw_state := s0; lw_panic := p0 |} =
  loop_spec s0 p0 (fst (scan G fuel t idx d)) (snd (scan G fuel t idx d)).
Proof.
  induction fuel as [|f IH]; intros t idx d s0 p0; cbn [parse_loop scan]; [reflexivity|].
  destruct (parse_inst G t (idx + 1) d) as [[i d1]|e|p] eqn:PI.
  - destruct (track G t i) as [t1|] eqn:T; [|reflexivity].
    specialize (IH t1 (idx + 1) d1).
    destruct (scan G f t1 (idx + 1) d1) as [is r] eqn:SC. cbn [fst snd] in *.
    unfold loop_spec. cbn [feed_st loader_consumer c_inst lw_state lw_panic].
    destruct (consume_instruction Op preds arms s0 i) as [s1|e|] eqn:CI.
    + cbn [consume]. rewrite IH. reflexivity.
    + reflexivity.
    + reflexivity.
  - unfold loop_spec, fin_result.
    destruct e; cbn [fst snd feed_st loader_consumer c_fin lw_state lw_panic]; try reflexivity.
    destruct (finalize fin s0); reflexivity.
  - reflexivity.
Qed.

Lemma loop_spec_set_header oh s0 p0 is r :
  loop_spec (set_header oh s0) p0 is r =
  ({| lw_state := set_header oh (lw_state (fst (loop_spec s0 p0 is r)));
      lw_panic := lw_panic (fst (loop_spec s0 p0 is r)) |},
   snd (loop_spec s0 p0 is r)).
Proof.
  unfold loop_spec, fin_result. rewrite feed_st_set_header.
  destruct (feed_st s0 is) as [s o]. cbn [fst snd].
  destruct o as [s1|e|]; cbn [lres_map fst snd lw_state lw_panic]; try reflexivity.
  rewrite finalize_set_header. reflexivity.
Qed.

(** F1: loading from bytes is scanning, then feeding *)
Theorem load_bytes_is_spec G bytes :
  load_bytes G Op preds arms fin bytes = load_spec G bytes.
Proof.
  unfold load_bytes, load_spec, scan_bytes, parse.
  cbn [loader_consumer c_init c_header consume lw_state lw_panic linit l_module l_function l_block].
  destruct (parse_header (mkdec bytes)) as [[h d1]|e|p] eqn:PH; try reflexivity.
  change {| l_module := empty_module; l_header := Some h; l_function := None; l_block := None |}
    with (set_header (Some h) linit).
  rewrite parse_loop_is_spec, loop_spec_set_header.
  destruct (scan G (S (length bytes)) [] 0 d1) as [is r]. cbn [fst snd].
  destruct (loop_spec linit false is r) as [w x]. reflexivity.
Qed.

(** ---- the cases of F1, spelled out ---- *)

Definition initial : lwrap := {| lw_state := linit; lw_panic := false |}.

(** header error: nothing is loaded *)
Corollary load_header_error G bytes e :
  parse_header (mkdec bytes) = Er e ->
  load_bytes G Op preds arms fin bytes = (initial, Er e).
Proof. intros PH. rewrite load_bytes_is_spec. unfold load_spec, scan_bytes. rewrite PH. reflexivity. Qed.

(** the loader objects at instruction [i] (after consuming [pre]): its error
    is the result - whatever follows in the stream - and the state is the one
    before [i] *)
Corollary load_loader_error G bytes h pre i post r s le :
  scan_bytes G bytes = (Some h, pre ++ i :: post, r) ->
  feed Op preds arms linit pre = LCont s ->
  consume_instruction Op preds arms s i = LErr le ->
  load_bytes G Op preds arms fin bytes =
  ({| lw_state := with_header h s; lw_panic := false |}, Er (PConsumerError (lerr_code le))).
Proof.
  intros SB F C. rewrite load_bytes_is_spec. unfold load_spec. rewrite SB.
  unfold loop_spec. rewrite (feed_st_split pre i post linit s (LErr le) F C); [reflexivity|discriminate].
Qed.

(** the loader's `match` falls through (modelled panic) at instruction [i] *)
Corollary load_loader_panic G bytes h pre i post r s :
  scan_bytes G bytes = (Some h, pre ++ i :: post, r) ->
  feed Op preds arms linit pre = LCont s ->
  consume_instruction Op preds arms s i = LPanic ->
  load_bytes G Op preds arms fin bytes =
  ({| lw_state := with_header h s; lw_panic := true |}, Er (PConsumerError 999)).
Proof.
  intros SB F C. rewrite load_bytes_is_spec. unfold load_spec. rewrite SB.
  unfold loop_spec. rewrite (feed_st_split pre i post linit s LPanic F C); [reflexivity|discriminate].
Qed.

(** all instructions consumed, the stream is complete: finalize decides *)
Corollary load_complete G bytes h is s :
  scan_bytes G bytes = (Some h, is, Ok tt) ->
  feed Op preds arms linit is = LCont s ->
  load_bytes G Op preds arms fin bytes =
  ({| lw_state := with_header h s; lw_panic := false |}, fin_result s).
Proof.
  intros SB F. rewrite load_bytes_is_spec. unfold load_spec. rewrite SB.
  unfold loop_spec. rewrite (feed_st_cont is linit s F). reflexivity.
Qed.

(** all instructions consumed, then the parser stops with an error *)
Corollary load_parse_error G bytes h is s e :
  scan_bytes G bytes = (Some h, is, Er e) ->
  feed Op preds arms linit is = LCont s ->
  load_bytes G Op preds arms fin bytes =
  ({| lw_state := with_header h s; lw_panic := false |}, Er e).
Proof.
  intros SB F. rewrite load_bytes_is_spec. unfold load_spec. rewrite SB.
  unfold loop_spec. rewrite (feed_st_cont is linit s F). reflexivity.
Qed.

Corollary load_parse_panic G bytes h is s p :
  scan_bytes G bytes = (Some h, is, Panic p) ->
  feed Op preds arms linit is = LCont s ->
  load_bytes G Op preds arms fin bytes =
  ({| lw_state := with_header h s; lw_panic := false |}, Panic p).
Proof.
  intros SB F. rewrite load_bytes_is_spec. unfold load_spec. rewrite SB.
  unfold loop_spec. rewrite (feed_st_cont is linit s F). reflexivity.
Qed.

(** in terms of [load_insts] when the stream is complete *)
Corollary load_complete_insts G bytes h is :
  scan_bytes G bytes = (Some h, is, Ok tt) ->
  snd (load_bytes G Op preds arms fin bytes) =
  match load_insts Op preds arms fin is with
  | LCont _ => Ok tt
  | LErr e => Er (PConsumerError (lerr_code e))
  | LPanic => Er (PConsumerError 999)
  end.
Proof.
  intros SB. rewrite load_bytes_is_spec. unfold load_spec. rewrite SB.
  unfold loop_spec, load_insts, fin_result. rewrite <- feed_st_feed.
  destruct (feed_st linit is) as [s o] eqn:FS. cbn [snd].
  destruct o as [s1|e|]; cbn [snd]; try reflexivity.
  destruct (feed_st_stop _ _ _ _ FS) as [[E _]|(pre & j & post & _ & _ & _ & NC)].
  - inversion E; subst. destruct (finalize fin s); reflexivity.
  - exfalso. eapply NC. reflexivity.
Qed.

(** the panic flag is raised only by a fall-through of the loader's match *)
Lemma load_spec_panic_flag G bytes :
  lw_panic (fst (load_spec G bytes)) = true ->
  exists h is r, scan_bytes G bytes = (Some h, is, r) /\ feed Op preds arms linit is = LPanic.
Proof.
  unfold load_spec. destruct (scan_bytes G bytes) as [[[h|] is] r]; [|discriminate].
  unfold loop_spec. destruct (feed_st linit is) as [s o] eqn:FS.
  destruct o; cbn [fst lw_panic]; try discriminate.
  intros _. exists h, is, r. split; [reflexivity|]. rewrite <- feed_st_feed, FS. reflexivity.
Qed.

End Generic.

(** every scanned instruction carries the opcode of a table entry *)
Lemma scan_table_opcodes G : forall fuel t idx d i,
  In i (fst (scan G fuel t idx d)) -> exists g, In g (gd_table G) /\ i_opcode i = g_opcode g.
Proof.
  induction fuel as [|f IH]; intros t idx d i; cbn [scan]; [intros []|].
  destruct (parse_inst G t (idx + 1) d) as [[j d1]|e|p] eqn:PI.
  - destruct (track G t j) as [t1|]; [|intros []].
    specialize (IH t1 (idx + 1) d1 i). destruct (scan G f t1 (idx + 1) d1) as [is r].
    cbn [fst In] in *. intros [<-|H]; [|apply IH; exact H].
    apply parse_inst_ok in PI as (w & d0 & g & d3 & _ & L & E & _).
    exists g. split; [eapply lookup_core_in; exact L|exact E].
  - destruct e; intros [].
  - intros [].
Qed.

(** a failed header never ends in [Ok] *)
Lemma scan_bytes_no_header G bytes is r : scan_bytes G bytes = (None, is, r) -> is = [] /\ r <> Ok tt.
Proof.
  unfold scan_bytes. destruct (parse_header (mkdec bytes)) as [[h d1]|e|p].
  - destruct (scan G (S (length bytes)) [] 0 d1) as [is' r']. discriminate.
  - intros H. inversion H. split; [reflexivity|discriminate].
  - intros H. inversion H. split; [reflexivity|discriminate].
Qed.

Lemma scan_bytes_not_complete G bytes oh is : scan_bytes G bytes <> (oh, is, Er PComplete).
Proof.
  unfold scan_bytes. destruct (parse_header (mkdec bytes)) as [[h d1]|e|p] eqn:PH.
  - pose proof (scan_not_complete G (S (length bytes)) [] 0 d1) as K.
    destruct (scan G (S (length bytes)) [] 0 d1) as [is' r']. cbn [snd] in K.
    intros H. inversion H. subst. apply K. reflexivity.
  - intros H. inversion H. subst. unfold parse_header in PH.
    destruct (words 5 (mkdec bytes)) as [[ws|e'] d1]; [|discriminate].
    destruct ws as [|w0 [|w1 [|w2 [|w3 [|w4 [|w5 r]]]]]]; try discriminate PH.
    destruct (N.eqb w0 MAGIC); [discriminate|]. destruct (N.eqb w0 MAGIC_SWAPPED); discriminate.
  - discriminate.
Qed.

(** acceptance needs a complete stream (generic) *)
Lemma load_ok_complete Op preds arms fin G bytes :
  snd (load_bytes G Op preds arms fin bytes) = Ok tt ->
  exists h is, scan_bytes G bytes = (Some h, is, Ok tt).
Proof.
  rewrite load_bytes_is_spec. unfold load_spec.
  destruct (scan_bytes G bytes) as [[[h|] is] r] eqn:SB.
  - unfold loop_spec. destruct (feed_st Op preds arms linit is) as [s o].
    destruct o; cbn [snd]; try discriminate.
    destruct r as [[]|e|p]; try discriminate. intros _. exists h, is. reflexivity.
  - cbn [snd]. intros ->. apply scan_bytes_no_header in SB as [_ K]. contradiction.
Qed.

(** ====================================================================== *)
(** * F2: the linked data of this run                                        *)
(** ====================================================================== *)

Notation RG := Linked.G.

(** finite check: every opcode of the instruction table is a declared [Op] *)
Lemma table_opcodes_declared : forallb (fun g => memN (g_opcode g) opcodes) core_table = true.
Proof. vm_cast_no_check (eq_refl true). Qed.

Lemma scan_wellop_loop fuel t idx d : wellop (fst (scan RG fuel t idx d)).
Proof.
  intros i Hi. apply scan_table_opcodes in Hi as (g & Hg & ->).
  pose proof table_opcodes_declared as K. rewrite forallb_forall in K.
  apply memN_In. apply K. exact Hg.
Qed.

(** every instruction the parser hands to the loader has a declared opcode *)
Theorem scan_wellop bytes oh is r : scan_bytes RG bytes = (oh, is, r) -> wellop is.
Proof.
  unfold scan_bytes. destruct (parse_header (mkdec bytes)) as [[h d1]|e|p].
  - pose proof (scan_wellop_loop (S (length bytes)) [] 0 d1) as W.
    destruct (scan RG (S (length bytes)) [] 0 d1) as [is' r']. cbn [fst] in W.
    intros H. inversion H. subst. exact W.
  - intros H. inversion H. intros i [].
  - intros H. inversion H. intros i [].
Qed.

Definition real_feed (is : list inst) : lres := feed op_enum preds loader_arms linit is.

Lemma real_load_feed is :
  real_load is = match real_feed is with
                 | LCont s => match finalize loader_finalize_checks s with Some e => LErr e | None => LCont s end
                 | other => other
                 end.
Proof. reflexivity. Qed.

Lemma real_feed_is_spec is : wellop is -> real_feed is = spec_feed linit (tagged is).
Proof. intros W. apply (feed_is_spec op_enum preds loader_arms class_of opcodes arms_agree_prop is linit W). Qed.

Lemma real_feed_no_panic is : wellop is -> real_feed is <> LPanic.
Proof.
  intros W F. apply (real_no_panic is W). rewrite real_load_feed, F. reflexivity.
Qed.

Lemma wellop_app_l a b : wellop (a ++ b) -> wellop a.
Proof. intros W i Hi. apply W. apply in_or_app. left. exact Hi. Qed.

(** the loader under the parser never panics, and its `match` never falls
    through: for ALL byte strings *)
Theorem load_case_never_panics bytes :
  lw_panic (fst (load_case bytes)) = false /\ forall p, snd (load_case bytes) <> Panic p.
Proof.
  split.
  - destruct (lw_panic (fst (load_case bytes))) eqn:E; [exfalso|reflexivity].
    unfold load_case in E. rewrite load_bytes_is_spec in E.
    apply load_spec_panic_flag in E as (h & is & r & SB & F).
    apply (real_feed_no_panic is); [eapply scan_wellop; exact SB|exact F].
  - intros p. unfold load_case, load_bytes. apply real_parser_no_panic.
Qed.

(** ====================================================================== *)
(** * F3: acceptance                                                         *)
(** ====================================================================== *)

Lemma real_complete_result bytes h is :
  scan_bytes RG bytes = (Some h, is, Ok tt) ->
  snd (load_case bytes) =
  match real_load is with
  | LCont _ => Ok tt
  | LErr e => Er (PConsumerError (lerr_code e))
  | LPanic => Er (PConsumerError 999)
  end.
Proof. intros SB. unfold load_case, real_load. apply (load_complete_insts _ _ _ _ _ _ _ _ SB). Qed.

Theorem accepted_iff bytes :
  snd (load_case bytes) = Ok tt <->
  exists h is, scan_bytes RG bytes = (Some h, is, Ok tt) /\ WB (toks is).
Proof.
  split.
  - intros H. destruct (load_ok_complete _ _ _ _ _ _ H) as (h & is & SB).
    exists h, is. split; [exact SB|].
    apply real_accepts_iff_WB; [eapply scan_wellop; exact SB|].
    rewrite (real_complete_result _ _ _ SB) in H.
    destruct (real_load is) as [s|e|]; [exists s; reflexivity|discriminate|discriminate].
  - intros (h & is & SB & W).
    apply real_accepts_iff_WB in W as [s L]; [|eapply scan_wellop; exact SB].
    rewrite (real_complete_result _ _ _ SB), L. reflexivity.
Qed.

(** ... and then the loader state is the one obtained by feeding the scanned
    instructions, with the header filled in *)
Theorem accepted_state bytes h is s :
  scan_bytes RG bytes = (Some h, is, Ok tt) -> real_load is = LCont s ->
  load_case bytes = ({| lw_state := with_header h s; lw_panic := false |}, Ok tt).
Proof.
  intros SB L. rewrite real_load_feed in L.
  destruct (real_feed is) as [s1|e|] eqn:F; try discriminate L.
  destruct (finalize loader_finalize_checks s1) eqn:FN; try discriminate L.
  injection L as ->.
  unfold load_case. rewrite (load_complete _ _ _ _ _ _ _ _ _ SB F).
  unfold fin_result. rewrite FN. reflexivity.
Qed.

Corollary accepted_state_iff bytes :
  snd (load_case bytes) = Ok tt ->
  exists h is s, scan_bytes RG bytes = (Some h, is, Ok tt) /\ WB (toks is) /\ real_load is = LCont s /\
                 fst (load_case bytes) = {| lw_state := with_header h s; lw_panic := false |}.
Proof.
  intros H. apply accepted_iff in H as (h & is & SB & W).
  pose proof W as W'. apply real_accepts_iff_WB in W' as [s L]; [|eapply scan_wellop; exact SB].
  exists h, is, s. rewrite (accepted_state _ _ _ _ SB L). auto.
Qed.

(** ====================================================================== *)
(** * F4: which error is reported                                            *)
(** ====================================================================== *)

(** the loader consumed every instruction, then the parser met a malformed
    instruction: the parser's error is the result (and it is not [Complete]) *)
Theorem parse_error_surfaces bytes h is e s :
  scan_bytes RG bytes = (Some h, is, Er e) -> real_feed is = LCont s ->
  load_case bytes = ({| lw_state := with_header h s; lw_panic := false |}, Er e) /\ e <> PComplete.
Proof.
  intros SB F. split.
  - unfold load_case. apply (load_parse_error _ _ _ _ _ _ _ _ _ _ SB F).
  - intros ->. exact (scan_bytes_not_complete _ _ _ _ SB).
Qed.

(** the loader objects at instruction [i] of the stream: its error is the
    result, whatever comes later in the stream ([post], [r]) - in particular
    even if a later instruction is malformed; the state is the one before [i] *)
Theorem loader_error_wins bytes h pre i post r s le :
  scan_bytes RG bytes = (Some h, pre ++ i :: post, r) ->
  real_feed pre = LCont s ->
  consume_instruction op_enum preds loader_arms s i = LErr le ->
  load_case bytes = ({| lw_state := with_header h s; lw_panic := false |},
                     Er (PConsumerError (lerr_code le))).
Proof. intros SB F C. unfold load_case. apply (load_loader_error _ _ _ _ _ _ _ _ _ _ _ _ _ SB F C). Qed.

(** the same, phrased with the bracket automaton of the layout specification *)
Theorem bracket_error_wins bytes h pre i post r st le :
  scan_bytes RG bytes = (Some h, pre ++ i :: post, r) ->
  brk_run (false, false) (toks pre) = inl st ->
  brk_step st (class_of (i_opcode i)) = inr le ->
  exists s, real_feed pre = LCont s /\ abs s = st /\
    load_case bytes = ({| lw_state := with_header h s; lw_panic := false |},
                       Er (PConsumerError (lerr_code le))).
Proof.
  intros SB B E.
  pose proof (scan_wellop _ _ _ _ SB) as W.
  pose proof (wellop_app_l _ _ W) as Wp.
  rewrite <- toks_tagged, <- abs_init in B.
  apply feed_abs_cont_conv in B as (s & F & A & _); [|exact linv_init|apply toks_ok; exact Wp].
  rewrite <- (real_feed_is_spec pre Wp) in F.
  exists s. split; [exact F|]. split; [exact A|].
  apply (loader_error_wins _ _ _ _ _ _ _ _ SB F).
  rewrite (interpreter_is_spec op_enum preds loader_arms class_of opcodes arms_agree_prop).
  - apply abstraction_err_conv. rewrite A. exact E.
  - apply W. apply in_or_app. right. left. reflexivity.
Qed.

(** the complete classification of the result of loading from bytes, by the
    bracket automaton run over the scanned stream: a bracket error anywhere
    in the stream wins; otherwise a parse error; otherwise the end-of-module
    checks *)
Theorem load_case_classification bytes h is r :
  scan_bytes RG bytes = (Some h, is, r) ->
  snd (load_case bytes) =
  match brk_run (false, false) (toks is) with
  | inr e => Er (PConsumerError (lerr_code e))
  | inl _ =>
      match r with
      | Ok _ => match first_error (toks is) with
                | None => Ok tt
                | Some e => Er (PConsumerError (lerr_code e))
                end
      | Er e => Er e
      | Panic p => Panic p
      end
  end.
Proof.
  intros SB. pose proof (scan_wellop _ _ _ _ SB) as W.
  unfold load_case. rewrite load_bytes_is_spec. unfold load_spec. rewrite SB.
  unfold loop_spec.
  destruct (feed_st op_enum preds loader_arms linit is) as [s o] eqn:FS.
  pose proof (feed_st_feed op_enum preds loader_arms is linit) as FF. rewrite FS in FF. cbn [snd] in FF.
  fold (real_feed is) in FF. rewrite (real_feed_is_spec is W) in FF.
  destruct o as [s1|e|]; cbn [snd].
  - destruct (feed_st_stop _ _ _ _ _ _ _ FS) as [[E _]|(pre & j & post & _ & _ & _ & NC)];
      [|exfalso; eapply NC; reflexivity].
    injection E as ->.
    symmetry in FF. apply feed_abs_cont in FF. rewrite toks_tagged, abs_init in FF.
    unfold first_error. rewrite FF.
    destruct r as [u|e|p]; try reflexivity.
    unfold fin_result, finalize. rewrite finalize_as_specified, fin_abs.
    destruct (abs s) as [[|] [|]]; reflexivity.
  - symmetry in FF. apply feed_abs_err in FF. rewrite toks_tagged, abs_init in FF.
    rewrite FF. reflexivity.
  - exfalso. apply (real_feed_no_panic is W). unfold real_feed.
    rewrite <- feed_st_feed, FS. reflexivity.
Qed.

(** a complete stream: the result is the first layout error, if any *)
Corollary complete_stream_result bytes h is :
  scan_bytes RG bytes = (Some h, is, Ok tt) ->
  snd (load_case bytes) =
  match first_error (toks is) with None => Ok tt | Some e => Er (PConsumerError (lerr_code e)) end.
Proof.
  intros SB. rewrite (load_case_classification _ _ _ _ SB).
  unfold first_error. destruct (brk_run (false, false) (toks is)) as [st|e]; reflexivity.
Qed.

(** a parse error after a stream whose brackets are fine so far is reported
    as such; a bracket error in the scanned prefix masks it *)
Corollary parse_error_brackets bytes h is e :
  scan_bytes RG bytes = (Some h, is, Er e) ->
  snd (load_case bytes) =
  (match brk_run (false, false) (toks is) with
   | inl _ => Er e
   | inr le => Er (PConsumerError (lerr_code le))
   end).
Proof. intros SB. rewrite (load_case_classification _ _ _ _ SB). reflexivity. Qed.

(** ====================================================================== *)
(** * Non-vacuity: concrete byte strings (little endian)                     *)
(** ====================================================================== *)

Definition ex_cap : list N := [17;0;2;0; 1;0;0;0].      (* OpCapability Shader *)
Definition ex_fend : list N := [56;0;1;0].              (* OpFunctionEnd *)
Definition ex_wc0 : list N := [5;0;0;0].                (* word count 0 *)

Example ex_accept : snd (load_case (hdr_bytes ++ ex_cap)) = Ok tt.
Proof. vm_compute. reflexivity. Qed.

(** the loader is content, then a malformed instruction: the parse error *)
Example ex_parse_error : snd (load_case (hdr_bytes ++ ex_cap ++ ex_wc0)) = Er (PWordCountZero 28 2).
Proof. vm_compute. reflexivity. Qed.

(** the loader objects first (MismatchedFunctionEnd = 102); the malformed
    instruction behind it is never looked at *)
Example ex_loader_error_first :
  snd (load_case (hdr_bytes ++ ex_fend ++ ex_wc0)) = Er (PConsumerError 102) /\
  snd (scan_bytes RG (hdr_bytes ++ ex_fend ++ ex_wc0)) = Er (PWordCountZero 24 2).
Proof. vm_compute. split; reflexivity. Qed.

Example ex_header_error : load_case [1;2] = (initial, Er (PHeaderIncomplete (Decoder.StreamExpected 0))).
Proof. vm_compute. reflexivity. Qed.

(** OBSERVATION (behaviour of the model, as of the source: `if let Ok(word) =
    self.decoder.word() .. else Complete`): one to three stray bytes after the
    last instruction end the scan with [Ok tt]; such a module is accepted. *)
Example ex_trailing_bytes_accepted :
  snd (load_case (hdr_bytes ++ ex_cap ++ [1;2;3])) = Ok tt /\
  snd (scan_bytes RG (hdr_bytes ++ ex_cap ++ [1;2;3])) = Ok tt.
Proof. vm_compute. split; reflexivity. Qed.

Print Assumptions load_bytes_is_spec.
Print Assumptions feed_set_header.
Print Assumptions load_header_error.
Print Assumptions load_loader_error.
Print Assumptions load_loader_panic.
Print Assumptions load_complete.
Print Assumptions load_parse_error.
Print Assumptions scan_wellop.
Print Assumptions load_case_never_panics.
Print Assumptions accepted_iff.
Print Assumptions accepted_state.
Print Assumptions accepted_state_iff.
Print Assumptions parse_error_surfaces.
Print Assumptions loader_error_wins.
Print Assumptions bracket_error_wins.
Print Assumptions load_case_classification.
Print Assumptions complete_stream_result.
Print Assumptions parse_error_brackets.
