(** P9: the parser reports the FIRST malformed instruction, with its number
    and an offset inside the declared extent of that instruction.

    E1  [header_classification]  the four exhaustive outcomes of parse_header
    E2  [parse_inst_error]       anatomy of an instruction-level error
        [parse_inst_exact]       a parsed instruction consumes exactly its declared word count
    E3  [first_malformed], [error_index]
    E4  [accept_iff], [scan_ok_splits], [splits_scan], [splits_concat] *)
From RV Require Import Model.Base Model.Bytes Model.Spirv Model.Grammar Model.Decoder Model.Inst
  Model.Reflect Model.Module Model.Parser Model.Loader.
From RV Require Import Proofs.DecoderFacts Proofs.NoPanicFacts Proofs.ProtocolFacts Proofs.LoadBytesFacts.
From RV Require Inst.Linked.

(** ====================================================================== *)
(** * Offsets and indices carried by errors                                  *)
(** ====================================================================== *)

Definition derr_off (e : derr) : N :=
  match e with
  | StreamExpected o | LimitReached o | KindUnknown _ o _ | DecodeStringFailed o => o
  end.

(** the offset carried by a decoder error lies in the closed interval [lo, hi] *)
Definition derr_offset_within (e : derr) (lo hi : N) : Prop := lo <= derr_off e <= hi.

(** the instruction number carried by a parser error *)
Definition err_index (e : perr) : option N :=
  match e with
  | PWordCountZero _ i | POpcodeUnknown _ i _ | POperandExpected _ i | POperandExceeded _ i
  | PTypeUnsupported _ i | PSpecOpIncorrect _ i => Some i
  | _ => None
  end.

(** the byte offset carried by a parser error *)
Definition err_offset (e : perr) : option N :=
  match e with
  | PWordCountZero o _ | POpcodeUnknown o _ _ | POperandExpected o _ | POperandExceeded o _
  | PTypeUnsupported o _ | PSpecOpIncorrect o _ => Some o
  | POperandError de => Some (derr_off de)
  | _ => None
  end.

(** ====================================================================== *)
(** * The exact budget invariant                                             *)
(** ====================================================================== *)

(** [Bd lo hi d]: the decoder is at or after [lo], is limited, and the limit
    ends EXACTLY at byte [hi]:  off + 4 * limit = hi. *)
Definition Bd (lo hi : N) (d : dec) : Prop :=
  lo <= off d /\ exists n, lim d = Some n /\ off d + 4 * n = hi.

Lemma Bd_off lo hi d : Bd lo hi d -> lo <= off d <= hi.
Proof. intros (H & n & _ & E). lia. Qed.

Lemma Bd_reached lo hi d : Bd lo hi d -> limit_reached d = true -> off d = hi.
Proof.
  intros (_ & n & L & E) R. unfold limit_reached in R. rewrite L in R.
  destruct n; [lia|discriminate].
Qed.

(** errors that may come out of the operand loop of one instruction *)
Definition err_ok (lo hi idx : N) (e : perr) : Prop :=
  match e with
  | POperandExpected o i | POperandExceeded o i | PTypeUnsupported o i | PSpecOpIncorrect o i =>
      i = idx /\ lo <= o <= hi
  | POperandError de => derr_offset_within de lo hi
  | _ => False
  end.

(** the postcondition of every sub-parser started inside the budget *)
Definition post {A} (lo hi idx : N) (r : res (A * dec)) : Prop :=
  match r with
  | Ok (_, d') => Bd lo hi d'
  | Er e => err_ok lo hi idx e
  | Panic _ => True
  end.

Lemma post_bind {A B} lo hi idx (r : res (A * dec)) (f : A * dec -> res (B * dec)) :
  post lo hi idx r ->
  (forall a d', r = Ok (a, d') -> Bd lo hi d' -> post lo hi idx (f (a, d'))) ->
  post lo hi idx (bind r f).
Proof.
  destruct r as [[a d']|e|p]; cbn [bind post]; intros H1 H2; [apply H2; [reflexivity|exact H1]|exact H1|exact I].
Qed.

(** ---- decoder requests ---- *)
Definition dpost {A} (lo hi : N) (r : (A + derr) * dec) : Prop :=
  match r with
  | (inl _, d') => Bd lo hi d'
  | (inr e, _) => derr_offset_within e lo hi
  end.

Lemma dreq_post {A} lo hi idx (r : (A + derr) * dec) : dpost lo hi r -> post lo hi idx (dreq r).
Proof. destruct r as [[a|e] d']; cbn [dpost dreq post err_ok]; auto. Qed.

Lemma word_dpost lo hi d : Bd lo hi d -> dpost lo hi (word d).
Proof.
  intros B. pose proof (Bd_off _ _ _ B) as Ho. destruct B as (Hlo & n & L & E).
  destruct (word d) as [[w|e] d'] eqn:W; cbn [dpost].
  - destruct (word_ok _ _ _ W) as (b0 & b1 & b2 & b3 & _ & _ & O & L' & LR).
    rewrite L in L'. cbn [dec_lim] in L'. unfold limit_reached in LR. rewrite L in LR.
    split; [lia|]. exists (n - 1). split; [exact L'|]. destruct n; [discriminate|lia].
  - destruct (word_err _ _ _ W) as (_ & _ & [->| ->]); unfold derr_offset_within; cbn [derr_off]; lia.
Qed.

Lemma typed_dpost lo hi c d : Bd lo hi d -> dpost lo hi (typed c d).
Proof.
  intros B. pose proof (word_dpost _ _ _ B) as P. pose proof (Bd_off _ _ _ B) as Ho.
  unfold typed. destruct (word d) as [[w|e] d'] eqn:W; cbn [dpost] in *.
  - destruct (conv_accepts c w); cbn [dpost]; [exact P|].
    destruct (word_ok _ _ _ W) as (b0 & b1 & b2 & b3 & _ & _ & O & _).
    pose proof (Bd_off _ _ _ P). unfold derr_offset_within. cbn [derr_off]. lia.
  - destruct (word_err _ _ _ W) as (O & _). unfold derr_offset_within. cbn [derr_off]. lia.
Qed.

Lemma bit64_dpost lo hi d : Bd lo hi d -> dpost lo hi (bit64 d).
Proof.
  intros B. pose proof (word_dpost _ _ _ B) as P. unfold bit64.
  destruct (word d) as [[w|e] d1]; cbn [dpost] in *; [|exact P].
  pose proof (word_dpost _ _ _ P) as P2. destruct (word d1) as [[w2|e] d2]; cbn [dpost] in *; exact P2.
Qed.

Lemma dstring_dpost lo hi d : Bd lo hi d -> dpost lo hi (dstring d).
Proof.
  intros B. pose proof (Bd_off _ _ _ B) as Ho. destruct B as (Hlo & n & L & E).
  destruct (dstring d) as [[s|e] d'] eqn:S; cbn [dpost].
  - destruct (string_ok _ _ _ S) as (i & _ & _ & _ & _ & Fit & R & O & L' & Lw). cbv zeta in *.
    specialize (Lw n L). rewrite L in L'. cbn [dec_lim] in L'.
    split; [lia|]. eexists. split; [exact L'|]. lia.
  - unfold dstring, string_window in S. rewrite L in S.
    unfold derr_offset_within.
    destruct (4 * n <=? N.of_nat (length (rest d))) eqn:C.
    + destruct (index0 (firstn (N.to_nat (4 * n)) (rest d))) as [i|].
      * destruct (utf8_valid _); [destruct (4 * (N.of_nat i / 4 + 1) <=? _)|]; inversion S; subst; cbn [derr_off]; lia.
      * inversion S; subst. cbn [derr_off]. rewrite firstn_length. lia.
    + destruct (index0 (rest d)) as [i|].
      * destruct (utf8_valid _); [destruct (4 * (N.of_nat i / 4 + 1) <=? _)|]; inversion S; subst; cbn [derr_off]; lia.
      * inversion S; subst. cbn [derr_off]. lia.
Qed.

(** ---- parse_operand ---- *)
Lemma read_slot_post lo hi idx s d : Bd lo hi d -> post lo hi idx (read_slot s d).
Proof.
  intros B. destruct s as [[| |c] m]; destruct m; cbn [read_slot]; try exact I;
    (apply post_bind;
     [apply dreq_post; first [apply word_dpost|apply typed_dpost|apply dstring_dpost]; exact B
     |intros w d1 _ B'; exact B']).
Qed.

Lemma parse_slots_post lo hi idx ss : forall d, Bd lo hi d -> post lo hi idx (parse_slots ss d).
Proof.
  induction ss as [|s r IH]; intros d B; cbn [parse_slots]; [exact B|].
  apply post_bind; [apply read_slot_post; exact B|]. intros o d1 _ B1.
  apply post_bind; [apply IH; exact B1|]. intros os d2 _ B2. exact B2.
Qed.

Lemma parse_operand_post lo hi idx G k d : Bd lo hi d -> post lo hi idx (parse_operand G k d).
Proof.
  intros B. unfold parse_operand. destruct (nth_error (gd_arms G) (N.to_nat k)) as [[|ss|s t]|]; try exact I.
  - apply parse_slots_post; exact B.
  - apply post_bind; [apply read_slot_post; exact B|]. intros o d1 _ B1.
    apply post_bind; [apply parse_slots_post; exact B1|]. intros ps d2 _ B2. exact B2.
Qed.

(** ---- literals ---- *)
Lemma lit32_post lo hi idx d : Bd lo hi d -> post lo hi idx (lit32 d).
Proof.
  intros B. unfold lit32. apply post_bind; [apply dreq_post, word_dpost; exact B|].
  intros w d1 _ B1. exact B1.
Qed.

Lemma lit64_post lo hi idx d : Bd lo hi d -> post lo hi idx (lit64 d).
Proof.
  intros B. unfold lit64. apply post_bind; [apply dreq_post, bit64_dpost; exact B|].
  intros w d1 _ B1. exact B1.
Qed.

Lemma parse_literal_post lo hi idx t ty d : Bd lo hi d -> post lo hi idx (parse_literal t ty idx d).
Proof.
  intros B. pose proof (Bd_off _ _ _ B) as Ho. unfold parse_literal.
  destruct (resolve t ty) as [[size sg|size]|].
  - destruct (N.eqb size 8 || N.eqb size 16 || N.eqb size 32); [apply lit32_post; exact B|].
    destruct (N.eqb size 64); [apply lit64_post; exact B|]. cbn [post err_ok]. split; [reflexivity|lia].
  - destruct (N.eqb size 16 || N.eqb size 32); [apply lit32_post; exact B|].
    destruct (N.eqb size 64); [apply lit64_post; exact B|]. cbn [post err_ok]. split; [reflexivity|lia].
  - apply lit32_post; exact B.
Qed.

(** ---- OpSpecConstantOp ---- *)
Lemma parse_star_post lo hi idx G k fuel : forall d acc, Bd lo hi d ->
  post lo hi idx (parse_star G fuel k d acc).
Proof.
  induction fuel as [|f IH]; intros d acc B; cbn [parse_star]; [exact I|].
  destruct (limit_reached d); [exact B|].
  apply post_bind; [apply parse_operand_post; exact B|]. intros a d1 _ B1. apply IH; exact B1.
Qed.

Lemma parse_nested_post lo hi idx G lops : forall d acc, Bd lo hi d ->
  post lo hi idx (parse_nested G lops idx d acc).
Proof.
  induction lops as [|[k q] r IH]; intros d acc B; cbn [parse_nested]; [exact B|].
  pose proof (Bd_off _ _ _ B) as Ho.
  destruct (N.eqb k (gd_k_rt G) || N.eqb k (gd_k_rid G)); [apply IH; exact B|].
  destruct (N.eqb k (gd_k_ctx G) || N.eqb k (gd_k_pairlitid G) || N.eqb k (gd_k_specop G)).
  { cbn [post err_ok]. split; [reflexivity|lia]. }
  assert (Hop : post lo hi idx (do (a, d1) <- parse_operand G k d; parse_nested G r idx d1 (acc ++ a))).
  { apply post_bind; [apply parse_operand_post; exact B|]. intros a d1 _ B1. apply IH; exact B1. }
  destruct q.
  - exact Hop.
  - destruct (limit_reached d); [apply IH; exact B|exact Hop].
  - apply post_bind; [apply parse_star_post; exact B|]. intros acc1 d1 _ B1. apply IH; exact B1.
Qed.

Lemma spec_op_post lo hi idx G d : Bd lo hi d -> post lo hi idx (parse_spec_constant_op G idx d).
Proof.
  intros B. unfold parse_spec_constant_op.
  apply post_bind; [apply dreq_post, word_dpost; exact B|]. intros number d1 _ B1.
  pose proof (Bd_off _ _ _ B1) as Ho.
  destruct (if number <? 65536 then lookup_core (gd_table G) number else None) as [g|].
  - apply parse_nested_post; exact B1.
  - cbn [post err_ok]. split; [reflexivity|lia].
Qed.

(** ---- the quantifier loop ---- *)
Lemma step_kind_post lo hi idx G t opcode k d rt rid acc : Bd lo hi d ->
  post lo hi idx (step_kind G t opcode k idx d rt rid acc).
Proof.
  intros B. rewrite step_kind_cls. destruct (classify G k).
  - apply post_bind; [apply dreq_post, word_dpost; exact B|]. intros w d1 _ B1. exact B1.
  - apply post_bind; [apply dreq_post, word_dpost; exact B|]. intros w d1 _ B1. exact B1.
  - destruct (N.eqb opcode OP_CONSTANT || N.eqb opcode OP_SPEC_CONSTANT); [|exact I].
    destruct rt as [id|]; [|exact I].
    apply post_bind; [apply parse_literal_post; exact B|]. intros o d1 _ B1. exact B1.
  - destruct (N.eqb opcode OP_SWITCH); [|exact I]. destruct acc as [|[] acc0]; try exact I.
    apply post_bind; [apply parse_literal_post; exact B|]. intros o d1 _ B1.
    apply post_bind; [apply dreq_post, word_dpost; exact B1|]. intros w d2 _ B2. exact B2.
  - apply post_bind; [apply spec_op_post; exact B|]. intros os d1 _ B1. exact B1.
  - apply post_bind; [apply parse_operand_post; exact B|]. intros os d1 _ B1. exact B1.
Qed.

Lemma parse_lops_post lo hi idx G t opcode fuel : forall lops d rt rid acc, Bd lo hi d ->
  post lo hi idx (parse_lops G fuel t opcode lops idx d rt rid acc).
Proof.
  induction fuel as [|f IH]; intros lops d rt rid acc B; cbn [parse_lops]; [exact I|].
  destruct lops as [|[k q] r]; [exact B|]. pose proof (Bd_off _ _ _ B) as Ho.
  destruct (limit_reached d).
  - destruct q; [cbn [post err_ok]; split; [reflexivity|lia]|exact B|exact B].
  - apply post_bind; [apply step_kind_post; exact B|]. intros [[rt1 rid1] acc1] d1 _ B1.
    destruct q; apply IH; exact B1.
Qed.

(** ====================================================================== *)
(** * E2: anatomy of an instruction-level error                              *)
(** ====================================================================== *)

(** the general form: whatever the limit of [d] is *)
Lemma parse_inst_error_gen G t idx d e : parse_inst G t idx d = Er e ->
  (e = PComplete /\ exists de d', word d = (inr de, d')) \/
  exists w d1, word d = (inl w, d1) /\
    let wc := (w / 65536) mod 65536 in let opc := w mod 65536 in
    ( (e = PWordCountZero (off d) idx /\ wc = 0)
   \/ (e = POpcodeUnknown (off d) idx opc /\ wc <> 0 /\ lookup_core (gd_table G) opc = None)
   \/ (wc <> 0 /\ lookup_core (gd_table G) opc <> None /\
       err_ok (off d + 4) (off d + 4 * wc) idx e) ).
Proof.
  unfold parse_inst. destruct (word d) as [[w|de] d1] eqn:W.
  2:{ intros H. inversion H. left. split; [reflexivity|]. exists de, d1. reflexivity. }
  cbv zeta. intros H. right. exists w, d1. split; [reflexivity|].
  destruct (word_ok _ _ _ W) as (b0 & b1 & b2 & b3 & _ & _ & O & _).
  destruct (N.eqb ((w / 65536) mod 65536) 0) eqn:Z.
  { apply N.eqb_eq in Z. left. inversion H. split; [f_equal; lia|exact Z]. }
  apply N.eqb_neq in Z.
  destruct (lookup_core (gd_table G) (w mod 65536)) as [g|] eqn:LK.
  2:{ right. left. inversion H. split; [f_equal; lia|]. split; [exact Z|reflexivity]. }
  right. right. split; [exact Z|]. split; [discriminate|].
  set (wc := (w / 65536) mod 65536) in *.
  assert (B : Bd (off d + 4) (off d + 4 * wc) (set_limit d1 (wc - 1))).
  { split; [cbn [set_limit off]; lia|]. exists (wc - 1). split; [reflexivity|]. cbn [set_limit off]. lia. }
  pose proof (parse_lops_post _ _ idx G t (g_opcode g)
                (lops_fuel (g_operands g) (set_limit d1 (wc - 1))) (g_operands g) _ None None [] B) as P.
  destruct (parse_lops G _ t (g_opcode g) (g_operands g) idx (set_limit d1 (wc - 1)) None None [])
    as [[[[rt rid] ops] d3]|e'|p]; cbn [bind post] in *.
  - destruct (limit_reached d3); [discriminate|]. inversion H. pose proof (Bd_off _ _ _ P).
    cbn [err_ok]. split; [reflexivity|lia].
  - inversion H; subst. exact P.
  - discriminate.
Qed.

(** E2, as specified *)
Theorem parse_inst_error G t idx d e :
  parse_inst G t idx d = Er e -> lim d = None -> (exists buf, Inv buf d) ->
  (e = PComplete /\ (length (rest d) < 4)%nat)
  \/ exists w d1, word d = (inl w, d1) /\
       let wc := (w / 65536) mod 65536 in let opc := w mod 65536 in
       ( (e = PWordCountZero (off d) idx /\ wc = 0)
      \/ (e = POpcodeUnknown (off d) idx opc /\ wc <> 0 /\ lookup_core (gd_table G) opc = None)
      \/ (wc <> 0 /\ lookup_core (gd_table G) opc <> None /\
           ( (exists o, e = POperandExpected o idx /\ off d + 4 <= o <= off d + 4 * wc)
          \/ (exists o, e = POperandExceeded o idx /\ off d + 4 <= o <= off d + 4 * wc)
          \/ (exists o, e = PTypeUnsupported o idx /\ off d + 4 <= o <= off d + 4 * wc)
          \/ (exists o, e = PSpecOpIncorrect o idx /\ off d + 4 <= o <= off d + 4 * wc)
          \/ (exists de, e = POperandError de /\
                derr_offset_within de (off d + 4) (off d + 4 * wc)) )) ).
Proof.
  intros H Hl _. apply parse_inst_error_gen in H as [[-> (de & d' & W)]|(w & d1 & W & H)].
  - left. split; [reflexivity|]. unfold word, limit_reached in W. rewrite Hl in W.
    destruct (rest d) as [|b0 [|b1 [|b2 [|b3 r]]]]; cbn [length]; try lia. discriminate W.
  - right. exists w, d1. split; [exact W|]. cbv zeta in *.
    destruct H as [H|[H|(Z & LK & H)]]; [left; exact H|right; left; exact H|].
    right. right. split; [exact Z|]. split; [exact LK|].
    destruct e; cbn [err_ok] in H; try contradiction.
    + destruct H as [-> H]. left. eauto.
    + destruct H as [-> H]. right. left. eauto.
    + right. right. right. right. eauto.
    + destruct H as [-> H]. right. right. left. eauto.
    + destruct H as [-> H]. right. right. right. left. eauto.
Qed.

(** every offset carried by an instruction-level error lies inside the
    declared extent [off d, off d + 4 * wc] of that instruction (for a zero
    word count: at [off d]) *)
Corollary error_offset_in_extent G t idx d e o : parse_inst G t idx d = Er e -> err_offset e = Some o ->
  exists w d1, word d = (inl w, d1) /\ off d <= o <= off d + 4 * ((w / 65536) mod 65536).
Proof.
  intros H Ho. apply parse_inst_error_gen in H as [[-> _]|(w & d1 & W & H)]; [discriminate|].
  exists w, d1. split; [exact W|]. cbv zeta in H.
  destruct H as [[-> Z]|[(-> & _)|(Z & _ & H)]]; cbn [err_offset] in Ho.
  - inversion Ho. lia.
  - inversion Ho. lia.
  - destruct e; cbn [err_ok err_offset] in *; try contradiction; inversion Ho; subst;
      unfold derr_offset_within in *; lia.
Qed.

(** errors never carry an index other than the one passed in *)
Corollary parse_inst_error_index G t idx d e k :
  parse_inst G t idx d = Er e -> err_index e = Some k -> k = idx.
Proof.
  intros H Hk. apply parse_inst_error_gen in H as [[-> _]|(w & d1 & W & H)]; [discriminate|].
  cbv zeta in H. destruct H as [[-> _]|[(-> & _)|(_ & _ & H)]]; cbn [err_index] in Hk.
  - inversion Hk; reflexivity.
  - inversion Hk; reflexivity.
  - destruct e; cbn [err_ok err_index] in *; try contradiction; try discriminate;
      destruct H as [-> _]; inversion Hk; reflexivity.
Qed.

Corollary parse_inst_error_index_pos G t idx d e k :
  parse_inst G t idx d = Er e -> err_index e = Some k -> 1 <= idx -> k <> 0.
Proof. intros H Hk Hi. rewrite (parse_inst_error_index _ _ _ _ _ _ H Hk). lia. Qed.

(** a successfully parsed instruction consumes EXACTLY its declared word count *)
Theorem parse_inst_exact G t idx d i d1 : parse_inst G t idx d = Ok (i, d1) ->
  exists w d0 chunk, word d = (inl w, d0) /\
    let wc := (w / 65536) mod 65536 in
    wc <> 0 /\ i_opcode i mod 65536 = w mod 65536 /\
    rest d = chunk ++ rest d1 /\ N.of_nat (length chunk) = 4 * wc /\
    off d1 = off d + 4 * wc /\ lim d1 = None.
Proof.
  intros H. unfold parse_inst in H. destruct (word d) as [[w|de] d0] eqn:W; [|discriminate].
  cbv zeta in H. exists w, d0.
  destruct (N.eqb ((w / 65536) mod 65536) 0) eqn:Z; [discriminate|]. apply N.eqb_neq in Z.
  destruct (lookup_core (gd_table G) (w mod 65536)) as [g|] eqn:LK; [|discriminate].
  set (wc := (w / 65536) mod 65536) in *.
  destruct (word_ok _ _ _ W) as (b0 & b1 & b2 & b3 & R0 & _ & O & _).
  assert (B : Bd (off d + 4) (off d + 4 * wc) (set_limit d0 (wc - 1))).
  { split; [cbn [set_limit off]; lia|]. exists (wc - 1). split; [reflexivity|]. cbn [set_limit off]. lia. }
  pose proof (parse_lops_post _ _ idx G t (g_opcode g)
                (lops_fuel (g_operands g) (set_limit d0 (wc - 1))) (g_operands g) _ None None [] B) as P.
  destruct (parse_lops G _ t (g_opcode g) (g_operands g) idx (set_limit d0 (wc - 1)) None None [])
    as [[[[rt rid] ops] d3]|e'|p] eqn:PL; cbn [bind post] in *; try discriminate.
  destruct (limit_reached d3) eqn:LR; [|discriminate]. inversion H; subst i d1. clear H.
  pose proof (Bd_reached _ _ _ P LR) as Oe.
  apply parse_lops_ok in PL as (A & _).
  destruct A as (_ & _ & p2 & R2 & O2 & _). cbn [set_limit rest off] in R2, O2.
  exists ([b0; b1; b2; b3] ++ p2). split; [reflexivity|]. cbv zeta. split; [exact Z|].
  split.
  { cbn [i_opcode]. unfold lookup_core in LK. apply find_some in LK as [_ LK]. apply N.eqb_eq in LK. exact LK. }
  cbn [clear_limit rest off lim].
  split; [rewrite R0; cbn [app]; rewrite R2; reflexivity|].
  split; [rewrite app_length; cbn [length]; lia|]. split; [lia|reflexivity].
Qed.

(** ---- the bounds, checked on the linked grammar of this run ---- *)
Definition at20 (bs : list N) : dec := {| rest := bs; off := 20; lim := None |}.

(** OpCapability (17), wc = 2, unknown enumerant 0xffff: the offset of the operand word *)
Example ex_unknown_enumerant :
  parse_inst Linked.G [] 7 (at20 [17;0;2;0; 255;255;0;0]) =
  Er (POperandError (KindUnknown "Capability" 24 65535)).
Proof. vm_compute. reflexivity. Qed.

(** the word count (3) exceeds the stream: StreamExpected at the end of the stream,
    which still lies inside the declared extent [24, 32] *)
Example ex_wc_exceeds_stream :
  parse_inst Linked.G [] 7 (at20 [17;0;3;0]) = Er (POperandError (StreamExpected 24)).
Proof. vm_compute. reflexivity. Qed.

(** a missing operand: wc = 1, the error offset is both ends of [24, 24] *)
Example ex_missing_operand :
  parse_inst Linked.G [] 7 (at20 [17;0;1;0]) = Er (POperandExpected 24 7).
Proof. vm_compute. reflexivity. Qed.

(** too many words declared: the offset of the first surplus word *)
Example ex_operand_exceeded :
  parse_inst Linked.G [] 7 (at20 [17;0;3;0; 1;0;0;0; 9;9;9;9]) = Er (POperandExceeded 28 7).
Proof. vm_compute. reflexivity. Qed.

(** a string without terminator inside the limit: LimitReached at the END of the
    declared extent (OpSource-less example: OpExtension = 10, wc = 2): 20 + 4*2 = 28 *)
Example ex_string_limit :
  parse_inst Linked.G [] 7 (at20 [10;0;2;0; 65;65;65;65; 0;0;0;0]) =
  Er (POperandError (LimitReached 28)).
Proof. vm_compute. reflexivity. Qed.

Example ex_wc_zero : parse_inst Linked.G [] 7 (at20 [17;0;0;0]) = Er (PWordCountZero 20 7).
Proof. vm_compute. reflexivity. Qed.

Example ex_opcode_unknown :
  parse_inst Linked.G [] 7 (at20 [255;255;1;0]) = Er (POpcodeUnknown 20 7 65535).
Proof. vm_compute. reflexivity. Qed.

(** ====================================================================== *)
(** * E1: header classification                                              *)
(** ====================================================================== *)

(** the k-th little-endian word of a byte list *)
Definition le_word (bytes : list N) (k : nat) : N :=
  word_of_bytes (nth (4 * k) bytes 0) (nth (4 * k + 1) bytes 0) (nth (4 * k + 2) bytes 0) (nth (4 * k + 3) bytes 0).

(** the header reported for a stream with the right magic number: version from
    bytes 2 (major) and 1 (minor) of the second word, bound = fourth word;
    generator and schema are NOT taken from the stream *)
Definition header_of (bytes : list N) : header :=
  {| h_magic := MAGIC;
     h_version := ((le_word bytes 1 / 65536) mod 256) * 65536 + ((le_word bytes 1 / 256) mod 256) * 256;
     h_generator := GENERATOR; h_bound := le_word bytes 3; h_reserved := 0 |}.

Theorem header_classification bytes :
  ((length bytes < 20)%nat /\
   parse_header (mkdec bytes) =
     Er (PHeaderIncomplete (StreamExpected (4 * (N.of_nat (length bytes) / 4)))))
  \/
  ((20 <= length bytes)%nat /\
   ( (le_word bytes 0 = MAGIC /\
      parse_header (mkdec bytes) = Ok (header_of bytes, {| rest := skipn 20 bytes; off := 20; lim := None |}))
  \/ (le_word bytes 0 = MAGIC_SWAPPED /\ parse_header (mkdec bytes) = Er PEndianness)
  \/ (le_word bytes 0 <> MAGIC /\ le_word bytes 0 <> MAGIC_SWAPPED /\
      parse_header (mkdec bytes) = Er PHeaderIncorrect) )).
Proof.
  destruct bytes as [|b0 [|b1 [|b2 [|b3 [|b4 [|b5 [|b6 [|b7 [|b8 [|b9 [|b10 [|b11 [|b12 [|b13 [|b14 [|b15 [|b16 [|b17 [|b18 [|b19 r]]]]]]]]]]]]]]]]]]]];
    try (left; split; [cbn [length]; lia|reflexivity]).
  right. split; [cbn [length]; lia|].
  set (bytes := b0 :: b1 :: b2 :: b3 :: b4 :: b5 :: b6 :: b7 :: b8 :: b9 :: b10 :: b11 :: b12 :: b13 :: b14 ::
                b15 :: b16 :: b17 :: b18 :: b19 :: r).
  assert (E : parse_header (mkdec bytes) =
              if N.eqb (le_word bytes 0) MAGIC
              then Ok (header_of bytes, {| rest := skipn 20 bytes; off := 20; lim := None |})
              else if N.eqb (le_word bytes 0) MAGIC_SWAPPED then Er PEndianness else Er PHeaderIncorrect)
    by reflexivity.
  rewrite E. destruct (N.eqb (le_word bytes 0) MAGIC) eqn:M.
  - left. apply N.eqb_eq in M. split; [exact M|reflexivity].
  - apply N.eqb_neq in M. right. destruct (N.eqb (le_word bytes 0) MAGIC_SWAPPED) eqn:M2.
    + left. apply N.eqb_eq in M2. split; [exact M2|reflexivity].
    + right. apply N.eqb_neq in M2. auto.
Qed.

(** the four outcomes, as a list of exhaustive, mutually exclusive cases *)
Corollary header_short bytes : (length bytes < 20)%nat ->
  exists e, parse_header (mkdec bytes) = Er (PHeaderIncomplete e).
Proof.
  intros H. destruct (header_classification bytes) as [[_ E]|[H' _]]; [eauto|lia].
Qed.

Corollary header_magic bytes : (20 <= length bytes)%nat -> le_word bytes 0 = MAGIC ->
  exists h d1, parse_header (mkdec bytes) = Ok (h, d1) /\ h = header_of bytes /\
               off d1 = 20 /\ rest d1 = skipn 20 bytes /\ lim d1 = None.
Proof.
  intros H M. destruct (header_classification bytes) as [[H' _]|[_ [[_ E]|[[M' _]|[M' _]]]]]; try lia.
  all: try (exfalso; rewrite M in M'; discriminate M').
  all: try contradiction.
  eexists _, _. split; [exact E|]. cbn [off rest lim]. auto.
Qed.

Corollary header_swapped bytes : (20 <= length bytes)%nat -> le_word bytes 0 = MAGIC_SWAPPED ->
  parse_header (mkdec bytes) = Er PEndianness.
Proof.
  intros H M. destruct (header_classification bytes) as [[H' _]|[_ [[M' _]|[[_ E]|[_ [M' _]]]]]]; try lia.
  all: try (exfalso; rewrite M in M'; discriminate M').
  all: try contradiction.
  exact E.
Qed.

Corollary header_other bytes : (20 <= length bytes)%nat ->
  le_word bytes 0 <> MAGIC -> le_word bytes 0 <> MAGIC_SWAPPED ->
  parse_header (mkdec bytes) = Er PHeaderIncorrect.
Proof.
  intros H M1 M2. destruct (header_classification bytes) as [[H' _]|[_ [[M' _]|[[M' _]|[_ [_ E]]]]]]; try lia;
    try contradiction. exact E.
Qed.

(** a header is accepted exactly when there are 20 bytes starting with the magic number *)
Corollary header_ok_iff bytes :
  (exists h d1, parse_header (mkdec bytes) = Ok (h, d1)) <-> ((20 <= length bytes)%nat /\ le_word bytes 0 = MAGIC).
Proof.
  split.
  - intros (h & d1 & E). destruct (header_classification bytes) as [[_ E']|[H [[M _]|[[_ E']|[_ [_ E']]]]]];
      try (rewrite E in E'; discriminate E'). auto.
  - intros [H M]. destruct (header_magic bytes H M) as (h & d1 & E & _). eauto.
Qed.

(** for genuine bytes (< 256) the version is read off bytes 6 (major) and 5 (minor) *)
Lemma header_version_bytes bytes : (forall b, In b bytes -> b < 256) -> (8 <= length bytes)%nat ->
  h_version (header_of bytes) = nth 6 bytes 0 * 65536 + nth 5 bytes 0 * 256.
Proof.
  intros HB HL.
  assert (Hn : forall k, (k < length bytes)%nat -> nth k bytes 0 < 256) by (intros k Hk; apply HB, nth_In; exact Hk).
  unfold header_of, le_word. cbn [h_version Nat.mul Nat.add]. unfold word_of_bytes.
  pose proof (Hn 4%nat ltac:(lia)). pose proof (Hn 5%nat ltac:(lia)).
  pose proof (Hn 6%nat ltac:(lia)). pose proof (Hn 7%nat ltac:(lia)).
  set (x4 := nth 4 bytes 0) in *. set (x5 := nth 5 bytes 0) in *.
  set (x6 := nth 6 bytes 0) in *. set (x7 := nth 7 bytes 0) in *. lia.
Qed.

(** ====================================================================== *)
(** * Chains of successfully parsed instructions                             *)
(** ====================================================================== *)

(** the word count declared by the first word at [d] (0 if there is none) *)
Definition declared_wc (d : dec) : N :=
  match word d with (inl w, _) => (w / 65536) mod 65536 | _ => 0 end.

(** [chain G t idx d is chunks t' d']: starting at decoder [d] with tracker [t]
    after [idx] instructions, successive [parse_inst] calls succeed and yield
    [is]; the k-th call consumes exactly the bytes [chunk_k]; afterwards the
    decoder is [d'] and the tracker [t']. *)
Inductive chain (G : gdata) : tracker -> N -> dec -> list inst -> list (list N) -> tracker -> dec -> Prop :=
| chain_nil t idx d : chain G t idx d [] [] t d
| chain_cons t idx d i d1 t1 chunk is chunks t' d' :
    parse_inst G t (idx + 1) d = Ok (i, d1) -> track G t i = Some t1 ->
    rest d = chunk ++ rest d1 -> N.of_nat (length chunk) = 4 * declared_wc d -> declared_wc d <> 0 ->
    chain G t1 (idx + 1) d1 is chunks t' d' ->
    chain G t idx d (i :: is) (chunk :: chunks) t' d'.

Lemma chain_facts G t idx d is chunks t' d' : chain G t idx d is chunks t' d' ->
  length chunks = length is /\
  rest d = concat chunks ++ rest d' /\
  off d' = off d + N.of_nat (length (concat chunks)) /\
  Forall (fun c => (4 <= length c)%nat) chunks /\
  (lim d = None -> lim d' = None).
Proof.
  induction 1 as [t idx d|t idx d i d1 t1 chunk is chunks t' d' PI T R L Z _ IH].
  - cbn [concat app length]. repeat split; auto. lia.
  - destruct IH as (I1 & I2 & I3 & I4 & I5).
    destruct (parse_inst_exact _ _ _ _ _ _ PI) as (w & d0 & ch & W & _ & _ & _ & _ & O & Ln).
    unfold declared_wc in L, Z. rewrite W in L, Z. cbv zeta in O.
    split; [cbn [length]; lia|]. split; [cbn [concat]; rewrite <- app_assoc, <- I2; exact R|].
    split; [cbn [concat]; rewrite app_length; lia|]. split; [constructor; [lia|exact I4]|].
    intros _. apply I5. exact Ln.
Qed.

Lemma chain_length_bound G t idx d is chunks t' d' : chain G t idx d is chunks t' d' ->
  (4 * length is + length (rest d') <= length (rest d))%nat.
Proof.
  induction 1 as [t idx d|t idx d i d1 t1 chunk is chunks t' d' PI T R L Z _ IH]; [cbn [length]; lia|].
  rewrite R, app_length. cbn [length]. lia.
Qed.

(** the scanner, read as a chain followed by the outcome of one more [parse_inst] *)
Lemma scan_chain G : forall fuel t idx d is r, scan G fuel t idx d = (is, r) ->
  (forall p, r <> Panic p) ->
  exists chunks t' d', chain G t idx d is chunks t' d' /\
    exists e, parse_inst G t' (idx + N.of_nat (length is) + 1) d' = Er e /\
              r = match e with PComplete => Ok tt | _ => Er e end.
Proof.
  induction fuel as [|f IH]; intros t idx d is r H NP; cbn [scan] in H.
  { inversion H; subst. exfalso. eapply NP; reflexivity. }
  destruct (parse_inst G t (idx + 1) d) as [[i d1]|e|p] eqn:PI.
  - destruct (track G t i) as [t1|] eqn:T.
    2:{ inversion H; subst. exfalso. eapply NP; reflexivity. }
    destruct (scan G f t1 (idx + 1) d1) as [is1 r1] eqn:SC. inversion H; subst. clear H.
    destruct (IH _ _ _ _ _ SC NP) as (chunks & t' & d' & CH & e & PE & ->).
    destruct (parse_inst_exact _ _ _ _ _ _ PI) as (w & d0 & ch & W & Z & _ & R & L & _). cbv zeta in *.
    exists (ch :: chunks), t', d'. split.
    + eapply chain_cons; try eassumption; unfold declared_wc; rewrite W; assumption.
    + exists e. split; [|reflexivity]. cbn [length].
      replace (idx + N.of_nat (S (length is1)) + 1) with (idx + 1 + N.of_nat (length is1) + 1) by lia.
      exact PE.
  - assert (is = []) by (destruct e; inversion H; reflexivity). subst is.
    exists [], t, d. split; [constructor|]. exists e. cbn [length]. rewrite N.add_0_r.
    split; [exact PI|]. destruct e; inversion H; reflexivity.
  - inversion H; subst. exfalso. eapply NP; reflexivity.
Qed.

(** ... and conversely *)
Lemma chain_scan G t idx d is chunks t' d' : chain G t idx d is chunks t' d' ->
  forall e fuel, parse_inst G t' (idx + N.of_nat (length is) + 1) d' = Er e -> (length is < fuel)%nat ->
  scan G fuel t idx d = (is, match e with PComplete => Ok tt | _ => Er e end).
Proof.
  induction 1 as [t idx d|t idx d i d1 t1 chunk is chunks t' d' PI T R L Z _ IH]; intros e fuel PE Hf;
    (destruct fuel as [|f]; [cbn [length] in Hf; lia|]); cbn [scan].
  - cbn [length] in PE. rewrite N.add_0_r in PE. rewrite PE. destruct e; reflexivity.
  - rewrite PI, T. cbn [length] in PE, Hf.
    replace (idx + N.of_nat (S (length is)) + 1) with (idx + 1 + N.of_nat (length is) + 1) in PE by lia.
    rewrite (IH e f PE ltac:(lia)). reflexivity.
Qed.

(** ====================================================================== *)
(** * E3: the first malformed instruction                                    *)
(** ====================================================================== *)

(** the error reported by the scanner carries the number of the instruction
    that follows the successfully scanned ones *)
Theorem error_index G fuel t idx d is e k :
  scan G fuel t idx d = (is, Er e) -> err_index e = Some k -> k = idx + N.of_nat (length is) + 1.
Proof.
  intros H Hk. apply scan_chain in H as (chunks & t' & d' & _ & e' & PE & E); [|discriminate].
  assert (e' = e) by (destruct e'; inversion E; reflexivity). subst e'.
  eapply parse_inst_error_index; eassumption.
Qed.

(** the error reported by the scanner is the error of the FIRST instruction
    that does not parse: all instructions before it parsed (and are reported
    in [is]), it is located right behind them, its offset lies in its own
    declared extent *)
Theorem scan_error_first G fuel t idx d is e :
  scan G fuel t idx d = (is, Er e) ->
  exists chunks t' d',
    chain G t idx d is chunks t' d' /\
    parse_inst G t' (idx + N.of_nat (length is) + 1) d' = Er e /\ e <> PComplete /\
    off d' = off d + N.of_nat (length (concat chunks)) /\
    (forall o, err_offset e = Some o -> off d' <= o <= off d' + 4 * declared_wc d').
Proof.
  intros H. apply scan_chain in H as (chunks & t' & d' & CH & e' & PE & E); [|discriminate].
  assert (e' = e /\ e <> PComplete) as [-> NE] by (destruct e'; inversion E; (split; [reflexivity|discriminate])).
  exists chunks, t', d'. split; [exact CH|]. split; [exact PE|]. split; [exact NE|].
  split; [apply (chain_facts _ _ _ _ _ _ _ _ CH)|].
  intros o Ho. destruct (error_offset_in_extent _ _ _ _ _ _ PE Ho) as (w & d1 & W & B).
  unfold declared_wc. rewrite W. exact B.
Qed.

Section AlwaysContinue.
Context {St : Type}.
Variable G : gdata.
Variable C : consumer St.
Hypothesis Hinit : forall s, snd (c_init C s) = Continue.
Hypothesis Hheader : forall s h, snd (c_header C s h) = Continue.
Hypothesis Hinst : forall s i, snd (c_inst C s i) = Continue.
Hypothesis Hfin : forall s, snd (c_fin C s) = Continue.

Lemma parse_loop_scan : forall fuel t idx d s,
  snd (parse_loop G C fuel t idx d s) = snd (scan G fuel t idx d) /\
  delivered (loop_log G C fuel t idx d s) = fst (scan G fuel t idx d).
Proof.
  induction fuel as [|f IH]; intros t idx d s; cbn [parse_loop loop_log scan]; [split; reflexivity|].
  destruct (parse_inst G t (idx + 1) d) as [[i d1]|e|p] eqn:PI.
  - destruct (track G t i) as [t1|] eqn:T; [|split; reflexivity].
    pose proof (Hinst s i) as Hi. destruct (c_inst C s i) as [s1 a]. cbn [snd fst] in *. subst a.
    cbn [consume]. destruct (IH t1 (idx + 1) d1 s1) as [I1 I2].
    destruct (scan G f t1 (idx + 1) d1) as [is r]. cbn [fst snd] in *. split; [exact I1|].
    cbn [delivered flat_map inst_of_entry fst app]. fold (delivered (loop_log G C f t1 (idx + 1) d1 s1)).
    rewrite I2. reflexivity.
  - destruct e; cbn [fst snd delivered flat_map]; try (split; reflexivity).
    pose proof (Hfin s) as Hf. destruct (c_fin C s) as [s1 a]. cbn [snd fst] in *. subst a.
    split; reflexivity.
  - split; reflexivity.
Qed.

(** for an always-Continue consumer the parse IS the scan *)
Theorem parse_is_scan bytes s0 :
  snd (parse G C bytes s0) = snd (scan_bytes G bytes) /\
  delivered (log_of G C bytes s0) = snd (fst (scan_bytes G bytes)).
Proof.
  rewrite log_of_eq. unfold parse, parse_log, scan_bytes.
  pose proof (Hinit s0) as Hi. destruct (c_init C s0) as [s1 a]. cbn [snd fst] in *. subst a.
  cbn [consume]. destruct (parse_header (mkdec bytes)) as [[h d1]|e|p]; try (split; reflexivity).
  pose proof (Hheader s1 h) as Hh. destruct (c_header C s1 h) as [s2 a]. cbn [snd fst] in *. subst a.
  cbn [consume]. destruct (parse_loop_scan (S (length bytes)) [] 0 d1 s2) as [I1 I2].
  destruct (scan G (S (length bytes)) [] 0 d1) as [is r]. cbn [fst snd] in *. split; [exact I1|].
  cbn [delivered flat_map inst_of_entry fst app].
  fold (delivered (loop_log G C (S (length bytes)) [] 0 d1 s2)). exact I2.
Qed.

(** E3: the parse delivers exactly the instructions before the first malformed
    one, and returns the error of that one *)
Theorem first_malformed bytes s0 h is r :
  scan_bytes G bytes = (Some h, is, r) ->
  snd (parse G C bytes s0) = r /\ delivered (log_of G C bytes s0) = is.
Proof.
  intros SB. destruct (parse_is_scan bytes s0) as [P1 P2]. rewrite SB in P1, P2. exact (conj P1 P2).
Qed.

(** E4 (first half): acceptance = complete scan *)
Theorem accept_iff bytes s0 :
  snd (parse G C bytes s0) = Ok tt <-> exists h is, scan_bytes G bytes = (Some h, is, Ok tt).
Proof.
  destruct (parse_is_scan bytes s0) as [P1 _]. rewrite P1. split.
  - destruct (scan_bytes G bytes) as [[[h|] is] r] eqn:SB; cbn [snd]; intros ->.
    + eauto.
    + apply scan_bytes_no_header in SB as [_ K]. contradiction.
  - intros (h & is & ->). reflexivity.
Qed.

End AlwaysContinue.

(** the error index, at stream level: the instruction number (1-based, counted
    from the header) of the first malformed instruction *)
Theorem stream_error_index G bytes h is e k :
  scan_bytes G bytes = (Some h, is, Er e) -> err_index e = Some k -> k = N.of_nat (length is) + 1.
Proof.
  unfold scan_bytes. destruct (parse_header (mkdec bytes)) as [[h' d1]|e'|p]; try discriminate.
  destruct (scan G (S (length bytes)) [] 0 d1) as [is' r] eqn:SC. intros H Hk. inversion H; subst.
  rewrite (error_index _ _ _ _ _ _ _ _ SC Hk). lia.
Qed.

Corollary stream_error_index_pos G bytes h is e k :
  scan_bytes G bytes = (Some h, is, Er e) -> err_index e = Some k -> k <> 0.
Proof. intros H Hk. rewrite (stream_error_index _ _ _ _ _ _ H Hk). lia. Qed.

(** ====================================================================== *)
(** * E4: what a complete scan means                                         *)
(** ====================================================================== *)

(** the unread bytes at [d] split exactly into the encodings of [is] (each as
    long as its first word declares, each accepted by [parse_inst] with the
    tracker built so far) followed by fewer than four stray bytes *)
Definition splits (G : gdata) (t : tracker) (idx : N) (d : dec) (is : list inst)
           (chunks : list (list N)) (tail : list N) : Prop :=
  exists t' d', chain G t idx d is chunks t' d' /\ tail = rest d' /\ (length tail < 4)%nat.

Lemma splits_concat G t idx d is chunks tail : splits G t idx d is chunks tail ->
  rest d = concat chunks ++ tail /\ (length tail < 4)%nat /\ length chunks = length is /\
  Forall (fun c => (4 <= length c)%nat) chunks.
Proof.
  intros (t' & d' & CH & -> & Ht). destruct (chain_facts _ _ _ _ _ _ _ _ CH) as (L & R & _ & F & _). auto.
Qed.

Lemma complete_iff_short G t idx d : lim d = None ->
  (parse_inst G t idx d = Er PComplete <-> (length (rest d) < 4)%nat).
Proof.
  intros Hl. split.
  - intros H. apply parse_inst_error_gen in H as [[_ (de & d' & W)]|(w & d1 & _ & H)].
    + unfold word, limit_reached in W. rewrite Hl in W.
      destruct (rest d) as [|b0 [|b1 [|b2 [|b3 r]]]]; cbn [length]; try lia. discriminate W.
    + cbv zeta in H. destruct H as [[H _]|[[H _]|(_ & _ & H)]]; try discriminate H. destruct H.
  - intros H. unfold parse_inst, word, limit_reached. rewrite Hl.
    destruct (rest d) as [|b0 [|b1 [|b2 [|b3 r]]]]; cbn [length] in H; try lia; reflexivity.
Qed.

Theorem scan_ok_splits G fuel t idx d is : lim d = None ->
  scan G fuel t idx d = (is, Ok tt) -> exists chunks tail, splits G t idx d is chunks tail.
Proof.
  intros Hl H. apply scan_chain in H as (chunks & t' & d' & CH & e & PE & E); [|discriminate].
  assert (e = PComplete) by (destruct e; try discriminate E; reflexivity). subst e.
  exists chunks, (rest d'), t', d'. split; [exact CH|]. split; [reflexivity|].
  eapply complete_iff_short; [|exact PE]. apply (chain_facts _ _ _ _ _ _ _ _ CH). exact Hl.
Qed.

Theorem splits_scan G fuel t idx d is chunks tail : lim d = None -> (length (rest d) < fuel)%nat ->
  splits G t idx d is chunks tail -> scan G fuel t idx d = (is, Ok tt).
Proof.
  intros Hl Hf (t' & d' & CH & -> & Ht).
  pose proof (chain_length_bound _ _ _ _ _ _ _ _ CH) as LB.
  apply (chain_scan _ _ _ _ _ _ _ _ CH PComplete); [|lia].
  apply complete_iff_short; [|exact Ht]. apply (chain_facts _ _ _ _ _ _ _ _ CH). exact Hl.
Qed.

(** E4 (second half), at stream level *)
Theorem scan_bytes_ok_iff G bytes h is :
  scan_bytes G bytes = (Some h, is, Ok tt) <->
  exists d1 chunks tail, parse_header (mkdec bytes) = Ok (h, d1) /\ splits G [] 0 d1 is chunks tail.
Proof.
  unfold scan_bytes. split.
  - destruct (parse_header (mkdec bytes)) as [[h' d1]|e|p] eqn:PH; try discriminate.
    destruct (scan G (S (length bytes)) [] 0 d1) as [is' r] eqn:SC. intros H. inversion H; subst.
    apply parse_header_ok in PH as (_ & Hn & _). cbn [mkdec lim] in Hn.
    destruct (scan_ok_splits _ _ _ _ _ _ (Hn eq_refl) SC) as (chunks & tail & SP). eauto.
  - intros (d1 & chunks & tail & PH & SP). rewrite PH.
    apply parse_header_ok in PH as (_ & Hn & pre & R & _ & K). cbn [mkdec lim rest] in *.
    rewrite (splits_scan G (S (length bytes)) [] 0 d1 is chunks tail (Hn eq_refl)); [reflexivity| |exact SP].
    rewrite R, app_length. lia.
Qed.

(** ====================================================================== *)
(** * Non-vacuity on the linked grammar of this run                          *)
(** ====================================================================== *)

Definition bad_cap : list N := [17;0;2;0; 255;255;0;0].    (* OpCapability <unknown> *)

(** the second instruction is malformed: the first is delivered, the error
    offset 32 lies in the extent [28, 36] of the second instruction *)
Example ex_first_malformed :
  snd (parse Linked.G C0 (hdr_bytes ++ ex_cap ++ bad_cap ++ ex_wc0) tt) =
    Er (POperandError (KindUnknown "Capability" 32 65535)) /\
  length (delivered (log_of Linked.G C0 (hdr_bytes ++ ex_cap ++ bad_cap ++ ex_wc0) tt)) = 1%nat.
Proof. vm_compute. split; reflexivity. Qed.

Example ex_error_index_2 :
  snd (scan_bytes Linked.G (hdr_bytes ++ ex_cap ++ [17;0;3;0; 1;0;0;0; 9;9;9;9])) = Er (POperandExceeded 36 2).
Proof. vm_compute. reflexivity. Qed.

(** two instructions and three stray bytes: a complete scan *)
Example ex_splits : exists is,
  splits Linked.G [] 0 {| rest := ex_cap ++ ex_cap ++ [1;2;3]; off := 20; lim := None |}
         is [ex_cap; ex_cap] [1;2;3] /\ length is = 2%nat.
Proof.
  eexists. split.
  - eexists _, _. split; [|split].
    + eapply chain_cons; [vm_compute; reflexivity|vm_compute; reflexivity|cbn [rest]; reflexivity
                         |vm_compute; reflexivity|vm_compute; discriminate|].
      eapply chain_cons; [vm_compute; reflexivity|vm_compute; reflexivity|cbn [rest]; reflexivity
                         |vm_compute; reflexivity|vm_compute; discriminate|].
      apply chain_nil.
    + reflexivity.
    + cbn [length]. lia.
  - reflexivity.
Qed.

Print Assumptions header_classification.
Print Assumptions header_ok_iff.
Print Assumptions header_version_bytes.
Print Assumptions parse_inst_error.
Print Assumptions error_offset_in_extent.
Print Assumptions parse_inst_error_index.
Print Assumptions parse_inst_exact.
Print Assumptions error_index.
Print Assumptions scan_error_first.
Print Assumptions first_malformed.
Print Assumptions parse_is_scan.
Print Assumptions stream_error_index.
Print Assumptions accept_iff.
Print Assumptions scan_ok_splits.
Print Assumptions splits_scan.
Print Assumptions splits_concat.
Print Assumptions scan_bytes_ok_iff.
