(** C07: the disassembly at token level (Model/Disasm.v) is unambiguous.

      X1 one_line_per_instruction   the lines of [dis_module] are the renderings of
                                    [all_insts m], one line each, in order
      X2 line_shape_*               "%rid = " iff a result id, Op<g_name>, "%rt" iff a
                                    result type, then one token per operand; what
                                    disas_constant / disas_ext_inst change
      X3 read_dis                   a grammar-directed reader reads every conforming
                                    instruction back from its line (full: parameterised
                                    enumerants and masks, OpSpecConstantOp, OpSwitch
                                    included); [unambiguous], [unambiguous_lines],
                                    [context_from_lines], [sets_from_lines], [unambiguous_modules]

    Every theorem holds for every vocabulary, grammar and module (no bound). *)
From RV Require Import Model.Base Model.Bytes Model.Spirv Model.Grammar Model.Decoder Model.Inst
                       Model.Module Model.Parser Model.Disasm.
From RV Require Import Spec.Conforms.
From RV Require Import Proofs.SpirvFacts Proofs.GrammarFacts Proofs.CodecFacts Proofs.LayoutFacts.

Local Arguments b_label {I}. Local Arguments b_insts {I}.
Local Arguments f_def {I}. Local Arguments f_end {I}. Local Arguments f_params {I}. Local Arguments f_blocks {I}.
Local Arguments m_caps {I}. Local Arguments m_exts {I}. Local Arguments m_imports {I}.
Local Arguments m_memory_model {I}. Local Arguments m_entry_points {I}. Local Arguments m_exec_modes {I}.
Local Arguments m_debug_string_source {I}. Local Arguments m_debug_names {I}.
Local Arguments m_debug_module_processed {I}. Local Arguments m_annotations {I}.
Local Arguments m_types_global_values {I}. Local Arguments m_functions {I}.
Local Arguments olist {A}.

(** ================================================================ *)
(** * X1: one line per instruction                                    *)
(** ================================================================ *)
(** where an instruction sits decides which of the three renderers prints it *)
Inductive ctag := CGlobal | CBody | CPlain.

Definition render (V : vocab) (t : tracker) (sets : esets) (ti : ctag * inst) : list dtok :=
  match fst ti with
  | CGlobal => render_global V t (snd ti)
  | CBody => render_body V sets (snd ti)
  | CPlain => dis_inst V (snd ti)
  end.

Definition tagged_block (b : block inst) : list (ctag * inst) :=
  map (pair CPlain) (olist (b_label b)) ++ map (pair CBody) (b_insts b).
Definition tagged_func (f : func inst) : list (ctag * inst) :=
  map (pair CPlain) (olist (f_def f)) ++ map (pair CPlain) (f_params f)
  ++ flat_map tagged_block (f_blocks f) ++ map (pair CPlain) (olist (f_end f)).
Definition tagged_insts (m : module inst) : list (ctag * inst) :=
  map (pair CGlobal) (spec_global m) ++ flat_map tagged_func (m_functions m).

Lemma map_flat_map {A B C} (f : B -> C) (g : A -> list B) l :
  map f (flat_map g l) = flat_map (fun x => map f (g x)) l.
Proof. induction l as [|x r IH]; cbn [flat_map map]; [reflexivity|]. rewrite map_app, IH. reflexivity. Qed.

Lemma map_snd_pair {A B} (a : A) (l : list B) : map snd (map (pair a) l) = l.
Proof. rewrite map_map. cbn [snd]. apply map_id. Qed.

(** the tagged sequence is [all_insts m], tagged *)
Theorem tagged_insts_all m : map snd (tagged_insts m) = all_insts m.
Proof.
  unfold tagged_insts. rewrite map_app, map_snd_pair, map_flat_map.
  rewrite all_insts_is_spec_all. unfold spec_all. f_equal.
  apply flat_map_ext. intros f. unfold tagged_func, spec_func.
  rewrite !map_app, !map_snd_pair, map_flat_map. f_equal. f_equal. f_equal.
  apply flat_map_ext. intros b. unfold tagged_block, spec_block.
  rewrite map_app, !map_snd_pair. reflexivity.
Qed.

Definition module_tracker (V : vocab) (m : module inst) : tracker := dtrack_all V (m_types_global_values m).
Definition module_sets (m : module inst) : esets := ext_track_all (m_imports m).

(** the disassembler's type tracker is the parser's: TypeTracker::track *)
Lemma dtrack_step_is_track G V t i :
  (forall opc, v_is_type V opc = gd_is_type G opc) -> dtrack_step V t i = Parser.track G t i.
Proof. intros H. unfold dtrack_step, Parser.track. rewrite H. reflexivity. Qed.

Definition track_opt (G : gdata) (o : option tracker) (i : inst) : option tracker :=
  match o with Some x => Parser.track G x i | None => None end.

(** when the real run does not panic, [dtrack_all] is the fold of Parser.track *)
Lemma dtrack_ok_all_tracks G V : (forall opc, v_is_type V opc = gd_is_type G opc) ->
  forall l t, dtrack_ok V t l = true ->
  fold_left (track_opt G) l (Some t) = Some (fold_left (dtrack_total V) l t).
Proof.
  intros H. induction l as [|i l IH]; intros t Hok; cbn [dtrack_ok fold_left track_opt] in *; [reflexivity|].
  unfold dtrack_total at 2. rewrite <- (dtrack_step_is_track G V t i H).
  destruct (dtrack_step V t i) as [s|]; [|discriminate]. apply IH. exact Hok.
Qed.

Theorem one_line_per_instruction V h m :
  snd (dis_module V h m) = map (render V (module_tracker V m) (module_sets m)) (tagged_insts m)
  /\ length (snd (dis_module V h m)) = length (all_insts m).
Proof.
  assert (E: snd (dis_module V h m) = map (render V (module_tracker V m) (module_sets m)) (tagged_insts m)).
  { unfold dis_module, tagged_insts, module_tracker, module_sets. cbn [snd].
    rewrite map_app, map_map, map_flat_map. unfold render at 1. cbn [fst snd]. f_equal.
    apply flat_map_ext. intros f. unfold dis_func, tagged_func.
    rewrite !map_app, !map_map, map_flat_map. unfold render at 1 2 4. cbn [fst snd].
    f_equal. f_equal. f_equal.
    apply flat_map_ext. intros b. unfold dis_block, tagged_block.
    rewrite map_app, !map_map. unfold render. cbn [fst snd]. reflexivity. }
  split; [exact E|]. rewrite E, map_length, <- tagged_insts_all, map_length. reflexivity.
Qed.

(** the k-th line is the rendering of the k-th instruction of [all_insts m] *)
Corollary kth_line V h m k :
  nth_error (snd (dis_module V h m)) k
  = option_map (render V (module_tracker V m) (module_sets m)) (nth_error (tagged_insts m) k)
  /\ option_map snd (nth_error (tagged_insts m) k) = nth_error (all_insts m) k.
Proof.
  destruct (one_line_per_instruction V h m) as [E _]. rewrite E, <- tagged_insts_all.
  split; [apply nth_error_map|symmetry; apply nth_error_map].
Qed.

(** the header line *)
Theorem header_line V h m : fst (dis_module V h m) = option_map dis_header h.
Proof. reflexivity. Qed.

(** ================================================================ *)
(** * X2: the shape of a line                                         *)
(** ================================================================ *)
Definition blen {A} (o : option A) (n : nat) : nat := match o with Some _ => n | None => O end.

(** plain rendering: ["%rid" "="]? "Op<name>" ["%rt"]? then exactly one token per operand, in order *)
Theorem line_shape_plain V i :
  dis_inst V i
  = rid_toks (i_rid i) ++ [DOp (op_name V (i_opcode i))] ++ rt_toks (i_rtype i) ++ map (dis_operand V) (i_ops i)
  /\ (forall r, i_rid i = Some r -> rid_toks (i_rid i) = [DId r; DEq])
  /\ (i_rid i = None -> rid_toks (i_rid i) = [])
  /\ (forall t, i_rtype i = Some t -> rt_toks (i_rtype i) = [DId t])
  /\ (i_rtype i = None -> rt_toks (i_rtype i) = [])
  /\ (forall e, get_entry (v_table V) (i_opcode i) = Some e -> op_name V (i_opcode i) = g_name e)
  /\ length (dis_inst V i) = (blen (i_rid i) 2 + 1 + blen (i_rtype i) 1 + length (i_ops i))%nat.
Proof.
  split; [|split; [|split; [|split; [|split; [|split]]]]].
  - unfold dis_inst, dis_prefix. rewrite <- !app_assoc. reflexivity.
  - intros r ->. reflexivity.
  - intros ->. reflexivity.
  - intros t ->. reflexivity.
  - intros ->. reflexivity.
  - intros e H. unfold op_name. rewrite H. reflexivity.
  - unfold dis_inst, dis_prefix. rewrite !app_length, map_length. cbn [length].
    destruct (i_rid i), (i_rtype i); cbn [rid_toks rt_toks blen length]; lia.
Qed.

(** every line starts "%r =" exactly when the instruction has a result id:
    the first token of a line is [DId] iff [i_rid] is [Some] (the token
    after an absent result id is the [DOp]) *)
Theorem line_starts_with_result_id V i X :
  match dis_prefix V i ++ X with
  | DId r :: DEq :: _ => i_rid i = Some r
  | DOp _ :: _ => i_rid i = None
  | _ => False
  end.
Proof. unfold dis_prefix. destruct (i_rid i); cbn [rid_toks app]; reflexivity. Qed.

Definition is_lit_tok (tk : dtok) : Prop :=
  match tk with DNum _ | DF32 _ | DF64 _ => True | _ => False end.

(** disas_constant: either the plain line, or the prefix followed by ONE
    literal token for the first operand.  It changes only the literal token -
    but it also DROPS every operand after the first (see
    [constant_drops_operands]). *)
Theorem line_shape_constant V t i :
  dis_constant V t i = dis_inst V i
  \/ exists rt ty o rest tk,
       i_rtype i = Some rt /\ Parser.resolve t rt = Some ty /\ i_ops i = o :: rest
       /\ (exists v, o = OLit32 v /\ tk = lit_tok32 ty v \/ o = OLit64 v /\ tk = lit_tok64 ty v)
       /\ is_lit_tok tk
       /\ dis_constant V t i = dis_prefix V i ++ [tk]
       /\ dis_inst V i = dis_prefix V i ++ dis_operand V o :: map (dis_operand V) rest.
Proof.
  unfold dis_constant. destruct (i_rtype i) as [rt|] eqn:ER; [|left; reflexivity].
  destruct (Parser.resolve t rt) as [ty|] eqn:ET; [|left; reflexivity].
  destruct (i_ops i) as [|o rest] eqn:EO; [left; reflexivity|].
  destruct o; try (left; reflexivity); right.
  - exists rt, ty, (OLit32 v), rest, (lit_tok32 ty v).
    split; [reflexivity|]. split; [exact ET|]. split; [reflexivity|].
    split; [exists v; left; split; reflexivity|].
    split; [destruct ty as [b [|]|b]; exact I|].
    split; [reflexivity|]. unfold dis_inst. rewrite EO. reflexivity.
  - exists rt, ty, (OLit64 v), rest, (lit_tok64 ty v).
    split; [reflexivity|]. split; [exact ET|]. split; [reflexivity|].
    split; [exists v; right; split; reflexivity|].
    split; [destruct ty as [b [|]|b]; exact I|].
    split; [reflexivity|]. unfold dis_inst. rewrite EO. reflexivity.
Qed.

(** disas_ext_inst: either the plain line, or the plain line with the token
    of the second operand (the extended instruction's number) replaced by its
    name; nothing else changes *)
Theorem line_shape_ext V sets i :
  dis_ext_inst V sets i = dis_inst V i
  \/ exists id n rest nm,
       i_ops i = OIdRef id :: OExtInst n :: rest /\ ext_name V sets id n = Some nm
       /\ dis_ext_inst V sets i = dis_prefix V i ++ DId id :: DName nm :: map (dis_operand V) rest
       /\ dis_inst V i = dis_prefix V i ++ DId id :: DNum (Z.of_N n) :: map (dis_operand V) rest.
Proof.
  unfold dis_ext_inst. destruct (i_ops i) as [|[] [|[] rest]] eqn:EO; try (left; reflexivity).
  destruct (ext_name V sets v v0) as [nm|] eqn:EN; [|left; reflexivity].
  right. exists v, v0, rest, nm. split; [reflexivity|]. split; [exact EN|]. split; [reflexivity|].
  unfold dis_inst. rewrite EO. reflexivity.
Qed.

(** COUNTEREXAMPLE to "one token per operand" for disas_constant: an
    OpConstant with a tracked result type and two operands prints the first
    operand only (release build; a debug build panics in debug_assert_eq!) *)
Definition V0 : vocab :=
  {| v_table := [ {| g_name := "Constant"; g_opcode := 43; g_caps := []; g_exts := []; g_operands := [] |} ];
     v_enums := fun _ => None; v_masks := fun _ => None; v_strip3 := fun _ => false;
     v_opnames := fun _ => None; v_glsl := []; v_opencl := []; v_is_type := fun _ => false |}.

Example constant_drops_operands :
  let i := {| i_opcode := 43; i_rtype := Some 3; i_rid := Some 12; i_ops := [OLit32 7; OIdRef 99] |} in
  let j := {| i_opcode := 43; i_rtype := Some 3; i_rid := Some 12; i_ops := [OLit32 7] |} in
  dis_constant V0 [(3, TInt 32 false)] i = [DId 12; DEq; DOp "Constant"; DId 3; DNum 7]
  /\ dis_constant V0 [(3, TInt 32 false)] i = dis_constant V0 [(3, TInt 32 false)] j
  /\ i <> j.
Proof. split; [|split]; [vm_compute; reflexivity|vm_compute; reflexivity|discriminate]. Qed.

(** ================================================================ *)
(** * X3: reading a line back                                         *)
(** ================================================================ *)
(** ** the reader *)
Definition z_to_N (z : Z) : option N := if (z <? 0)%Z then None else Some (Z.to_N z).

(** the inverse of bits.join("|"): split a word at every '|' *)
Fixpoint split_bar (s : string) : list string :=
  match s with
  | EmptyString => [EmptyString]
  | SString c r =>
      if Ascii.eqb c BAR then EmptyString :: split_bar r
      else match split_bar r with
           | h :: tl => SString c h :: tl
           | [] => [SString c EmptyString]
           end
  end.

Fixpoint bit_of (rows : list (N * string)) (nm : string) : option N :=
  match rows with
  | [] => None
  | r :: rest => if str_eqb nm (snd r) then Some (fst r) else bit_of rest nm
  end.

Fixpoint bits_of (rows : list (N * string)) (names : list string) : option N :=
  match names with
  | [] => Some 0
  | nm :: r => match bit_of rows nm, bits_of rows r with
               | Some b, Some v => Some (N.lor b v)
               | _, _ => None
               end
  end.

(** a mask word: "None" or bit names joined by "|" *)
Definition read_mask (rows : list (N * string)) (s : string) : option N :=
  if str_eqb s "None" then Some 0 else bits_of rows (split_bar s).

(** the printed identifiers of a value enum *)
Definition disp_table (strip3 : bool) (E : enum_decl) : list (string * N) :=
  map (fun nv => (if strip3 then sdrop 3 (fst nv) else fst nv, snd nv)) (e_variants E).

Section Reader.
Variables (G : gdata) (V : vocab).

(** an enumerant / mask word of kind [k]; a number is accepted as the
    explicit fallback rendering of [dis_operand] *)
Definition read_enum_tok (k : N) (tk : dtok) : option operand :=
  match tk with
  | DName s =>
      match v_masks V k with
      | Some rows => option_map (OEnum k) (read_mask rows s)
      | None => match v_enums V k with
                | Some E => option_map (OEnum k) (assoc s (disp_table (v_strip3 V k) E))
                | None => None
                end
      end
  | DNum z => option_map (OEnum k) (z_to_N z)
  | _ => None
  end.

(** the kind's slot decides how a token is read *)
Definition read_tok (m : Parser.mk) (tk : dtok) : option operand :=
  match m with
  | MkEnum k => read_enum_tok k tk
  | MkIdRef => match tk with DId n => Some (OIdRef n) | _ => None end
  | MkIdScope => match tk with DId n => Some (OIdScope n) | _ => None end
  | MkIdMemSem => match tk with DId n => Some (OIdMemSem n) | _ => None end
  | MkLit32 => match tk with DNum z => option_map OLit32 (z_to_N z) | _ => None end
  | MkExtInst => match tk with DNum z => option_map OExtInst (z_to_N z) | _ => None end
  | MkStr => match tk with DStr s => Some (OStr s) | _ => None end
  end.

Fixpoint read_slots (ss : list rslot) (ts : list dtok) : option (list operand * list dtok) :=
  match ss with
  | [] => Some ([], ts)
  | s :: r =>
      match ts with
      | tk :: ts1 =>
          match read_tok (snd s) tk with
          | Some o => match read_slots r ts1 with
                      | Some (a, rest) => Some (o :: a, rest)
                      | None => None
                      end
          | None => None
          end
      | [] => None
      end
  end.

(** one logical operand of kind [k]: its slots, and for a parameterised kind
    the parameters its value requires (the grammar's parameter table) *)
Definition read_kind (k : N) (ts : list dtok) : option (list operand * list dtok) :=
  match nth_error (gd_arms G) (N.to_nat k) with
  | Some (ASimple ss) => read_slots ss ts
  | Some (AParam s t) =>
      match ts with
      | tk :: ts1 =>
          match read_tok (snd s) tk with
          | Some o => match read_slots (table_params t (operand_value o)) ts1 with
                      | Some (a, rest) => Some (o :: a, rest)
                      | None => None
                      end
          | None => None
          end
      | [] => None
      end
  | _ => None
  end.

Fixpoint read_star (k : N) (fuel : nat) (ts : list dtok) : option (list operand) :=
  match ts with
  | [] => Some []
  | _ :: _ =>
      match fuel with
      | O => None
      | S f => match read_kind k ts with
               | Some (a, rest) => option_map (app a) (read_star k f rest)
               | None => None
               end
      end
  end.

(** a context-dependent literal: its width by the tracked type *)
Definition read_lit (t : tracker) (type_id : N) (tk : dtok) : option operand :=
  match lit_width t type_id, tk with
  | Some W32, DNum z => option_map OLit32 (z_to_N z)
  | Some W64, DNum z => option_map OLit64 (z_to_N z)
  | _, _ => None
  end.

Fixpoint read_pairs (t : tracker) (sel : N) (ts : list dtok) : option (list operand) :=
  match ts with
  | [] => Some []
  | tk :: ts1 =>
      match ts1 with
      | DId w :: r =>
          match read_lit t sel tk, read_pairs t sel r with
          | Some l, Some rest => Some (l :: OIdRef w :: rest)
          | _, _ => None
          end
      | _ => None
      end
  end.

Fixpoint read_nested (lops : list (N * quant)) (ts : list dtok) : option (list operand * list dtok) :=
  match lops with
  | [] => Some ([], ts)
  | (k, q) :: r =>
      if N.eqb k (gd_k_rt G) || N.eqb k (gd_k_rid G) then read_nested r ts
      else if N.eqb k (gd_k_ctx G) || N.eqb k (gd_k_pairlitid G) || N.eqb k (gd_k_specop G) then None
      else
        let one :=
          match read_kind k ts with
          | Some (a, ts1) =>
              match read_nested r ts1 with
              | Some (b, rest) => Some (a ++ b, rest)
              | None => None
              end
          | None => None
          end in
        match q with
        | One => one
        | ZeroOrOne => match ts with [] => read_nested r [] | _ :: _ => one end
        | ZeroOrMore =>
            match read_star k (length ts) ts with
            | Some os => match read_nested r [] with
                         | Some (b, rest) => Some (os ++ b, rest)
                         | None => None
                         end
            | None => None
            end
        end
  end.

(** the opcode of an OpSpecConstantOp by its identifier *)
Definition read_specop (tk : dtok) : option N :=
  match tk with
  | DName s =>
      match find (fun e => option_eqb str_eqb (v_opnames V (g_opcode e)) (Some s)) (gd_table G) with
      | Some e => Some (g_opcode e)
      | None => None
      end
  | DNum z => z_to_N z
  | _ => None
  end.

(** the operand tokens against the grammar entry's operand list: the
    token-level mirror of [conf_lops] *)
Fixpoint read_lops (t : tracker) (opc : N) (ity : option N) (lops : list (N * quant))
         (prt prid : option N) (acc : list operand) (ts : list dtok) : option (list operand) :=
  match lops with
  | [] => if none prt && none prid && nil ts then Some [] else None
  | (k, q) :: r =>
      if none prt && none prid && nil ts then
        if negb (quant_eqb q One) then Some [] else None
      else if N.eqb k (gd_k_rt G) then
        match prt with
        | Some _ => if negb (variadic q) then read_lops t opc ity r None prid acc ts else None
        | None => None
        end
      else if N.eqb k (gd_k_rid G) then
        match prt, prid with
        | None, Some _ => if negb (variadic q) then read_lops t opc ity r None None acc ts else None
        | _, _ => None
        end
      else if negb (none prt && none prid) then None
      else if N.eqb k (gd_k_ctx G) then
        if (N.eqb opc OP_CONSTANT || N.eqb opc OP_SPEC_CONSTANT) && negb (variadic q) then
          match ity, ts with
          | Some id, tk :: ts1 =>
              match read_lit t id tk with
              | Some o => option_map (cons o) (read_lops t opc ity r None None (acc ++ [o]) ts1)
              | None => None
              end
          | _, _ => None
          end
        else None
      else if N.eqb k (gd_k_pairlitid G) then
        if N.eqb opc OP_SWITCH then
          match acc with
          | OIdRef sel :: _ =>
              if variadic q then read_pairs t sel ts
              else match ts with
                   | tk :: DId w :: ts1 =>
                       match read_lit t sel tk with
                       | Some l => option_map (fun x => l :: OIdRef w :: x)
                                     (read_lops t opc ity r None None (acc ++ [l; OIdRef w]) ts1)
                       | None => None
                       end
                   | _ => None
                   end
          | _ => None
          end
        else None
      else if N.eqb k (gd_k_specop G) then
        if negb (variadic q) then
          match ts with
          | tk :: ts1 =>
              match read_specop tk with
              | Some n =>
                  match lookup_core (gd_table G) n with
                  | Some g =>
                      match read_nested (g_operands g) ts1 with
                      | Some (a, ts2) =>
                          option_map (fun x => OSpecOp n :: a ++ x)
                            (read_lops t opc ity r None None (acc ++ OSpecOp n :: a) ts2)
                      | None => None
                      end
                  | None => None
                  end
              | None => None
              end
          | [] => None
          end
        else None
      else if variadic q then read_star k (length ts) ts
      else
        match read_kind k ts with
        | Some (a, ts1) => option_map (app a) (read_lops t opc ity r None None (acc ++ a) ts1)
        | None => None
        end
  end.

(** "%rid =" ? "Op<name>": the result id and the grammar entry, by name *)
Definition read_head (line : list dtok) : option (option N * entry * list dtok) :=
  let '(rid, l1) := match line with
                    | DId r :: DEq :: l => (Some r, l)
                    | _ => (None, line)
                    end in
  match l1 with
  | DOp nm :: l2 =>
      match find (fun e => str_eqb (g_name e) nm) (gd_table G) with
      | Some g => Some (rid, g, l2)
      | None => None
      end
  | _ => None
  end.

(** the grammar says whether the token after the opcode is the result type *)
Definition has_rt (g : entry) : bool :=
  match g_operands g with (k, _) :: _ => N.eqb k (gd_k_rt G) | [] => false end.

Definition split_rt (g : entry) (l : list dtok) : option N * list dtok :=
  if has_rt g then match l with DId v :: l' => (Some v, l') | _ => (None, l) end else (None, l).

(** undo disas_constant: the typed literal back to the plain number *)
Definition unlit (w : option width) (tk : dtok) : dtok :=
  match tk with
  | DNum z =>
      if (z <? 0)%Z then
        match w with
        | Some W32 => DNum (z + Z.of_N (2 ^ 32))
        | Some W64 => DNum (z + Z.of_N (2 ^ 64))
        | None => tk
        end
      else tk
  | DF32 b | DF64 b => DNum (Z.of_N b)
  | _ => tk
  end.

Definition norm_const (t : tracker) (rt : option N) (ts : list dtok) : list dtok :=
  match rt, ts with
  | Some id, [tk] => match Parser.resolve t id with
                     | Some _ => [unlit (lit_width t id) tk]
                     | None => ts
                     end
  | _, _ => ts
  end.

(** undo disas_ext_inst: the instruction's name back to its number *)
Definition norm_ext (sets : esets) (ts : list dtok) : list dtok :=
  match ts with
  | DId id :: DName nm :: r =>
      match ext_table V sets id with
      | Some tbl => match find (fun e => str_eqb (g_name e) nm) tbl with
                    | Some e => DId id :: DNum (Z.of_N (g_opcode e)) :: r
                    | None => ts
                    end
      | None => ts
      end
  | _ => ts
  end.

Definition read_inst (t : tracker) (sets : esets) (line : list dtok) : option inst :=
  match read_head line with
  | None => None
  | Some (rid, g, l2) =>
      let '(rt, ts) := split_rt g l2 in
      let opc := g_opcode g in
      let ts' := if N.eqb opc OP_CONSTANT then norm_const t rt ts
                 else if N.eqb opc OP_EXT_INST then norm_ext sets ts
                 else ts in
      match read_lops t opc rt (g_operands g) rt rid [] ts' with
      | Some ops => Some {| i_opcode := opc; i_rtype := rt; i_rid := rid; i_ops := ops |}
      | None => None
      end
  end.

(** ** well-formedness of the vocabulary against the grammar (all boolean) *)
Fixpoint bar_free (s : string) : bool :=
  match s with
  | EmptyString => true
  | SString c r => negb (Ascii.eqb c BAR) && bar_free r
  end.

Definition single_bit (b : N) : bool := negb (N.eqb b 0) && N.eqb b (2 ^ N.log2 b).

Definition lor_all (rows : list (N * string)) : N := fold_right (fun r acc => N.lor (fst r) acc) 0 rows.

(** a mask table: single bits, pairwise distinct names, none of them "None"
    or containing the separator *)
Definition rows_ok (rows : list (N * string)) : bool :=
  forallb (fun r => single_bit (fst r)) rows
  && nodup_str (map snd rows)
  && negb (mem_str "None" (map snd rows))
  && forallb (fun r => bar_free (snd r)) rows.

(** a slot that builds an enumerant / mask of kind [k]: the vocabulary's
    names for [k] are pairwise distinct; a mask slot is read by from_bits of
    a declaration all of whose bits have a row *)
Definition slot_link (s : rslot) : bool :=
  match snd s with
  | MkEnum k =>
      match v_masks V k with
      | Some rows =>
          rows_ok rows
          && match fst s with
             | RdTyped (ConvFlags F) => N.eqb (N.ldiff (all_bits F) (lor_all rows)) 0
             | _ => false
             end
      | None =>
          match v_enums V k with
          | Some E => nodup_str (map fst (disp_table (v_strip3 V k) E))
          | None => true
          end
      end
  | _ => true
  end.

Definition table_rows (t : ptable) : list (N * list rslot) :=
  match t with PEnumT rows => rows | PMaskT rows => rows end.

Definition arm_link (a : arm) : bool :=
  match a with
  | APanic => true
  | ASimple ss => forallb slot_link ss
  | AParam s t => slot_link s && forallb (fun r => forallb slot_link (snd r)) (table_rows t)
  end.

(** opcode identifiers ({:?} of spirv::Op) of the table's opcodes are pairwise distinct *)
Definition opname_list : list string :=
  flat_map (fun e => match v_opnames V (g_opcode e) with Some s => [s] | None => [] end) (gd_table G).

Definition special (k : N) : bool :=
  N.eqb k (gd_k_rt G) || N.eqb k (gd_k_rid G) || N.eqb k (gd_k_ctx G)
  || N.eqb k (gd_k_pairlitid G) || N.eqb k (gd_k_specop G).

(** OpConstant is [IdResultType IdResult LiteralContextDependentNumber] *)
Definition const_entry_ok : bool :=
  match lookup_core (gd_table G) OP_CONSTANT with
  | Some g => list_eqb opnd_eqb (g_operands g) [(gd_k_rt G, One); (gd_k_rid G, One); (gd_k_ctx G, One)]
  | None => true
  end.

Definition arm_is_idref (k : N) : bool :=
  match nth_error (gd_arms G) (N.to_nat k) with
  | Some (ASimple [(RdWord, MkIdRef)]) => true
  | _ => false
  end.
Definition arm_is_extinst (k : N) : bool :=
  match nth_error (gd_arms G) (N.to_nat k) with
  | Some (ASimple [(RdWord, MkExtInst)]) => true
  | _ => false
  end.

(** OpExtInst starts [IdResultType IdResult IdRef LiteralExtInstInteger ...] *)
Definition ext_entry_ok : bool :=
  match lookup_core (gd_table G) OP_EXT_INST with
  | Some g =>
      match g_operands g with
      | (k1, One) :: (k2, One) :: (ka, One) :: (kb, One) :: _ =>
          N.eqb k1 (gd_k_rt G) && N.eqb k2 (gd_k_rid G)
          && negb (special ka) && negb (special kb) && arm_is_idref ka && arm_is_extinst kb
      | _ => false
      end
  | None => true
  end.

Definition vocab_ok : bool :=
  small_opcodes (gd_table G)
  && nodup_str (map g_name (gd_table G))
  && forallb arm_link (gd_arms G)
  && nodup_str opname_list
  && const_entry_ok && ext_entry_ok
  && nodup_str (map g_name (v_glsl V)) && nodup_str (map g_name (v_opencl V)).

End Reader.

(** ** words: split inverts join *)
Lemma z_to_N_of_N v : z_to_N (Z.of_N v) = Some v.
Proof. unfold z_to_N. destruct (Z.of_N v <? 0)%Z eqn:E; [lia|]. rewrite N2Z.id. reflexivity. Qed.

Lemma split_bar_free s : bar_free s = true -> split_bar s = [s].
Proof.
  induction s as [|c r IH]; cbn [bar_free split_bar]; intros H; [reflexivity|].
  apply andb_prop in H as [H1 H2]. apply negb_true_iff in H1. rewrite H1, (IH H2). reflexivity.
Qed.

Lemma split_bar_app s r : bar_free s = true ->
  split_bar (String.append s (SString BAR r)) = s :: split_bar r.
Proof.
  induction s as [|c s IH]; cbn [bar_free String.append split_bar]; intros H.
  - rewrite Ascii.eqb_refl. reflexivity.
  - apply andb_prop in H as [H1 H2]. apply negb_true_iff in H1. rewrite H1, (IH H2). reflexivity.
Qed.

Lemma split_join names : names <> [] -> Forall (fun s => bar_free s = true) names ->
  split_bar (join_bar names) = names.
Proof.
  induction names as [|x [|y r] IH]; intros Hne HF; [congruence| |].
  - cbn [join_bar]. apply split_bar_free. inversion HF; assumption.
  - change (join_bar (x :: y :: r)) with (String.append x (SString BAR (join_bar (y :: r)))).
    inversion HF as [|? ? Hx HF']; subst. rewrite split_bar_app by exact Hx.
    rewrite IH; [reflexivity|discriminate|exact HF'].
Qed.

(** ** masks: the rows contained in a value give the value back *)
Lemma ldiff_0_land a b : N.ldiff a b = 0 -> N.land a b = a.
Proof.
  intros H. apply N.bits_inj. intros n. rewrite N.land_spec.
  assert (Hn: N.testbit (N.ldiff a b) n = false) by (rewrite H; apply N.bits_0).
  rewrite N.ldiff_spec in Hn. destruct (N.testbit a n), (N.testbit b n); cbn in *; congruence.
Qed.

Lemma ldiff_0_trans a b c : N.ldiff a b = 0 -> N.ldiff b c = 0 -> N.ldiff a c = 0.
Proof.
  intros H1 H2. apply N.bits_inj_0. intros n. rewrite N.ldiff_spec.
  assert (Hn1: N.testbit (N.ldiff a b) n = false) by (rewrite H1; apply N.bits_0).
  assert (Hn2: N.testbit (N.ldiff b c) n = false) by (rewrite H2; apply N.bits_0).
  rewrite N.ldiff_spec in Hn1, Hn2.
  destruct (N.testbit a n), (N.testbit b n), (N.testbit c n); cbn in *; congruence.
Qed.

Lemma land_single v b : single_bit b = true -> N.land v b = b \/ N.land v b = 0.
Proof.
  unfold single_bit. intros H. apply andb_prop in H as [_ H]. apply N.eqb_eq in H.
  set (p := N.log2 b) in *. rewrite H.
  destruct (N.testbit v p) eqn:Ev; [left|right]; apply N.bits_inj; intros n;
    rewrite N.land_spec, ?N.bits_0, N.pow2_bits_eqb;
    destruct (N.eqb p n) eqn:En; rewrite ?andb_false_r; try reflexivity;
    apply N.eqb_eq in En; subst n; rewrite Ev; reflexivity.
Qed.

Lemma lor_all_contained rows v :
  forallb (fun r => single_bit (fst r)) rows = true ->
  lor_all (mask_rows rows v) = N.land v (lor_all rows).
Proof.
  induction rows as [|r rows IH]; cbn [forallb mask_rows filter lor_all fold_right]; intros H.
  - rewrite N.land_0_r. reflexivity.
  - apply andb_prop in H as [H1 H2]. fold (mask_rows rows v). fold (lor_all rows).
    rewrite N.land_lor_distr_r. unfold contains.
    destruct (N.eqb (N.land v (fst r)) (fst r)) eqn:E.
    + apply N.eqb_eq in E. cbn [lor_all fold_right]. fold (lor_all (mask_rows rows v)).
      rewrite E, (IH H2). reflexivity.
    + destruct (land_single v (fst r) H1) as [E'|E']; [rewrite E' in E; rewrite N.eqb_refl in E; discriminate|].
      rewrite E', N.lor_0_l. apply IH. exact H2.
Qed.

Lemma bit_of_In rows b s : NoDup (map snd rows) -> In (b, s) rows -> bit_of rows s = Some b.
Proof.
  induction rows as [|[b' s'] rows IH]; cbn [map snd bit_of fst In]; intros Hnd Hin; [destruct Hin|].
  inversion Hnd as [|? ? Hnotin Hnd']; subst.
  destruct Hin as [Heq|Hin].
  - inversion Heq; subst. assert (E: str_eqb s s = true) by (apply str_eqb_eq; reflexivity).
    rewrite E. reflexivity.
  - destruct (str_eqb s s') eqn:E.
    + apply str_eqb_eq in E. subst s'. exfalso. apply Hnotin.
      change s with (snd (b, s)). apply in_map. exact Hin.
    + apply IH; assumption.
Qed.

Lemma bits_of_sub rows sub : NoDup (map snd rows) -> (forall r, In r sub -> In r rows) ->
  bits_of rows (map snd sub) = Some (lor_all sub).
Proof.
  intros Hnd. induction sub as [|[b s] sub IH]; intros Hin; cbn [map snd bits_of lor_all fold_right fst];
    [reflexivity|].
  rewrite (bit_of_In rows b s Hnd (Hin _ (or_introl eq_refl))).
  fold (lor_all sub). rewrite IH; [reflexivity|]. intros r Hr. apply Hin. right. exact Hr.
Qed.

Lemma read_mask_text rows v :
  rows_ok rows = true -> N.ldiff v (lor_all rows) = 0 ->
  read_mask rows (mask_text rows v) = Some v.
Proof.
  unfold rows_ok. intros H Hcov.
  apply andb_prop in H as [H H4]. apply andb_prop in H as [H H3]. apply andb_prop in H as [H1 H2].
  apply nodup_str_NoDup in H2. apply negb_true_iff in H3.
  assert (Hv: lor_all (mask_rows rows v) = v).
  { rewrite lor_all_contained by exact H1. apply ldiff_0_land. exact Hcov. }
  assert (Hsub: forall r, In r (mask_rows rows v) -> In r rows).
  { intros r Hr. unfold mask_rows in Hr. apply filter_In in Hr. tauto. }
  assert (Hbits: bits_of rows (map snd (mask_rows rows v)) = Some v).
  { rewrite (bits_of_sub rows _ H2 Hsub), Hv. reflexivity. }
  assert (Hfree: Forall (fun s => bar_free s = true) (map snd (mask_rows rows v))).
  { apply Forall_forall. intros s Hs. apply in_map_iff in Hs as [r [<- Hr]].
    rewrite forallb_forall in H4. apply H4. apply Hsub. exact Hr. }
  unfold read_mask, mask_text. destruct (N.eqb v 0) eqn:E0.
  - apply N.eqb_eq in E0. subst v. reflexivity.
  - destruct (mask_rows rows v) as [|r0 sub] eqn:ER.
    { cbn [lor_all fold_right] in Hv. subst v. discriminate. }
    assert (Hne: map snd (r0 :: sub) <> []) by discriminate.
    destruct (str_eqb (join_bar (map snd (r0 :: sub))) "None") eqn:EN.
    + exfalso. apply str_eqb_eq in EN.
      pose proof (split_join _ Hne Hfree) as HS. rewrite EN in HS.
      cbn in HS. inversion HS as [[Hr0 Hnil]].
      assert (Hin: In "None"%string (map snd rows)).
      { rewrite Hr0. apply in_map. apply Hsub. left. reflexivity. }
      apply mem_str_In in Hin. congruence.
    + rewrite (split_join _ Hne Hfree). exact Hbits.
Qed.

(** ** one token per slot *)
Section Slots.
Variables (G : gdata) (V : vocab).
Notation dis := (dis_operand V).

Lemma read_enum_ok rd k v :
  slot_link V (rd, MkEnum k) = true ->
  (forall F, rd = RdTyped (ConvFlags F) -> conv_accepts (ConvFlags F) v = true) ->
  read_enum_tok V k (dis (OEnum k v)) = Some (OEnum k v).
Proof.
  unfold slot_link. cbn [snd fst dis_operand]. intros HL Hacc.
  destruct (v_masks V k) as [rows|] eqn:EM.
  - apply andb_prop in HL as [HR HC].
    destruct rd as [| |[E|F]]; try discriminate. apply N.eqb_eq in HC.
    specialize (Hacc F eq_refl). cbn [conv_accepts] in Hacc. unfold from_bits in Hacc.
    destruct (N.eqb (N.ldiff v (all_bits F)) 0) eqn:EV; [|discriminate]. apply N.eqb_eq in EV.
    cbn [read_enum_tok]. rewrite EM.
    rewrite (read_mask_text rows v HR (ldiff_0_trans _ _ _ EV HC)). reflexivity.
  - destruct (v_enums V k) as [E|] eqn:EE.
    + unfold enum_text. destruct (name_of_value v (e_variants E)) as [s0|] eqn:EN.
      * cbn [read_enum_tok]. rewrite EM, EE.
        apply nov_In in EN. apply nodup_str_NoDup in HL.
        rewrite (In_assoc_nodup _ (disp_table (v_strip3 V k) E) v HL); [reflexivity|].
        unfold disp_table.
        change (if v_strip3 V k then sdrop 3 s0 else s0, v)
          with ((fun nv : string * N => (if v_strip3 V k then sdrop 3 (fst nv) else fst nv, snd nv)) (s0, v)).
        apply in_map. exact EN.
      * cbn [read_enum_tok]. rewrite z_to_N_of_N. reflexivity.
    + cbn [read_enum_tok]. rewrite z_to_N_of_N. reflexivity.
Qed.

Lemma read_tok_ok s o : slot_ok s o = true -> slot_link V s = true ->
  read_tok V (snd s) (dis o) = Some o.
Proof.
  destruct s as [rd m]. cbn [snd]. intros HS HL.
  assert (HW: (word_operand m o = true /\
               (forall c, rd = RdTyped c -> conv_accepts c (operand_value o) = true))
              \/ (m = MkStr /\ exists b, o = OStr b)).
  { destruct rd as [| |c]; cbn [slot_ok] in HS.
    - left. split; [exact HS|]. intros c Hc; discriminate.
    - right. destruct m; try discriminate. destruct o; try discriminate. split; [reflexivity|]. eexists; reflexivity.
    - left. apply andb_prop in HS as [H1 H2]. split; [exact H1|]. intros c' Hc. inversion Hc; subst. exact H2. }
  destruct HW as [[HW HC]|[-> [b ->]]]; [|reflexivity].
  destruct m, o; cbn [word_operand] in HW; try discriminate;
    try (cbn [read_tok dis_operand]; rewrite ?z_to_N_of_N; reflexivity).
  apply andb_prop in HW as [Hk _]. apply N.eqb_eq in Hk. subst k0.
  cbn [read_tok]. apply (read_enum_ok rd k v HL).
  intros F HF. apply (HC _ HF).
Qed.

Lemma read_slots_ok : forall ss os a rest,
  forallb (slot_link V) ss = true -> split_slots ss os = Some (a, rest) ->
  read_slots V ss (map dis os) = Some (a, map dis rest).
Proof.
  induction ss as [|s ss IH]; intros os a rest HL H; cbn [split_slots] in H; cbn [read_slots].
  - inversion H; subst. reflexivity.
  - destruct os as [|o1 os1]; [discriminate|]. destruct (slot_ok s o1) eqn:Hs; [|discriminate].
    destruct (split_slots ss os1) as [[a1 rest1]|] eqn:E; [|discriminate].
    inversion H; subst. cbn [forallb] in HL. apply andb_prop in HL as [HL1 HL2].
    cbn [map]. rewrite (read_tok_ok s o1 Hs HL1), (IH _ _ _ HL2 E). reflexivity.
Qed.

Hypothesis ARMS : forallb (arm_link V) (gd_arms G) = true.

Lemma table_params_link t v :
  forallb (fun r => forallb (slot_link V) (snd r)) (table_rows t) = true ->
  forallb (slot_link V) (table_params t v) = true.
Proof.
  intros H. rewrite forallb_forall in H. apply forallb_forall. intros s Hs.
  destruct t as [rows|rows]; cbn [table_params table_rows] in *.
  - destruct (find (fun r => N.eqb (fst r) v) rows) as [r|] eqn:EF; [|destruct Hs].
    apply find_some in EF as [Hin _]. specialize (H r Hin). rewrite forallb_forall in H. apply H. exact Hs.
  - apply in_flat_map in Hs as [r [Hin Hs]]. destruct (contains v (fst r)); [|destruct Hs].
    specialize (H r Hin). rewrite forallb_forall in H. apply H. exact Hs.
Qed.

Lemma read_kind_ok k os a rest : split_kind G k os = Some (a, rest) ->
  read_kind G V k (map dis os) = Some (a, map dis rest).
Proof.
  unfold split_kind, read_kind.
  destruct (nth_error (gd_arms G) (N.to_nat k)) as [arm|] eqn:EA; [|discriminate].
  apply nth_error_In in EA. rewrite forallb_forall in ARMS. specialize (ARMS arm EA).
  destruct arm as [|ss|s t]; [discriminate| |]; cbn [arm_link] in ARMS.
  - apply read_slots_ok. exact ARMS.
  - apply andb_prop in ARMS as [A1 A2]. intros H.
    destruct os as [|o1 os1]; [discriminate|]. destruct (slot_ok s o1) eqn:Hs; [|discriminate].
    destruct (split_slots (table_params t (operand_value o1)) os1) as [[a1 rest1]|] eqn:E; [|discriminate].
    inversion H; subst. cbn [map]. rewrite (read_tok_ok s o1 Hs A1).
    rewrite (read_slots_ok _ _ _ _ (table_params_link t _ A2) E). reflexivity.
Qed.

Lemma read_star_ok k : forall fuel os, split_star G k fuel os = true ->
  read_star G V k fuel (map dis os) = Some os.
Proof.
  induction fuel as [|f IH]; intros os H; destruct os as [|o os]; cbn [split_star] in H;
    cbn [map read_star]; try reflexivity; try discriminate.
  destruct (split_kind G k (o :: os)) as [[[|a0 a] rest]|] eqn:ES; try discriminate.
  destruct (parse_operand_ok G k _ _ _ ES) as [Heq _].
  change (dis o :: map dis os) with (map dis (o :: os)).
  rewrite (read_kind_ok k _ _ _ ES), (IH _ H). cbn [option_map]. rewrite Heq. reflexivity.
Qed.

Lemma read_lit_ok t id o : literal_ok t id o = true -> read_lit t id (dis o) = Some o.
Proof.
  unfold literal_ok, read_lit. destruct (lit_width t id) as [[|]|]; [| |discriminate];
    destruct o; try discriminate; intros _; cbn [dis_operand]; rewrite z_to_N_of_N; reflexivity.
Qed.

Lemma read_pairs_ok t sel : forall os, pairs_ok t sel os = true ->
  read_pairs t sel (map dis os) = Some os.
Proof.
  apply (pairs_ind (fun os => pairs_ok t sel os = true -> read_pairs t sel (map dis os) = Some os)).
  - reflexivity.
  - intros l H. discriminate.
  - intros l x r IH H. cbn [pairs_ok] in H. destruct x; try discriminate.
    apply andb_prop in H as [H H3]. apply andb_prop in H as [H1 H2].
    cbn [map read_pairs dis_operand]. change (DId v) with (dis (OIdRef v)).
    cbn [dis_operand]. rewrite (read_lit_ok t sel l H1), (IH H3). reflexivity.
Qed.

Lemma read_nested_ok : forall lops os a rest, conf_nested G lops os = Some (a, rest) ->
  read_nested G V lops (map dis os) = Some (a, map dis rest).
Proof.
  induction lops as [|[k q] lops IH]; intros os a rest H; cbn [conf_nested] in H; cbn [read_nested].
  - inversion H; subst. reflexivity.
  - destruct (N.eqb k (gd_k_rt G) || N.eqb k (gd_k_rid G)) eqn:Eres; [apply IH; exact H|].
    destruct (N.eqb k (gd_k_ctx G) || N.eqb k (gd_k_pairlitid G) || N.eqb k (gd_k_specop G)) eqn:Espec;
      [discriminate|].
    assert (Hone: match split_kind G k os with
                  | Some (a0, os1) => match conf_nested G lops os1 with
                                      | Some (b, rest0) => Some (a0 ++ b, rest0)
                                      | None => None end
                  | None => None end = Some (a, rest) ->
                  match read_kind G V k (map dis os) with
                  | Some (a0, ts1) => match read_nested G V lops ts1 with
                                      | Some (b, rest0) => Some (a0 ++ b, rest0)
                                      | None => None end
                  | None => None end = Some (a, map dis rest)).
    { intros H1. destruct (split_kind G k os) as [[a0 os1]|] eqn:ES; [|discriminate].
      destruct (conf_nested G lops os1) as [[b rest0]|] eqn:EN; [|discriminate].
      inversion H1; subst. rewrite (read_kind_ok k _ _ _ ES), (IH _ _ _ EN). reflexivity. }
    destruct q.
    + apply Hone. exact H.
    + destruct os as [|o os]; [apply (IH [] _ _ H)|]. apply Hone. exact H.
    + destruct (split_star G k (length os) os) eqn:ES; [|discriminate].
      destruct (conf_nested G lops []) as [[b rest0]|] eqn:EN; [|discriminate].
      inversion H; subst. rewrite map_length, (read_star_ok k _ _ ES).
      pose proof (IH [] _ _ EN) as HI. cbn [map] in HI. rewrite HI. reflexivity.
Qed.
End Slots.

(** ** the operand list against the grammar entry *)
Section Loop.
Variables (G : gdata) (V : vocab) (t : tracker) (opc : N).
Notation dis := (dis_operand V).
Hypothesis ARMS : forallb (arm_link V) (gd_arms G) = true.
Hypothesis SMALL : small_opcodes (gd_table G) = true.
Hypothesis OPN : nodup_str (opname_list G V) = true.

Lemma nil_map {A B} (f : A -> B) l : nil (map f l) = nil l.
Proof. destruct l; reflexivity. Qed.

Lemma find_opname (tbl : list entry) g s :
  NoDup (flat_map (fun e => match v_opnames V (g_opcode e) with Some s => [s] | None => [] end) tbl) ->
  In g tbl -> v_opnames V (g_opcode g) = Some s ->
  exists e', find (fun e => option_eqb str_eqb (v_opnames V (g_opcode e)) (Some s)) tbl = Some e'
             /\ g_opcode e' = g_opcode g.
Proof.
  induction tbl as [|x r IH]; cbn [flat_map find In]; intros Hnd Hin Hs; [destruct Hin|].
  destruct (v_opnames V (g_opcode x)) as [sx|] eqn:Ex; cbn [option_eqb].
  - cbn [app] in Hnd. inversion Hnd as [|? ? Hnotin Hnd']; subst.
    destruct (str_eqb sx s) eqn:E.
    + apply str_eqb_eq in E. subst sx. exists x. split; [reflexivity|].
      destruct Hin as [->|Hin]; [reflexivity|]. exfalso. apply Hnotin.
      apply in_flat_map. exists g. split; [exact Hin|]. rewrite Hs. left. reflexivity.
    + destruct Hin as [->|Hin].
      * assert (Hx: sx = s) by congruence. subst sx.
        rewrite (proj2 (str_eqb_eq s s) eq_refl) in E. discriminate.
      * apply IH; assumption.
  - cbn [app] in Hnd. destruct Hin as [->|Hin]; [congruence|]. apply IH; assumption.
Qed.

Lemma read_specop_ok n g : lookup_core (gd_table G) n = Some g ->
  read_specop G V (dis (OSpecOp n)) = Some n.
Proof.
  intros EL. destruct (lookup_core_opcode G SMALL _ _ EL) as [Hg _].
  unfold lookup_core in EL. apply find_some in EL as [Hin _].
  cbn [dis_operand]. destruct (v_opnames V n) as [s|] eqn:Es; cbn [read_specop].
  - apply nodup_str_NoDup in OPN. unfold opname_list in OPN. rewrite <- Hg in Es.
    destruct (find_opname (gd_table G) g s OPN Hin Es) as [e' [EF He']].
    rewrite EF, He', Hg. reflexivity.
  - apply z_to_N_of_N.
Qed.

Lemma read_lops_ok ity : forall lops prt prid acc os,
  conf_lops G t opc ity lops prt prid acc os = true ->
  read_lops G V t opc ity lops prt prid acc (map dis os) = Some os.
Proof.
  induction lops as [|[k q] lops IH]; intros prt prid acc os H; cbn [conf_lops] in H; cbn [read_lops];
    rewrite nil_map.
  - rewrite H. destruct prt, prid, os; try discriminate. reflexivity.
  - destruct (none prt && none prid && nil os) eqn:Edone.
    { rewrite H. destruct prt, prid, os; try discriminate. reflexivity. }
    destruct (N.eqb k (gd_k_rt G)) eqn:E1.
    { destruct prt as [v|]; [|discriminate].
      apply andb_prop in H as [H H3]. apply andb_prop in H as [H1 H2]. rewrite H1. apply IH. exact H3. }
    destruct (N.eqb k (gd_k_rid G)) eqn:E2.
    { destruct prt as [|]; [discriminate|]. destruct prid as [v|]; [|discriminate].
      apply andb_prop in H as [H H3]. apply andb_prop in H as [H1 H2]. rewrite H1. apply IH. exact H3. }
    destruct prt as [|]; [discriminate|]. destruct prid as [|]; [discriminate|].
    cbn [none andb negb] in H |- *.
    destruct (N.eqb k (gd_k_ctx G)) eqn:E3.
    { apply andb_prop in H as [H H3]. rewrite H.
      destruct ity as [id|]; [|discriminate]. destruct os as [|o1 os1]; [discriminate|].
      apply andb_prop in H3 as [H3 H4]. cbn [map].
      rewrite (read_lit_ok V t id o1 H3), (IH _ _ _ _ H4). reflexivity. }
    destruct (N.eqb k (gd_k_pairlitid G)) eqn:E4.
    { apply andb_prop in H as [H1 H]. rewrite H1.
      destruct acc as [|[|sel| | | | | | |] acc]; try discriminate.
      destruct (variadic q) eqn:EV.
      - apply read_pairs_ok. exact H.
      - destruct os as [|l0 [|[|w| | | | | | |] os1]]; try discriminate.
        apply andb_prop in H as [H H4]. apply andb_prop in H as [H2 H3].
        cbn [map dis_operand]. rewrite (read_lit_ok V t sel l0 H2), (IH _ _ _ _ H4). reflexivity. }
    destruct (N.eqb k (gd_k_specop G)) eqn:E5.
    { apply andb_prop in H as [H1 H]. rewrite H1.
      destruct os as [|[| | | | | | |n|] os1]; try discriminate.
      apply andb_prop in H as [H2 H].
      destruct (lookup_core (gd_table G) n) as [g|] eqn:EL; [|discriminate].
      destruct (conf_nested G (g_operands g) os1) as [[a os2]|] eqn:EN; [|discriminate].
      destruct (conf_nested_ok G _ _ _ _ EN) as [Heq _].
      cbn [map]. rewrite (read_specop_ok n g EL), EL, (read_nested_ok G V ARMS _ _ _ _ EN), (IH _ _ _ _ H).
      cbn [option_map]. rewrite Heq. reflexivity. }
    destruct (variadic q) eqn:EV.
    + rewrite map_length. apply (read_star_ok G V ARMS). exact H.
    + destruct (split_kind G k os) as [[a os1]|] eqn:ES; [|discriminate].
      destruct (parse_operand_ok G k _ _ _ ES) as [Heq _].
      rewrite (read_kind_ok G V ARMS k _ _ _ ES), (IH _ _ _ _ H). cbn [option_map]. rewrite Heq. reflexivity.
Qed.
End Loop.

(** ** single steps of [conf_lops] on a known grammar prefix *)
Section Steps.
Variables (G : gdata) (t : tracker) (opc : N) (ity : option N).

Lemma conf_step_rt q r prt prid acc os :
  conf_lops G t opc ity ((gd_k_rt G, q) :: r) prt prid acc os = true -> q = One ->
  exists v, prt = Some v /\ conf_lops G t opc ity r None prid acc os = true.
Proof.
  intros H ->. cbn [conf_lops] in H.
  destruct (none prt && none prid && nil os); [discriminate|].
  rewrite N.eqb_refl in H. destruct prt as [v|]; [|discriminate].
  apply andb_prop in H as [_ H]. exists v. split; [reflexivity|exact H].
Qed.

Lemma conf_step_rid q r prid acc os :
  conf_lops G t opc ity ((gd_k_rid G, q) :: r) None prid acc os = true -> q = One ->
  exists v, prid = Some v /\ conf_lops G t opc ity r None None acc os = true.
Proof.
  intros H ->. cbn [conf_lops] in H.
  destruct (none None && none prid && nil os); [discriminate|].
  destruct (N.eqb (gd_k_rid G) (gd_k_rt G)); [discriminate|].
  rewrite N.eqb_refl in H. destruct prid as [v|]; [|discriminate].
  apply andb_prop in H as [_ H]. exists v. split; [reflexivity|exact H].
Qed.

Lemma conf_step_ctx r acc os :
  conf_lops G t opc ity ((gd_k_ctx G, One) :: r) None None acc os = true ->
  exists id o os1, ity = Some id /\ os = o :: os1 /\ literal_ok t id o = true
                   /\ conf_lops G t opc ity r None None (acc ++ [o]) os1 = true.
Proof.
  intros H. cbn [conf_lops] in H.
  destruct (none None && none None && nil os) eqn:E0; [discriminate|].
  destruct (N.eqb (gd_k_ctx G) (gd_k_rt G)); [discriminate|].
  destruct (N.eqb (gd_k_ctx G) (gd_k_rid G)); [discriminate|].
  cbn [none andb negb] in H. rewrite N.eqb_refl in H.
  apply andb_prop in H as [_ H]. destruct ity as [id|]; [|discriminate].
  destruct os as [|o os1]; [discriminate|]. apply andb_prop in H as [H1 H2].
  exists id, o, os1. auto.
Qed.

Lemma conf_step_ord k r acc os :
  special G k = false ->
  conf_lops G t opc ity ((k, One) :: r) None None acc os = true ->
  exists a os1, split_kind G k os = Some (a, os1) /\ conf_lops G t opc ity r None None (acc ++ a) os1 = true.
Proof.
  unfold special. intros HS H.
  apply orb_false_iff in HS as [HS E5]. apply orb_false_iff in HS as [HS E4].
  apply orb_false_iff in HS as [HS E3]. apply orb_false_iff in HS as [E1 E2].
  cbn [conf_lops] in H. destruct (none None && none None && nil os); [discriminate|].
  rewrite E1, E2, E3, E4, E5 in H. cbn [none andb negb variadic] in H.
  destruct (split_kind G k os) as [[a os1]|]; [|discriminate]. exists a, os1. auto.
Qed.
End Steps.

(** ** the theorem *)
Section Main.
Variables (G : gdata) (V : vocab).
Notation dis := (dis_operand V).
Hypothesis TAB : v_table V = gd_table G.
Hypothesis OK : vocab_ok G V = true.

Let SMALL : small_opcodes (gd_table G) = true.
Proof. unfold vocab_ok in OK. repeat (apply andb_prop in OK as [OK ?]). exact OK. Qed.
Let NAMES : NoDup (map g_name (gd_table G)).
Proof. unfold vocab_ok in OK. repeat (apply andb_prop in OK as [OK ?]). apply nodup_str_NoDup. assumption. Qed.
Let ARMS : forallb (arm_link V) (gd_arms G) = true.
Proof. unfold vocab_ok in OK. repeat (apply andb_prop in OK as [OK ?]). assumption. Qed.
Let OPN : nodup_str (opname_list G V) = true.
Proof. unfold vocab_ok in OK. repeat (apply andb_prop in OK as [OK ?]). assumption. Qed.
Let CONST : const_entry_ok G = true.
Proof. unfold vocab_ok in OK. repeat (apply andb_prop in OK as [OK ?]). assumption. Qed.
Let EXT : ext_entry_ok G = true.
Proof. unfold vocab_ok in OK. repeat (apply andb_prop in OK as [OK ?]). assumption. Qed.
Let GLSL : NoDup (map g_name (v_glsl V)).
Proof. unfold vocab_ok in OK. repeat (apply andb_prop in OK as [OK ?]). apply nodup_str_NoDup. assumption. Qed.
Let OPENCL : NoDup (map g_name (v_opencl V)).
Proof. unfold vocab_ok in OK. repeat (apply andb_prop in OK as [OK ?]). apply nodup_str_NoDup. assumption. Qed.

Lemma find_by_name (tbl : list entry) g :
  NoDup (map g_name tbl) -> In g tbl -> find (fun e => str_eqb (g_name e) (g_name g)) tbl = Some g.
Proof.
  induction tbl as [|x r IH]; cbn [map find In]; intros Hnd Hin; [destruct Hin|].
  inversion Hnd as [|? ? Hnotin Hnd']; subst.
  destruct Hin as [->|Hin].
  - rewrite (proj2 (str_eqb_eq _ _) eq_refl). reflexivity.
  - destruct (str_eqb (g_name x) (g_name g)) eqn:E.
    + apply str_eqb_eq in E. exfalso. apply Hnotin. rewrite E. apply in_map. exact Hin.
    + apply IH; assumption.
Qed.

Lemma get_is_lookup n : get_entry (gd_table G) n = lookup_core (gd_table G) n.
Proof.
  unfold get_entry, lookup_core. apply find_ext. intros e He.
  unfold small_opcodes in SMALL. rewrite forallb_forall in SMALL. specialize (SMALL e He).
  rewrite N.mod_small by lia. reflexivity.
Qed.

(** the head of every rendering: result id, opcode name -> the entry *)
Lemma head_ok t i : conforms G t i = true ->
  exists g, lookup_core (gd_table G) (i_opcode i) = Some g
    /\ conf_lops G t (i_opcode i) (i_rtype i) (g_operands g) (i_rtype i) (i_rid i) [] (i_ops i) = true
    /\ g_opcode g = i_opcode i
    /\ forall X, read_head G (dis_prefix V i ++ X) = Some (i_rid i, g, rt_toks (i_rtype i) ++ X).
Proof.
  intros H. destruct (conforms_spec G t i H) as (g & EL & HC & _ & _).
  destruct (lookup_core_opcode G SMALL _ _ EL) as [Hg _].
  exists g. split; [exact EL|]. split; [exact HC|]. split; [exact Hg|].
  intros X. unfold dis_prefix, op_name. rewrite TAB, get_is_lookup, EL.
  assert (Hin: In g (gd_table G)) by (unfold lookup_core in EL; apply find_some in EL; tauto).
  unfold read_head. destruct (i_rid i) as [r|]; cbn [rid_toks app];
    rewrite (find_by_name _ g NAMES Hin); reflexivity.
Qed.

Definition lops_rt (lops : list (N * quant)) : bool :=
  match lops with (k, _) :: _ => N.eqb k (gd_k_rt G) | [] => false end.

Lemma rt_shape t opc ity lops prt prid acc os :
  conf_lops G t opc ity lops prt prid acc os = true ->
  (forall v, prt = Some v -> lops_rt lops = true)
  /\ (prt = None -> lops_rt lops = true -> os = []).
Proof.
  destruct lops as [|[k q] r]; cbn [conf_lops lops_rt]; intros H.
  - destruct prt; [discriminate|]. split; [discriminate|]. discriminate.
  - destruct (none prt && none prid && nil os) eqn:E0.
    { destruct prt, prid, os; try discriminate. split; [discriminate|reflexivity]. }
    destruct (N.eqb k (gd_k_rt G)) eqn:E1.
    { destruct prt; [|discriminate]. split; [reflexivity|discriminate]. }
    split; [|discriminate]. intros v ->.
    destruct (N.eqb k (gd_k_rid G)); [discriminate|]. cbn [none andb negb] in H. discriminate.
Qed.

Lemma split_rt_ok t i g X :
  conf_lops G t (i_opcode i) (i_rtype i) (g_operands g) (i_rtype i) (i_rid i) [] (i_ops i) = true ->
  (i_ops i = [] -> X = []) ->
  split_rt G g (rt_toks (i_rtype i) ++ X) = (i_rtype i, X).
Proof.
  intros HC HX. destruct (rt_shape _ _ _ _ _ _ _ _ HC) as [S1 S2].
  unfold split_rt. change (has_rt G g) with (lops_rt (g_operands g)).
  destruct (i_rtype i) as [v|]; cbn [rt_toks app].
  - rewrite (S1 v eq_refl). reflexivity.
  - destruct (lops_rt (g_operands g)) eqn:E; [|reflexivity].
    rewrite (HX (S2 eq_refl eq_refl)). reflexivity.
Qed.

(** what follows the head, with the typed literal / the extended
    instruction's name undone, is the plain rendering of the operands *)
Definition normalised (t : tracker) (sets : esets) (i : inst) (X : list dtok) : list dtok :=
  if N.eqb (i_opcode i) OP_CONSTANT then norm_const t (i_rtype i) X
  else if N.eqb (i_opcode i) OP_EXT_INST then norm_ext V sets X
  else X.

Lemma read_inst_core t sets i X : conforms G t i = true ->
  (i_ops i = [] -> X = []) ->
  normalised t sets i X = map dis (i_ops i) ->
  read_inst G V t sets (dis_prefix V i ++ X) = Some i.
Proof.
  intros H HX HN. destruct (head_ok t i H) as (g & EL & HC & Hg & HH).
  unfold read_inst. rewrite HH, (split_rt_ok t i g X HC HX), Hg.
  unfold normalised in HN. rewrite HN.
  rewrite (read_lops_ok G V t (i_opcode i) ARMS SMALL OPN _ _ _ _ _ _ HC).
  destruct i; reflexivity.
Qed.

(** the operands of a conforming OpConstant: exactly one literal of the
    width of the tracked result type *)
Lemma opnd_eqb_eq (x y : N * quant) : opnd_eqb x y = true -> x = y.
Proof.
  destruct x as [a q], y as [b q']. unfold opnd_eqb, pair_eqb. cbn [fst snd]. intros H.
  apply andb_prop in H as [H1 H2]. apply N.eqb_eq in H1. apply quant_eqb_eq in H2. congruence.
Qed.

Lemma const_shape t i : conforms G t i = true -> i_opcode i = OP_CONSTANT ->
  exists id o, i_rtype i = Some id /\ i_ops i = [o] /\ literal_ok t id o = true.
Proof.
  intros H Ho. destruct (conforms_spec G t i H) as (g & EL & HC & _ & _).
  unfold const_entry_ok in CONST. rewrite Ho in EL, HC. rewrite EL in CONST.
  apply (list_eqb_eq opnd_eqb opnd_eqb_eq) in CONST. rewrite CONST in HC.
  destruct (conf_step_rt _ _ _ _ _ _ _ _ _ _ HC eq_refl) as (v & Hv & HC1).
  destruct (conf_step_rid _ _ _ _ _ _ _ _ _ HC1 eq_refl) as (v' & Hv' & HC2).
  destruct (conf_step_ctx _ _ _ _ _ _ _ HC2) as (id & o & os1 & Hid & Hos & HL & HC3).
  cbn [conf_lops] in HC3. destruct os1; [|discriminate].
  exists id, o. auto.
Qed.

(** the operands of a conforming OpExtInst start with the set id and the number *)
Lemma idref_kind k os a os1 : arm_is_idref G k = true -> split_kind G k os = Some (a, os1) ->
  exists v, os = OIdRef v :: os1.
Proof.
  unfold arm_is_idref, split_kind.
  destruct (nth_error (gd_arms G) (N.to_nat k)) as [[|[|[[| |] []] [|]]|]|]; try discriminate.
  intros _. cbn [split_slots slot_ok]. destruct os as [|o os']; [discriminate|].
  destruct o; cbn [word_operand]; try discriminate.
  destruct (v <? w32); [|discriminate]. intros E. inversion E; subst. exists v. reflexivity.
Qed.

Lemma extinst_kind k os a os1 : arm_is_extinst G k = true -> split_kind G k os = Some (a, os1) ->
  exists v, os = OExtInst v :: os1.
Proof.
  unfold arm_is_extinst, split_kind.
  destruct (nth_error (gd_arms G) (N.to_nat k)) as [[|[|[[| |] []] [|]]|]|]; try discriminate.
  intros _. cbn [split_slots slot_ok]. destruct os as [|o os']; [discriminate|].
  destruct o; cbn [word_operand]; try discriminate.
  destruct (v <? w32); [|discriminate]. intros E. inversion E; subst. exists v. reflexivity.
Qed.

Lemma ext_shape t i : conforms G t i = true -> i_opcode i = OP_EXT_INST ->
  exists id n rest, i_ops i = OIdRef id :: OExtInst n :: rest.
Proof.
  intros H Ho. destruct (conforms_spec G t i H) as (g & EL & HC & _ & _).
  unfold ext_entry_ok in EXT. rewrite Ho in EL, HC. rewrite EL in EXT.
  destruct (g_operands g) as [|[k1 []] [|[k2 []] [|[ka []] [|[kb []] r]]]]; try discriminate.
  apply andb_prop in EXT as [EX F6]. apply andb_prop in EX as [EX F5]. apply andb_prop in EX as [EX F4].
  apply andb_prop in EX as [EX F3]. apply andb_prop in EX as [F1 F2].
  apply N.eqb_eq in F1, F2. subst k1 k2. apply negb_true_iff in F3, F4.
  destruct (conf_step_rt _ _ _ _ _ _ _ _ _ _ HC eq_refl) as (v & Hv & HC1).
  destruct (conf_step_rid _ _ _ _ _ _ _ _ _ HC1 eq_refl) as (v' & Hv' & HC2).
  destruct (conf_step_ord _ _ _ _ _ _ _ _ F3 HC2) as (a & os1 & ES1 & HC3).
  destruct (conf_step_ord _ _ _ _ _ _ _ _ F4 HC3) as (b & os2 & ES2 & HC4).
  destruct (idref_kind _ _ _ _ F5 ES1) as [id Hid].
  destruct (extinst_kind _ _ _ _ F6 ES2) as [n Hn].
  exists id, n, os2. rewrite Hid, Hn. reflexivity.
Qed.

Lemma unlit_nonneg w v : unlit w (DNum (Z.of_N v)) = DNum (Z.of_N v).
Proof. unfold unlit. destruct (Z.of_N v <? 0)%Z eqn:E; [lia|reflexivity]. Qed.

Lemma unlit32 ty v : v < 4294967296 -> unlit (Some W32) (lit_tok32 ty v) = DNum (Z.of_N v).
Proof.
  intros Hv. destruct ty as [b [|]|b]; cbn [lit_tok32]; [|apply unlit_nonneg|reflexivity].
  unfold signed. change (2 ^ (32 - 1)) with 2147483648. change (2 ^ 32) with 4294967296.
  destruct (v <? 2147483648) eqn:E; [apply unlit_nonneg|].
  unfold unlit. change (2 ^ 32) with 4294967296.
  destruct (Z.of_N v - Z.of_N 4294967296 <? 0)%Z eqn:E2; [f_equal; lia|lia].
Qed.

Lemma unlit64 ty v : v < 18446744073709551616 -> unlit (Some W64) (lit_tok64 ty v) = DNum (Z.of_N v).
Proof.
  intros Hv. destruct ty as [b [|]|b]; cbn [lit_tok64]; [|apply unlit_nonneg|reflexivity].
  unfold signed. change (2 ^ (64 - 1)) with 9223372036854775808. change (2 ^ 64) with 18446744073709551616.
  destruct (v <? 9223372036854775808) eqn:E; [apply unlit_nonneg|].
  unfold unlit. change (2 ^ 64) with 18446744073709551616.
  destruct (Z.of_N v - Z.of_N 18446744073709551616 <? 0)%Z eqn:E2; [f_equal; lia|lia].
Qed.

Lemma literal_ok_spec t id o : literal_ok t id o = true ->
  (exists v, o = OLit32 v /\ lit_width t id = Some W32 /\ v < 4294967296)
  \/ (exists v, o = OLit64 v /\ lit_width t id = Some W64 /\ v < 18446744073709551616).
Proof.
  unfold literal_ok. destruct (lit_width t id) as [[|]|]; [| |discriminate];
    destruct o; try discriminate; intros H; [left|right]; exists v; unfold w32 in H;
    (split; [reflexivity|split; [reflexivity|lia]]).
Qed.

(** every rendering of an instruction is its prefix followed by something
    that is empty when there are no operands *)
Lemma plain_normalised t sets i : conforms G t i = true ->
  normalised t sets i (map dis (i_ops i)) = map dis (i_ops i).
Proof.
  intros H. unfold normalised.
  destruct (N.eqb (i_opcode i) OP_CONSTANT) eqn:E43.
  { apply N.eqb_eq in E43. destruct (const_shape t i H E43) as (id & o & Hrt & Hops & HL).
    rewrite Hrt, Hops. cbn [map norm_const]. destruct (Parser.resolve t id); [|reflexivity].
    destruct (literal_ok_spec t id o HL) as [(v & -> & _ & _)|(v & -> & _ & _)];
      cbn [dis_operand]; rewrite unlit_nonneg; reflexivity. }
  destruct (N.eqb (i_opcode i) OP_EXT_INST) eqn:E12; [|reflexivity].
  apply N.eqb_eq in E12. destruct (ext_shape t i H E12) as (id & n & rest & Hops).
  rewrite Hops. reflexivity.
Qed.

Theorem read_dis_plain t sets i : conforms G t i = true ->
  read_inst G V t sets (dis_inst V i) = Some i.
Proof.
  intros H. unfold dis_inst. apply (read_inst_core t sets i _ H).
  - intros ->. reflexivity.
  - apply plain_normalised. exact H.
Qed.

Theorem read_dis_constant t sets i : conforms G t i = true -> i_opcode i = OP_CONSTANT ->
  read_inst G V t sets (dis_constant V t i) = Some i.
Proof.
  intros H Ho. destruct (const_shape t i H Ho) as (id & o & Hrt & Hops & HL).
  unfold dis_constant. rewrite Hrt, Hops.
  destruct (Parser.resolve t id) as [ty|] eqn:ET; [|apply read_dis_plain; exact H].
  destruct (literal_ok_spec t id o HL) as [(v & -> & HW & Hv)|(v & -> & HW & Hv)].
  - apply (read_inst_core t sets i _ H); [rewrite Hops; discriminate|].
    unfold normalised. rewrite Ho, Hrt, Hops. change (N.eqb OP_CONSTANT OP_CONSTANT) with true. cbv iota.
    cbn [norm_const map dis_operand]. rewrite ET, HW, (unlit32 ty v Hv). reflexivity.
  - apply (read_inst_core t sets i _ H); [rewrite Hops; discriminate|].
    unfold normalised. rewrite Ho, Hrt, Hops. change (N.eqb OP_CONSTANT OP_CONSTANT) with true. cbv iota.
    cbn [norm_const map dis_operand]. rewrite ET, HW, (unlit64 ty v Hv). reflexivity.
Qed.

Lemma ext_table_nodup sets id tbl : ext_table V sets id = Some tbl -> NoDup (map g_name tbl).
Proof.
  unfold ext_table. destruct (assocN id sets) as [[|]|]; intros E; inversion E; subst; assumption.
Qed.

Theorem read_dis_ext t sets i : conforms G t i = true -> i_opcode i = OP_EXT_INST ->
  read_inst G V t sets (dis_ext_inst V sets i) = Some i.
Proof.
  intros H Ho. destruct (line_shape_ext V sets i) as [->|(id & n & rest & nm & Hops & HN & -> & _)];
    [apply read_dis_plain; exact H|].
  apply (read_inst_core t sets i _ H); [rewrite Hops; discriminate|].
  unfold normalised. rewrite Ho, Hops.
  change (N.eqb OP_EXT_INST OP_CONSTANT) with false. change (N.eqb OP_EXT_INST OP_EXT_INST) with true. cbv iota.
  unfold ext_name in HN. destruct (ext_table V sets id) as [tbl|] eqn:ET; [|discriminate].
  destruct (lookup_ext tbl n) as [e|] eqn:EL; [|discriminate]. inversion HN; subst nm.
  unfold lookup_ext, get_entry in EL. apply find_some in EL as [Hin He]. apply N.eqb_eq in He.
  cbn [norm_ext]. rewrite ET, (find_by_name tbl e (ext_table_nodup _ _ _ ET) Hin), He. reflexivity.
Qed.

(** X3, the main theorem: wherever the instruction sits in the module
    (whichever renderer printed it), its line reads back to it *)
Theorem read_dis t sets i tag : conforms G t i = true ->
  read_inst G V t sets (render V t sets (tag, i)) = Some i.
Proof.
  intros H. destruct tag; unfold render; cbn [fst snd].
  - unfold render_global. destruct (N.eqb (i_opcode i) OP_CONSTANT) eqn:E.
    + apply read_dis_constant; [exact H|apply N.eqb_eq; exact E].
    + apply read_dis_plain; exact H.
  - unfold render_body. destruct (N.eqb (i_opcode i) OP_EXT_INST) eqn:E.
    + apply read_dis_ext; [exact H|apply N.eqb_eq; exact E].
    + apply read_dis_plain; exact H.
  - apply read_dis_plain; exact H.
Qed.

(** two conforming instructions with the same line are equal (even when
    printed by different renderers) *)
Corollary unambiguous t sets i j tag tag' :
  conforms G t i = true -> conforms G t j = true ->
  render V t sets (tag, i) = render V t sets (tag', j) -> i = j.
Proof.
  intros Hi Hj E. pose proof (read_dis t sets i tag Hi) as Ri. rewrite E, (read_dis t sets j tag' Hj) in Ri.
  inversion Ri; reflexivity.
Qed.

(** streams: the same lines in the same context, the same instructions *)
Corollary unambiguous_lines t sets : forall l1 l2 : list (ctag * inst),
  Forall (fun ti => conforms G t (snd ti) = true) l1 ->
  Forall (fun ti => conforms G t (snd ti) = true) l2 ->
  map (render V t sets) l1 = map (render V t sets) l2 -> map snd l1 = map snd l2.
Proof.
  induction l1 as [|[tg i] l1 IH]; intros [|[tg' j] l2] H1 H2 E; cbn [map] in *; try discriminate; [reflexivity|].
  inversion E as [[E1 E2]]. inversion H1; subst. inversion H2; subst. cbn [snd] in *.
  f_equal; [eapply unambiguous; eassumption|apply IH; assumption].
Qed.

(** ** the context is determined by the lines *)
(** OpTypeInt / OpTypeFloat / OpExtInstImport lines - and the head of every
    line - are read WITHOUT a tracked context (empty tracker, no sets) *)
Definition track_line (st : tracker) (line : list dtok) : tracker :=
  match read_head G line with
  | None => st
  | Some (rid, g, l2) =>
      let '(rt, ts) := split_rt G g l2 in
      let opc := g_opcode g in
      let ops := if N.eqb opc OP_TYPE_INT || N.eqb opc OP_TYPE_FLOAT then
                   match read_lops G V [] opc rt (g_operands g) rt rid [] ts with
                   | Some ops => ops
                   | None => []
                   end
                 else [] in
      dtrack_total V st {| i_opcode := opc; i_rtype := rt; i_rid := rid; i_ops := ops |}
  end.

Definition lines_tracker (lines : list (list dtok)) : tracker := fold_left track_line lines [].

Definition sets_line (sets : esets) (line : list dtok) : esets :=
  match read_inst G V [] [] line with
  | Some i => ext_track sets i
  | None => sets
  end.

Definition lines_sets (lines : list (list dtok)) : esets := fold_left sets_line lines [].

Lemma render_global_prefix T i :
  exists X, render_global V T i = dis_prefix V i ++ X
            /\ (i_ops i = [] -> X = [])
            /\ (i_opcode i <> OP_CONSTANT -> X = map dis (i_ops i)).
Proof.
  unfold render_global. destruct (N.eqb (i_opcode i) OP_CONSTANT) eqn:E.
  - apply N.eqb_eq in E.
    destruct (line_shape_constant V T i) as [->|(rt & ty & o & rest & tk & _ & _ & Hops & _ & _ & -> & _)].
    + exists (map dis (i_ops i)). split; [reflexivity|]. split; [intros ->; reflexivity|reflexivity].
    + exists [tk]. split; [reflexivity|]. split; [rewrite Hops; discriminate|congruence].
  - exists (map dis (i_ops i)). split; [reflexivity|]. split; [intros ->; reflexivity|reflexivity].
Qed.

Lemma dtrack_ops_irrel st opc rt rid ops ops' : opc <> OP_TYPE_INT -> opc <> OP_TYPE_FLOAT ->
  dtrack_step V st {| i_opcode := opc; i_rtype := rt; i_rid := rid; i_ops := ops |}
  = dtrack_step V st {| i_opcode := opc; i_rtype := rt; i_rid := rid; i_ops := ops' |}.
Proof.
  intros H1 H2. apply N.eqb_neq in H1, H2. unfold dtrack_step.
  cbn [i_opcode i_rtype i_rid i_ops]. rewrite H1, H2. reflexivity.
Qed.

(** outside OpConstant / OpSpecConstant / OpSwitch conformance does not look at the tracker *)
Lemma conf_lops_indep t t' opc ity :
  opc <> OP_CONSTANT -> opc <> OP_SPEC_CONSTANT -> opc <> OP_SWITCH ->
  forall lops prt prid acc os,
    conf_lops G t opc ity lops prt prid acc os = conf_lops G t' opc ity lops prt prid acc os.
Proof.
  intros H1 H2 H3. apply N.eqb_neq in H1, H2, H3.
  induction lops as [|[k q] lops IH]; intros prt prid acc os; cbn [conf_lops]; [reflexivity|].
  destruct (none prt && none prid && nil os); [reflexivity|].
  destruct (N.eqb k (gd_k_rt G)).
  { destruct prt; [|reflexivity]. rewrite IH. reflexivity. }
  destruct (N.eqb k (gd_k_rid G)).
  { destruct prt; [reflexivity|]. destruct prid; [|reflexivity]. rewrite IH. reflexivity. }
  destruct (negb (none prt && none prid)); [reflexivity|].
  destruct (N.eqb k (gd_k_ctx G)).
  { rewrite H1, H2. reflexivity. }
  destruct (N.eqb k (gd_k_pairlitid G)).
  { rewrite H3. reflexivity. }
  destruct (N.eqb k (gd_k_specop G)).
  { destruct (negb (variadic q)); [|reflexivity]. cbn [andb].
    destruct os as [|[] os1]; try reflexivity.
    destruct (v <? 65536); [|reflexivity]. cbn [andb].
    destruct (lookup_core (gd_table G) v); [|reflexivity].
    destruct (conf_nested G (g_operands e) os1) as [[a os2]|]; [|reflexivity]. apply IH. }
  destruct (variadic q); [reflexivity|].
  destruct (split_kind G k os) as [[a os1]|]; [apply IH|reflexivity].
Qed.

Lemma conforms_indep t t' i :
  i_opcode i <> OP_CONSTANT -> i_opcode i <> OP_SPEC_CONSTANT -> i_opcode i <> OP_SWITCH ->
  conforms G t i = conforms G t' i.
Proof.
  intros H1 H2 H3. unfold conforms. destruct (lookup_core (gd_table G) (i_opcode i)); [|reflexivity].
  rewrite (conf_lops_indep t t' _ _ H1 H2 H3). reflexivity.
Qed.

Lemma track_line_ok t T st i : conforms G t i = true ->
  track_line st (render_global V T i) = dtrack_total V st i.
Proof.
  intros H. destruct (render_global_prefix T i) as (X & -> & HX & HP).
  destruct (head_ok t i H) as (g & EL & HC & Hg & HH).
  unfold track_line. rewrite HH, (split_rt_ok t i g X HC HX), Hg.
  destruct (N.eqb (i_opcode i) OP_TYPE_INT || N.eqb (i_opcode i) OP_TYPE_FLOAT) eqn:E.
  - assert (Hne: i_opcode i <> OP_CONSTANT /\ i_opcode i <> OP_SPEC_CONSTANT /\ i_opcode i <> OP_SWITCH).
    { apply orb_true_iff in E as [E|E]; apply N.eqb_eq in E; rewrite E;
        (split; [|split]); discriminate. }
    destruct Hne as (N1 & N2 & N3). rewrite (HP N1).
    rewrite (conf_lops_indep t [] _ _ N1 N2 N3) in HC.
    rewrite (read_lops_ok G V [] (i_opcode i) ARMS SMALL OPN _ _ _ _ _ _ HC).
    destruct i; reflexivity.
  - apply orb_false_iff in E as [E1 E2]. apply N.eqb_neq in E1, E2.
    unfold dtrack_total. rewrite (dtrack_ops_irrel st _ _ _ [] (i_ops i) E1 E2).
    destruct i; reflexivity.
Qed.

Definition conforming (i : inst) : Prop := exists t, conforms G t i = true.

Lemma track_lines_ok T : forall l st, Forall conforming l ->
  fold_left track_line (map (render_global V T) l) st = fold_left (dtrack_total V) l st.
Proof.
  induction l as [|i l IH]; intros st HF; cbn [map fold_left]; [reflexivity|].
  inversion HF as [|? ? [t Hi] HF']; subst. rewrite (track_line_ok t T st i Hi). apply IH. exact HF'.
Qed.

(** the type tracker the disassembler used is a function of the lines of
    the types/global-values section alone *)
Theorem context_from_lines T (tgv : list inst) : Forall conforming tgv ->
  lines_tracker (map (render_global V T) tgv) = dtrack_all V tgv.
Proof. intros HF. unfold lines_tracker, dtrack_all. rewrite (track_lines_ok T _ _ HF). reflexivity. Qed.

Lemma read_inst_opcode t0 t sets i X j : conforms G t0 i = true ->
  read_inst G V t sets (dis_prefix V i ++ X) = Some j -> i_opcode j = i_opcode i.
Proof.
  intros H. destruct (head_ok t0 i H) as (g & _ & _ & Hg & HH).
  unfold read_inst. rewrite HH. destruct (split_rt G g (rt_toks (i_rtype i) ++ X)) as [rt ts].
  match goal with |- match ?r with _ => _ end = _ -> _ => destruct r end; [|discriminate].
  intros E. inversion E; subst. exact Hg.
Qed.

Lemma sets_line_ok t T sets i : conforms G t i = true ->
  sets_line sets (render_global V T i) = ext_track sets i.
Proof.
  intros H. unfold sets_line. destruct (N.eqb (i_opcode i) OP_EXT_INST_IMPORT) eqn:E.
  - apply N.eqb_eq in E.
    assert (Hne: i_opcode i <> OP_CONSTANT /\ i_opcode i <> OP_SPEC_CONSTANT /\ i_opcode i <> OP_SWITCH)
      by (rewrite E; (split; [|split]); discriminate).
    destruct Hne as (N1 & N2 & N3). rewrite (conforms_indep t [] i N1 N2 N3) in H.
    unfold render_global. apply N.eqb_neq in N1. rewrite N1.
    rewrite (read_dis_plain [] [] i H). reflexivity.
  - assert (Hs: forall j, i_opcode j = i_opcode i -> ext_track sets j = sets).
    { intros j Hj. unfold ext_track. rewrite Hj, E. reflexivity. }
    rewrite (Hs i eq_refl).
    destruct (render_global_prefix T i) as (X & -> & _ & _).
    destruct (read_inst G V [] [] (dis_prefix V i ++ X)) as [j|] eqn:ER; [|reflexivity].
    apply Hs. apply (read_inst_opcode t [] [] i X j H ER).
Qed.

(** the extended-instruction sets are a function of the import lines alone *)
Theorem sets_from_lines T (imports : list inst) : Forall conforming imports ->
  lines_sets (map (render_global V T) imports) = ext_track_all imports.
Proof.
  unfold lines_sets, ext_track_all. generalize (@Datatypes.nil (N * bool)).
  induction imports as [|i l IH]; intros sets HF; cbn [map fold_left]; [reflexivity|].
  inversion HF as [|? ? [t Hi] HF']; subst. rewrite (sets_line_ok t T sets i Hi). apply IH. exact HF'.
Qed.

(** modules: if two modules whose instructions conform (each in its own
    tracked context) disassemble to the same lines, and the lines of their
    import sections and of their types/global-values sections are the same
    lines (the sections are aligned), then they track the same context and
    consist of the same instructions in the same order *)
Definition module_conforms (m : module inst) : Prop :=
  Forall (fun i => conforms G (module_tracker V m) i = true) (all_insts m).

Theorem unambiguous_modules h h' m m' :
  module_conforms m -> module_conforms m' ->
  map (render_global V (module_tracker V m)) (m_imports m)
    = map (render_global V (module_tracker V m')) (m_imports m') ->
  map (render_global V (module_tracker V m)) (m_types_global_values m)
    = map (render_global V (module_tracker V m')) (m_types_global_values m') ->
  snd (dis_module V h m) = snd (dis_module V h' m') ->
  module_tracker V m = module_tracker V m' /\ module_sets m = module_sets m'
  /\ all_insts m = all_insts m'.
Proof.
  intros C C' EI ET EL.
  assert (Hsub: forall (mm : module inst) (sec : list inst), module_conforms mm ->
            (forall i, In i sec -> In i (all_insts mm)) -> Forall conforming sec).
  { intros mm sec HC Hin. apply Forall_forall. intros i Hi. exists (module_tracker V mm).
    unfold module_conforms in HC. rewrite Forall_forall in HC. apply HC. apply Hin. exact Hi. }
  assert (Himp: forall mm i, In i (m_imports mm) -> In i (all_insts mm)).
  { intros mm i Hi. unfold all_insts. rewrite !in_app_iff. tauto. }
  assert (Htgv: forall mm i, In i (m_types_global_values mm) -> In i (all_insts mm)).
  { intros mm i Hi. unfold all_insts. rewrite !in_app_iff. tauto. }
  assert (ET': module_tracker V m = module_tracker V m').
  { unfold module_tracker at 1 2.
    rewrite <- (context_from_lines (module_tracker V m) _ (Hsub m _ C (Htgv m))).
    rewrite <- (context_from_lines (module_tracker V m') _ (Hsub m' _ C' (Htgv m'))).
    rewrite ET. reflexivity. }
  assert (ES': module_sets m = module_sets m').
  { unfold module_sets.
    rewrite <- (sets_from_lines (module_tracker V m) _ (Hsub m _ C (Himp m))).
    rewrite <- (sets_from_lines (module_tracker V m') _ (Hsub m' _ C' (Himp m'))).
    rewrite EI. reflexivity. }
  split; [exact ET'|]. split; [exact ES'|].
  destruct (one_line_per_instruction V h m) as [L _]. destruct (one_line_per_instruction V h' m') as [L' _].
  rewrite L, L', <- ET', <- ES' in EL.
  rewrite <- (tagged_insts_all m), <- (tagged_insts_all m').
  apply (unambiguous_lines (module_tracker V m) (module_sets m)); [| |exact EL].
  - apply Forall_forall. intros ti Hti. unfold module_conforms in C. rewrite Forall_forall in C.
    apply C. rewrite <- tagged_insts_all. apply in_map. exact Hti.
  - apply Forall_forall. intros ti Hti. unfold module_conforms in C'. rewrite Forall_forall in C'.
    rewrite ET'. apply C'. rewrite <- tagged_insts_all. apply in_map. exact Hti.
Qed.
End Main.

(** X2, for all three renderers at once: a line is the prefix
    ["%rid" "="]? "Op<name>" ["%rt"]? followed by one token per operand, with
    exactly two exceptions *)
Theorem line_shape_render V t sets tag i :
  exists X, render V t sets (tag, i) = dis_prefix V i ++ X /\
    (X = map (dis_operand V) (i_ops i)
     \/ (tag = CGlobal /\ i_opcode i = OP_CONSTANT /\
         exists o rest tk, i_ops i = o :: rest /\ X = [tk] /\ is_lit_tok tk)
     \/ (tag = CBody /\ i_opcode i = OP_EXT_INST /\
         exists id n rest nm, i_ops i = OIdRef id :: OExtInst n :: rest /\ ext_name V sets id n = Some nm /\
           X = DId id :: DName nm :: map (dis_operand V) rest)).
Proof.
  destruct tag; unfold render; cbn [fst snd].
  - unfold render_global. destruct (N.eqb (i_opcode i) OP_CONSTANT) eqn:E.
    + apply N.eqb_eq in E.
      destruct (line_shape_constant V t i) as [->|(rt & ty & o & rest & tk & _ & _ & Hops & _ & Hlit & -> & _)].
      * exists (map (dis_operand V) (i_ops i)). split; [reflexivity|left; reflexivity].
      * exists [tk]. split; [reflexivity|]. right. left. split; [reflexivity|]. split; [exact E|].
        exists o, rest, tk. auto.
    + exists (map (dis_operand V) (i_ops i)). split; [reflexivity|left; reflexivity].
  - unfold render_body. destruct (N.eqb (i_opcode i) OP_EXT_INST) eqn:E.
    + apply N.eqb_eq in E.
      destruct (line_shape_ext V sets i) as [->|(id & n & rest & nm & Hops & HN & -> & _)].
      * exists (map (dis_operand V) (i_ops i)). split; [reflexivity|left; reflexivity].
      * eexists. split; [reflexivity|]. right. right. split; [reflexivity|]. split; [exact E|].
        exists id, n, rest, nm. auto.
    + exists (map (dis_operand V) (i_ops i)). split; [reflexivity|left; reflexivity].
  - exists (map (dis_operand V) (i_ops i)). split; [reflexivity|left; reflexivity].
Qed.

(** WHY the vocabulary must cover the bits of a mask value (it does for
    every value the decoder's from_bits accepts, see [slot_link]): bits
    without a row are not printed, a value with no printable bit prints as
    the EMPTY word *)
Definition V1 : vocab :=
  {| v_table := []; v_enums := fun _ => None;
     v_masks := fun _ => Some [(1, "A"%string); (2, "B"%string)]; v_strip3 := fun _ => false;
     v_opnames := fun _ => None; v_glsl := []; v_opencl := []; v_is_type := fun _ => false |}.

Example undeclared_bits_are_not_printed :
  dis_operand V1 (OEnum 0 5) = DName "A" /\ dis_operand V1 (OEnum 0 1) = DName "A"
  /\ dis_operand V1 (OEnum 0 4) = DName "" /\ dis_operand V1 (OEnum 0 8) = DName ""
  /\ dis_operand V1 (OEnum 0 3) = DName "A|B" /\ dis_operand V1 (OEnum 0 0) = DName "None".
Proof. vm_compute. repeat split. Qed.

(** WHY OpConstant's entry must be [IdResultType IdResult Literal]: with an
    entry that allows a second operand, [constant_drops_operands] above gives
    two conforming instructions with the same line. *)

Print Assumptions dtrack_step_is_track.
Print Assumptions one_line_per_instruction.
Print Assumptions kth_line.
Print Assumptions line_shape_plain.
Print Assumptions line_shape_constant.
Print Assumptions line_shape_ext.
Print Assumptions line_shape_render.
Print Assumptions read_dis_plain.
Print Assumptions read_dis.
Print Assumptions unambiguous.
Print Assumptions unambiguous_lines.
Print Assumptions context_from_lines.
Print Assumptions sets_from_lines.
Print Assumptions unambiguous_modules.
