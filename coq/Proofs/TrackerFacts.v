(** Context-dependent literal widths: the type tracker of binary/tracker.rs
    against an independent specification of "the type an id has, given the
    instructions parsed so far", the width rule of parse_literal, agreement
    with the assembler, and the fact that the tracker is a function of the
    instructions of the current parse only. *)
From RV Require Import Model.Base Model.Bytes Model.Spirv Model.Grammar Model.Decoder Model.Inst Model.Parser.
From RV Require Import Proofs.DecoderFacts.

(** ================================================================== *)
(** * Specification (written without reference to [track])             *)
(** ================================================================== *)

(** the (id, type) an instruction declares, by the SPIR-V rule *)
Definition declares (G : gdata) (i : inst) : option (N * ty) :=
  match i_rid i with
  | None => None
  | Some r =>
      if N.eqb (i_opcode i) 21 then
        match i_ops i with
        | OLit32 bits :: OLit32 sign :: _ => Some (r, TInt bits (N.eqb sign 1))
        | _ => None
        end
      else if N.eqb (i_opcode i) 22 then
        match i_ops i with
        | OLit32 bits :: _ => Some (r, TFloat bits)
        | _ => None
        end
      else None
  end.

(** what an instruction binds, given the environment [env] built from the
    instructions before it: its declaration, or - for a non-type instruction
    with a result type whose type is known - that type (propagation). *)
Definition binds (G : gdata) (env : list (N * ty)) (i : inst) : option (N * ty) :=
  match declares G i with
  | Some p => Some p
  | None =>
      if gd_is_type G (i_opcode i) then None
      else
        match i_rid i, i_rtype i with
        | Some r, Some rt => match assocN rt env with Some x => Some (r, x) | None => None end
        | _, _ => None
        end
  end.

Definition env_step (G : gdata) (env : list (N * ty)) (i : inst) : list (N * ty) :=
  match binds G env i with Some p => p :: env | None => env end.

(** [seen] = instructions already parsed, OLDEST FIRST; the environment is
    newest binding first *)
Definition env_of (G : gdata) (seen : list inst) : list (N * ty) := fold_left (env_step G) seen [].

Definition type_of_id (G : gdata) (seen : list inst) (id : N) : option ty := assocN id (env_of G seen).

(** the fold characterisation really is "the latest instruction that binds id" *)
Lemma env_of_snoc G seen i : env_of G (seen ++ [i]) = env_step G (env_of G seen) i.
Proof. unfold env_of. rewrite fold_left_app. reflexivity. Qed.

Lemma type_of_id_nil G id : type_of_id G [] id = None.
Proof. reflexivity. Qed.

Theorem type_of_id_snoc G seen i id :
  type_of_id G (seen ++ [i]) id =
  match binds G (env_of G seen) i with
  | Some (r, x) => if N.eqb id r then Some x else type_of_id G seen id
  | None => type_of_id G seen id
  end.
Proof.
  unfold type_of_id. rewrite env_of_snoc. unfold env_step.
  destruct (binds G (env_of G seen) i) as [[r x]|]; reflexivity.
Qed.

(** the grammar's is_type predicate covers the two type-declaring opcodes the
    tracker looks at (true of the linked grammar: see the end of the file) *)
Definition types_ok (G : gdata) : Prop :=
  gd_is_type G OP_TYPE_INT = true /\ gd_is_type G OP_TYPE_FLOAT = true.

(** ================================================================== *)
(** * K1  track is the specification                                    *)
(** ================================================================== *)

Fixpoint track_all (G : gdata) (t : tracker) (seen : list inst) : option tracker :=
  match seen with
  | [] => Some t
  | i :: r => match track G t i with Some t1 => track_all G t1 r | None => None end
  end.

Lemma track_step_spec G t i t1 : types_ok G -> track G t i = Some t1 -> t1 = env_step G t i.
Proof.
  intros [HI HF]. unfold track, env_step, binds, declares, resolve, tinsert, OP_TYPE_INT, OP_TYPE_FLOAT in *.
  destruct (i_rid i) as [rid|] eqn:R.
  2:{ intros H. inversion H; subst. destruct (gd_is_type G (i_opcode i)); reflexivity. }
  destruct (gd_is_type G (i_opcode i)) eqn:T.
  - destruct (N.eqb (i_opcode i) 21) eqn:E1.
    + destruct (i_ops i) as [|o1 [|o2 r]]; try discriminate;
        destruct o1; try (intros H; inversion H; reflexivity);
        destruct o2; intros H; inversion H; reflexivity.
    + destruct (N.eqb (i_opcode i) 22) eqn:E2.
      * destruct (i_ops i) as [|o1 r]; try discriminate.
        destruct o1; intros H; inversion H; reflexivity.
      * intros H; inversion H; reflexivity.
  - assert (E1 : N.eqb (i_opcode i) 21 = false).
    { destruct (N.eqb (i_opcode i) 21) eqn:E; [|reflexivity]. apply N.eqb_eq in E. congruence. }
    assert (E2 : N.eqb (i_opcode i) 22 = false).
    { destruct (N.eqb (i_opcode i) 22) eqn:E; [|reflexivity]. apply N.eqb_eq in E. congruence. }
    rewrite E1, E2. destruct (i_rtype i) as [rt|].
    + destruct (assocN rt t) as [x|]; intros H; inversion H; reflexivity.
    + intros H; inversion H; reflexivity.
Qed.

Lemma track_all_spec G seen : types_ok G -> forall t t',
  track_all G t seen = Some t' -> t' = fold_left (env_step G) seen t.
Proof.
  intros HG. induction seen as [|i r IH]; intros t t' H; cbn [track_all fold_left] in *.
  - inversion H; reflexivity.
  - destruct (track G t i) as [t1|] eqn:T; [|discriminate].
    rewrite (track_step_spec G t i t1 HG T) in H. apply IH; exact H.
Qed.

(** K1: folding [track] over the instructions seen so far, from the empty
    tracker, yields exactly the specified environment *)
Theorem track_is_spec G seen t : types_ok G ->
  track_all G [] seen = Some t ->
  t = env_of G seen /\ forall id, resolve t id = type_of_id G seen id.
Proof.
  intros HG H. apply (track_all_spec G seen HG) in H. subst t. split; [reflexivity|].
  intros id. reflexivity.
Qed.

(** the hypothesis [types_ok] is necessary: with an is_type predicate that
    does not contain OpTypeInt, `OpTypeInt %7 64 0` is not recorded. *)
Definition G_bad : gdata :=
  {| gd_table := []; gd_arms := []; gd_is_type := fun _ => false;
     gd_k_rt := 0; gd_k_rid := 1; gd_k_ctx := 2; gd_k_pairlitid := 3; gd_k_specop := 4 |}.
Definition i_int64 : inst :=
  {| i_opcode := 21; i_rtype := None; i_rid := Some 7; i_ops := [OLit32 64; OLit32 0] |}.
Example track_is_spec_needs_types_ok :
  track_all G_bad [] [i_int64] = Some [] /\ type_of_id G_bad [i_int64] 7 = Some (TInt 64 false)
  /\ resolve [] 7 = None.
Proof. vm_compute. split; [|split]; reflexivity. Qed.

(** exactly when [track] panics (index out of bounds) *)
Theorem track_none_iff G t i :
  track G t i = None <->
  exists rid, i_rid i = Some rid /\ gd_is_type G (i_opcode i) = true /\
    ((i_opcode i = OP_TYPE_INT /\ (length (i_ops i) < 2)%nat) \/
     (i_opcode i = OP_TYPE_FLOAT /\ i_ops i = [])).
Proof.
  unfold track, OP_TYPE_INT, OP_TYPE_FLOAT. split.
  - destruct (i_rid i) as [rid|] eqn:R; [|discriminate].
    destruct (gd_is_type G (i_opcode i)) eqn:T.
    + destruct (N.eqb (i_opcode i) 21) eqn:E1.
      * apply N.eqb_eq in E1. intros H. exists rid. split; [reflexivity|]. split; [reflexivity|]. left.
        split; [exact E1|].
        destruct (i_ops i) as [|o1 [|o2 r]]; cbn [length]; try lia.
        destruct o1; try discriminate; destruct o2; discriminate.
      * destruct (N.eqb (i_opcode i) 22) eqn:E2; [|discriminate].
        apply N.eqb_eq in E2. intros H. exists rid. split; [reflexivity|]. split; [reflexivity|]. right.
        split; [exact E2|].
        destruct (i_ops i) as [|o1 r]; [reflexivity|]. destruct o1; discriminate.
    + destruct (i_rtype i) as [rt|]; [|discriminate]. destruct (resolve t rt); discriminate.
  - intros (rid & R & T & H). rewrite R, T. destruct H as [[E L]|[E L]].
    + rewrite E. change (N.eqb 21 21) with true. cbv iota.
      destruct (i_ops i) as [|o1 [|o2 r]]; cbn [length] in L; try lia; [reflexivity|].
      destruct o1; reflexivity.
    + rewrite E, L. reflexivity.
Qed.

(** it cannot for instructions of the grammar's shape: OpTypeInt with two
    operands or more, OpTypeFloat with one or more *)
Theorem track_total G t i :
  (i_opcode i = OP_TYPE_INT -> (2 <= length (i_ops i))%nat) ->
  (i_opcode i = OP_TYPE_FLOAT -> (1 <= length (i_ops i))%nat) ->
  track G t i <> None.
Proof.
  intros H1 H2 H. apply track_none_iff in H. destruct H as (rid & _ & _ & [[E L]|[E L]]).
  - specialize (H1 E). lia.
  - specialize (H2 E). rewrite L in H2. cbn in H2. lia.
Qed.

Corollary track_int_total G t i : (2 <= length (i_ops i))%nat -> track G t i <> None.
Proof. intros H. apply track_total; intros _; lia. Qed.

Corollary track_float_total G t i : i_opcode i <> OP_TYPE_INT -> (1 <= length (i_ops i))%nat -> track G t i <> None.
Proof. intros Hn H. apply track_total; intros E; [contradiction|exact H]. Qed.

(** ================================================================== *)
(** * K2  the width rule                                                *)
(** ================================================================== *)

Definition width (x : option ty) : option nat :=
  match x with
  | None => Some 1%nat
  | Some (TInt b _) =>
      if N.eqb b 8 || N.eqb b 16 || N.eqb b 32 then Some 1%nat
      else if N.eqb b 64 then Some 2%nat else None
  | Some (TFloat b) =>
      if N.eqb b 16 || N.eqb b 32 then Some 1%nat
      else if N.eqb b 64 then Some 2%nat else None
  end.

Lemma width_values x : width x = None \/ width x = Some 1%nat \/ width x = Some 2%nat.
Proof.
  destruct x as [[b s|b]|]; cbn [width]; auto.
  - destruct (N.eqb b 8 || N.eqb b 16 || N.eqb b 32); auto. destruct (N.eqb b 64); auto.
  - destruct (N.eqb b 16 || N.eqb b 32); auto. destruct (N.eqb b 64); auto.
Qed.

Lemma parse_literal_by_width t id idx d :
  parse_literal t id idx d =
  match width (resolve t id) with
  | None => Er (PTypeUnsupported (off d) idx)
  | Some 1%nat => lit32 d
  | Some _ => lit64 d
  end.
Proof.
  unfold parse_literal, width. destruct (resolve t id) as [[b s|b]|]; [| |reflexivity].
  - destruct (N.eqb b 8 || N.eqb b 16 || N.eqb b 32); [reflexivity|]. destruct (N.eqb b 64); reflexivity.
  - destruct (N.eqb b 16 || N.eqb b 32); [reflexivity|]. destruct (N.eqb b 64); reflexivity.
Qed.

Lemma w32_pow : w32 = 2 ^ 32.
Proof. reflexivity. Qed.

Lemma lit32_ok d o d1 : lit32 d = Ok (o, d1) ->
  exists w, o = OLit32 w /\ word d = (inl w, d1) /\ off d1 = off d + 4.
Proof.
  unfold lit32, dreq, bind. destruct (word d) as [[w|e] d'] eqn:W; [|discriminate].
  intros H. inversion H; subst. exists w. split; [reflexivity|]. split; [reflexivity|].
  destruct (word_ok _ _ _ W) as (b0 & b1 & b2 & b3 & _ & _ & O & _). exact O.
Qed.

Lemma lit64_ok d o d1 : lit64 d = Ok (o, d1) ->
  exists lo hi dm, word d = (inl lo, dm) /\ word dm = (inl hi, d1) /\
                   o = OLit64 (lo + hi * 2 ^ 32) /\ off d1 = off d + 8.
Proof.
  unfold lit64, dreq, bind. destruct (bit64 d) as [[v|e] d'] eqn:B; [|discriminate].
  intros H. inversion H; subst.
  destruct (bit64_ok _ _ _ B) as (lo & hi & dm & W1 & W2 & V & O).
  exists lo, hi, dm. split; [exact W1|]. split; [exact W2|]. split; [|exact O].
  rewrite <- w32_pow. f_equal. lia.
Qed.

(** unsupported width: an error at the current offset, nothing consumed,
    whatever the decoder holds *)
Theorem width_rule_unsupported t id idx d :
  width (resolve t id) = None -> parse_literal t id idx d = Er (PTypeUnsupported (off d) idx).
Proof. intros H. rewrite parse_literal_by_width, H. reflexivity. Qed.

(** one word *)
Theorem width_rule_1 t id idx d :
  width (resolve t id) = Some 1%nat ->
  parse_literal t id idx d = lit32 d /\
  forall o d1, parse_literal t id idx d = Ok (o, d1) ->
    exists w, o = OLit32 w /\ word d = (inl w, d1) /\ off d1 = off d + 4.
Proof.
  intros H. rewrite parse_literal_by_width, H. split; [reflexivity|].
  intros o d1 E. apply lit32_ok; exact E.
Qed.

(** two words, the FIRST one read is the low half *)
Theorem width_rule_2 t id idx d :
  width (resolve t id) = Some 2%nat ->
  parse_literal t id idx d = lit64 d /\
  forall o d1, parse_literal t id idx d = Ok (o, d1) ->
    exists v, o = OLit64 v /\ off d1 = off d + 8 /\
      exists lo hi dm, word d = (inl lo, dm) /\ word dm = (inl hi, d1) /\ v = lo + hi * 2 ^ 32.
Proof.
  intros H. rewrite parse_literal_by_width, H. split; [reflexivity|].
  intros o d1 E. destruct (lit64_ok _ _ _ E) as (lo & hi & dm & W1 & W2 & V & O).
  exists (lo + hi * 2 ^ 32). split; [exact V|]. split; [exact O|].
  exists lo, hi, dm. split; [exact W1|]. split; [exact W2|]. reflexivity.
Qed.

(** the three cases are exhaustive, and a success consumes exactly
    [width] words *)
Theorem width_rule_consumed t id idx d o d1 :
  parse_literal t id idx d = Ok (o, d1) ->
  exists n, width (resolve t id) = Some n /\ (n = 1%nat \/ n = 2%nat) /\ off d1 = off d + 4 * N.of_nat n.
Proof.
  intros E. destruct (width_values (resolve t id)) as [H|[H|H]].
  - rewrite (width_rule_unsupported _ _ _ _ H) in E. discriminate.
  - destruct (width_rule_1 t id idx d H) as [_ K]. destruct (K o d1 E) as (w & _ & _ & O).
    exists 1%nat. split; [exact H|]. split; [auto|]. lia.
  - destruct (width_rule_2 t id idx d H) as [_ K]. destruct (K o d1 E) as (v & _ & O & _).
    exists 2%nat. split; [exact H|]. split; [auto|]. lia.
Qed.

(** an error never moves the offset past what was asked: errors of a literal
    are operand errors of the decoder or PTypeUnsupported *)
Theorem parse_literal_errors t id idx d e :
  parse_literal t id idx d = Er e ->
  e = PTypeUnsupported (off d) idx \/ exists de, e = POperandError de.
Proof.
  rewrite parse_literal_by_width. destruct (width (resolve t id)) as [[|[|n]]|].
  - unfold lit64, dreq, bind. destruct (bit64 d) as [[v|de] d']; intros H; inversion H. right; eauto.
  - unfold lit32, dreq, bind. destruct (word d) as [[v|de] d']; intros H; inversion H. right; eauto.
  - unfold lit64, dreq, bind. destruct (bit64 d) as [[v|de] d']; intros H; inversion H. right; eauto.
  - intros H; inversion H. left; reflexivity.
Qed.

Theorem parse_literal_no_panic t id idx d s : parse_literal t id idx d <> Panic s.
Proof.
  rewrite parse_literal_by_width. destruct (width (resolve t id)) as [[|[|n]]|]; try discriminate;
    unfold lit32, lit64, dreq, bind;
    try (destruct (bit64 d) as [[v|de] d']; discriminate);
    destruct (word d) as [[v|de] d']; discriminate.
Qed.

(** ================================================================== *)
(** * K3  the assembler agrees                                          *)
(** ================================================================== *)

Theorem asm_lit32_length w : length (asm_operand (OLit32 w)) = 1%nat.
Proof. reflexivity. Qed.

Theorem asm_lit64_length v : length (asm_operand (OLit64 v)) = 2%nat.
Proof. reflexivity. Qed.

Theorem asm_lit64_words v : v < 2 ^ 64 ->
  asm_operand (OLit64 v) = [v mod 2 ^ 32; v / 2 ^ 32].
Proof.
  intros H. cbn [asm_operand]. rewrite <- w32_pow.
  assert (E : 2 ^ 64 = w32 * w32) by reflexivity. rewrite E in H.
  f_equal. f_equal. apply N.mod_small. apply N.div_lt_upper_bound; [unfold w32; lia|exact H].
Qed.

(** the two words the assembler writes are the two words the parser read,
    in the same order (words of a byte stream are below 2^32) *)
Theorem asm_lit64_roundtrip lo hi : lo < 2 ^ 32 -> hi < 2 ^ 32 ->
  asm_operand (OLit64 (lo + hi * 2 ^ 32)) = [lo; hi].
Proof.
  intros Hl Hh. cbn [asm_operand]. rewrite <- w32_pow in *. unfold w32 in *.
  f_equal; [lia|]. f_equal. lia.
Qed.

Theorem assembler_agrees t id idx d o d1 :
  parse_literal t id idx d = Ok (o, d1) ->
  N.of_nat (length (asm_operand o)) = (off d1 - off d) / 4.
Proof.
  intros E. destruct (width_values (resolve t id)) as [H|[H|H]].
  - rewrite (width_rule_unsupported _ _ _ _ H) in E. discriminate.
  - destruct (width_rule_1 t id idx d H) as [_ K]. destruct (K o d1 E) as (w & -> & _ & O).
    rewrite asm_lit32_length, O. lia.
  - destruct (width_rule_2 t id idx d H) as [_ K]. destruct (K o d1 E) as (v & -> & O & _).
    rewrite asm_lit64_length, O. lia.
Qed.

(** and the length is the specified width *)
Corollary assembler_agrees_width t id idx d o d1 :
  parse_literal t id idx d = Ok (o, d1) -> width (resolve t id) = Some (length (asm_operand o)).
Proof.
  intros E. destruct (width_values (resolve t id)) as [H|[H|H]].
  - rewrite (width_rule_unsupported _ _ _ _ H) in E. discriminate.
  - destruct (width_rule_1 t id idx d H) as [_ K]. destruct (K o d1 E) as (w & -> & _). exact H.
  - destruct (width_rule_2 t id idx d H) as [_ K]. destruct (K o d1 E) as (v & -> & _). exact H.
Qed.

(** ================================================================== *)
(** * K4  the tracker depends only on the current parse                 *)
(** ================================================================== *)

(** parse_inst uses the tracker only through [resolve] *)
Lemma parse_literal_ext t t' : (forall id, resolve t id = resolve t' id) ->
  forall id idx d, parse_literal t id idx d = parse_literal t' id idx d.
Proof. intros H id idx d. unfold parse_literal. rewrite H. reflexivity. Qed.

Lemma step_kind_ext G t t' : (forall id, resolve t id = resolve t' id) ->
  forall opcode k idx d rt rid acc,
    step_kind G t opcode k idx d rt rid acc = step_kind G t' opcode k idx d rt rid acc.
Proof.
  intros H opcode k idx d rt rid acc. unfold step_kind.
  destruct (N.eqb k (gd_k_rt G)); [reflexivity|].
  destruct (N.eqb k (gd_k_rid G)); [reflexivity|].
  destruct (N.eqb k (gd_k_ctx G)).
  { destruct (N.eqb opcode OP_CONSTANT || N.eqb opcode OP_SPEC_CONSTANT); [|reflexivity].
    destruct rt as [id|]; [|reflexivity]. rewrite (parse_literal_ext t t' H). reflexivity. }
  destruct (N.eqb k (gd_k_pairlitid G)); [|reflexivity].
  destruct (N.eqb opcode OP_SWITCH); [|reflexivity].
  destruct acc as [|[] ?]; try reflexivity. rewrite (parse_literal_ext t t' H). reflexivity.
Qed.

Lemma parse_lops_ext G t t' : (forall id, resolve t id = resolve t' id) ->
  forall fuel opcode lops idx d rt rid acc,
    parse_lops G fuel t opcode lops idx d rt rid acc = parse_lops G fuel t' opcode lops idx d rt rid acc.
Proof.
  intros H. induction fuel as [|f IH]; intros opcode lops idx d rt rid acc; cbn [parse_lops]; [reflexivity|].
  destruct lops as [|[k q] r]; [reflexivity|].
  destruct (limit_reached d); [reflexivity|].
  rewrite (step_kind_ext G t t' H).
  destruct (step_kind G t' opcode k idx d rt rid acc) as [[[[rt1 rid1] acc1] d1]|e|p]; cbn [bind]; try reflexivity.
  destruct q; apply IH.
Qed.

Theorem parse_inst_ext G t t' : (forall id, resolve t id = resolve t' id) ->
  forall idx d, parse_inst G t idx d = parse_inst G t' idx d.
Proof.
  intros H idx d. unfold parse_inst. destruct (word d) as [[w|e] d1]; [|reflexivity].
  destruct (N.eqb ((w / 65536) mod 65536) 0); [reflexivity|].
  destruct (lookup_core (gd_table G) (w mod 65536)) as [g|]; [|reflexivity].
  rewrite (parse_lops_ext G t t' H). reflexivity.
Qed.

(** [parse] starts its loop from the EMPTY tracker, whatever happened before *)
Theorem parse_starts_empty {S} G (C : consumer S) bytes s0 s1 h d1 s2 :
  c_init C s0 = (s1, Continue) ->
  parse_header (mkdec bytes) = Ok (h, d1) ->
  c_header C s1 h = (s2, Continue) ->
  parse G C bytes s0 = parse_loop G C (Datatypes.S (length bytes)) [] 0 d1 s2.
Proof.
  intros H1 H2 H3. unfold parse. rewrite H1. cbn [consume]. rewrite H2, H3. reflexivity.
Qed.

(** one iteration of the loop: the instruction is parsed with the current
    tracker, delivered, and the loop continues with the tracker [track]
    computes from it *)
Theorem parse_loop_step {S} G (C : consumer S) f t idx d s i d1 t1 s1 :
  parse_inst G t (idx + 1) d = Ok (i, d1) ->
  track G t i = Some t1 ->
  c_inst C s i = (s1, Continue) ->
  parse_loop G C (Datatypes.S f) t idx d s = parse_loop G C f t1 (idx + 1) d1 s1.
Proof. intros H1 H2 H3. cbn [parse_loop]. rewrite H1, H2, H3. reflexivity. Qed.

(** the instructions the loop delivers, observed by a logging wrapper around
    an arbitrary consumer (the log includes the instruction on which the
    consumer answers Stop/Error) *)
Definition logC {S} (C : consumer S) : consumer (S * list inst) :=
  {| c_init := fun sl => let '(s1, a) := c_init C (fst sl) in ((s1, snd sl), a);
     c_fin := fun sl => let '(s1, a) := c_fin C (fst sl) in ((s1, snd sl), a);
     c_header := fun sl h => let '(s1, a) := c_header C (fst sl) h in ((s1, snd sl), a);
     c_inst := fun sl i => let '(s1, a) := c_inst C (fst sl) i in ((s1, snd sl ++ [i]), a) |}.

(** [chain G t idx d l]: the instructions [l] were obtained one after the
    other by parse_inst, each with the tracker produced by [track] from the
    previous ones, starting with tracker [t] *)
Inductive chain (G : gdata) : tracker -> N -> dec -> list inst -> Prop :=
| chain_nil t idx d : chain G t idx d []
| chain_cons t idx d i d1 t1 l :
    parse_inst G t (idx + 1) d = Ok (i, d1) ->
    track G t i = Some t1 ->
    chain G t1 (idx + 1) d1 l ->
    chain G t idx d (i :: l).

(** logging does not disturb the parse, and what is delivered is a chain *)
Theorem parse_loop_delivers {S} G (C : consumer S) : forall fuel t idx d s log,
  exists l,
    parse_loop G (logC C) fuel t idx d (s, log) =
      ((fst (parse_loop G C fuel t idx d s), log ++ l), snd (parse_loop G C fuel t idx d s))
    /\ chain G t idx d l.
Proof.
  induction fuel as [|f IH]; intros t idx d s log; cbn [parse_loop].
  - exists []. rewrite app_nil_r. split; [reflexivity|constructor].
  - destruct (parse_inst G t (idx + 1) d) as [[i d1]|e|p] eqn:PI.
    + destruct (track G t i) as [t1|] eqn:T.
      * cbn [logC c_inst fst snd]. destruct (c_inst C s i) as [s1 a] eqn:CI.
        destruct a as [| |e]; cbn [consume].
        -- destruct (IH t1 (idx + 1) d1 s1 (log ++ [i])) as [l [E Ch]].
           exists (i :: l). rewrite E, <- app_assoc. split; [reflexivity|].
           econstructor; eassumption.
        -- exists [i]. split; [reflexivity|]. econstructor; try eassumption. constructor.
        -- exists [i]. split; [reflexivity|]. econstructor; try eassumption. constructor.
      * exists []. rewrite app_nil_r. split; [reflexivity|constructor].
    + exists []. rewrite app_nil_r. split; [|constructor].
      destruct e; try reflexivity.
      cbn [logC c_fin fst snd]. destruct (c_fin C s) as [s1 a]. reflexivity.
    + exists []. rewrite app_nil_r. split; [reflexivity|constructor].
Qed.

Theorem parse_delivers {S} G (C : consumer S) bytes s0 log :
  exists l,
    parse G (logC C) bytes (s0, log) = ((fst (parse G C bytes s0), log ++ l), snd (parse G C bytes s0))
    /\ match parse_header (mkdec bytes) with
       | Ok (h, d1) => chain G [] 0 d1 l
       | _ => l = []
       end.
Proof.
  unfold parse. cbn [logC c_init c_header fst snd].
  destruct (c_init C s0) as [s1 a] eqn:CI.
  destruct (parse_header (mkdec bytes)) as [[h d1]|e|p] eqn:PH.
  - destruct a as [| |e]; cbn [consume fst snd]; try (exists []; rewrite app_nil_r; split; [reflexivity|constructor]).
    destruct (c_header C s1 h) as [s2 a2] eqn:CH.
    destruct a2 as [| |e]; cbn [consume fst snd]; try (exists []; rewrite app_nil_r; split; [reflexivity|constructor]).
    destruct (parse_loop_delivers G C (Datatypes.S (length bytes)) [] 0 d1 s2 log) as [l [E Ch]].
    exists l. split; [exact E|exact Ch].
  - exists []. rewrite app_nil_r. split; [|reflexivity]. destruct a; reflexivity.
  - exists []. rewrite app_nil_r. split; [|reflexivity]. destruct a; reflexivity.
Qed.

(** along a chain, the tracker used for instruction number k+1 is the fold of
    [track] over the first k instructions *)
Lemma chain_nth G : forall l t idx d, chain G t idx d l ->
  forall k i, nth_error l k = Some i ->
    exists tk dk dk', track_all G t (firstn k l) = Some tk /\
                      parse_inst G tk (idx + N.of_nat k + 1) dk = Ok (i, dk').
Proof.
  induction l as [|j l IH]; intros t idx d Ch k i Hk.
  - destruct k; discriminate.
  - inversion Ch as [|? ? ? ? d1 t1 ? PI T Ch']; subst. destruct k as [|k].
    + cbn in Hk. inversion Hk; subst. exists t, d, d1. cbn [firstn track_all]. split; [reflexivity|].
      replace (idx + N.of_nat 0 + 1) with (idx + 1) by lia. exact PI.
    + cbn [nth_error] in Hk. destruct (IH t1 (idx + 1) d1 Ch' k i Hk) as (tk & dk & dk' & TA & PI').
      exists tk, dk, dk'. cbn [firstn track_all]. rewrite T. split; [exact TA|].
      replace (idx + N.of_nat (Datatypes.S k) + 1) with (idx + 1 + N.of_nat k + 1) by lia. exact PI'.
Qed.

Lemma chain_track_all G : forall l t idx d, chain G t idx d l -> exists t', track_all G t l = Some t'.
Proof.
  induction l as [|j l IH]; intros t idx d Ch.
  - exists t. reflexivity.
  - inversion Ch as [|? ? ? ? d1 t1 ? PI T Ch']; subst. cbn [track_all]. rewrite T. eapply IH; eassumption.
Qed.

(** K4: in a parse, instruction number k+1 is parsed by parse_inst with the
    environment the specification assigns to the first k instructions of THIS
    parse - nothing else influences it *)
Theorem depends_only_on_current_parse {S} G (C : consumer S) bytes s0 s' l r :
  types_ok G ->
  parse G (logC C) bytes (s0, []) = ((s', l), r) ->
  forall k i, nth_error l k = Some i ->
    exists dk dk', parse_inst G (env_of G (firstn k l)) (N.of_nat k + 1) dk = Ok (i, dk').
Proof.
  intros HG HP k i Hk. destruct (parse_delivers G C bytes s0 []) as [l' [E Ch]].
  rewrite HP in E. cbn [app] in E. inversion E; subst l'. clear E.
  destruct (parse_header (mkdec bytes)) as [[h d1]|e|p].
  - destruct (chain_nth G l [] 0 d1 Ch k i Hk) as (tk & dk & dk' & TA & PI).
    destruct (track_is_spec G _ tk HG TA) as [-> _]. exists dk, dk'.
    replace (N.of_nat k + 1) with (0 + N.of_nat k + 1) by lia. exact PI.
  - subst l. destruct k; discriminate.
  - subst l. destruct k; discriminate.
Qed.

(** ... and inside that call, every context-dependent literal with type id
    [id] is read with the width of [type_of_id] over those k instructions *)
Theorem literal_width_is_spec G seen id idx d :
  parse_literal (env_of G seen) id idx d =
  match width (type_of_id G seen id) with
  | None => Er (PTypeUnsupported (off d) idx)
  | Some 1%nat => lit32 d
  | Some _ => lit64 d
  end.
Proof. apply parse_literal_by_width. Qed.

Corollary literal_width_consumed G seen id idx d o d1 :
  parse_literal (env_of G seen) id idx d = Ok (o, d1) ->
  exists n, width (type_of_id G seen id) = Some n /\ length (asm_operand o) = n /\
            off d1 = off d + 4 * N.of_nat n.
Proof.
  intros E. destruct (width_rule_consumed _ _ _ _ _ _ E) as (n & W & _ & O).
  exists n. split; [exact W|]. split; [|exact O].
  pose proof (assembler_agrees_width _ _ _ _ _ _ E) as W'. unfold type_of_id, resolve in *. congruence.
Qed.

(** ================================================================== *)
(** * K5  OpSwitch: the selector's type decides                         *)
(** ================================================================== *)

Theorem switch_literal_uses_selector G t k idx d rt rid sel acc :
  N.eqb k (gd_k_rt G) = false -> N.eqb k (gd_k_rid G) = false -> N.eqb k (gd_k_ctx G) = false ->
  N.eqb k (gd_k_pairlitid G) = true ->
  step_kind G t OP_SWITCH k idx d rt rid (OIdRef sel :: acc) =
    (do (o, d1) <- parse_literal t sel idx d;
     do (w, d2) <- dreq (word d1);
     Ok (rt, rid, (OIdRef sel :: acc) ++ [o; OIdRef w], d2)).
Proof. intros H1 H2 H3 H4. unfold step_kind. rewrite H1, H2, H3, H4. reflexivity. Qed.

Theorem switch_pair_consumed G t k idx d rt rid sel acc rt' rid' acc' d2 :
  N.eqb k (gd_k_rt G) = false -> N.eqb k (gd_k_rid G) = false -> N.eqb k (gd_k_ctx G) = false ->
  N.eqb k (gd_k_pairlitid G) = true ->
  step_kind G t OP_SWITCH k idx d rt rid (OIdRef sel :: acc) = Ok (rt', rid', acc', d2) ->
  exists o w d1 n,
    parse_literal t sel idx d = Ok (o, d1) /\ word d1 = (inl w, d2) /\
    acc' = (OIdRef sel :: acc) ++ [o; OIdRef w] /\ rt' = rt /\ rid' = rid /\
    width (resolve t sel) = Some n /\ length (asm_operand o) = n /\
    off d2 = off d + 4 * N.of_nat n + 4.
Proof.
  intros H1 H2 H3 H4. rewrite (switch_literal_uses_selector G t k idx d rt rid sel acc H1 H2 H3 H4).
  destruct (parse_literal t sel idx d) as [[o d1]|e|p] eqn:PL; cbn [bind]; try discriminate.
  unfold dreq. destruct (word d1) as [[w|e] dd] eqn:W; cbn [bind]; [|discriminate].
  intros H. inversion H; subst.
  destruct (width_rule_consumed _ _ _ _ _ _ PL) as (n & Wd & _ & O).
  destruct (word_ok _ _ _ W) as (b0 & b1 & b2 & b3 & _ & _ & O2 & _).
  exists o, w, d1, n. split; [reflexivity|]. split; [exact W|]. split; [reflexivity|].
  split; [reflexivity|]. split; [reflexivity|]. split; [exact Wd|]. split; [|lia].
  pose proof (assembler_agrees_width _ _ _ _ _ _ PL) as W'. congruence.
Qed.

(** the k_ctx branch (OpConstant / OpSpecConstant): the result type decides *)
Theorem constant_literal_uses_result_type G t opcode k idx d rt rid acc :
  N.eqb k (gd_k_rt G) = false -> N.eqb k (gd_k_rid G) = false -> N.eqb k (gd_k_ctx G) = true ->
  opcode = OP_CONSTANT \/ opcode = OP_SPEC_CONSTANT ->
  step_kind G t opcode k idx d (Some rt) rid acc =
    (do (o, d1) <- parse_literal t rt idx d; Ok (Some rt, rid, acc ++ [o], d1)).
Proof.
  intros H1 H2 H3 H4. unfold step_kind. rewrite H1, H2, H3.
  destruct H4 as [-> | ->]; reflexivity.
Qed.

(** propagation: the selector of a switch is usually the result of an
    ordinary instruction; its type is the one of that instruction's result
    type.  %1 = OpTypeInt 64 0 ; %5 = OpLoad %1 ... ; OpSwitch %5 ... *)
Definition G_min : gdata :=
  {| gd_table := []; gd_arms := []; gd_is_type := fun o => memN o [21; 22];
     gd_k_rt := 0; gd_k_rid := 1; gd_k_ctx := 2; gd_k_pairlitid := 3; gd_k_specop := 4 |}.

Example selector_type_propagates :
  let seen := [ {| i_opcode := 21; i_rtype := None; i_rid := Some 1; i_ops := [OLit32 64; OLit32 0] |};
                {| i_opcode := 61; i_rtype := Some 1; i_rid := Some 5; i_ops := [OIdRef 9] |} ] in
  type_of_id G_min seen 5 = Some (TInt 64 false) /\ width (type_of_id G_min seen 5) = Some 2%nat /\
  track_all G_min [] seen = Some (env_of G_min seen).
Proof. vm_compute. split; [|split]; reflexivity. Qed.

Theorem switch_width_is_spec G seen sel idx d :
  types_ok G -> forall t, track_all G [] seen = Some t ->
  parse_literal t sel idx d =
  match width (type_of_id G seen sel) with
  | None => Er (PTypeUnsupported (off d) idx)
  | Some 1%nat => lit32 d
  | Some _ => lit64 d
  end.
Proof.
  intros HG t H. destruct (track_is_spec G seen t HG H) as [-> _]. apply literal_width_is_spec.
Qed.

(** ================================================================== *)
(** * The "track" panic is unreachable from parse_inst                   *)
(** ================================================================== *)

(** a kind that is read as exactly one 32-bit literal operand *)
Definition lit_kind (G : gdata) (k : N) : bool :=
  negb (N.eqb k (gd_k_rt G)) && negb (N.eqb k (gd_k_rid G)) && negb (N.eqb k (gd_k_ctx G))
  && negb (N.eqb k (gd_k_pairlitid G)) && negb (N.eqb k (gd_k_specop G))
  && match nth_error (gd_arms G) (N.to_nat k) with
     | Some (ASimple [(RdWord, MkLit32)]) => true
     | _ => false
     end.

(** number of literal operands an instruction is guaranteed to carry: those
    among the leading operands with quantifier One *)
Fixpoint min_lits (G : gdata) (lops : list (N * quant)) : nat :=
  match lops with
  | (k, One) :: r => ((if lit_kind G k then 1 else 0) + min_lits G r)%nat
  | _ => O
  end.

Definition entry_ok (G : gdata) (g : entry) : bool :=
  if N.eqb (g_opcode g) OP_TYPE_INT then (2 <=? min_lits G (g_operands g))%nat
  else if N.eqb (g_opcode g) OP_TYPE_FLOAT then (1 <=? min_lits G (g_operands g))%nat
  else true.

Definition table_ok (G : gdata) : Prop := forallb (entry_ok G) (gd_table G) = true.

Lemma step_kind_mono G t opcode k idx d rt rid acc rt1 rid1 acc1 d1 :
  step_kind G t opcode k idx d rt rid acc = Ok (rt1, rid1, acc1, d1) ->
  (length acc <= length acc1)%nat.
Proof.
  unfold step_kind.
  destruct (N.eqb k (gd_k_rt G)).
  { destruct (dreq (word d)) as [[w d']|e|p]; cbn [bind]; intros H; inversion H; subst; lia. }
  destruct (N.eqb k (gd_k_rid G)).
  { destruct (dreq (word d)) as [[w d']|e|p]; cbn [bind]; intros H; inversion H; subst; lia. }
  destruct (N.eqb k (gd_k_ctx G)).
  { destruct (N.eqb opcode OP_CONSTANT || N.eqb opcode OP_SPEC_CONSTANT); [|discriminate].
    destruct rt as [id|]; [|discriminate].
    destruct (parse_literal t id idx d) as [[o d']|e|p]; cbn [bind]; intros H; inversion H; subst.
    rewrite app_length. lia. }
  destruct (N.eqb k (gd_k_pairlitid G)).
  { destruct (N.eqb opcode OP_SWITCH); [|discriminate].
    destruct acc as [|[] ?]; try discriminate.
    destruct (parse_literal t v idx d) as [[o d']|e|p]; cbn [bind]; try discriminate.
    destruct (dreq (word d')) as [[w d'']|e|p]; cbn [bind]; intros H; inversion H; subst.
    cbn [length]. rewrite app_length. lia. }
  destruct (N.eqb k (gd_k_specop G)).
  { destruct (parse_spec_constant_op G idx d) as [[os d']|e|p]; cbn [bind]; intros H; inversion H; subst.
    rewrite app_length. lia. }
  destruct (parse_operand G k d) as [[os d']|e|p]; cbn [bind]; intros H; inversion H; subst.
  rewrite app_length. lia.
Qed.

Lemma step_kind_lit G t opcode k idx d rt rid acc rt1 rid1 acc1 d1 :
  lit_kind G k = true ->
  step_kind G t opcode k idx d rt rid acc = Ok (rt1, rid1, acc1, d1) ->
  exists w, acc1 = acc ++ [OLit32 w].
Proof.
  unfold lit_kind, step_kind. intros L.
  repeat (apply andb_prop in L as [L ?]).
  repeat match goal with H : negb _ = true |- _ => apply negb_true_iff in H; rewrite H; clear H end.
  unfold parse_operand.
  destruct (nth_error (gd_arms G) (N.to_nat k)) as [[|ss|? ?]|]; try discriminate.
  destruct ss as [|[[| |] []] [|? ?]]; try discriminate.
  cbn [parse_slots read_slot make_operand].
  destruct (dreq (word d)) as [[w d']|e|p]; cbn [bind]; intros HH; inversion HH; subst.
  exists w. reflexivity.
Qed.

Lemma parse_lops_min_lits G t opcode idx : forall fuel lops d rt rid acc rt' rid' ops d',
  parse_lops G fuel t opcode lops idx d rt rid acc = Ok (rt', rid', ops, d') ->
  (length acc + min_lits G lops <= length ops)%nat.
Proof.
  induction fuel as [|f IH]; intros lops d rt rid acc rt' rid' ops d'; cbn [parse_lops]; [discriminate|].
  destruct lops as [|[k q] r].
  { intros H; inversion H; subst. cbn [min_lits]. lia. }
  destruct (limit_reached d).
  { destruct q; intros H; inversion H; subst; cbn [min_lits]; lia. }
  destruct (step_kind G t opcode k idx d rt rid acc) as [[[[rt1 rid1] acc1] d1]|e|p] eqn:SK;
    cbn [bind]; try discriminate.
  pose proof (step_kind_mono _ _ _ _ _ _ _ _ _ _ _ _ _ SK) as M.
  destruct q; intros H; apply IH in H; cbn [min_lits] in *; try lia.
  destruct (lit_kind G k) eqn:L; [|lia].
  destruct (step_kind_lit _ _ _ _ _ _ _ _ _ _ _ _ _ L SK) as [w ->].
  rewrite app_length in H. cbn [length] in *. lia.
Qed.

Lemma parse_inst_entry G t idx d i d1 :
  parse_inst G t idx d = Ok (i, d1) ->
  exists g, In g (gd_table G) /\ i_opcode i = g_opcode g /\
            (min_lits G (g_operands g) <= length (i_ops i))%nat.
Proof.
  unfold parse_inst. destruct (word d) as [[w|e] dw]; [|discriminate].
  destruct (N.eqb ((w / 65536) mod 65536) 0); [discriminate|].
  destruct (lookup_core (gd_table G) (w mod 65536)) as [g|] eqn:LC; [|discriminate].
  destruct (parse_lops G _ t (g_opcode g) (g_operands g) idx _ None None [])
    as [[[[rt rid] ops] d3]|e|p] eqn:PL; cbn [bind]; try discriminate.
  destruct (limit_reached d3); [|discriminate].
  intros H. inversion H; subst. cbn [i_opcode i_ops].
  exists g. split; [|split; [reflexivity|]].
  - unfold lookup_core in LC. apply find_some in LC. tauto.
  - apply parse_lops_min_lits in PL. cbn [length] in PL. lia.
Qed.

(** every instruction parse_inst returns is accepted by [track]: the loop's
    "track" panic (index out of bounds in tracker.rs) is unreachable *)
Theorem parsed_inst_tracks G t idx d i d1 t' :
  table_ok G -> parse_inst G t idx d = Ok (i, d1) -> exists t1, track G t' i = Some t1.
Proof.
  intros HT PI. destruct (parse_inst_entry _ _ _ _ _ _ PI) as (g & Hin & Ho & Hl).
  unfold table_ok in HT. rewrite forallb_forall in HT. specialize (HT g Hin). unfold entry_ok in HT.
  destruct (track G t' i) as [t1|] eqn:T; [exists t1; reflexivity|]. exfalso.
  revert T. apply track_total; intros E; rewrite Ho in E; rewrite E in HT.
  - change (N.eqb OP_TYPE_INT OP_TYPE_INT) with true in HT. cbv iota in HT.
    apply Nat.leb_le in HT. lia.
  - change (N.eqb OP_TYPE_FLOAT OP_TYPE_INT) with false in HT.
    change (N.eqb OP_TYPE_FLOAT OP_TYPE_FLOAT) with true in HT. cbv iota in HT.
    apply Nat.leb_le in HT. lia.
Qed.

(** ================================================================== *)
(** * The linked grammar of this run satisfies the side conditions      *)
(** ================================================================== *)
From RV Require Inst.Linked.

Theorem linked_types_ok : types_ok Linked.G.
Proof. split; vm_compute; reflexivity. Qed.

Theorem linked_table_ok : table_ok Linked.G.
Proof. unfold table_ok. vm_compute. reflexivity. Qed.

(** the special kinds are pairwise distinct, so the k_pairlitid / k_ctx
    branches of step_kind are reached exactly for those kinds *)
Theorem linked_special_kinds_distinct :
  let G := Linked.G in
  N.eqb (gd_k_pairlitid G) (gd_k_rt G) = false /\ N.eqb (gd_k_pairlitid G) (gd_k_rid G) = false /\
  N.eqb (gd_k_pairlitid G) (gd_k_ctx G) = false /\
  N.eqb (gd_k_ctx G) (gd_k_rt G) = false /\ N.eqb (gd_k_ctx G) (gd_k_rid G) = false.
Proof. vm_compute. repeat split. Qed.

Corollary linked_track_is_spec seen t :
  track_all Linked.G [] seen = Some t ->
  t = env_of Linked.G seen /\ forall id, resolve t id = type_of_id Linked.G seen id.
Proof. apply track_is_spec. exact linked_types_ok. Qed.

Corollary linked_parsed_inst_tracks t idx d i d1 t' :
  parse_inst Linked.G t idx d = Ok (i, d1) -> exists t1, track Linked.G t' i = Some t1.
Proof. apply parsed_inst_tracks. exact linked_table_ok. Qed.

Corollary linked_switch_literal t idx d rt rid sel acc :
  step_kind Linked.G t OP_SWITCH (gd_k_pairlitid Linked.G) idx d rt rid (OIdRef sel :: acc) =
    (do (o, d1) <- parse_literal t sel idx d;
     do (w, d2) <- dreq (word d1);
     Ok (rt, rid, (OIdRef sel :: acc) ++ [o; OIdRef w], d2)).
Proof.
  destruct linked_special_kinds_distinct as (H1 & H2 & H3 & _).
  apply switch_literal_uses_selector; try assumption. apply N.eqb_refl.
Qed.

Corollary linked_depends_only_on_current_parse {S} (C : consumer S) bytes s0 s' l r :
  parse Linked.G (logC C) bytes (s0, []) = ((s', l), r) ->
  forall k i, nth_error l k = Some i ->
    exists dk dk', parse_inst Linked.G (env_of Linked.G (firstn k l)) (N.of_nat k + 1) dk = Ok (i, dk').
Proof. apply depends_only_on_current_parse. exact linked_types_ok. Qed.

Print Assumptions track_is_spec.
Print Assumptions track_none_iff.
Print Assumptions track_total.
Print Assumptions width_rule_unsupported.
Print Assumptions width_rule_1.
Print Assumptions width_rule_2.
Print Assumptions width_rule_consumed.
Print Assumptions assembler_agrees.
Print Assumptions asm_lit64_words.
Print Assumptions asm_lit64_roundtrip.
Print Assumptions parse_inst_ext.
Print Assumptions parse_starts_empty.
Print Assumptions parse_loop_delivers.
Print Assumptions parse_delivers.
Print Assumptions depends_only_on_current_parse.
Print Assumptions literal_width_consumed.
Print Assumptions switch_literal_uses_selector.
Print Assumptions switch_pair_consumed.
Print Assumptions switch_width_is_spec.
Print Assumptions parsed_inst_tracks.
Print Assumptions linked_types_ok.
Print Assumptions linked_table_ok.
Print Assumptions linked_track_is_spec.
Print Assumptions linked_parsed_inst_tracks.
Print Assumptions linked_switch_literal.
Print Assumptions linked_depends_only_on_current_parse.
