(** Loading files every instruction exactly once, in layout order.

    Everything here is about [spec_load] of Spec/Layout.v (the loader as the
    layout specification prescribes it) applied to a classified instruction
    sequence [tis : list (token * inst)].

      A1 nothing_dropped_or_invented   (Permutation, given <= 1 memory model)
      A2 relative_order_preserved      (every container is a subsequence)
      A3 layout_ordered_identity       (layout-ordered input is reproduced)
      A4 reload_idempotent             (loading the traversal again is a no-op)
*)
From RV Require Import Model.Base Model.Spirv Model.Grammar Model.Reflect Model.Module Model.Inst Model.Parser Model.Loader.
From RV Require Import Spec.Layout.
From RV Require Import Gen.TraverseData Inst.C15_inst Inst.Run.
From Coq Require Import Permutation.

Local Arguments b_label {I}. Local Arguments b_insts {I}.
Local Arguments f_def {I}. Local Arguments f_end {I}. Local Arguments f_params {I}. Local Arguments f_blocks {I}.
Local Arguments m_caps {I}. Local Arguments m_exts {I}. Local Arguments m_imports {I}.
Local Arguments m_memory_model {I}. Local Arguments m_entry_points {I}. Local Arguments m_exec_modes {I}.
Local Arguments m_debug_string_source {I}. Local Arguments m_debug_names {I}.
Local Arguments m_debug_module_processed {I}. Local Arguments m_annotations {I}.
Local Arguments m_types_global_values {I}. Local Arguments m_functions {I}.

(** * The instruction sequence of a module, in traversal order *)
Definition block_insts (b : block inst) : list inst := olist (b_label b) ++ b_insts b.
Definition func_insts (f : func inst) : list inst :=
  olist (f_def f) ++ f_params f ++ flat_map block_insts (f_blocks f) ++ olist (f_end f).
Definition all_insts (m : module inst) : list inst :=
  m_caps m ++ m_exts m ++ m_imports m ++ olist (m_memory_model m) ++ m_entry_points m
  ++ m_exec_modes m ++ m_debug_string_source m ++ m_debug_names m
  ++ m_debug_module_processed m ++ m_annotations m ++ m_types_global_values m
  ++ flat_map func_insts (m_functions m).

Lemma all_insts_is_spec_all m : all_insts m = spec_all m.
Proof.
  unfold all_insts, spec_all, spec_global. rewrite <- !app_assoc.
  repeat (apply (f_equal2 (@app inst)); [reflexivity|]).
  apply flat_map_ext. intros f. reflexivity.
Qed.

(** the translated [Module::all_inst_iter] / [Module::assemble_into] of this run *)
Theorem all_insts_is_traversal m :
  all_insts m = eval c15_fuel defs (VMod m) (TCall "all_inst_iter")
  /\ all_insts m = eval c15_fuel defs (VMod m) (TCall "assemble_into").
Proof.
  rewrite module_all_iter, module_assemble, all_insts_is_spec_all. split; reflexivity.
Qed.

(** [Run.assemble_module]: the header, then every instruction of [all_insts] *)
Theorem assemble_module_is_all_insts h m :
  assemble_module h m
  = match h with Some hd => asm_header hd | None => [] end ++ flat_map asm_inst (all_insts m).
Proof. unfold assemble_module. rewrite module_assemble, all_insts_is_spec_all. reflexivity. Qed.

Theorem assemble_body_is_all_insts (hd : list N) m :
  hd ++ flat_map asm_inst (eval c15_fuel defs (VMod m) (TCall "assemble_into"))
  = hd ++ flat_map asm_inst (all_insts m).
Proof. rewrite module_assemble, all_insts_is_spec_all. reflexivity. Qed.

(** instructions held by the still-open function / block *)
Definition pending_fn (fo : option (func inst)) : list inst :=
  match fo with
  | Some f => olist (f_def f) ++ f_params f ++ flat_map block_insts (f_blocks f)
  | None => []
  end.
Definition pending_blk (bo : option (block inst)) : list inst :=
  match bo with Some b => block_insts b | None => [] end.
Definition pending (s : lstate) : list inst := pending_fn (l_function s) ++ pending_blk (l_block s).

(** the 12 top-level containers by index (3 = memory model, 11 = functions) *)
Definition sec_insts (m : module inst) (k : N) : list inst :=
  match k with
  | 0 => m_caps m | 1 => m_exts m | 2 => m_imports m | 3 => olist (m_memory_model m)
  | 4 => m_entry_points m | 5 => m_exec_modes m | 6 => m_debug_string_source m
  | 7 => m_debug_names m | 8 => m_debug_module_processed m | 9 => m_annotations m
  | 10 => m_types_global_values m | 11 => flat_map func_insts (m_functions m)
  | _ => []
  end.
Definition keys : list N := [0; 1; 2; 3; 4; 5; 6; 7; 8; 9; 10; 11].

Lemma all_insts_keys m : all_insts m = flat_map (sec_insts m) keys.
Proof.
  unfold all_insts, keys. cbn [flat_map sec_insts]. rewrite app_nil_r. reflexivity.
Qed.

(** * The transition relation of [spec_consume] *)
Notation mk := Build_lstate.

Definition push_tok (t : token) (k : N) (fo : option (func inst)) (bo : option (block inst)) : Prop :=
  t = TModule k \/ (t = TLine /\ bo = None /\ k = 10) \/ (t = TVarUndef /\ fo = None /\ k = 10).
Definition blk_tok (t : token) (fo : option (func inst)) : Prop :=
  t = TLine \/ t = TBlockInst \/ (t = TVarUndef /\ fo <> None).

Definition blk_push (b : block inst) (i : inst) : block inst :=
  {| b_label := b_label b; b_insts := b_insts b ++ [i] |}.
Definition fn_new (i : inst) : func inst :=
  {| f_def := Some i; f_end := None; f_params := []; f_blocks := [] |}.
Definition fn_close (f : func inst) (i : inst) : func inst :=
  {| f_def := f_def f; f_end := Some i; f_params := f_params f; f_blocks := f_blocks f |}.
Definition fn_param (f : func inst) (i : inst) : func inst :=
  {| f_def := f_def f; f_end := f_end f; f_params := f_params f ++ [i]; f_blocks := f_blocks f |}.
Definition fn_block (f : func inst) (b : block inst) : func inst :=
  {| f_def := f_def f; f_end := f_end f; f_params := f_params f; f_blocks := f_blocks f ++ [b] |}.
Definition blk_new (i : inst) : block inst := {| b_label := Some i; b_insts := [] |}.

Inductive step : lstate -> token -> inst -> lstate -> Prop :=
| S_push m h fo bo t k i m' :
    push_tok t k fo bo -> push_section m k i = Some m' -> step (mk m h fo bo) t i (mk m' h fo bo)
| S_mm m h fo bo i :
    step (mk m h fo bo) TMemoryModel i (mk (set_memory_model m i) h fo bo)
| S_blk m h fo b t i :
    blk_tok t fo -> step (mk m h fo (Some b)) t i (mk m h fo (Some (blk_push b i)))
| S_openfn m h bo i :
    step (mk m h None bo) TFunction i (mk m h (Some (fn_new i)) bo)
| S_closefn m h f i :
    step (mk m h (Some f) None) TFunctionEnd i (mk (push_function m (fn_close f i)) h None None)
| S_param m h f bo i :
    step (mk m h (Some f) bo) TParameter i (mk m h (Some (fn_param f i)) bo)
| S_openblk m h f i :
    step (mk m h (Some f) None) TLabel i (mk m h (Some f) (Some (blk_new i)))
| S_closeblk m h f b i :
    step (mk m h (Some f) (Some b)) TTerminator i (mk m h (Some (fn_block f (blk_push b i))) None).

Ltac consume_red H :=
  unfold spec_consume in H;
  cbn [spec_arm fn_is_none l_function l_block l_module l_header first_failed cond_holds act with_module] in H.

Lemma consume_step s t i s1 : spec_consume s t i = LCont s1 -> step s t i s1.
Proof.
  intros H. destruct s as [m h fo bo].
  destruct t; destruct fo as [f|]; destruct bo as [b|]; consume_red H; try discriminate H;
    try (destruct (push_section m _ i) as [m'|] eqn:E; [|discriminate H]);
    injection H as <-.
  all: try (eapply S_push; [|eassumption]; unfold push_tok; tauto).
  all: try apply S_mm.
  all: try (apply (S_blk m h _ b); unfold blk_tok; intuition congruence).
  - apply S_openfn.
  - apply S_openfn.
  - apply S_closefn.
  - apply S_param.
  - apply S_param.
  - apply S_openblk.
  - apply S_closeblk.
Qed.

Lemma step_consume s t i s1 : step s t i s1 -> spec_consume s t i = LCont s1.
Proof.
  intros H. destruct H as [m h fo bo t k i m' Ht Hp| m h fo bo i | m h fo b t i Ht | m h bo i | m h f i | m h f bo i | m h f i | m h f b i].
  - destruct fo, bo; destruct Ht as [->|[(-> & Hb & ->)|(-> & Hf & ->)]]; try discriminate;
      unfold spec_consume; cbn [spec_arm fn_is_none l_function l_block l_module l_header first_failed cond_holds act with_module];
      rewrite Hp; reflexivity.
  - reflexivity.
  - destruct Ht as [->|[->|(-> & Hf)]]; destruct fo; try congruence; reflexivity.
  - destruct bo; reflexivity.
  - reflexivity.
  - destruct bo; reflexivity.
  - reflexivity.
  - reflexivity.
Qed.

(** * Feeding *)
Lemma spec_feed_app s a b :
  spec_feed s (a ++ b) = match spec_feed s a with LCont s1 => spec_feed s1 b | other => other end.
Proof.
  revert s. induction a as [|[t i] r IH]; intros s; cbn [app spec_feed]; [reflexivity|].
  destruct (spec_consume s t i) as [s1| |]; [apply IH|reflexivity|reflexivity].
Qed.

(** an invariant of the transition relation holds after feeding *)
Lemma feed_invariant (Inv : lstate -> list (token * inst) -> Prop) :
  Inv linit [] ->
  (forall s fed t i s1, Inv s fed -> step s t i s1 -> Inv s1 (fed ++ [(t, i)])) ->
  forall tis s, spec_feed linit tis = LCont s -> Inv s tis.
Proof.
  intros H0 Hstep tis. induction tis as [|[t i] fed IH] using rev_ind; intros s H.
  - cbn [spec_feed] in H. injection H as <-. exact H0.
  - rewrite spec_feed_app in H. destruct (spec_feed linit fed) as [s0| |] eqn:E; try discriminate H.
    cbn [spec_feed] in H. destruct (spec_consume s0 t i) as [s1| |] eqn:E1; try discriminate H.
    injection H as <-. eapply Hstep; [apply IH; reflexivity|apply consume_step; exact E1].
Qed.

Lemma spec_load_feed tis s :
  spec_load tis = LCont s -> spec_feed linit tis = LCont s /\ l_function s = None /\ l_block s = None.
Proof.
  unfold spec_load. destruct (spec_feed linit tis) as [s0| |]; try discriminate.
  destruct s0 as [m h [f|] [b|]]; cbn; intros H; try discriminate H; injection H as <-; auto.
Qed.

(** * [push_section] *)
Ltac destruct_N j := destruct j as [|j]; [|do 4 (try destruct j as [j|j|])].

Lemma push_section_spec m k i m' :
  push_section m k i = Some m' ->
  k <= 10 /\ k <> 3 /\ sec_insts m' k = sec_insts m k ++ [i]
  /\ (forall j, j <> k -> sec_insts m' j = sec_insts m j)
  /\ m_functions m' = m_functions m /\ m_memory_model m' = m_memory_model m.
Proof.
  intros H. destruct_N k; cbn in H; try discriminate H; injection H as <-.
  all: split; [lia|split; [lia|split; [reflexivity|split; [|split; reflexivity]]]].
  all: intros j Hj; destruct_N j; try reflexivity; exfalso; apply Hj; reflexivity.
Qed.

Lemma push_section_some m k i : k <= 10 -> k <> 3 -> exists m', push_section m k i = Some m'.
Proof.
  intros H1 H2. destruct_N k; try lia; cbn; eexists; reflexivity.
Qed.

(** update of one container, generically *)
Definition sec_upd (m m' : module inst) (k : N) (xs : list inst) : Prop :=
  sec_insts m' k = sec_insts m k ++ xs /\ forall j, j <> k -> sec_insts m' j = sec_insts m j.

Lemma sec_upd_push m k i m' : push_section m k i = Some m' -> sec_upd m m' k [i].
Proof. intros H. apply push_section_spec in H. split; apply H. Qed.

Lemma sec_upd_mm m i : m_memory_model m = None -> sec_upd m (set_memory_model m i) 3 [i].
Proof.
  intros H. split.
  - cbn. rewrite H. reflexivity.
  - intros j Hj. destruct_N j; try reflexivity. exfalso; apply Hj; reflexivity.
Qed.

Lemma sec_upd_fn m f : sec_upd m (push_function m f) 11 (func_insts f).
Proof.
  split.
  - cbn. rewrite flat_map_app. cbn. rewrite app_nil_r. reflexivity.
  - intros j Hj. destruct_N j; try reflexivity. exfalso; apply Hj; reflexivity.
Qed.

Lemma keys_nodup : NoDup keys.
Proof. apply nodupN_NoDup. vm_compute. reflexivity. Qed.

Lemma flat_map_ext_in' {A B} (f g : A -> list B) l :
  (forall x, In x l -> f x = g x) -> flat_map f l = flat_map g l.
Proof.
  induction l as [|a r IH]; intros H; cbn [flat_map]; [reflexivity|].
  rewrite (H a (or_introl eq_refl)), IH; [reflexivity|]. intros x Hx. apply H. right. exact Hx.
Qed.

Lemma flat_map_upd_perm (g g' : N -> list inst) k xs ks :
  NoDup ks -> In k ks -> g' k = g k ++ xs -> (forall j, j <> k -> g' j = g j) ->
  Permutation (flat_map g' ks) (flat_map g ks ++ xs).
Proof.
  intros Hnd Hin Hk Hj. induction ks as [|a r IH]; [destruct Hin|].
  inversion Hnd as [|? ? Hna Hnd']; subst. cbn [flat_map].
  destruct (N.eq_dec a k) as [->|Hne].
  - rewrite Hk. assert (E : flat_map g' r = flat_map g r).
    { apply flat_map_ext_in'. intros j Hjr. apply Hj. intros ->. exact (Hna Hjr). }
    rewrite E, <- !app_assoc. apply Permutation_app_head. apply Permutation_app_comm.
  - destruct Hin as [->|Hin]; [congruence|]. rewrite (Hj a Hne), <- app_assoc.
    apply Permutation_app_head. apply IH; assumption.
Qed.

Lemma all_insts_upd_perm m m' k xs :
  In k keys -> sec_upd m m' k xs -> Permutation (all_insts m') (all_insts m ++ xs).
Proof.
  intros Hin [H1 H2]. rewrite !all_insts_keys.
  apply flat_map_upd_perm with (k := k); auto using keys_nodup.
Qed.

(** * A1: nothing dropped, nothing invented *)
Definition is_mm (t : token) : bool := match t with TMemoryModel => true | _ => false end.
Definition mm_count (ts : list token) : nat := length (filter is_mm ts).
Definition at_most_one_mm (ts : list token) : Prop := (mm_count ts <= 1)%nat.

Definition all_of (s : lstate) : list inst := all_insts (l_module s) ++ pending s.

Lemma perm_hd {A} (a l r : list A) i : Permutation l (i :: r) -> Permutation (a ++ l) (i :: a ++ r).
Proof.
  intros H. eapply Permutation_trans; [apply Permutation_app_head; exact H|].
  apply Permutation_sym. apply Permutation_middle.
Qed.
Lemma perm_skip_i {A} (y i : A) l r : Permutation l (i :: r) -> Permutation (y :: l) (i :: y :: r).
Proof. intros H. eapply Permutation_trans; [apply perm_skip; exact H|apply perm_swap]. Qed.
Lemma perm_both {A} (L R r1 r2 : list A) i :
  Permutation L (i :: r1) -> Permutation R (i :: r2) -> r1 = r2 -> Permutation L R.
Proof. intros H1 H2 <-. eapply Permutation_trans; [exact H1|apply Permutation_sym; exact H2]. Qed.

Ltac pull i :=
  lazymatch goal with
  | |- Permutation (i :: _) _ => apply Permutation_refl
  | |- Permutation (_ :: _) _ => eapply perm_skip_i; pull i
  | |- Permutation (_ ++ _) _ => eapply perm_hd; pull i
  end.
Ltac norm_app := rewrite ?flat_map_app; cbn [flat_map b_label b_insts olist]; rewrite ?app_nil_r; rewrite <- ?app_assoc; cbn [app].
Ltac perm_i i :=
  norm_app; eapply (perm_both _ _ _ _ i); [pull i|pull i|norm_app; reflexivity].

Ltac unfold_state :=
  unfold all_of, pending, pending_fn, pending_blk, block_insts, blk_push, fn_new, fn_close, fn_param, fn_block, blk_new;
  cbn [l_module l_function l_block l_header b_label b_insts f_def f_end f_params f_blocks olist].

Lemma all_insts_push_function m f : all_insts (push_function m f) = all_insts m ++ func_insts f.
Proof.
  unfold all_insts, push_function; cbn [m_caps m_exts m_imports m_memory_model m_entry_points m_exec_modes
    m_debug_string_source m_debug_names m_debug_module_processed m_annotations m_types_global_values m_functions].
  rewrite flat_map_app. cbn [flat_map]. rewrite app_nil_r, <- !app_assoc. reflexivity.
Qed.

Lemma step_perm s t i s1 :
  step s t i s1 -> (t = TMemoryModel -> m_memory_model (l_module s) = None) ->
  Permutation (all_of s1) (all_of s ++ [i]).
Proof.
  intros H Hmm.
  destruct H as [m h fo bo t k i m' Ht Hp| m h fo bo i | m h fo b t i Ht | m h bo i | m h f i | m h f bo i | m h f i | m h f b i].
  - assert (Hk : In k keys).
    { apply push_section_spec in Hp. destruct Hp as (H1 & _). apply memN_In.
      destruct_N k; try reflexivity; lia. }
    pose proof (all_insts_upd_perm _ _ _ _ Hk (sec_upd_push _ _ _ _ Hp)) as P.
    unfold all_of; cbn [l_module]. set (p := pending _).
    eapply Permutation_trans; [apply Permutation_app_tail; exact P|]. perm_i i.
  - specialize (Hmm eq_refl). cbn [l_module] in Hmm.
    pose proof (all_insts_upd_perm _ _ 3 _ ltac:(cbn; tauto) (sec_upd_mm m i Hmm)) as P.
    unfold all_of; cbn [l_module]. set (p := pending _).
    eapply Permutation_trans; [apply Permutation_app_tail; exact P|]. perm_i i.
  - unfold_state. perm_i i.
  - unfold_state. perm_i i.
  - unfold_state. rewrite all_insts_push_function. unfold func_insts, fn_close; cbn [f_def f_end f_params f_blocks olist].
    perm_i i.
  - unfold_state. perm_i i.
  - unfold_state. perm_i i.
  - unfold_state. unfold block_insts; cbn [b_label b_insts]. perm_i i.
Qed.

Lemma mm_count_app a b : mm_count (a ++ b) = (mm_count a + mm_count b)%nat.
Proof. unfold mm_count. rewrite filter_app, app_length. reflexivity. Qed.

Lemma step_mm_none s t i s1 :
  step s t i s1 -> t <> TMemoryModel -> m_memory_model (l_module s1) = m_memory_model (l_module s).
Proof.
  intros H Ht.
  destruct H as [m h fo bo t k i m' Ht' Hp| m h fo bo i | m h fo b t i Ht' | m h bo i | m h f i | m h f bo i | m h f i | m h f b i];
    try reflexivity; try congruence.
  apply push_section_spec in Hp. cbn [l_module]. apply Hp.
Qed.

Definition inv1 (s : lstate) (fed : list (token * inst)) : Prop :=
  (mm_count (map fst fed) = 0%nat -> m_memory_model (l_module s) = None)
  /\ (at_most_one_mm (map fst fed) -> Permutation (all_of s) (map snd fed)).

Lemma inv1_holds tis s : spec_feed linit tis = LCont s -> inv1 s tis.
Proof.
  apply feed_invariant.
  - split; intros _; [reflexivity|]. apply Permutation_refl.
  - intros s0 fed t i s1 [I1 I2] Hstep. unfold inv1, at_most_one_mm.
    rewrite !map_app, mm_count_app. cbn [map fst snd]. split.
    + intros Hc. destruct (token_eqb t TMemoryModel) eqn:E.
      * destruct t; try discriminate E. cbn in Hc. lia.
      * rewrite (step_mm_none _ _ _ _ Hstep); [apply I1; lia|]. intros ->. discriminate E.
    + intros Hc. eapply Permutation_trans.
      * apply (step_perm _ _ _ _ Hstep). intros ->. apply I1. cbn in Hc. lia.
      * apply Permutation_app_tail. apply I2. unfold at_most_one_mm. lia.
Qed.

(** the invariant along feeding: what is filed plus what is pending is what was fed *)
Theorem feed_nothing_dropped_or_invented tis s :
  spec_feed linit tis = LCont s -> at_most_one_mm (map fst tis) ->
  Permutation (all_insts (l_module s) ++ pending s) (map snd tis).
Proof. intros H Hc. apply (inv1_holds _ _ H). exact Hc. Qed.

Theorem nothing_dropped_or_invented tis s :
  spec_load tis = LCont s -> at_most_one_mm (map fst tis) ->
  Permutation (all_insts (l_module s)) (map snd tis).
Proof.
  intros H Hc. apply spec_load_feed in H. destruct H as (H & Hf & Hb).
  pose proof (feed_nothing_dropped_or_invented _ _ H Hc) as P.
  unfold pending in P. rewrite Hf, Hb in P. cbn [pending_fn pending_blk app] in P.
  rewrite app_nil_r in P. exact P.
Qed.

(** the hypothesis is necessary: of two OpMemoryModel instructions the first is lost *)
Definition ex_inst (opc n : N) : inst := {| i_opcode := opc; i_rtype := None; i_rid := None; i_ops := [OLit32 n] |}.

Example two_memory_models_lose_the_first :
  exists s, spec_load [(TMemoryModel, ex_inst 14 1); (TMemoryModel, ex_inst 14 2)] = LCont s
            /\ all_insts (l_module s) = [ex_inst 14 2].
Proof. eexists. split; vm_compute; reflexivity. Qed.

Example two_memory_models_not_a_permutation :
  exists s, spec_load [(TMemoryModel, ex_inst 14 1); (TMemoryModel, ex_inst 14 2)] = LCont s
            /\ ~ Permutation (all_insts (l_module s)) [ex_inst 14 1; ex_inst 14 2].
Proof.
  eexists. split; [vm_compute; reflexivity|]. intros P. apply Permutation_length in P. discriminate P.
Qed.

(** * A3: a layout-ordered instruction sequence is reproduced exactly *)
From Coq Require Import Sorted.

(** the section rank of a token, given whether a function is open: a TModule
    token has the rank of its section and TMemoryModel rank 3 wherever they
    occur (see [module_token_inside_function_is_hoisted] at the end); OpLine /
    OpVariable / OpUndef have rank 10 outside functions; everything else, and
    everything else between TFunction and TFunctionEnd, has rank 11 *)
Definition rank (fn : bool) (t : token) : N :=
  match t with
  | TModule sec => sec
  | TMemoryModel => 3
  | TLine | TVarUndef => if fn then 11 else 10
  | _ => 11
  end.
Definition fn_after (fn : bool) (t : token) : bool :=
  match t with TFunction => true | TFunctionEnd => false | _ => fn end.
Definition blk_after (blk : bool) (t : token) : bool :=
  match t with TLabel => true | TTerminator => false | _ => blk end.
Definition lbl_after (lbl : bool) (t : token) : bool :=
  match t with TFunction => false | TLabel => true | _ => lbl end.

Fixpoint ranks (fn : bool) (ts : list token) : list N :=
  match ts with [] => [] | t :: r => rank fn t :: ranks (fn_after fn t) r end.

Fixpoint nondecreasing (l : list N) : Prop :=
  match l with
  | a :: ((b :: _) as r) => a <= b /\ nondecreasing r
  | _ => True
  end.

Definition is_line (t : token) : bool := match t with TLine => true | _ => false end.
Definition is_param (t : token) : bool := match t with TParameter => true | _ => false end.

(** no TLine inside a function but outside a block *)
Fixpoint no_stray_line (fn blk : bool) (ts : list token) : bool :=
  match ts with
  | [] => true
  | t :: r => negb (is_line t && fn && negb blk) && no_stray_line (fn_after fn t) (blk_after blk t) r
  end.

(** no TParameter after a TLabel of the same function *)
Fixpoint params_first (lbl : bool) (ts : list token) : bool :=
  match ts with
  | [] => true
  | t :: r => negb (is_param t && lbl) && params_first (lbl_after lbl t) r
  end.

Definition layout_ordered (ts : list token) : Prop :=
  nondecreasing (ranks false ts)
  /\ no_stray_line false false ts = true
  /\ at_most_one_mm ts
  /\ params_first false ts = true.

Lemma flat_map_nil {A B} (g : A -> list B) l : (forall x, In x l -> g x = []) -> flat_map g l = [].
Proof.
  induction l as [|a r IH]; intros H; cbn [flat_map]; [reflexivity|].
  rewrite (H a (or_introl eq_refl)), IH; [reflexivity|]. intros x Hx. apply H. right. exact Hx.
Qed.

Lemma flat_map_upd_eq (g g' : N -> list inst) k xs ks :
  StronglySorted N.lt ks -> In k ks -> g' k = g k ++ xs -> (forall j, j <> k -> g' j = g j) ->
  (forall j, k < j -> g j = []) ->
  flat_map g' ks = flat_map g ks ++ xs.
Proof.
  intros Hs Hin Hk Hj He. induction ks as [|a r IH]; [destruct Hin|].
  inversion Hs as [|? ? Hs' Hall]; subst. cbn [flat_map].
  destruct (N.eq_dec a k) as [->|Hne].
  - rewrite Forall_forall in Hall.
    assert (E : flat_map g r = []).
    { apply flat_map_nil. intros j Hjr. apply He. apply Hall. exact Hjr. }
    assert (E' : flat_map g' r = []).
    { apply flat_map_nil. intros j Hjr. pose proof (Hall j Hjr) as Hlt. rewrite Hj; [apply He; exact Hlt|lia]. }
    rewrite E, E', Hk, !app_nil_r. reflexivity.
  - destruct Hin as [->|Hin]; [congruence|]. rewrite (Hj a Hne), <- app_assoc.
    apply f_equal. apply IH; assumption.
Qed.

Lemma keys_sorted : StronglySorted N.lt keys.
Proof. unfold keys. repeat (constructor; try lia). Qed.

Lemma in_keys k : k <= 11 -> In k keys.
Proof. intros H. apply memN_In. destruct_N k; try reflexivity; lia. Qed.

Lemma sec_insts_gt11 m k : 11 < k -> sec_insts m k = [].
Proof. intros H. destruct_N k; try reflexivity; lia. Qed.

Lemma all_insts_upd_eq m m' k xs :
  k <= 11 -> sec_upd m m' k xs -> (forall j, k < j -> sec_insts m j = []) ->
  all_insts m' = all_insts m ++ xs.
Proof.
  intros Hk [H1 H2] He. rewrite !all_insts_keys.
  apply flat_map_upd_eq with (k := k); auto using keys_sorted, in_keys.
Qed.

Definition is_some {A} (o : option A) : bool := match o with Some _ => true | None => false end.

(** agreement between the scan flags and the loader state *)
Definition agree (s : lstate) (fn blk lbl : bool) (r : N) : Prop :=
  fn = is_some (l_function s) /\ blk = is_some (l_block s) /\ (fn = false -> blk = false)
  /\ (lbl = false -> blk = false /\ forall f, l_function s = Some f -> f_blocks f = [])
  /\ (forall k, r < k -> sec_insts (l_module s) k = [])
  /\ (fn = true -> 11 <= r).

Lemma step_identity s t i s1 fn blk lbl r :
  agree s fn blk lbl r -> step s t i s1 ->
  r <= rank fn t ->
  negb (is_line t && fn && negb blk) = true ->
  negb (is_param t && lbl) = true ->
  (t = TMemoryModel -> m_memory_model (l_module s) = None) ->
  agree s1 (fn_after fn t) (blk_after blk t) (lbl_after lbl t) (rank fn t)
  /\ all_of s1 = all_of s ++ [i].
Proof.
  intros (Afn & Ablk & Afb & Albl & Atail & Ar) H Hr Hline Hpar Hmm.
  destruct H as [m h fo bo t k i m' Ht Hp| m h fo bo i | m h fo b t i Ht | m h bo i | m h f i | m h f bo i | m h f i | m h f b i];
    cbn [l_function l_block l_module is_some] in *.
  - (* push into a global section *)
    pose proof (push_section_spec _ _ _ _ Hp) as (Hk10 & Hk3 & Hsk & Hsj & Hfns & Hmmk).
    assert (Hfn : fn = false /\ rank fn t = k /\ fn_after fn t = fn /\ blk_after blk t = blk /\ lbl_after lbl t = lbl).
    { destruct Ht as [->|[(-> & -> & ->)|(-> & -> & ->)]]; cbn [rank fn_after blk_after lbl_after].
      - destruct fn; [|tauto]. specialize (Ar eq_refl). cbn [rank] in Hr. lia.
      - cbn [is_some] in Ablk. subst blk. destruct fn; [discriminate Hline|tauto].
      - cbn [is_some] in Afn. subst fn. tauto. }
    destruct Hfn as (Hfn & Hrk & -> & -> & ->). rewrite Hrk in *. clear Hrk.
    assert (Hblk : blk = false) by auto.
    destruct fo; [subst fn; discriminate Hfn|]. destruct bo; [subst blk; discriminate Hblk|].
    split.
    + repeat (split; [assumption|]). split; [|intros ->; discriminate Hfn].
      intros j Hj. rewrite Hsj by lia. apply Atail. lia.
    + unfold all_of, pending; cbn [l_module l_function l_block pending_fn pending_blk app].
      rewrite !app_nil_r. apply (all_insts_upd_eq m m' k); [lia|split; assumption|].
      intros j Hj. apply Atail. lia.
  - (* memory model *)
    cbn [rank fn_after blk_after lbl_after] in *.
    assert (Hfn : fn = false) by (destruct fn; [specialize (Ar eq_refl); lia|reflexivity]).
    assert (Hblk : blk = false) by auto.
    destruct fo; [subst fn; discriminate Hfn|]. destruct bo; [subst blk; discriminate Hblk|].
    specialize (Hmm eq_refl). pose proof (sec_upd_mm m i Hmm) as [Hs3 Hsj].
    split.
    + repeat (split; [assumption|]). split; [|intros ->; discriminate Hfn].
      intros j Hj. rewrite Hsj by lia. apply Atail. lia.
    + unfold all_of, pending; cbn [l_module l_function l_block pending_fn pending_blk app].
      rewrite !app_nil_r. apply (all_insts_upd_eq m _ 3); [lia|split; assumption|].
      intros j Hj. apply Atail. lia.
  - (* push into the open block *)
    assert (Hfn : fn = true) by (destruct fn; [reflexivity|specialize (Afb eq_refl); congruence]).
    assert (Hflags : rank fn t = 11 /\ fn_after fn t = fn /\ blk_after blk t = blk /\ lbl_after lbl t = lbl).
    { rewrite Hfn. destruct Ht as [->|[->|(-> & _)]]; cbn; tauto. }
    destruct Hflags as (-> & -> & -> & ->). split.
    + repeat (split; [assumption|]). split; [|intros _; lia].
      intros j Hj. apply sec_insts_gt11. exact Hj.
    + unfold_state. norm_app. reflexivity.
  - (* open a function *)
    cbn [rank fn_after blk_after lbl_after] in *.
    assert (Hblk : blk = false) by auto. destruct bo; [subst blk; discriminate Hblk|].
    split.
    + split; [reflexivity|]. split; [assumption|]. split; [auto|]. split.
      * intros _. split; [assumption|]. intros f Hf. injection Hf as <-. reflexivity.
      * split; [|intros _; lia]. intros j Hj. apply sec_insts_gt11. exact Hj.
    + unfold_state. norm_app. reflexivity.
  - (* close the function *)
    cbn [rank fn_after blk_after lbl_after] in *. split.
    + split; [reflexivity|]. split; [assumption|]. split; [auto|]. split.
      * intros _. split; [assumption|]. intros f0 Hf0. discriminate Hf0.
      * split; [|intros Hx; discriminate Hx]. intros j Hj. apply sec_insts_gt11. exact Hj.
    + unfold_state. rewrite all_insts_push_function. unfold func_insts, fn_close; cbn [f_def f_end f_params f_blocks olist].
      norm_app. reflexivity.
  - (* parameter *)
    cbn [rank fn_after blk_after lbl_after is_param andb] in *.
    assert (Hlbl : lbl = false) by (destruct lbl; [discriminate Hpar|reflexivity]).
    destruct (Albl Hlbl) as (Hblk & Hbls). specialize (Hbls f eq_refl).
    destruct bo; [subst blk; discriminate Hblk|].
    split.
    + repeat (split; [assumption|]). split.
      * intros _. split; [assumption|]. intros f0 Hf0. injection Hf0 as <-. exact Hbls.
      * split; [|intros _; lia]. intros j Hj. apply sec_insts_gt11. exact Hj.
    + unfold_state. rewrite Hbls. norm_app. reflexivity.
  - (* open a block *)
    cbn [rank fn_after blk_after lbl_after] in *. split.
    + split; [assumption|]. split; [reflexivity|]. split; [intros Hx; subst fn; discriminate Hx|]. split.
      * intros Hx; discriminate Hx.
      * split; [|intros _; lia]. intros j Hj. apply sec_insts_gt11. exact Hj.
    + unfold_state. norm_app. reflexivity.
  - (* close the block *)
    cbn [rank fn_after blk_after lbl_after] in *. split.
    + split; [assumption|]. split; [reflexivity|]. split; [auto|]. split.
      * intros Hx. destruct (Albl Hx) as (Hy & _). subst blk. discriminate Hy.
      * split; [|intros _; lia]. intros j Hj. apply sec_insts_gt11. exact Hj.
    + unfold_state. norm_app. reflexivity.
Qed.

Lemma mm_count_cons t ts : mm_count (t :: ts) = ((if is_mm t then 1 else 0) + mm_count ts)%nat.
Proof. unfold mm_count. cbn [filter]. destruct (is_mm t); reflexivity. Qed.

Lemma step_mm_some s i s1 : step s TMemoryModel i s1 -> m_memory_model (l_module s1) = Some i.
Proof.
  intros H. inversion H as [m h fo bo t k i0 m' Ht Hp| | m h fo b t i0 Ht | | | | | ]; subst.
  - destruct Ht as [Ht|[(Ht & _)|(Ht & _)]]; discriminate Ht.
  - reflexivity.
  - destruct Ht as [Ht|[Ht|(Ht & _)]]; discriminate Ht.
Qed.

Lemma feed_identity tis : forall s s' fn blk lbl r,
  agree s fn blk lbl r -> spec_feed s tis = LCont s' ->
  nondecreasing (r :: ranks fn (map fst tis)) ->
  no_stray_line fn blk (map fst tis) = true ->
  params_first lbl (map fst tis) = true ->
  (length (olist (m_memory_model (l_module s))) + mm_count (map fst tis) <= 1)%nat ->
  all_of s' = all_of s ++ map snd tis.
Proof.
  induction tis as [|[t i] rest IH]; intros s s' fn blk lbl r Hag Hfeed Hnd Hline Hpar Hmm.
  - cbn [spec_feed] in Hfeed. injection Hfeed as <-. cbn [map]. rewrite app_nil_r. reflexivity.
  - cbn [spec_feed] in Hfeed. destruct (spec_consume s t i) as [s1| |] eqn:E; try discriminate Hfeed.
    apply consume_step in E.
    cbn [map fst snd ranks no_stray_line params_first] in *.
    change (r <= rank fn t /\ nondecreasing (rank fn t :: ranks (fn_after fn t) (map fst rest))) in Hnd.
    destruct Hnd as (Hr & Hnd).
    apply andb_prop in Hline as (Hl1 & Hl2). apply andb_prop in Hpar as (Hp1 & Hp2).
    rewrite mm_count_cons in Hmm.
    assert (Hmm0 : t = TMemoryModel -> m_memory_model (l_module s) = None).
    { intros ->. cbn [is_mm] in Hmm. destruct (m_memory_model (l_module s)); [cbn in Hmm; lia|reflexivity]. }
    destruct (step_identity _ _ _ _ _ _ _ _ Hag E Hr Hl1 Hp1 Hmm0) as (Hag1 & Heq).
    rewrite (IH _ _ _ _ _ _ Hag1 Hfeed Hnd Hl2 Hp2).
    + rewrite Heq, <- app_assoc. reflexivity.
    + destruct (token_eqb t TMemoryModel) eqn:Et.
      * destruct t; try discriminate Et. cbn [is_mm] in Hmm.
        rewrite (step_mm_some _ _ _ E). cbn [olist length]. lia.
      * rewrite (step_mm_none _ _ _ _ E); [|intros ->; discriminate Et].
        destruct t; try discriminate Et; cbn [is_mm] in Hmm; lia.
Qed.

Lemma nondecreasing_cons0 l : nondecreasing l -> nondecreasing (0 :: l).
Proof. intros H. destruct l as [|a l]; [exact I|]. split; [lia|exact H]. Qed.

Lemma agree_init : agree linit false false false 0.
Proof.
  unfold agree, linit; cbn [l_function l_block l_module is_some].
  split; [reflexivity|]. split; [reflexivity|]. split; [auto|]. split.
  - intros _. split; [reflexivity|]. intros f Hf. discriminate Hf.
  - split; [|intros Hx; discriminate Hx]. intros k _. destruct_N k; reflexivity.
Qed.

(** along feeding: filed ++ pending is exactly what was fed *)
Theorem feed_layout_ordered_identity tis s :
  spec_feed linit tis = LCont s -> layout_ordered (map fst tis) ->
  all_insts (l_module s) ++ pending s = map snd tis.
Proof.
  intros H (Hnd & Hline & Hmm & Hpar).
  apply (feed_identity tis linit s false false false 0 agree_init H (nondecreasing_cons0 _ Hnd) Hline Hpar).
  cbn. exact Hmm.
Qed.

Theorem layout_ordered_identity tis s :
  spec_load tis = LCont s -> layout_ordered (map fst tis) -> all_insts (l_module s) = map snd tis.
Proof.
  intros H Hlo. apply spec_load_feed in H. destruct H as (H & Hf & Hb).
  pose proof (feed_layout_ordered_identity _ _ H Hlo) as P.
  unfold pending in P. rewrite Hf, Hb in P. cbn [pending_fn pending_blk app] in P.
  rewrite app_nil_r in P. exact P.
Qed.

(** each of the four side conditions is necessary: in every example the load
    succeeds, the three other conditions hold, and the sequence is not
    reproduced *)
Example ranks_necessary :
  let tis := [(TModule 1, ex_inst 10 1); (TModule 0, ex_inst 17 2)] in
  exists s, spec_load tis = LCont s
    /\ no_stray_line false false (map fst tis) = true /\ at_most_one_mm (map fst tis)
    /\ params_first false (map fst tis) = true
    /\ all_insts (l_module s) = [ex_inst 17 2; ex_inst 10 1] /\ all_insts (l_module s) <> map snd tis.
Proof.
  eexists. split; [vm_compute; reflexivity|]. split; [reflexivity|]. split; [vm_compute; lia|].
  split; [reflexivity|]. split; [reflexivity|]. intros H. discriminate H.
Qed.

Example no_stray_line_necessary :
  let tis := [(TFunction, ex_inst 54 1); (TLine, ex_inst 8 2); (TFunctionEnd, ex_inst 56 3)] in
  exists s, spec_load tis = LCont s
    /\ nondecreasing (ranks false (map fst tis)) /\ at_most_one_mm (map fst tis)
    /\ params_first false (map fst tis) = true
    /\ all_insts (l_module s) = [ex_inst 8 2; ex_inst 54 1; ex_inst 56 3] /\ all_insts (l_module s) <> map snd tis.
Proof.
  eexists. split; [vm_compute; reflexivity|]. split; [cbn; lia|]. split; [vm_compute; lia|].
  split; [reflexivity|]. split; [reflexivity|]. intros H. discriminate H.
Qed.

Example one_memory_model_necessary :
  let tis := [(TMemoryModel, ex_inst 14 1); (TMemoryModel, ex_inst 14 2)] in
  exists s, spec_load tis = LCont s
    /\ nondecreasing (ranks false (map fst tis)) /\ no_stray_line false false (map fst tis) = true
    /\ params_first false (map fst tis) = true
    /\ all_insts (l_module s) = [ex_inst 14 2] /\ all_insts (l_module s) <> map snd tis.
Proof.
  eexists. split; [vm_compute; reflexivity|]. split; [cbn; lia|]. split; [reflexivity|].
  split; [reflexivity|]. split; [reflexivity|]. intros H. discriminate H.
Qed.

Example params_first_necessary :
  let tis := [(TFunction, ex_inst 54 1); (TLabel, ex_inst 248 2); (TTerminator, ex_inst 253 3);
              (TParameter, ex_inst 55 4); (TFunctionEnd, ex_inst 56 5)] in
  exists s, spec_load tis = LCont s
    /\ nondecreasing (ranks false (map fst tis)) /\ no_stray_line false false (map fst tis) = true
    /\ at_most_one_mm (map fst tis)
    /\ all_insts (l_module s) = [ex_inst 54 1; ex_inst 55 4; ex_inst 248 2; ex_inst 253 3; ex_inst 56 5]
    /\ all_insts (l_module s) <> map snd tis.
Proof.
  eexists. split; [vm_compute; reflexivity|]. split; [cbn; lia|]. split; [reflexivity|].
  split; [vm_compute; lia|]. split; [reflexivity|]. intros H. discriminate H.
Qed.

(** * A2: relative order is preserved inside every container *)
Inductive subseq {A} : list A -> list A -> Prop :=
| ss_nil : subseq [] []
| ss_skip x l1 l2 : subseq l1 l2 -> subseq l1 (x :: l2)
| ss_take x l1 l2 : subseq l1 l2 -> subseq (x :: l1) (x :: l2).

Lemma subseq_nil_l {A} (l : list A) : subseq [] l.
Proof. induction l; constructor; assumption. Qed.
Lemma subseq_refl {A} (l : list A) : subseq l l.
Proof. induction l; constructor; assumption. Qed.
Lemma subseq_app {A} (a b c d : list A) : subseq a b -> subseq c d -> subseq (a ++ c) (b ++ d).
Proof. intros H1 H2. induction H1; cbn [app]; try constructor; assumption. Qed.
Lemma subseq_snoc_skip {A} (a F : list A) i : subseq a F -> subseq a (F ++ [i]).
Proof. intros H. rewrite <- (app_nil_r a). apply subseq_app; [exact H|apply subseq_nil_l]. Qed.
Lemma subseq_snoc_take {A} (a F : list A) i : subseq a F -> subseq (a ++ [i]) (F ++ [i]).
Proof. intros H. apply subseq_app; [exact H|apply subseq_refl]. Qed.

Definition good_fn (F : list inst) (f : func inst) : Prop :=
  subseq (olist (f_def f) ++ f_params f) F /\ forall b, In b (f_blocks f) -> subseq (block_insts b) F.

Definition inv2a (s : lstate) (F : list inst) : Prop :=
  (forall k, k <= 10 -> subseq (sec_insts (l_module s) k) F)
  /\ (forall f, In f (m_functions (l_module s)) -> good_fn F f)
  /\ (forall f, l_function s = Some f -> good_fn F f)
  /\ (forall b, l_block s = Some b -> subseq (block_insts b) F).

Lemma good_fn_mono F f i : good_fn F f -> good_fn (F ++ [i]) f.
Proof. intros [H1 H2]. split; [apply subseq_snoc_skip; exact H1|]. intros b Hb. apply subseq_snoc_skip. auto. Qed.

Lemma inv2a_mono s F i : inv2a s F -> inv2a s (F ++ [i]).
Proof.
  intros (A & B & C & D). split; [|split; [|split]].
  - intros k Hk. apply subseq_snoc_skip. auto.
  - intros f Hf. apply good_fn_mono. auto.
  - intros f Hf. apply good_fn_mono. auto.
  - intros b Hb. apply subseq_snoc_skip. auto.
Qed.

Lemma sec_insts_set_mm m i j : sec_insts (set_memory_model m i) j = if N.eqb j 3 then [i] else sec_insts m j.
Proof. destruct_N j; reflexivity. Qed.

Lemma inv2a_step s t i s1 F : inv2a s F -> step s t i s1 -> inv2a s1 (F ++ [i]).
Proof.
  intros I0 H. pose proof (inv2a_mono s F i I0) as I1.
  destruct I0 as (A0 & B0 & C0 & D0). destruct I1 as (A & B & C & D).
  destruct H as [m h fo bo t k i m' Ht Hp| m h fo bo i | m h fo b t i Ht | m h bo i | m h f i | m h f bo i | m h f i | m h f b i];
    unfold inv2a; cbn [l_function l_block l_module] in *.
  - pose proof (push_section_spec _ _ _ _ Hp) as (Hk10 & Hk3 & Hsk & Hsj & Hfns & Hmmk).
    split; [|split; [|split]]; try assumption.
    + intros j Hj. destruct (N.eq_dec j k) as [->|Hne].
      * rewrite Hsk. apply subseq_snoc_take. auto.
      * rewrite Hsj by exact Hne. auto.
    + rewrite Hfns. exact B.
  - split; [|split; [|split]]; try assumption.
    intros j Hj. rewrite sec_insts_set_mm. destruct (N.eqb j 3); [|auto].
    apply (subseq_snoc_take [] F i). apply subseq_nil_l.
  - split; [|split; [|split]]; try assumption.
    intros b0 Hb0. injection Hb0 as <-. unfold block_insts, blk_push; cbn [b_label b_insts].
    rewrite app_assoc. apply subseq_snoc_take. apply (D0 b eq_refl).
  - split; [|split; [|split]]; try assumption.
    intros f Hf. injection Hf as <-. split.
    + cbn. apply (subseq_snoc_take [] F i). apply subseq_nil_l.
    + intros b Hb. destruct Hb.
  - destruct (C f eq_refl) as (Cf1 & Cf2).
    split; [|split; [|split]]; try discriminate.
    + intros j Hj. destruct (sec_upd_fn m (fn_close f i)) as (_ & Hsj). rewrite Hsj by lia. auto.
    + intros f0 Hf0. cbn [push_function m_functions] in Hf0. apply in_app_or in Hf0.
      destruct Hf0 as [Hf0|[<-|[]]]; [auto|]. split; assumption.
  - destruct (C0 f eq_refl) as (Cf1 & Cf2). destruct (C f eq_refl) as (_ & Cf2').
    split; [|split; [|split]]; try assumption.
    intros f0 Hf0. injection Hf0 as <-. split.
    + unfold fn_param; cbn [f_def f_params]. rewrite app_assoc. apply subseq_snoc_take. exact Cf1.
    + exact Cf2'.
  - split; [|split; [|split]]; try assumption.
    intros b Hb. injection Hb as <-. cbn. apply (subseq_snoc_take [] F i). apply subseq_nil_l.
  - destruct (C f eq_refl) as (Cf1 & Cf2).
    split; [|split; [|split]]; try assumption; try discriminate.
    intros f0 Hf0. injection Hf0 as <-. split; [exact Cf1|].
    intros b0 Hb0. cbn [fn_block f_blocks] in Hb0. apply in_app_or in Hb0.
    destruct Hb0 as [Hb0|[<-|[]]]; [auto|].
    unfold block_insts, blk_push; cbn [b_label b_insts].
    rewrite app_assoc. apply subseq_snoc_take. apply (D0 b eq_refl).
Qed.

Lemma inv2a_holds tis s : spec_feed linit tis = LCont s -> inv2a s (map snd tis).
Proof.
  apply (feed_invariant (fun s fed => inv2a s (map snd fed))).
  - split; [|split; [|split]].
    + intros k _. destruct_N k; apply subseq_nil_l.
    + intros f [].
    + intros f Hf; discriminate Hf.
    + intros b Hb; discriminate Hb.
  - intros s0 fed t i s1 I0 Hstep. rewrite map_app. cbn [map snd]. eapply inv2a_step; eassumption.
Qed.

(** order of functions and blocks *)
Definition fn_defs (fs : list (func inst)) : list inst := flat_map (fun f => olist (f_def f)) fs.
Definition blk_labels (bs : list (block inst)) : list inst := flat_map (fun b => olist (b_label b)) bs.
Definition fn_labels (fs : list (func inst)) : list inst := flat_map (fun f => blk_labels (f_blocks f)) fs.
(** the instructions carrying token [t0], in input order *)
Definition insts_of (t0 : token) (tis : list (token * inst)) : list inst :=
  map snd (filter (fun ti => token_eqb (fst ti) t0) tis).

Definition open_defs (s : lstate) : list inst :=
  fn_defs (m_functions (l_module s)) ++ match l_function s with Some f => olist (f_def f) | None => [] end.
Definition open_labels (s : lstate) : list inst :=
  fn_labels (m_functions (l_module s))
  ++ match l_function s with Some f => blk_labels (f_blocks f) | None => [] end
  ++ match l_block s with Some b => olist (b_label b) | None => [] end.

Lemma inv2b_step s t i s1 :
  step s t i s1 ->
  open_defs s1 = open_defs s ++ (if token_eqb t TFunction then [i] else [])
  /\ open_labels s1 = open_labels s ++ (if token_eqb t TLabel then [i] else []).
Proof.
  intros H.
  destruct H as [m h fo bo t k i m' Ht Hp| m h fo bo i | m h fo b t i Ht | m h bo i | m h f i | m h f bo i | m h f i | m h f b i];
    unfold open_defs, open_labels, fn_defs, fn_labels, blk_labels;
    cbn [l_function l_block l_module token_eqb push_function set_memory_model m_functions
         fn_new fn_close fn_param fn_block blk_new blk_push f_def f_blocks b_label olist].
  - pose proof (push_section_spec _ _ _ _ Hp) as (_ & _ & _ & _ & -> & _).
    destruct Ht as [->|[(-> & _)|(-> & _)]]; cbn [token_eqb]; rewrite !app_nil_r; split; reflexivity.
  - rewrite !app_nil_r; split; reflexivity.
  - destruct Ht as [->|[->|(-> & _)]]; cbn [token_eqb]; rewrite !app_nil_r; split; reflexivity.
  - norm_app. split; reflexivity.
  - norm_app. split; reflexivity.
  - norm_app. split; reflexivity.
  - norm_app. split; reflexivity.
  - norm_app. split; reflexivity.
Qed.

Lemma insts_of_snoc t0 fed t i :
  insts_of t0 (fed ++ [(t, i)]) = insts_of t0 fed ++ (if token_eqb t t0 then [i] else []).
Proof.
  unfold insts_of. rewrite filter_app, map_app. cbn [filter fst]. destruct (token_eqb t t0); reflexivity.
Qed.

Lemma inv2b_holds tis s :
  spec_feed linit tis = LCont s ->
  open_defs s = insts_of TFunction tis /\ open_labels s = insts_of TLabel tis.
Proof.
  apply (feed_invariant (fun s fed => open_defs s = insts_of TFunction fed /\ open_labels s = insts_of TLabel fed)).
  - split; reflexivity.
  - intros s0 fed t i s1 [I1 I2] Hstep. rewrite !insts_of_snoc, <- I1, <- I2. apply inv2b_step. exact Hstep.
Qed.

(** A2.  After a successful load, with F the input instruction sequence:
    every global section (index 0..10, 3 being the memory model) is a
    subsequence of F; so are every function's def ++ parameters and every
    block's label ++ instructions; the function definitions are exactly the
    TFunction instructions in input order, the block labels (functions in
    order, blocks in order inside each) exactly the TLabel instructions. *)
Theorem relative_order_preserved tis s :
  spec_load tis = LCont s ->
  let m := l_module s in let F := map snd tis in
  (forall k, k <= 10 -> subseq (sec_insts m k) F)
  /\ (forall f, In f (m_functions m) -> subseq (olist (f_def f) ++ f_params f) F)
  /\ (forall f b, In f (m_functions m) -> In b (f_blocks f) -> subseq (block_insts b) F)
  /\ fn_defs (m_functions m) = insts_of TFunction tis
  /\ fn_labels (m_functions m) = insts_of TLabel tis.
Proof.
  intros H m F. apply spec_load_feed in H. destruct H as (H & Hf & Hb).
  destruct (inv2a_holds _ _ H) as (A & B & _ & _). destruct (inv2b_holds _ _ H) as (D & E).
  unfold open_defs, open_labels in D, E. rewrite Hf in D, E. rewrite Hb in E. rewrite !app_nil_r in D, E.
  split; [exact A|]. split; [intros f Hfn; apply (B f Hfn)|]. split; [intros f b Hfn Hbn; apply (B f Hfn); exact Hbn|].
  split; assumption.
Qed.

(** the eleven section lists spelled out *)
Corollary sections_are_subsequences tis s :
  spec_load tis = LCont s ->
  let m := l_module s in let F := map snd tis in
  subseq (m_caps m) F /\ subseq (m_exts m) F /\ subseq (m_imports m) F
  /\ subseq (olist (m_memory_model m)) F /\ subseq (m_entry_points m) F /\ subseq (m_exec_modes m) F
  /\ subseq (m_debug_string_source m) F /\ subseq (m_debug_names m) F
  /\ subseq (m_debug_module_processed m) F /\ subseq (m_annotations m) F
  /\ subseq (m_types_global_values m) F.
Proof.
  intros H m F. destruct (relative_order_preserved _ _ H) as (A & _). fold m F in A.
  split; [apply (A 0); lia|]. split; [apply (A 1); lia|]. split; [apply (A 2); lia|].
  split; [apply (A 3); lia|]. split; [apply (A 4); lia|]. split; [apply (A 5); lia|].
  split; [apply (A 6); lia|]. split; [apply (A 7); lia|]. split; [apply (A 8); lia|].
  split; [apply (A 9); lia|]. apply (A 10); lia.
Qed.

(** * A4: loading the traversal of a loaded module again gives the same module *)

(** closed form of repeatedly pushing into section [k] *)
Definition app_section (m : module inst) (k : N) (xs : list inst) : module inst :=
  match k with
  | 0 => {| m_caps := m_caps m ++ xs; m_exts := m_exts m; m_imports := m_imports m; m_memory_model := m_memory_model m; m_entry_points := m_entry_points m; m_exec_modes := m_exec_modes m; m_debug_string_source := m_debug_string_source m; m_debug_names := m_debug_names m; m_debug_module_processed := m_debug_module_processed m; m_annotations := m_annotations m; m_types_global_values := m_types_global_values m; m_functions := m_functions m |}
  | 1 => {| m_caps := m_caps m; m_exts := m_exts m ++ xs; m_imports := m_imports m; m_memory_model := m_memory_model m; m_entry_points := m_entry_points m; m_exec_modes := m_exec_modes m; m_debug_string_source := m_debug_string_source m; m_debug_names := m_debug_names m; m_debug_module_processed := m_debug_module_processed m; m_annotations := m_annotations m; m_types_global_values := m_types_global_values m; m_functions := m_functions m |}
  | 2 => {| m_caps := m_caps m; m_exts := m_exts m; m_imports := m_imports m ++ xs; m_memory_model := m_memory_model m; m_entry_points := m_entry_points m; m_exec_modes := m_exec_modes m; m_debug_string_source := m_debug_string_source m; m_debug_names := m_debug_names m; m_debug_module_processed := m_debug_module_processed m; m_annotations := m_annotations m; m_types_global_values := m_types_global_values m; m_functions := m_functions m |}
  | 4 => {| m_caps := m_caps m; m_exts := m_exts m; m_imports := m_imports m; m_memory_model := m_memory_model m; m_entry_points := m_entry_points m ++ xs; m_exec_modes := m_exec_modes m; m_debug_string_source := m_debug_string_source m; m_debug_names := m_debug_names m; m_debug_module_processed := m_debug_module_processed m; m_annotations := m_annotations m; m_types_global_values := m_types_global_values m; m_functions := m_functions m |}
  | 5 => {| m_caps := m_caps m; m_exts := m_exts m; m_imports := m_imports m; m_memory_model := m_memory_model m; m_entry_points := m_entry_points m; m_exec_modes := m_exec_modes m ++ xs; m_debug_string_source := m_debug_string_source m; m_debug_names := m_debug_names m; m_debug_module_processed := m_debug_module_processed m; m_annotations := m_annotations m; m_types_global_values := m_types_global_values m; m_functions := m_functions m |}
  | 6 => {| m_caps := m_caps m; m_exts := m_exts m; m_imports := m_imports m; m_memory_model := m_memory_model m; m_entry_points := m_entry_points m; m_exec_modes := m_exec_modes m; m_debug_string_source := m_debug_string_source m ++ xs; m_debug_names := m_debug_names m; m_debug_module_processed := m_debug_module_processed m; m_annotations := m_annotations m; m_types_global_values := m_types_global_values m; m_functions := m_functions m |}
  | 7 => {| m_caps := m_caps m; m_exts := m_exts m; m_imports := m_imports m; m_memory_model := m_memory_model m; m_entry_points := m_entry_points m; m_exec_modes := m_exec_modes m; m_debug_string_source := m_debug_string_source m; m_debug_names := m_debug_names m ++ xs; m_debug_module_processed := m_debug_module_processed m; m_annotations := m_annotations m; m_types_global_values := m_types_global_values m; m_functions := m_functions m |}
  | 8 => {| m_caps := m_caps m; m_exts := m_exts m; m_imports := m_imports m; m_memory_model := m_memory_model m; m_entry_points := m_entry_points m; m_exec_modes := m_exec_modes m; m_debug_string_source := m_debug_string_source m; m_debug_names := m_debug_names m; m_debug_module_processed := m_debug_module_processed m ++ xs; m_annotations := m_annotations m; m_types_global_values := m_types_global_values m; m_functions := m_functions m |}
  | 9 => {| m_caps := m_caps m; m_exts := m_exts m; m_imports := m_imports m; m_memory_model := m_memory_model m; m_entry_points := m_entry_points m; m_exec_modes := m_exec_modes m; m_debug_string_source := m_debug_string_source m; m_debug_names := m_debug_names m; m_debug_module_processed := m_debug_module_processed m; m_annotations := m_annotations m ++ xs; m_types_global_values := m_types_global_values m; m_functions := m_functions m |}
  | 10 => {| m_caps := m_caps m; m_exts := m_exts m; m_imports := m_imports m; m_memory_model := m_memory_model m; m_entry_points := m_entry_points m; m_exec_modes := m_exec_modes m; m_debug_string_source := m_debug_string_source m; m_debug_names := m_debug_names m; m_debug_module_processed := m_debug_module_processed m; m_annotations := m_annotations m; m_types_global_values := m_types_global_values m ++ xs; m_functions := m_functions m |}
  | _ => m
  end.

Ltac mfields := cbn [m_caps m_exts m_imports m_memory_model m_entry_points m_exec_modes
    m_debug_string_source m_debug_names m_debug_module_processed m_annotations m_types_global_values m_functions].

Ltac mfields_all := cbn [m_caps m_exts m_imports m_memory_model m_entry_points m_exec_modes
    m_debug_string_source m_debug_names m_debug_module_processed m_annotations m_types_global_values m_functions] in *.

Lemma push_app_section m k x : k <= 10 -> k <> 3 -> push_section m k x = Some (app_section m k [x]).
Proof. intros H1 H2. destruct_N k; try lia; reflexivity. Qed.

Lemma app_section_app m k a b : app_section (app_section m k a) k b = app_section m k (a ++ b).
Proof. destruct_N k; try reflexivity; cbn [app_section]; mfields; rewrite <- app_assoc; reflexivity. Qed.

Definition add_fns (m : module inst) (fs : list (func inst)) : module inst :=
  {| m_caps := m_caps m; m_exts := m_exts m; m_imports := m_imports m;
     m_memory_model := m_memory_model m; m_entry_points := m_entry_points m;
     m_exec_modes := m_exec_modes m; m_debug_string_source := m_debug_string_source m;
     m_debug_names := m_debug_names m; m_debug_module_processed := m_debug_module_processed m;
     m_annotations := m_annotations m; m_types_global_values := m_types_global_values m;
     m_functions := m_functions m ++ fs |}.
Definition add_params (f : func inst) (ps : list inst) : func inst :=
  {| f_def := f_def f; f_end := f_end f; f_params := f_params f ++ ps; f_blocks := f_blocks f |}.
Definition add_blocks (f : func inst) (bs : list (block inst)) : func inst :=
  {| f_def := f_def f; f_end := f_end f; f_params := f_params f; f_blocks := f_blocks f ++ bs |}.
Definition add_body (b : block inst) (xs : list inst) : block inst :=
  {| b_label := b_label b; b_insts := b_insts b ++ xs |}.

Section Reload.
Variable class_of : inst -> token.

Definition tag (is : list inst) : list (token * inst) := map (fun i => (class_of i, i)) is.

Lemma tag_app a b : tag (a ++ b) = tag a ++ tag b.
Proof. apply map_app. Qed.
Lemma map_snd_tag is : map snd (tag is) = is.
Proof. unfold tag. rewrite map_map. cbn [snd]. apply map_id. Qed.
Lemma map_fst_tag is : map fst (tag is) = map class_of is.
Proof. unfold tag. rewrite map_map. reflexivity. Qed.

(** ** shape facts: where an instruction sits determines its class *)
Definition wc_sec (k : N) (x : inst) : Prop :=
  class_of x = TModule k \/ (k = 10 /\ (class_of x = TLine \/ class_of x = TVarUndef)).
Definition body_class (x : inst) : Prop :=
  class_of x = TLine \/ class_of x = TBlockInst \/ class_of x = TVarUndef.
Definition wc_open_blk (b : block inst) : Prop :=
  (exists l, b_label b = Some l /\ class_of l = TLabel) /\ Forall body_class (b_insts b).
Definition wc_block (b : block inst) : Prop :=
  exists l body term, b_label b = Some l /\ class_of l = TLabel
    /\ b_insts b = body ++ [term] /\ Forall body_class body /\ class_of term = TTerminator.
Definition wc_open_fn (f : func inst) : Prop :=
  (exists d, f_def f = Some d /\ class_of d = TFunction)
  /\ Forall (fun p => class_of p = TParameter) (f_params f)
  /\ Forall wc_block (f_blocks f).
Definition wc_fn (f : func inst) : Prop :=
  wc_open_fn f /\ exists e, f_end f = Some e /\ class_of e = TFunctionEnd.
Definition wc_module (m : module inst) : Prop :=
  (forall k, k <= 10 -> k <> 3 -> Forall (wc_sec k) (sec_insts m k))
  /\ Forall (fun x => class_of x = TMemoryModel) (olist (m_memory_model m))
  /\ Forall wc_fn (m_functions m).
Definition wc_state (s : lstate) : Prop :=
  wc_module (l_module s)
  /\ (forall f, l_function s = Some f -> wc_open_fn f)
  /\ (forall b, l_block s = Some b -> wc_open_blk b)
  /\ (l_function s = None -> l_block s = None)
  /\ l_header s = None.

Lemma Forall_snoc {A} (P : A -> Prop) l x : Forall P l -> P x -> Forall P (l ++ [x]).
Proof. intros H1 H2. apply Forall_app. split; [exact H1|]. constructor; [exact H2|constructor]. Qed.

Lemma wc_step s i s1 : wc_state s -> step s (class_of i) i s1 -> wc_state s1.
Proof.
  intros ((Wsec & Wmm & Wfns) & Wf & Wb & Wfb & Wh) H.
  remember (class_of i) as t eqn:Et.
  destruct H as [m h fo bo t k i m' Ht Hp| m h fo bo i | m h fo b t i Ht | m h bo i | m h f i | m h f bo i | m h f i | m h f b i];
    unfold wc_state, wc_module; cbn [l_function l_block l_module l_header] in *.
  - pose proof (push_section_spec _ _ _ _ Hp) as (Hk10 & Hk3 & Hsk & Hsj & Hfns & Hmmk).
    assert (Hw : wc_sec k i).
    { unfold wc_sec. rewrite <- Et. destruct Ht as [->|[(-> & _ & ->)|(-> & _ & ->)]]; tauto. }
    split; [split; [|split]|tauto].
    + intros j Hj Hj3. destruct (N.eq_dec j k) as [->|Hne].
      * rewrite Hsk. apply Forall_snoc; auto.
      * rewrite Hsj by exact Hne. auto.
    + rewrite Hmmk. exact Wmm.
    + rewrite Hfns. exact Wfns.
  - split; [split; [|split]|tauto].
    + intros j Hj Hj3. rewrite sec_insts_set_mm. destruct (N.eqb j 3) eqn:E; [lia|auto].
    + cbn. constructor; [congruence|constructor].
    + exact Wfns.
  - split; [split; [|split]; assumption|]. split; [assumption|]. split; [|split; [intros ->; discriminate (Wfb eq_refl)|assumption]].
    intros b0 Hb0. injection Hb0 as <-. destruct (Wb b eq_refl) as (Wl & Wi). split; [exact Wl|].
    cbn [blk_push b_insts]. apply Forall_snoc; [exact Wi|].
    unfold body_class. rewrite <- Et. destruct Ht as [->|[->|(-> & _)]]; tauto.
  - split; [split; [|split]; assumption|]. split; [|split; [assumption|split; [discriminate|assumption]]].
    intros f Hf. injection Hf as <-. split; [exists i; split; [reflexivity|congruence]|]. split; constructor.
  - destruct (Wf f eq_refl) as (Wd & Wp & Wbs).
    split; [split; [|split]|]; [| |cbn; apply Forall_snoc|split; [discriminate|split; [discriminate|split; [reflexivity|assumption]]]]; try assumption.
    + intros j Hj Hj3. destruct (sec_upd_fn m (fn_close f i)) as (_ & Hsj). rewrite Hsj by lia. auto.
    + split; [split; [|split]; assumption|]. exists i. split; [reflexivity|congruence].
  - destruct (Wf f eq_refl) as (Wd & Wp & Wbs).
    split; [split; [|split]; assumption|]. split; [|split; [assumption|split; [discriminate|assumption]]].
    intros f0 Hf0. injection Hf0 as <-. split; [exact Wd|]. split; [|exact Wbs].
    cbn. apply Forall_snoc; [exact Wp|congruence].
  - split; [split; [|split]; assumption|]. split; [assumption|]. split; [|split; [discriminate|assumption]].
    intros b Hb. injection Hb as <-. split; [exists i; split; [reflexivity|congruence]|]. constructor.
  - destruct (Wf f eq_refl) as (Wd & Wp & Wbs). destruct (Wb b eq_refl) as ((l & Hl & Hcl) & Wi).
    split; [split; [|split]; assumption|]. split; [|split; [discriminate|split; [discriminate|assumption]]].
    intros f0 Hf0. injection Hf0 as <-. split; [exact Wd|]. split; [exact Wp|].
    cbn. apply Forall_snoc; [exact Wbs|]. exists l, (b_insts b), i. cbn. repeat split; try assumption. congruence.
Qed.

Lemma wc_holds is s : spec_feed linit (tag is) = LCont s -> wc_state s.
Proof.
  intros H.
  assert (G : Forall (fun ti => fst ti = class_of (snd ti)) (tag is) -> wc_state s).
  { revert H. apply (feed_invariant (fun s fed => Forall (fun ti => fst ti = class_of (snd ti)) fed -> wc_state s)).
    - intros _. split; [split; [|split]|].
      + intros k _ _. destruct_N k; constructor.
      + constructor.
      + constructor.
      + split; [discriminate|]. split; [discriminate|]. split; reflexivity.
    - intros s0 fed t i s1 I0 Hstep Hall. apply Forall_app in Hall as (Hall & Hlast).
      inversion Hlast as [|? ? Ht _]; subst. cbn [fst snd] in Ht. subst t.
      apply (wc_step s0 i s1); auto. }
  apply G. unfold tag. apply Forall_forall. intros ti Hti. apply in_map_iff in Hti.
  destruct Hti as (x & <- & _). reflexivity.
Qed.

(** ** replay: feeding the traversal of a well-classified module *)
Lemma feed_sec xs : forall m h k rest,
  k <= 10 -> k <> 3 -> Forall (wc_sec k) xs ->
  spec_feed (mk m h None None) (tag xs ++ rest) = spec_feed (mk (app_section m k xs) h None None) rest.
Proof.
  induction xs as [|x xs IH]; intros m h k rest Hk Hk3 Hall.
  - cbn [tag map app]. replace (app_section m k []) with m; [reflexivity|].
    destruct m as [c e im mm ep em ds dn dp an tg fs0]; destruct_N k; cbn [app_section]; mfields; rewrite ?app_nil_r; reflexivity.
  - inversion Hall as [|? ? Hx Hxs]; subst. cbn [tag map app spec_feed].
    rewrite (step_consume _ _ _ (mk (app_section m k [x]) h None None)).
    + fold (tag xs). rewrite (IH _ _ k rest Hk Hk3 Hxs), app_section_app. reflexivity.
    + apply (S_push m h None None (class_of x) k x); [|apply push_app_section; assumption].
      unfold push_tok. destruct Hx as [Hx|(-> & [Hx|Hx])]; tauto.
Qed.

Lemma feed_mm mm m h rest :
  Forall (fun x => class_of x = TMemoryModel) (olist mm) ->
  spec_feed (mk m h None None) (tag (olist mm) ++ rest)
  = spec_feed (mk (match mm with Some i => set_memory_model m i | None => m end) h None None) rest.
Proof.
  intros H. destruct mm as [i|]; [|reflexivity].
  inversion H as [|? ? Hi _]; subst. cbn [olist tag map app spec_feed]. rewrite Hi.
  rewrite (step_consume _ _ _ _ (S_mm m h None None i)). reflexivity.
Qed.

Lemma feed_params ps : forall f m h rest,
  Forall (fun p => class_of p = TParameter) ps ->
  spec_feed (mk m h (Some f) None) (tag ps ++ rest) = spec_feed (mk m h (Some (add_params f ps)) None) rest.
Proof.
  induction ps as [|x ps IH]; intros f m h rest Hall.
  - cbn [tag map app]. replace (add_params f []) with f; [reflexivity|].
    destruct f as [fd fe fp fb]; unfold add_params; cbn [f_def f_end f_params f_blocks]; rewrite app_nil_r; reflexivity.
  - inversion Hall as [|? ? Hx Hxs]; subst. cbn [tag map app spec_feed]. rewrite Hx.
    rewrite (step_consume _ _ _ _ (S_param m h f None x)). fold (tag ps). rewrite (IH _ _ _ rest Hxs).
    unfold add_params, fn_param; cbn [f_def f_end f_params f_blocks]. rewrite <- app_assoc. reflexivity.
Qed.

Lemma feed_body body : forall b f m h rest,
  Forall body_class body ->
  spec_feed (mk m h (Some f) (Some b)) (tag body ++ rest) = spec_feed (mk m h (Some f) (Some (add_body b body))) rest.
Proof.
  induction body as [|x body IH]; intros b f m h rest Hall.
  - cbn [tag map app]. replace (add_body b []) with b; [reflexivity|].
    destruct b as [bl bi]; unfold add_body; cbn [b_label b_insts]; rewrite app_nil_r; reflexivity.
  - inversion Hall as [|? ? Hx Hxs]; subst. cbn [tag map app spec_feed].
    rewrite (step_consume _ _ _ (mk m h (Some f) (Some (blk_push b x)))).
    + fold (tag body). rewrite (IH _ _ _ _ rest Hxs).
      unfold add_body, blk_push; cbn [b_label b_insts]. rewrite <- app_assoc. reflexivity.
    + apply S_blk. unfold blk_tok. destruct Hx as [Hx|[Hx|Hx]]; rewrite Hx; [tauto|tauto|].
      right; right. split; [reflexivity|discriminate].
Qed.

Lemma feed_block b f m h rest :
  wc_block b ->
  spec_feed (mk m h (Some f) None) (tag (block_insts b) ++ rest) = spec_feed (mk m h (Some (fn_block f b)) None) rest.
Proof.
  intros (l & body & term & Hl & Hcl & Hi & Hbody & Hterm).
  destruct b as [lb ib]; cbn [b_label b_insts] in *; subst lb ib.
  unfold block_insts; cbn [b_label b_insts olist app].
  change (tag (l :: body ++ [term])) with ((class_of l, l) :: tag (body ++ [term])).
  rewrite tag_app. cbn [app spec_feed]. rewrite Hcl.
  rewrite (step_consume _ _ _ _ (S_openblk m h f l)).
  rewrite <- app_assoc. rewrite (feed_body body _ _ _ _ _ Hbody).
  change (tag [term]) with [(class_of term, term)].
  cbn [app spec_feed]. rewrite Hterm.
  rewrite (step_consume _ _ _ _ (S_closeblk m h f _ term)). reflexivity.
Qed.

Lemma feed_blocks bs : forall f m h rest,
  Forall wc_block bs ->
  spec_feed (mk m h (Some f) None) (tag (flat_map block_insts bs) ++ rest)
  = spec_feed (mk m h (Some (add_blocks f bs)) None) rest.
Proof.
  induction bs as [|b bs IH]; intros f m h rest Hall.
  - cbn [flat_map tag map app]. replace (add_blocks f []) with f; [reflexivity|].
    destruct f as [fd fe fp fb]; unfold add_blocks; cbn [f_def f_end f_params f_blocks]; rewrite app_nil_r; reflexivity.
  - inversion Hall as [|? ? Hb Hbs]; subst. cbn [flat_map]. rewrite tag_app, <- app_assoc.
    rewrite (feed_block _ _ _ _ _ Hb), (IH _ _ _ rest Hbs).
    unfold add_blocks, fn_block; cbn [f_def f_end f_params f_blocks]. rewrite <- app_assoc. reflexivity.
Qed.

Lemma feed_func f m h rest :
  wc_fn f ->
  spec_feed (mk m h None None) (tag (func_insts f) ++ rest) = spec_feed (mk (push_function m f) h None None) rest.
Proof.
  intros (((d & Hd & Hcd) & Hps & Hbs) & (e & He & Hce)).
  destruct f as [fd fe ps bs]; cbn [f_def f_end f_params f_blocks] in *; subst fd fe.
  unfold func_insts; cbn [f_def f_end f_params f_blocks olist app].
  change (tag (d :: ps ++ flat_map block_insts bs ++ [e])) with ((class_of d, d) :: tag (ps ++ flat_map block_insts bs ++ [e])).
  cbn [app spec_feed]. rewrite Hcd.
  rewrite (step_consume _ _ _ _ (S_openfn m h None d)).
  rewrite tag_app, <- app_assoc. rewrite (feed_params ps _ _ _ _ Hps).
  rewrite tag_app, <- app_assoc. rewrite (feed_blocks bs _ _ _ _ Hbs).
  change (tag [e]) with [(class_of e, e)].
  cbn [app spec_feed]. rewrite Hce.
  rewrite (step_consume _ _ _ _ (S_closefn m h _ e)). reflexivity.
Qed.

Lemma feed_funcs fs : forall m h rest,
  Forall wc_fn fs ->
  spec_feed (mk m h None None) (tag (flat_map func_insts fs) ++ rest)
  = spec_feed (mk (add_fns m fs) h None None) rest.
Proof.
  induction fs as [|f fs IH]; intros m h rest Hall.
  - cbn [flat_map tag map app]. replace (add_fns m []) with m; [reflexivity|].
    destruct m as [c e im mm ep em ds dn dp an tg fs0]; unfold add_fns; mfields; rewrite app_nil_r; reflexivity.
  - inversion Hall as [|? ? Hf Hfs]; subst. cbn [flat_map]. rewrite tag_app, <- app_assoc.
    rewrite (feed_func _ _ _ _ Hf), (IH _ _ rest Hfs).
    unfold add_fns, push_function; mfields. rewrite <- app_assoc. reflexivity.
Qed.

(** feeding the traversal of a well-classified module rebuilds it *)
Lemma replay m : wc_module m -> spec_feed linit (tag (all_insts m)) = LCont (mk m None None None).
Proof.
  intros (Wsec & Wmm & Wfns).
  pose proof (Wsec 0 ltac:(lia) ltac:(lia)) as W0. pose proof (Wsec 1 ltac:(lia) ltac:(lia)) as W1.
  pose proof (Wsec 2 ltac:(lia) ltac:(lia)) as W2. pose proof (Wsec 4 ltac:(lia) ltac:(lia)) as W4.
  pose proof (Wsec 5 ltac:(lia) ltac:(lia)) as W5. pose proof (Wsec 6 ltac:(lia) ltac:(lia)) as W6.
  pose proof (Wsec 7 ltac:(lia) ltac:(lia)) as W7. pose proof (Wsec 8 ltac:(lia) ltac:(lia)) as W8.
  pose proof (Wsec 9 ltac:(lia) ltac:(lia)) as W9. pose proof (Wsec 10 ltac:(lia) ltac:(lia)) as W10.
  clear Wsec. destruct m as [c e im mm ep em ds dn dp an tg fs]. cbn [sec_insts] in *. mfields_all.
  unfold all_insts, linit; mfields. rewrite !tag_app.
  rewrite (feed_sec c _ _ 0 _ ltac:(lia) ltac:(lia) W0).
  rewrite (feed_sec e _ _ 1 _ ltac:(lia) ltac:(lia) W1).
  rewrite (feed_sec im _ _ 2 _ ltac:(lia) ltac:(lia) W2).
  rewrite (feed_mm mm _ _ _ Wmm).
  rewrite (feed_sec ep _ _ 4 _ ltac:(lia) ltac:(lia) W4).
  rewrite (feed_sec em _ _ 5 _ ltac:(lia) ltac:(lia) W5).
  rewrite (feed_sec ds _ _ 6 _ ltac:(lia) ltac:(lia) W6).
  rewrite (feed_sec dn _ _ 7 _ ltac:(lia) ltac:(lia) W7).
  rewrite (feed_sec dp _ _ 8 _ ltac:(lia) ltac:(lia) W8).
  rewrite (feed_sec an _ _ 9 _ ltac:(lia) ltac:(lia) W9).
  rewrite (feed_sec tg _ _ 10 _ ltac:(lia) ltac:(lia) W10).
  rewrite <- (app_nil_r (tag (flat_map func_insts fs))).
  rewrite (feed_funcs fs _ _ [] Wfns). cbn [spec_feed].
  destruct mm; reflexivity.
Qed.

(** A4 *)
Theorem reload_idempotent is s :
  spec_load (tag is) = LCont s ->
  spec_load (tag (all_insts (l_module s))) = LCont s.
Proof.
  intros H. apply spec_load_feed in H. destruct H as (H & Hf & Hb).
  destruct (wc_holds _ _ H) as (Wm & _ & _ & _ & Wh).
  unfold spec_load. rewrite (replay _ Wm).
  destruct s as [m h fo bo]; cbn [l_module l_header l_function l_block] in *; subst. reflexivity.
Qed.

Corollary reload_idempotent_module is s :
  spec_load (tag is) = LCont s ->
  exists s', spec_load (tag (all_insts (l_module s))) = LCont s' /\ l_module s' = l_module s.
Proof. intros H. exists s. split; [apply (reload_idempotent is); exact H|reflexivity]. Qed.

(** ** the traversal of a well-classified module is layout-ordered *)
Definition lo_state := (bool * bool * bool * N)%type.
Definition lo_step (st : lo_state) (t : token) : option lo_state :=
  let '(fn, blk, lbl, r) := st in
  if (r <=? rank fn t) && negb (is_line t && fn && negb blk) && negb (is_param t && lbl)
  then Some (fn_after fn t, blk_after blk t, lbl_after lbl t, rank fn t) else None.
Fixpoint lo_scan (st : lo_state) (ts : list token) : option lo_state :=
  match ts with
  | [] => Some st
  | t :: r => match lo_step st t with Some st1 => lo_scan st1 r | None => None end
  end.

Lemma lo_scan_app st a b :
  lo_scan st (a ++ b) = match lo_scan st a with Some st1 => lo_scan st1 b | None => None end.
Proof.
  revert st. induction a as [|t a IH]; intros st; cbn [app lo_scan]; [reflexivity|].
  destruct (lo_step st t); [apply IH|reflexivity].
Qed.

Lemma lo_scan_sound ts : forall fn blk lbl r st',
  lo_scan (fn, blk, lbl, r) ts = Some st' ->
  nondecreasing (r :: ranks fn ts) /\ no_stray_line fn blk ts = true /\ params_first lbl ts = true.
Proof.
  induction ts as [|t ts IH]; intros fn blk lbl r st' H.
  - cbn. auto.
  - cbn [lo_scan lo_step] in H.
    destruct ((r <=? rank fn t) && negb (is_line t && fn && negb blk) && negb (is_param t && lbl)) eqn:E;
      [|discriminate H].
    apply andb_prop in E as (E & E3). apply andb_prop in E as (E1 & E2). apply N.leb_le in E1.
    destruct (IH _ _ _ _ _ H) as (I1 & I2 & I3).
    cbn [ranks no_stray_line params_first]. rewrite E2, E3, I2, I3.
    split; [|split; reflexivity].
    change (r <= rank fn t /\ nondecreasing (rank fn t :: ranks (fn_after fn t) ts)). split; assumption.
Qed.

Lemma lo_step_eq fn blk lbl r t :
  r <= rank fn t -> negb (is_line t && fn && negb blk) = true -> negb (is_param t && lbl) = true ->
  lo_step (fn, blk, lbl, r) t = Some (fn_after fn t, blk_after blk t, lbl_after lbl t, rank fn t).
Proof.
  intros H1 H2 H3. unfold lo_step. apply N.leb_le in H1. rewrite H1, H2, H3. reflexivity.
Qed.

Lemma scan_sec xs : forall lbl r k,
  Forall (wc_sec k) xs -> r <= k ->
  exists r', r <= r' /\ r' <= k /\ lo_scan (false, false, lbl, r) (map class_of xs) = Some (false, false, lbl, r').
Proof.
  induction xs as [|x xs IH]; intros lbl r k Hall Hr.
  - exists r. cbn. repeat split; lia.
  - inversion Hall as [|? ? Hx Hxs]; subst. cbn [map lo_scan].
    assert (E : lo_step (false, false, lbl, r) (class_of x) = Some (false, false, lbl, k)).
    { destruct Hx as [Hx|(-> & [Hx|Hx])]; rewrite Hx; apply lo_step_eq; cbn; try reflexivity; lia. }
    rewrite E. destruct (IH lbl k k Hxs ltac:(lia)) as (r' & H1 & H2 & H3).
    exists r'. repeat split; try lia. exact H3.
Qed.

Lemma scan_mm mm lbl r :
  Forall (fun x => class_of x = TMemoryModel) (olist mm) -> r <= 3 ->
  exists r', r <= r' /\ r' <= 3 /\ lo_scan (false, false, lbl, r) (map class_of (olist mm)) = Some (false, false, lbl, r').
Proof.
  intros H Hr. destruct mm as [i|].
  - inversion H as [|? ? Hi _]; subst. exists 3. cbn [olist map lo_scan]. rewrite Hi.
    rewrite lo_step_eq; cbn; try reflexivity; try lia. repeat split; lia.
  - exists r. cbn. repeat split; lia.
Qed.

Lemma scan_params ps :
  Forall (fun p => class_of p = TParameter) ps ->
  lo_scan (true, false, false, 11) (map class_of ps) = Some (true, false, false, 11).
Proof.
  induction ps as [|x ps IH]; intros Hall; [reflexivity|].
  inversion Hall as [|? ? Hx Hxs]; subst. cbn [map lo_scan]. rewrite Hx.
  rewrite lo_step_eq; cbn; try reflexivity; try lia. apply IH. exact Hxs.
Qed.

Lemma scan_body body :
  Forall body_class body ->
  lo_scan (true, true, true, 11) (map class_of body) = Some (true, true, true, 11).
Proof.
  induction body as [|x body IH]; intros Hall; [reflexivity|].
  inversion Hall as [|? ? Hx Hxs]; subst. cbn [map lo_scan].
  assert (E : lo_step (true, true, true, 11) (class_of x) = Some (true, true, true, 11)).
  { destruct Hx as [Hx|[Hx|Hx]]; rewrite Hx; apply lo_step_eq; cbn; try reflexivity; lia. }
  rewrite E. apply IH. exact Hxs.
Qed.

Lemma scan_block b lbl :
  wc_block b ->
  lo_scan (true, false, lbl, 11) (map class_of (block_insts b)) = Some (true, false, true, 11).
Proof.
  intros (l & body & term & Hl & Hcl & Hi & Hbody & Hterm).
  unfold block_insts. rewrite Hl, Hi. cbn [olist app map lo_scan]. rewrite Hcl.
  rewrite lo_step_eq; cbn [rank fn_after blk_after lbl_after is_line is_param andb negb]; try reflexivity; try lia.
  rewrite map_app, lo_scan_app, (scan_body _ Hbody). cbn [map lo_scan]. rewrite Hterm.
  rewrite lo_step_eq; cbn; try reflexivity; lia.
Qed.

Lemma scan_blocks bs : forall lbl,
  Forall wc_block bs ->
  exists lbl', lo_scan (true, false, lbl, 11) (map class_of (flat_map block_insts bs)) = Some (true, false, lbl', 11).
Proof.
  induction bs as [|b bs IH]; intros lbl Hall.
  - exists lbl. reflexivity.
  - inversion Hall as [|? ? Hb Hbs]; subst. cbn [flat_map]. rewrite map_app, lo_scan_app, (scan_block _ _ Hb).
    apply IH. exact Hbs.
Qed.

Lemma scan_func f lbl r :
  wc_fn f -> r <= 11 ->
  exists lbl', lo_scan (false, false, lbl, r) (map class_of (func_insts f)) = Some (false, false, lbl', 11).
Proof.
  intros (((d & Hd & Hcd) & Hps & Hbs) & (e & He & Hce)) Hr.
  unfold func_insts. rewrite Hd, He. cbn [olist app map lo_scan]. rewrite Hcd.
  rewrite lo_step_eq; cbn [rank fn_after blk_after lbl_after is_line is_param andb negb]; try reflexivity; try lia.
  rewrite map_app, lo_scan_app, (scan_params _ Hps).
  rewrite map_app, lo_scan_app. destruct (scan_blocks _ false Hbs) as (lbl' & E). rewrite E.
  exists lbl'. cbn [map lo_scan]. rewrite Hce.
  rewrite lo_step_eq; cbn; try reflexivity; lia.
Qed.

Lemma scan_funcs fs : forall lbl r,
  Forall wc_fn fs -> r <= 11 ->
  exists lbl' r', lo_scan (false, false, lbl, r) (map class_of (flat_map func_insts fs)) = Some (false, false, lbl', r').
Proof.
  induction fs as [|f fs IH]; intros lbl r Hall Hr.
  - exists lbl, r. reflexivity.
  - inversion Hall as [|? ? Hf Hfs]; subst. cbn [flat_map]. rewrite map_app, lo_scan_app.
    destruct (scan_func _ lbl r Hf Hr) as (lbl' & E). rewrite E. apply IH; [exact Hfs|lia].
Qed.

Lemma mm_count_sec xs k : Forall (wc_sec k) xs -> mm_count (map class_of xs) = 0%nat.
Proof.
  induction 1 as [|x xs Hx _ IH]; [reflexivity|]. cbn [map]. rewrite mm_count_cons, IH.
  destruct Hx as [Hx|(_ & [Hx|Hx])]; rewrite Hx; reflexivity.
Qed.

Lemma mm_count_none xs : Forall (fun x => class_of x <> TMemoryModel) xs -> mm_count (map class_of xs) = 0%nat.
Proof.
  induction 1 as [|x xs Hx _ IH]; [reflexivity|]. cbn [map]. rewrite mm_count_cons, IH.
  destruct (class_of x); try reflexivity. congruence.
Qed.

Lemma wc_block_no_mm b : wc_block b -> Forall (fun x => class_of x <> TMemoryModel) (block_insts b).
Proof.
  intros (l & body & term & Hl & Hcl & Hi & Hbody & Hterm). unfold block_insts. rewrite Hl, Hi.
  cbn [olist app]. constructor; [congruence|]. apply Forall_app. split.
  - eapply Forall_impl; [|exact Hbody]. intros x [Hx|[Hx|Hx]]; congruence.
  - constructor; [congruence|constructor].
Qed.

Lemma Forall_flat_map {A B} (P : B -> Prop) (g : A -> list B) l :
  (forall x, In x l -> Forall P (g x)) -> Forall P (flat_map g l).
Proof.
  induction l as [|a r IH]; intros H; cbn [flat_map]; [constructor|].
  apply Forall_app. split; [apply H; left; reflexivity|apply IH; intros x Hx; apply H; right; exact Hx].
Qed.

Lemma wc_fn_no_mm f : wc_fn f -> Forall (fun x => class_of x <> TMemoryModel) (func_insts f).
Proof.
  intros (((d & Hd & Hcd) & Hps & Hbs) & (e & He & Hce)). unfold func_insts. rewrite Hd, He.
  cbn [olist app]. constructor; [congruence|]. apply Forall_app. split.
  - eapply Forall_impl; [|exact Hps]. intros x Hx; cbn in Hx; congruence.
  - apply Forall_app. split; [|constructor; [congruence|constructor]].
    apply Forall_flat_map. intros b Hb. apply wc_block_no_mm. rewrite Forall_forall in Hbs. auto.
Qed.

Lemma nondecreasing_tail a l : nondecreasing (a :: l) -> nondecreasing l.
Proof. destruct l as [|b l]; [intros _; exact I|]. intros [_ H]. exact H. Qed.

Theorem traversal_layout_ordered m : wc_module m -> layout_ordered (map class_of (all_insts m)).
Proof.
  intros (Wsec & Wmm & Wfns).
  pose proof (Wsec 0 ltac:(lia) ltac:(lia)) as W0. pose proof (Wsec 1 ltac:(lia) ltac:(lia)) as W1.
  pose proof (Wsec 2 ltac:(lia) ltac:(lia)) as W2. pose proof (Wsec 4 ltac:(lia) ltac:(lia)) as W4.
  pose proof (Wsec 5 ltac:(lia) ltac:(lia)) as W5. pose proof (Wsec 6 ltac:(lia) ltac:(lia)) as W6.
  pose proof (Wsec 7 ltac:(lia) ltac:(lia)) as W7. pose proof (Wsec 8 ltac:(lia) ltac:(lia)) as W8.
  pose proof (Wsec 9 ltac:(lia) ltac:(lia)) as W9. pose proof (Wsec 10 ltac:(lia) ltac:(lia)) as W10.
  clear Wsec. destruct m as [c e im mm ep em ds dn dp an tg fs]. cbn [sec_insts] in *. mfields_all.
  unfold all_insts; mfields.
  assert (S : exists st, lo_scan (false, false, false, 0)
      (map class_of (c ++ e ++ im ++ olist mm ++ ep ++ em ++ ds ++ dn ++ dp ++ an ++ tg ++ flat_map func_insts fs)) = Some st).
  { rewrite !map_app.
    rewrite lo_scan_app; destruct (scan_sec c false 0 0 W0 ltac:(lia)) as (r0 & ? & ? & ->); cbv beta iota.
    rewrite lo_scan_app; destruct (scan_sec e false r0 1 W1 ltac:(lia)) as (r1 & ? & ? & ->); cbv beta iota.
    rewrite lo_scan_app; destruct (scan_sec im false r1 2 W2 ltac:(lia)) as (r2 & ? & ? & ->); cbv beta iota.
    rewrite lo_scan_app; destruct (scan_mm mm false r2 Wmm ltac:(lia)) as (r3 & ? & ? & ->); cbv beta iota.
    rewrite lo_scan_app; destruct (scan_sec ep false r3 4 W4 ltac:(lia)) as (r4 & ? & ? & ->); cbv beta iota.
    rewrite lo_scan_app; destruct (scan_sec em false r4 5 W5 ltac:(lia)) as (r5 & ? & ? & ->); cbv beta iota.
    rewrite lo_scan_app; destruct (scan_sec ds false r5 6 W6 ltac:(lia)) as (r6 & ? & ? & ->); cbv beta iota.
    rewrite lo_scan_app; destruct (scan_sec dn false r6 7 W7 ltac:(lia)) as (r7 & ? & ? & ->); cbv beta iota.
    rewrite lo_scan_app; destruct (scan_sec dp false r7 8 W8 ltac:(lia)) as (r8 & ? & ? & ->); cbv beta iota.
    rewrite lo_scan_app; destruct (scan_sec an false r8 9 W9 ltac:(lia)) as (r9 & ? & ? & ->); cbv beta iota.
    rewrite lo_scan_app; destruct (scan_sec tg false r9 10 W10 ltac:(lia)) as (r10 & ? & ? & ->); cbv beta iota.
    destruct (scan_funcs fs false r10 Wfns ltac:(lia)) as (lbl' & r11 & ->); cbv beta iota.
    eexists. reflexivity. }
  destruct S as (st & S). apply lo_scan_sound in S. destruct S as (S1 & S2 & S3).
  split; [eapply nondecreasing_tail; exact S1|]. split; [exact S2|]. split; [|exact S3].
  unfold at_most_one_mm. rewrite !map_app, !mm_count_app.
  rewrite (mm_count_sec _ _ W0), (mm_count_sec _ _ W1), (mm_count_sec _ _ W2), (mm_count_sec _ _ W4),
    (mm_count_sec _ _ W5), (mm_count_sec _ _ W6), (mm_count_sec _ _ W7), (mm_count_sec _ _ W8),
    (mm_count_sec _ _ W9), (mm_count_sec _ _ W10).
  rewrite (mm_count_none (flat_map func_insts fs)).
  - destruct mm; cbn; [destruct (is_mm (class_of i))|]; cbn; lia.
  - apply Forall_flat_map. intros f Hf. apply wc_fn_no_mm. rewrite Forall_forall in Wfns. auto.
Qed.

(** the traversal of every successfully loaded module is layout-ordered, hence
    (A3) reproduced as is by the second load - which is also what
    [reload_idempotent] says *)
Corollary loaded_traversal_layout_ordered is s :
  spec_load (tag is) = LCont s -> layout_ordered (map fst (tag (all_insts (l_module s)))).
Proof.
  intros H. apply spec_load_feed in H. destruct H as (H & _ & _).
  destruct (wc_holds _ _ H) as (Wm & _). rewrite map_fst_tag. apply traversal_layout_ordered. exact Wm.
Qed.
End Reload.

(** * Additions: nothing is invented (no memory-model hypothesis); function ends *)

Lemma in_all_insts x m : In x (all_insts m) <-> exists k, In k keys /\ In x (sec_insts m k).
Proof. rewrite all_insts_keys. apply in_flat_map. Qed.

Lemma step_subset s t i s1 :
  step s t i s1 -> forall x, In x (all_of s1) -> In x (all_of s) \/ x = i.
Proof.
  intros H x Hx. destruct (token_eqb t TMemoryModel) eqn:E.
  - destruct t; try discriminate E.
    inversion H as [m h fo bo t k i0 m' Ht Hp| m h fo bo i0 | m h fo b t i0 Ht | | | | | ]; subst.
    + destruct Ht as [Ht|[(Ht & _)|(Ht & _)]]; discriminate Ht.
    + unfold all_of in *. cbn [l_module] in *. unfold pending in *. cbn [l_function l_block] in *.
      apply in_app_or in Hx. destruct Hx as [Hx|Hx]; [|left; apply in_or_app; right; exact Hx].
      apply in_all_insts in Hx. destruct Hx as (k & Hk & Hx). rewrite sec_insts_set_mm in Hx.
      destruct (N.eqb k 3).
      * destruct Hx as [<-|[]]. right. reflexivity.
      * left. apply in_or_app. left. apply in_all_insts. exists k. split; assumption.
    + destruct Ht as [Ht|[Ht|(Ht & _)]]; discriminate Ht.
  - assert (P : Permutation (all_of s1) (all_of s ++ [i])).
    { apply (step_perm _ _ _ _ H). intros ->. discriminate E. }
    apply (Permutation_in _ P) in Hx. apply in_app_or in Hx. destruct Hx as [Hx|[<-|[]]]; auto.
Qed.

(** nothing is invented, even when a memory model is overwritten *)
Theorem feed_loaded_subset tis s :
  spec_feed linit tis = LCont s ->
  forall x, In x (all_insts (l_module s) ++ pending s) -> In x (map snd tis).
Proof.
  apply (feed_invariant (fun s fed => forall x, In x (all_of s) -> In x (map snd fed))).
  - intros x Hx. exact Hx.
  - intros s0 fed t i s1 I0 Hstep x Hx. rewrite map_app. cbn [map snd]. apply in_or_app.
    destruct (step_subset _ _ _ _ Hstep x Hx) as [H| ->]; [left; auto|right; left; reflexivity].
Qed.

Theorem loaded_subset tis s :
  spec_load tis = LCont s -> forall x, In x (all_insts (l_module s)) -> In x (map snd tis).
Proof.
  intros H x Hx. apply spec_load_feed in H. destruct H as (H & _ & _).
  apply (feed_loaded_subset _ _ H). apply in_or_app. left. exact Hx.
Qed.

(** ** function ends, function skeletons, whole functions *)
Definition fn_ends (fs : list (func inst)) : list inst := flat_map (fun f => olist (f_end f)) fs.
(** a function without its parameters *)
Definition fn_skeleton (f : func inst) : list inst :=
  olist (f_def f) ++ flat_map block_insts (f_blocks f) ++ olist (f_end f).
Definition skel_open (s : lstate) : list inst :=
  match l_function s with Some f => olist (f_def f) ++ flat_map block_insts (f_blocks f) | None => [] end
  ++ pending_blk (l_block s).

Lemma fn_ends_step s t i s1 :
  step s t i s1 ->
  fn_ends (m_functions (l_module s1))
  = fn_ends (m_functions (l_module s)) ++ (if token_eqb t TFunctionEnd then [i] else []).
Proof.
  intros H.
  destruct H as [m h fo bo t k i m' Ht Hp| m h fo bo i | m h fo b t i Ht | m h bo i | m h f i | m h f bo i | m h f i | m h f b i];
    unfold fn_ends; cbn [l_module token_eqb push_function set_memory_model m_functions fn_close f_end olist].
  - pose proof (push_section_spec _ _ _ _ Hp) as (_ & _ & _ & _ & -> & _).
    destruct Ht as [->|[(-> & _)|(-> & _)]]; cbn [token_eqb]; rewrite app_nil_r; reflexivity.
  - rewrite app_nil_r; reflexivity.
  - destruct Ht as [->|[->|(-> & _)]]; cbn [token_eqb]; rewrite app_nil_r; reflexivity.
  - rewrite app_nil_r; reflexivity.
  - rewrite flat_map_app. cbn [flat_map f_end olist]. rewrite app_nil_r. reflexivity.
  - rewrite app_nil_r; reflexivity.
  - rewrite app_nil_r; reflexivity.
  - rewrite app_nil_r; reflexivity.
Qed.

Lemma fn_ends_holds tis s :
  spec_feed linit tis = LCont s -> fn_ends (m_functions (l_module s)) = insts_of TFunctionEnd tis.
Proof.
  apply (feed_invariant (fun s fed => fn_ends (m_functions (l_module s)) = insts_of TFunctionEnd fed)).
  - reflexivity.
  - intros s0 fed t i s1 I0 Hstep. rewrite insts_of_snoc, <- I0. apply fn_ends_step. exact Hstep.
Qed.

Lemma subseq_take_eq {A} (X X' F : list A) i : X' = X ++ [i] -> subseq X F -> subseq X' (F ++ [i]).
Proof. intros -> H. apply subseq_snoc_take. exact H. Qed.
Lemma subseq_skip_eq {A} (X X' F : list A) i : X' = X -> subseq X F -> subseq X' (F ++ [i]).
Proof. intros -> H. apply subseq_snoc_skip. exact H. Qed.

Definition dpe (f : func inst) : list inst := olist (f_def f) ++ f_params f ++ olist (f_end f).

Definition k1 (s : lstate) (F : list inst) : Prop :=
  (l_function s = None -> l_block s = None)
  /\ subseq (skel_open s) F
  /\ (forall f, In f (m_functions (l_module s)) -> subseq (fn_skeleton f) F /\ subseq (dpe f) F)
  /\ (forall f, l_function s = Some f -> subseq (olist (f_def f) ++ f_params f) F).

Ltac unfold_skel :=
  unfold skel_open, fn_skeleton, dpe, pending, pending_fn, pending_blk, block_insts, func_insts,
    blk_push, fn_new, fn_close, fn_param, fn_block, blk_new;
  cbn [l_module l_function l_block l_header b_label b_insts f_def f_end f_params f_blocks olist].

Lemma k1_step s t i s1 F : k1 s F -> step s t i s1 -> k1 s1 (F ++ [i]).
Proof.
  intros (Hfb & Hsk & Hcl & Hop) H.
  assert (Hcl' : forall f, In f (m_functions (l_module s)) -> subseq (fn_skeleton f) (F ++ [i]) /\ subseq (dpe f) (F ++ [i])).
  { intros f Hf. destruct (Hcl f Hf). split; apply subseq_snoc_skip; assumption. }
  destruct H as [m h fo bo t k i m' Ht Hp| m h fo bo i | m h fo b t i Ht | m h bo i | m h f i | m h f bo i | m h f i | m h f b i];
    unfold k1; cbn [l_function l_block l_module] in *.
  - pose proof (push_section_spec _ _ _ _ Hp) as (_ & _ & _ & _ & Hfns & _).
    split; [assumption|]. split; [apply subseq_snoc_skip; exact Hsk|]. split; [rewrite Hfns; exact Hcl'|].
    intros f Hf. apply subseq_snoc_skip. auto.
  - split; [assumption|]. split; [apply subseq_snoc_skip; exact Hsk|]. split; [exact Hcl'|].
    intros f Hf. apply subseq_snoc_skip. auto.
  - split; [intros ->; discriminate (Hfb eq_refl)|]. split; [|split; [exact Hcl'|]].
    + apply (subseq_take_eq (skel_open (mk m h fo (Some b)))); [|exact Hsk]. unfold_skel. norm_app. reflexivity.
    + intros f Hf. apply subseq_snoc_skip. auto.
  - rewrite (Hfb eq_refl) in *. split; [discriminate|]. split; [|split; [exact Hcl'|]].
    + apply (subseq_take_eq []); [reflexivity|apply subseq_nil_l].
    + intros f Hf. injection Hf as <-. apply (subseq_take_eq []); [reflexivity|apply subseq_nil_l].
  - split; [reflexivity|]. split; [apply subseq_nil_l|]. split; [|discriminate].
    intros f0 Hf0. cbn [push_function m_functions] in Hf0. apply in_app_or in Hf0.
    destruct Hf0 as [Hf0|[<-|[]]]; [auto|]. split.
    + apply (subseq_take_eq (skel_open (mk m h (Some f) None))); [|exact Hsk]. unfold_skel. norm_app. reflexivity.
    + apply (subseq_take_eq (olist (f_def f) ++ f_params f)); [|exact (Hop f eq_refl)]. unfold_skel. norm_app. reflexivity.
  - split; [discriminate|]. split; [apply subseq_snoc_skip; exact Hsk|]. split; [exact Hcl'|].
    intros f0 Hf0. injection Hf0 as <-.
    apply (subseq_take_eq (olist (f_def f) ++ f_params f)); [|exact (Hop f eq_refl)]. unfold_skel. norm_app. reflexivity.
  - split; [discriminate|]. split; [|split; [exact Hcl'|]].
    + apply (subseq_take_eq (skel_open (mk m h (Some f) None))); [|exact Hsk]. unfold_skel. norm_app. reflexivity.
    + intros f0 Hf0. apply subseq_snoc_skip. auto.
  - split; [discriminate|]. split; [|split; [exact Hcl'|]].
    + apply (subseq_take_eq (skel_open (mk m h (Some f) (Some b)))); [|exact Hsk]. unfold_skel. norm_app. reflexivity.
    + intros f0 Hf0. injection Hf0 as <-. apply subseq_snoc_skip. exact (Hop f eq_refl).
Qed.

Lemma k1_holds tis s : spec_feed linit tis = LCont s -> k1 s (map snd tis).
Proof.
  apply (feed_invariant (fun s fed => k1 s (map snd fed))).
  - split; [reflexivity|]. split; [constructor|]. split; [intros f []|intros f Hf; discriminate Hf].
  - intros s0 fed t i s1 I0 Hstep. rewrite map_app. cbn [map snd]. eapply k1_step; eassumption.
Qed.

(** with parameters first, whole functions are subsequences *)
Definition lbl_of (ts : list token) : bool := fold_left lbl_after ts false.

Lemma params_first_app a : forall lbl b,
  params_first lbl (a ++ b) = params_first lbl a && params_first (fold_left lbl_after a lbl) b.
Proof.
  induction a as [|t a IH]; intros lbl b; cbn [app params_first fold_left]; [reflexivity|].
  rewrite IH, andb_assoc. reflexivity.
Qed.

Definition k2 (s : lstate) (lbl : bool) (F : list inst) : Prop :=
  (lbl = false -> l_block s = None /\ forall f, l_function s = Some f -> f_blocks f = [])
  /\ subseq (pending s) F
  /\ (forall f, In f (m_functions (l_module s)) -> subseq (func_insts f) F).

Lemma k2_step s t i s1 lbl F :
  (l_function s = None -> l_block s = None) -> k2 s lbl F -> step s t i s1 ->
  negb (is_param t && lbl) = true -> k2 s1 (lbl_after lbl t) (F ++ [i]).
Proof.
  intros Hfb (Hl & Hp & Hcl) H Hpar.
  assert (Hcl' : forall f, In f (m_functions (l_module s)) -> subseq (func_insts f) (F ++ [i])).
  { intros f Hf. apply subseq_snoc_skip. auto. }
  destruct H as [m h fo bo t k i m' Ht Hp'| m h fo bo i | m h fo b t i Ht | m h bo i | m h f i | m h f bo i | m h f i | m h f b i];
    unfold k2; cbn [l_function l_block l_module lbl_after] in *.
  - pose proof (push_section_spec _ _ _ _ Hp') as (_ & _ & _ & _ & Hfns & _).
    assert (E : lbl_after lbl t = lbl) by (destruct Ht as [->|[(-> & _)|(-> & _)]]; reflexivity).
    rewrite E, Hfns. split; [exact Hl|]. split; [apply subseq_snoc_skip; exact Hp|exact Hcl'].
  - split; [exact Hl|]. split; [apply subseq_snoc_skip; exact Hp|exact Hcl'].
  - assert (E : lbl_after lbl t = lbl) by (destruct Ht as [->|[->|(-> & _)]]; reflexivity).
    rewrite E. split; [intros Hx; destruct (Hl Hx) as (Hy & _); discriminate Hy|]. split; [|exact Hcl'].
    apply (subseq_take_eq (pending (mk m h fo (Some b)))); [|exact Hp]. unfold_skel. norm_app. reflexivity.
  - rewrite (Hfb eq_refl) in *. split; [intros _; split; [reflexivity|intros f Hf; injection Hf as <-; reflexivity]|].
    split; [|exact Hcl']. apply (subseq_take_eq []); [reflexivity|apply subseq_nil_l].
  - split; [intros _; split; [reflexivity|discriminate]|]. split; [apply subseq_nil_l|].
    intros f0 Hf0. cbn [push_function m_functions] in Hf0. apply in_app_or in Hf0.
    destruct Hf0 as [Hf0|[<-|[]]]; [auto|].
    apply (subseq_take_eq (pending (mk m h (Some f) None))); [|exact Hp]. unfold_skel. norm_app. reflexivity.
  - cbn [is_param andb] in Hpar. assert (Hlbl : lbl = false) by (destruct lbl; [discriminate Hpar|reflexivity]).
    destruct (Hl Hlbl) as (Hbo & Hbls). specialize (Hbls f eq_refl). subst bo.
    split; [intros _; split; [reflexivity|intros f0 Hf0; injection Hf0 as <-; exact Hbls]|]. split; [|exact Hcl'].
    apply (subseq_take_eq (pending (mk m h (Some f) None))); [|exact Hp]. unfold_skel. rewrite Hbls. norm_app. reflexivity.
  - split; [discriminate|]. split; [|exact Hcl'].
    apply (subseq_take_eq (pending (mk m h (Some f) None))); [|exact Hp]. unfold_skel. norm_app. reflexivity.
  - split; [intros Hx; destruct (Hl Hx) as (Hy & _); discriminate Hy|]. split; [|exact Hcl'].
    apply (subseq_take_eq (pending (mk m h (Some f) (Some b)))); [|exact Hp]. unfold_skel. norm_app. reflexivity.
Qed.

Lemma k2_holds tis s :
  spec_feed linit tis = LCont s -> params_first false (map fst tis) = true ->
  k2 s (lbl_of (map fst tis)) (map snd tis).
Proof.
  intros H.
  assert (G : k1 s (map snd tis) /\ (params_first false (map fst tis) = true -> k2 s (lbl_of (map fst tis)) (map snd tis))).
  { revert H. apply (feed_invariant (fun s fed => k1 s (map snd fed) /\
        (params_first false (map fst fed) = true -> k2 s (lbl_of (map fst fed)) (map snd fed)))).
    - split.
      + split; [reflexivity|]. split; [constructor|]. split; [intros f []|intros f Hf; discriminate Hf].
      + intros _. split; [intros _; split; [reflexivity|discriminate]|]. split; [constructor|intros f []].
    - intros s0 fed t i s1 (I1 & I2) Hstep. rewrite !map_app. cbn [map fst snd]. split.
      + eapply k1_step; eassumption.
      + intros Hpf. rewrite params_first_app in Hpf. apply andb_prop in Hpf as (Hpf1 & Hpf2).
        cbn [params_first] in Hpf2. apply andb_prop in Hpf2 as (Hpf2 & _).
        unfold lbl_of. rewrite fold_left_app. cbn [fold_left].
        apply (k2_step s0 t i s1); [apply I1|apply I2; exact Hpf1|exact Hstep|exact Hpf2]. }
  apply G.
Qed.

(** the function ends are exactly the TFunctionEnd instructions in input order;
    every function without its parameters (def, blocks, end) is a subsequence
    of the input, and so is def ++ parameters ++ end *)
Theorem function_ends_in_order tis s :
  spec_load tis = LCont s ->
  let m := l_module s in let F := map snd tis in
  fn_ends (m_functions m) = insts_of TFunctionEnd tis
  /\ (forall f, In f (m_functions m) -> subseq (fn_skeleton f) F)
  /\ (forall f, In f (m_functions m) -> subseq (olist (f_def f) ++ f_params f ++ olist (f_end f)) F).
Proof.
  intros H m F. apply spec_load_feed in H. destruct H as (H & _ & _).
  destruct (k1_holds _ _ H) as (_ & _ & K & _).
  split; [apply fn_ends_holds; exact H|]. split; intros f Hf; apply (K f Hf).
Qed.

(** whole functions: needs parameters-first (counterexample below) *)
Theorem functions_are_subsequences tis s :
  spec_load tis = LCont s -> params_first false (map fst tis) = true ->
  forall f, In f (m_functions (l_module s)) -> subseq (func_insts f) (map snd tis).
Proof.
  intros H Hpf. apply spec_load_feed in H. destruct H as (H & _ & _).
  destruct (k2_holds _ _ H Hpf) as (_ & _ & K). exact K.
Qed.

(** without parameters-first a whole function need not be a subsequence: the
    late OpFunctionParameter is moved in front of the block *)
Example whole_function_needs_params_first :
  let tis := [(TFunction, ex_inst 54 1); (TLabel, ex_inst 248 2); (TTerminator, ex_inst 253 3);
              (TParameter, ex_inst 55 4); (TFunctionEnd, ex_inst 56 5)] in
  exists s, spec_load tis = LCont s
    /\ ~ (forall f, In f (m_functions (l_module s)) -> subseq (func_insts f) (map snd tis)).
Proof.
  eexists. split; [vm_compute; reflexivity|]. intros H.
  specialize (H _ (or_introl eq_refl)). vm_compute in H.
  repeat match goal with
         | H : subseq _ _ |- _ => inversion H; clear H; subst
         end.
Qed.

(** why [rank] gives a TModule / TMemoryModel token its own section rank even
    between TFunction and TFunctionEnd: such an instruction is accepted there
    and filed in its global section, i.e. hoisted out of the function; with
    rank 11 for it the identity would be false *)
Example module_token_inside_function_is_hoisted :
  let tis := [(TFunction, ex_inst 54 1); (TModule 0, ex_inst 17 2); (TFunctionEnd, ex_inst 56 3)] in
  exists s, spec_load tis = LCont s
    /\ all_insts (l_module s) = [ex_inst 17 2; ex_inst 54 1; ex_inst 56 3]
    /\ all_insts (l_module s) <> map snd tis
    /\ ranks false (map fst tis) = [11; 0; 11]
    /\ no_stray_line false false (map fst tis) = true /\ at_most_one_mm (map fst tis)
    /\ params_first false (map fst tis) = true.
Proof.
  eexists. split; [vm_compute; reflexivity|]. split; [reflexivity|]. split; [intros H; discriminate H|].
  split; [reflexivity|]. split; [reflexivity|]. split; [vm_compute; lia|reflexivity].
Qed.

Print Assumptions all_insts_is_traversal.
Print Assumptions two_memory_models_not_a_permutation.
Print Assumptions module_token_inside_function_is_hoisted.
Print Assumptions assemble_module_is_all_insts.
Print Assumptions assemble_body_is_all_insts.
Print Assumptions consume_step.
Print Assumptions step_consume.
Print Assumptions feed_nothing_dropped_or_invented.
Print Assumptions nothing_dropped_or_invented.
Print Assumptions two_memory_models_lose_the_first.
Print Assumptions relative_order_preserved.
Print Assumptions sections_are_subsequences.
Print Assumptions feed_layout_ordered_identity.
Print Assumptions layout_ordered_identity.
Print Assumptions ranks_necessary.
Print Assumptions no_stray_line_necessary.
Print Assumptions one_memory_model_necessary.
Print Assumptions params_first_necessary.
Print Assumptions reload_idempotent.
Print Assumptions reload_idempotent_module.
Print Assumptions traversal_layout_ordered.
Print Assumptions loaded_traversal_layout_ordered.
Print Assumptions feed_loaded_subset.
Print Assumptions loaded_subset.
Print Assumptions function_ends_in_order.
Print Assumptions functions_are_subsequences.
Print Assumptions whole_function_needs_params_first.
