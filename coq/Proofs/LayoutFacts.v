(** Loading files every instruction exactly once, in layout order.

    Everything here is about [spec_load] of Spec/Layout.v (the loader as the
    layout specification prescribes it) applied to a classified instruction
    sequence [tis : list (token * inst)].

      A1 nothing_dropped_or_invented   (Permutation, given <= 1 memory model)
      A2 relative_order_preserved      (every container is a subsequence)
      A3 layout_ordered_identity       (layout-ordered input is reproduced)
      A4 reload_idempotent             (loading the traversal again is a no-op)
*)
From RV Require Import Model.Base Model.Spirv Model.Grammar Model.Reflect Model.Module Model.Inst Model.Parser Model.Loader.
From RV Require Import Spec.Layout.
From RV Require Import Gen.TraverseData Inst.C15_inst.
From Coq Require Import Permutation.

Local Arguments b_label {I}. Local Arguments b_insts {I}.
Local Arguments f_def {I}. Local Arguments f_end {I}. Local Arguments f_params {I}. Local Arguments f_blocks {I}.
Local Arguments m_caps {I}. Local Arguments m_exts {I}. Local Arguments m_imports {I}.
Local Arguments m_memory_model {I}. Local Arguments m_entry_points {I}. Local Arguments m_exec_modes {I}.
Local Arguments m_debug_string_source {I}. Local Arguments m_debug_names {I}.
Local Arguments m_debug_module_processed {I}. Local Arguments m_annotations {I}.
Local Arguments m_types_global_values {I}. Local Arguments m_functions {I}.

(** * The instruction sequence of a module, in traversal order *)
Definition block_insts (b : block inst) : list inst := olist (b_label b) ++ b_insts b.
Definition func_insts (f : func inst) : list inst :=
  olist (f_def f) ++ f_params f ++ flat_map block_insts (f_blocks f) ++ olist (f_end f).
Definition all_insts (m : module inst) : list inst :=
  m_caps m ++ m_exts m ++ m_imports m ++ olist (m_memory_model m) ++ m_entry_points m
  ++ m_exec_modes m ++ m_debug_string_source m ++ m_debug_names m
  ++ m_debug_module_processed m ++ m_annotations m ++ m_types_global_values m
  ++ flat_map func_insts (m_functions m).

Lemma all_insts_is_spec_all m : all_insts m = spec_all m.
Proof.
  unfold all_insts, spec_all, spec_global. rewrite <- !app_assoc.
  repeat (apply (f_equal2 (@app inst)); [reflexivity|]).
  apply flat_map_ext. intros f. reflexivity.
Qed.

(** the translated [Module::all_inst_iter] / [Module::assemble_into] of this run *)
Theorem all_insts_is_traversal m :
  all_insts m = eval c15_fuel defs (VMod m) (TCall "all_inst_iter")
  /\ all_insts m = eval c15_fuel defs (VMod m) (TCall "assemble_into").
Proof.
  rewrite module_all_iter, module_assemble, all_insts_is_spec_all. split; reflexivity.
Qed.

(** [Run.assemble_module h m] is by definition
      header ++ flat_map asm_inst (eval c15_fuel defs (VMod m) (TCall "assemble_into"));
    (Inst/Run.v is not imported here: it drags in the generated tables) *)
Theorem assemble_body_is_all_insts (hd : list N) m :
  hd ++ flat_map asm_inst (eval c15_fuel defs (VMod m) (TCall "assemble_into"))
  = hd ++ flat_map asm_inst (all_insts m).
Proof. rewrite module_assemble, all_insts_is_spec_all. reflexivity. Qed.

(** instructions held by the still-open function / block *)
Definition pending_fn (fo : option (func inst)) : list inst :=
  match fo with
  | Some f => olist (f_def f) ++ f_params f ++ flat_map block_insts (f_blocks f)
  | None => []
  end.
Definition pending_blk (bo : option (block inst)) : list inst :=
  match bo with Some b => block_insts b | None => [] end.
Definition pending (s : lstate) : list inst := pending_fn (l_function s) ++ pending_blk (l_block s).

(** the 12 top-level containers by index (3 = memory model, 11 = functions) *)
Definition sec_insts (m : module inst) (k : N) : list inst :=
  match k with
  | 0 => m_caps m | 1 => m_exts m | 2 => m_imports m | 3 => olist (m_memory_model m)
  | 4 => m_entry_points m | 5 => m_exec_modes m | 6 => m_debug_string_source m
  | 7 => m_debug_names m | 8 => m_debug_module_processed m | 9 => m_annotations m
  | 10 => m_types_global_values m | 11 => flat_map func_insts (m_functions m)
  | _ => []
  end.
Definition keys : list N := [0; 1; 2; 3; 4; 5; 6; 7; 8; 9; 10; 11].

Lemma all_insts_keys m : all_insts m = flat_map (sec_insts m) keys.
Proof.
  unfold all_insts, keys. cbn [flat_map sec_insts]. rewrite app_nil_r. reflexivity.
Qed.

(** * The transition relation of [spec_consume] *)
Notation mk := Build_lstate.

Definition push_tok (t : token) (k : N) (fo : option (func inst)) (bo : option (block inst)) : Prop :=
  t = TModule k \/ (t = TLine /\ bo = None /\ k = 10) \/ (t = TVarUndef /\ fo = None /\ k = 10).
Definition blk_tok (t : token) (fo : option (func inst)) : Prop :=
  t = TLine \/ t = TBlockInst \/ (t = TVarUndef /\ fo <> None).

Definition blk_push (b : block inst) (i : inst) : block inst :=
  {| b_label := b_label b; b_insts := b_insts b ++ [i] |}.
Definition fn_new (i : inst) : func inst :=
  {| f_def := Some i; f_end := None; f_params := []; f_blocks := [] |}.
Definition fn_close (f : func inst) (i : inst) : func inst :=
  {| f_def := f_def f; f_end := Some i; f_params := f_params f; f_blocks := f_blocks f |}.
Definition fn_param (f : func inst) (i : inst) : func inst :=
  {| f_def := f_def f; f_end := f_end f; f_params := f_params f ++ [i]; f_blocks := f_blocks f |}.
Definition fn_block (f : func inst) (b : block inst) : func inst :=
  {| f_def := f_def f; f_end := f_end f; f_params := f_params f; f_blocks := f_blocks f ++ [b] |}.
Definition blk_new (i : inst) : block inst := {| b_label := Some i; b_insts := [] |}.

Inductive step : lstate -> token -> inst -> lstate -> Prop :=
| S_push m h fo bo t k i m' :
    push_tok t k fo bo -> push_section m k i = Some m' -> step (mk m h fo bo) t i (mk m' h fo bo)
| S_mm m h fo bo i :
    step (mk m h fo bo) TMemoryModel i (mk (set_memory_model m i) h fo bo)
| S_blk m h fo b t i :
    blk_tok t fo -> step (mk m h fo (Some b)) t i (mk m h fo (Some (blk_push b i)))
| S_openfn m h bo i :
    step (mk m h None bo) TFunction i (mk m h (Some (fn_new i)) bo)
| S_closefn m h f i :
    step (mk m h (Some f) None) TFunctionEnd i (mk (push_function m (fn_close f i)) h None None)
| S_param m h f bo i :
    step (mk m h (Some f) bo) TParameter i (mk m h (Some (fn_param f i)) bo)
| S_openblk m h f i :
    step (mk m h (Some f) None) TLabel i (mk m h (Some f) (Some (blk_new i)))
| S_closeblk m h f b i :
    step (mk m h (Some f) (Some b)) TTerminator i (mk m h (Some (fn_block f (blk_push b i))) None).

Ltac consume_red H :=
  unfold spec_consume in H;
  cbn [spec_arm fn_is_none l_function l_block l_module l_header first_failed cond_holds act with_module] in H.

Lemma consume_step s t i s1 : spec_consume s t i = LCont s1 -> step s t i s1.
Proof.
  intros H. destruct s as [m h fo bo].
  destruct t; destruct fo as [f|]; destruct bo as [b|]; consume_red H; try discriminate H;
    try (destruct (push_section m _ i) as [m'|] eqn:E; [|discriminate H]);
    injection H as <-.
  all: try (eapply S_push; [|eassumption]; unfold push_tok; tauto).
  all: try apply S_mm.
  all: try (apply (S_blk m h _ b); unfold blk_tok; intuition congruence).
  - apply S_openfn.
  - apply S_openfn.
  - apply S_closefn.
  - apply S_param.
  - apply S_param.
  - apply S_openblk.
  - apply S_closeblk.
Qed.

Lemma step_consume s t i s1 : step s t i s1 -> spec_consume s t i = LCont s1.
Proof.
  intros H. destruct H as [m h fo bo t k i m' Ht Hp| m h fo bo i | m h fo b t i Ht | m h bo i | m h f i | m h f bo i | m h f i | m h f b i].
  - destruct fo, bo; destruct Ht as [->|[(-> & Hb & ->)|(-> & Hf & ->)]]; try discriminate;
      unfold spec_consume; cbn [spec_arm fn_is_none l_function l_block l_module l_header first_failed cond_holds act with_module];
      rewrite Hp; reflexivity.
  - reflexivity.
  - destruct Ht as [->|[->|(-> & Hf)]]; destruct fo; try congruence; reflexivity.
  - destruct bo; reflexivity.
  - reflexivity.
  - destruct bo; reflexivity.
  - reflexivity.
  - reflexivity.
Qed.

(** * Feeding *)
Lemma spec_feed_app s a b :
  spec_feed s (a ++ b) = match spec_feed s a with LCont s1 => spec_feed s1 b | other => other end.
Proof.
  revert s. induction a as [|[t i] r IH]; intros s; cbn [app spec_feed]; [reflexivity|].
  destruct (spec_consume s t i) as [s1| |]; [apply IH|reflexivity|reflexivity].
Qed.

(** an invariant of the transition relation holds after feeding *)
Lemma feed_invariant (Inv : lstate -> list (token * inst) -> Prop) :
  Inv linit [] ->
  (forall s fed t i s1, Inv s fed -> step s t i s1 -> Inv s1 (fed ++ [(t, i)])) ->
  forall tis s, spec_feed linit tis = LCont s -> Inv s tis.
Proof.
  intros H0 Hstep tis. induction tis as [|[t i] fed IH] using rev_ind; intros s H.
  - cbn [spec_feed] in H. injection H as <-. exact H0.
  - rewrite spec_feed_app in H. destruct (spec_feed linit fed) as [s0| |] eqn:E; try discriminate H.
    cbn [spec_feed] in H. destruct (spec_consume s0 t i) as [s1| |] eqn:E1; try discriminate H.
    injection H as <-. eapply Hstep; [apply IH; reflexivity|apply consume_step; exact E1].
Qed.

Lemma spec_load_feed tis s :
  spec_load tis = LCont s -> spec_feed linit tis = LCont s /\ l_function s = None /\ l_block s = None.
Proof.
  unfold spec_load. destruct (spec_feed linit tis) as [s0| |]; try discriminate.
  destruct s0 as [m h [f|] [b|]]; cbn; intros H; try discriminate H; injection H as <-; auto.
Qed.

(** * [push_section] *)
Ltac destruct_N j := destruct j as [|j]; [|do 4 (try destruct j as [j|j|])].

Lemma push_section_spec m k i m' :
  push_section m k i = Some m' ->
  k <= 10 /\ k <> 3 /\ sec_insts m' k = sec_insts m k ++ [i]
  /\ (forall j, j <> k -> sec_insts m' j = sec_insts m j)
  /\ m_functions m' = m_functions m /\ m_memory_model m' = m_memory_model m.
Proof.
  intros H. destruct_N k; cbn in H; try discriminate H; injection H as <-.
  all: split; [lia|split; [lia|split; [reflexivity|split; [|split; reflexivity]]]].
  all: intros j Hj; destruct_N j; try reflexivity; exfalso; apply Hj; reflexivity.
Qed.

Lemma push_section_some m k i : k <= 10 -> k <> 3 -> exists m', push_section m k i = Some m'.
Proof.
  intros H1 H2. destruct_N k; try lia; cbn; eexists; reflexivity.
Qed.

(** update of one container, generically *)
Definition sec_upd (m m' : module inst) (k : N) (xs : list inst) : Prop :=
  sec_insts m' k = sec_insts m k ++ xs /\ forall j, j <> k -> sec_insts m' j = sec_insts m j.

Lemma sec_upd_push m k i m' : push_section m k i = Some m' -> sec_upd m m' k [i].
Proof. intros H. apply push_section_spec in H. split; apply H. Qed.

Lemma sec_upd_mm m i : m_memory_model m = None -> sec_upd m (set_memory_model m i) 3 [i].
Proof.
  intros H. split.
  - cbn. rewrite H. reflexivity.
  - intros j Hj. destruct_N j; try reflexivity. exfalso; apply Hj; reflexivity.
Qed.

Lemma sec_upd_fn m f : sec_upd m (push_function m f) 11 (func_insts f).
Proof.
  split.
  - cbn. rewrite flat_map_app. cbn. rewrite app_nil_r. reflexivity.
  - intros j Hj. destruct_N j; try reflexivity. exfalso; apply Hj; reflexivity.
Qed.

Lemma keys_nodup : NoDup keys.
Proof. apply nodupN_NoDup. vm_compute. reflexivity. Qed.

Lemma flat_map_ext_in' {A B} (f g : A -> list B) l :
  (forall x, In x l -> f x = g x) -> flat_map f l = flat_map g l.
Proof.
  induction l as [|a r IH]; intros H; cbn [flat_map]; [reflexivity|].
  rewrite (H a (or_introl eq_refl)), IH; [reflexivity|]. intros x Hx. apply H. right. exact Hx.
Qed.

Lemma flat_map_upd_perm (g g' : N -> list inst) k xs ks :
  NoDup ks -> In k ks -> g' k = g k ++ xs -> (forall j, j <> k -> g' j = g j) ->
  Permutation (flat_map g' ks) (flat_map g ks ++ xs).
Proof.
  intros Hnd Hin Hk Hj. induction ks as [|a r IH]; [destruct Hin|].
  inversion Hnd as [|? ? Hna Hnd']; subst. cbn [flat_map].
  destruct (N.eq_dec a k) as [->|Hne].
  - rewrite Hk. assert (E : flat_map g' r = flat_map g r).
    { apply flat_map_ext_in'. intros j Hjr. apply Hj. intros ->. exact (Hna Hjr). }
    rewrite E, <- !app_assoc. apply Permutation_app_head. apply Permutation_app_comm.
  - destruct Hin as [->|Hin]; [congruence|]. rewrite (Hj a Hne), <- app_assoc.
    apply Permutation_app_head. apply IH; assumption.
Qed.

Lemma all_insts_upd_perm m m' k xs :
  In k keys -> sec_upd m m' k xs -> Permutation (all_insts m') (all_insts m ++ xs).
Proof.
  intros Hin [H1 H2]. rewrite !all_insts_keys.
  apply flat_map_upd_perm with (k := k); auto using keys_nodup.
Qed.

(** * A1: nothing dropped, nothing invented *)
Definition is_mm (t : token) : bool := match t with TMemoryModel => true | _ => false end.
Definition mm_count (ts : list token) : nat := length (filter is_mm ts).
Definition at_most_one_mm (ts : list token) : Prop := (mm_count ts <= 1)%nat.

Definition all_of (s : lstate) : list inst := all_insts (l_module s) ++ pending s.

Lemma perm_hd {A} (a l r : list A) i : Permutation l (i :: r) -> Permutation (a ++ l) (i :: a ++ r).
Proof.
  intros H. eapply Permutation_trans; [apply Permutation_app_head; exact H|].
  apply Permutation_sym. apply Permutation_middle.
Qed.
Lemma perm_skip_i {A} (y i : A) l r : Permutation l (i :: r) -> Permutation (y :: l) (i :: y :: r).
Proof. intros H. eapply Permutation_trans; [apply perm_skip; exact H|apply perm_swap]. Qed.
Lemma perm_both {A} (L R r1 r2 : list A) i :
  Permutation L (i :: r1) -> Permutation R (i :: r2) -> r1 = r2 -> Permutation L R.
Proof. intros H1 H2 <-. eapply Permutation_trans; [exact H1|apply Permutation_sym; exact H2]. Qed.

Ltac pull i :=
  lazymatch goal with
  | |- Permutation (i :: _) _ => apply Permutation_refl
  | |- Permutation (_ :: _) _ => eapply perm_skip_i; pull i
  | |- Permutation (_ ++ _) _ => eapply perm_hd; pull i
  end.
Ltac norm_app := rewrite ?flat_map_app; cbn [flat_map b_label b_insts olist]; rewrite ?app_nil_r; rewrite <- ?app_assoc; cbn [app].
Ltac perm_i i :=
  norm_app; eapply (perm_both _ _ _ _ i); [pull i|pull i|norm_app; reflexivity].

Ltac unfold_state :=
  unfold all_of, pending, pending_fn, pending_blk, block_insts, blk_push, fn_new, fn_close, fn_param, fn_block, blk_new;
  cbn [l_module l_function l_block l_header b_label b_insts f_def f_end f_params f_blocks olist].

Lemma all_insts_push_function m f : all_insts (push_function m f) = all_insts m ++ func_insts f.
Proof.
  unfold all_insts, push_function; cbn [m_caps m_exts m_imports m_memory_model m_entry_points m_exec_modes
    m_debug_string_source m_debug_names m_debug_module_processed m_annotations m_types_global_values m_functions].
  rewrite flat_map_app. cbn [flat_map]. rewrite app_nil_r, <- !app_assoc. reflexivity.
Qed.

Lemma step_perm s t i s1 :
  step s t i s1 -> (t = TMemoryModel -> m_memory_model (l_module s) = None) ->
  Permutation (all_of s1) (all_of s ++ [i]).
Proof.
  intros H Hmm.
  destruct H as [m h fo bo t k i m' Ht Hp| m h fo bo i | m h fo b t i Ht | m h bo i | m h f i | m h f bo i | m h f i | m h f b i].
  - assert (Hk : In k keys).
    { apply push_section_spec in Hp. destruct Hp as (H1 & _). apply memN_In.
      destruct_N k; try reflexivity; lia. }
    pose proof (all_insts_upd_perm _ _ _ _ Hk (sec_upd_push _ _ _ _ Hp)) as P.
    unfold all_of; cbn [l_module]. set (p := pending _).
    eapply Permutation_trans; [apply Permutation_app_tail; exact P|]. perm_i i.
  - specialize (Hmm eq_refl). cbn [l_module] in Hmm.
    pose proof (all_insts_upd_perm _ _ 3 _ ltac:(cbn; tauto) (sec_upd_mm m i Hmm)) as P.
    unfold all_of; cbn [l_module]. set (p := pending _).
    eapply Permutation_trans; [apply Permutation_app_tail; exact P|]. perm_i i.
  - unfold_state. perm_i i.
  - unfold_state. perm_i i.
  - unfold_state. rewrite all_insts_push_function. unfold func_insts, fn_close; cbn [f_def f_end f_params f_blocks olist].
    perm_i i.
  - unfold_state. perm_i i.
  - unfold_state. perm_i i.
  - unfold_state. unfold block_insts; cbn [b_label b_insts]. perm_i i.
Qed.

Lemma mm_count_app a b : mm_count (a ++ b) = (mm_count a + mm_count b)%nat.
Proof. unfold mm_count. rewrite filter_app, app_length. reflexivity. Qed.

Lemma step_mm_none s t i s1 :
  step s t i s1 -> t <> TMemoryModel -> m_memory_model (l_module s1) = m_memory_model (l_module s).
Proof.
  intros H Ht.
  destruct H as [m h fo bo t k i m' Ht' Hp| m h fo bo i | m h fo b t i Ht' | m h bo i | m h f i | m h f bo i | m h f i | m h f b i];
    try reflexivity; try congruence.
  apply push_section_spec in Hp. cbn [l_module]. apply Hp.
Qed.

Definition inv1 (s : lstate) (fed : list (token * inst)) : Prop :=
  (mm_count (map fst fed) = 0%nat -> m_memory_model (l_module s) = None)
  /\ (at_most_one_mm (map fst fed) -> Permutation (all_of s) (map snd fed)).

Lemma inv1_holds tis s : spec_feed linit tis = LCont s -> inv1 s tis.
Proof.
  apply feed_invariant.
  - split; intros _; [reflexivity|]. apply Permutation_refl.
  - intros s0 fed t i s1 [I1 I2] Hstep. unfold inv1, at_most_one_mm.
    rewrite !map_app, mm_count_app. cbn [map fst snd]. split.
    + intros Hc. destruct (token_eqb t TMemoryModel) eqn:E.
      * destruct t; try discriminate E. cbn in Hc. lia.
      * rewrite (step_mm_none _ _ _ _ Hstep); [apply I1; lia|]. intros ->. discriminate E.
    + intros Hc. eapply Permutation_trans.
      * apply (step_perm _ _ _ _ Hstep). intros ->. apply I1. cbn in Hc. lia.
      * apply Permutation_app_tail. apply I2. unfold at_most_one_mm. lia.
Qed.

(** the invariant along feeding: what is filed plus what is pending is what was fed *)
Theorem feed_nothing_dropped_or_invented tis s :
  spec_feed linit tis = LCont s -> at_most_one_mm (map fst tis) ->
  Permutation (all_insts (l_module s) ++ pending s) (map snd tis).
Proof. intros H Hc. apply (inv1_holds _ _ H). exact Hc. Qed.

Theorem nothing_dropped_or_invented tis s :
  spec_load tis = LCont s -> at_most_one_mm (map fst tis) ->
  Permutation (all_insts (l_module s)) (map snd tis).
Proof.
  intros H Hc. apply spec_load_feed in H. destruct H as (H & Hf & Hb).
  pose proof (feed_nothing_dropped_or_invented _ _ H Hc) as P.
  unfold pending in P. rewrite Hf, Hb in P. cbn [pending_fn pending_blk app] in P.
  rewrite app_nil_r in P. exact P.
Qed.

(** the hypothesis is necessary: of two OpMemoryModel instructions the first is lost *)
Definition ex_inst (opc n : N) : inst := {| i_opcode := opc; i_rtype := None; i_rid := None; i_ops := [OLit32 n] |}.

Example two_memory_models_lose_the_first :
  exists s, spec_load [(TMemoryModel, ex_inst 14 1); (TMemoryModel, ex_inst 14 2)] = LCont s
            /\ all_insts (l_module s) = [ex_inst 14 2].
Proof. eexists. split; vm_compute; reflexivity. Qed.
