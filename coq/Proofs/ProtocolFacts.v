(** P1: the consumer protocol of the parse loop - for every grammar, every
    consumer state machine, every byte list.  A logging wrapper records each
    callback together with its answer; the theorems describe the shape of that
    log and its relation to the result of [parse]. *)
From RV Require Import Model.Base Model.Bytes Model.Spirv Model.Grammar Model.Decoder Model.Inst
  Model.Reflect Model.Module Model.Parser Model.Loader.

Inductive ev := EvInit | EvHeader (h : header) | EvInst (i : inst) | EvFin.

Definition lg : Type := list (ev * action).

(** logging wrapper: same consumer, additionally records every callback and the answer *)
Definition logc {St} (C : consumer St) : consumer (St * lg) :=
  {| c_init := fun sl => let r := c_init C (fst sl) in ((fst r, snd sl ++ [(EvInit, snd r)]), snd r);
     c_fin := fun sl => let r := c_fin C (fst sl) in ((fst r, snd sl ++ [(EvFin, snd r)]), snd r);
     c_header := fun sl h => let r := c_header C (fst sl) h in ((fst r, snd sl ++ [(EvHeader h, snd r)]), snd r);
     c_inst := fun sl i => let r := c_inst C (fst sl) i in ((fst r, snd sl ++ [(EvInst i, snd r)]), snd r) |}.

Definition log_of {St} (G : gdata) (C : consumer St) (bytes : list N) (s0 : St) : lg :=
  snd (fst (parse G (logc C) bytes (s0, []))).

(** answers / instructions of a log *)
Definition cont (x : ev * action) : Prop := snd x = Continue.
Definition inst_of_entry (x : ev * action) : list inst :=
  match fst x with EvInst i => [i] | _ => [] end.
Definition delivered (L : lg) : list inst := flat_map inst_of_entry L.

(** the instruction stream as seen by successive [parse_inst] calls *)
Fixpoint insts_of (G : gdata) (fuel : nat) (t : tracker) (idx : N) (d : dec) : list inst :=
  match fuel with
  | O => []
  | Datatypes.S f =>
      match parse_inst G t (idx + 1) d with
      | Ok (i, d1) =>
          match track G t i with
          | Some t1 => i :: insts_of G f t1 (idx + 1) d1
          | None => []
          end
      | _ => []
      end
  end.

(** ---- a pure description of the log ---- *)
Fixpoint loop_log {St} (G : gdata) (C : consumer St) (fuel : nat) (t : tracker) (idx : N) (d : dec) (s : St) : lg :=
  match fuel with
  | O => []
  | Datatypes.S f =>
      match parse_inst G t (idx + 1) d with
      | Ok (i, d1) =>
          match track G t i with
          | None => []
          | Some t1 =>
              let r := c_inst C s i in
              (EvInst i, snd r) ::
              match snd r with
              | Continue => loop_log G C f t1 (idx + 1) d1 (fst r)
              | _ => []
              end
          end
      | Er PComplete => [(EvFin, snd (c_fin C s))]
      | _ => []
      end
  end.

Definition parse_log {St} (G : gdata) (C : consumer St) (bytes : list N) (s0 : St) : lg :=
  let r0 := c_init C s0 in
  (EvInit, snd r0) ::
  match snd r0 with
  | Continue =>
      match parse_header (mkdec bytes) with
      | Ok (h, d1) =>
          let r1 := c_header C (fst r0) h in
          (EvHeader h, snd r1) ::
          match snd r1 with
          | Continue => loop_log G C (Datatypes.S (length bytes)) [] 0 d1 (fst r1)
          | _ => []
          end
      | _ => []
      end
  | _ => []
  end.

Section Proto.
Context {St : Type}.
Variable G : gdata.
Variable C : consumer St.

Lemma loop_logc : forall fuel t idx d s l,
  parse_loop G (logc C) fuel t idx d (s, l) =
  ((fst (parse_loop G C fuel t idx d s), l ++ loop_log G C fuel t idx d s),
   snd (parse_loop G C fuel t idx d s)).
Proof.
  induction fuel as [|f IH]; intros t idx d s l; cbn [parse_loop loop_log].
  - rewrite app_nil_r. reflexivity.
  - destruct (parse_inst G t (idx + 1) d) as [[i d1]|e|p] eqn:E.
    + destruct (track G t i) as [t1|] eqn:T.
      * cbn [c_inst logc fst snd].
        destruct (c_inst C s i) as [s1 a] eqn:CI. cbn [fst snd].
        destruct a; cbn [consume fst snd].
        -- rewrite IH. rewrite <- app_assoc. reflexivity.
        -- reflexivity.
        -- reflexivity.
      * rewrite app_nil_r. reflexivity.
    + destruct e; cbn [fst snd]; try (rewrite app_nil_r; reflexivity).
      cbn [c_fin logc fst snd]. destruct (c_fin C s) as [s1 a] eqn:CF. reflexivity.
    + rewrite app_nil_r. reflexivity.
Qed.

Lemma parse_logc : forall bytes s0,
  parse G (logc C) bytes (s0, []) =
  ((fst (parse G C bytes s0), parse_log G C bytes s0), snd (parse G C bytes s0)).
Proof.
  intros bytes s0. unfold parse, parse_log.
  cbn [c_init c_header logc fst snd app].
  destruct (c_init C s0) as [s1 a] eqn:CI. cbn [fst snd].
  destruct a; cbn [consume fst snd]; try reflexivity.
  destruct (parse_header (mkdec bytes)) as [[h d1]|e|p] eqn:PH; cbn [fst snd]; try reflexivity.
  destruct (c_header C s1 h) as [s2 a2] eqn:CH. cbn [fst snd app].
  destruct a2; cbn [consume fst snd]; try reflexivity.
  rewrite loop_logc. reflexivity.
Qed.

Lemma log_of_eq bytes s0 : log_of G C bytes s0 = parse_log G C bytes s0.
Proof. unfold log_of. rewrite parse_logc. reflexivity. Qed.

(** T1 *)
Theorem log_transparent bytes s0 :
  fst (fst (parse G (logc C) bytes (s0, []))) = fst (parse G C bytes s0) /\
  snd (parse G (logc C) bytes (s0, [])) = snd (parse G C bytes s0).
Proof. rewrite parse_logc. split; reflexivity. Qed.

(** ---- normal form of the loop part of the log ---- *)
Inductive loop_nf (r : res unit) : lg -> Prop :=
| NF_end : r <> Ok tt -> loop_nf r []
| NF_stop i a : a <> Continue -> r = consume a -> loop_nf r [(EvInst i, a)]
| NF_fin a : r = consume a -> loop_nf r [(EvFin, a)]
| NF_cons i L : loop_nf r L -> loop_nf r ((EvInst i, Continue) :: L).

Lemma loop_log_nf : forall fuel t idx d s,
  loop_nf (snd (parse_loop G C fuel t idx d s)) (loop_log G C fuel t idx d s).
Proof.
  induction fuel as [|f IH]; intros t idx d s; cbn [parse_loop loop_log].
  - apply NF_end. discriminate.
  - destruct (parse_inst G t (idx + 1) d) as [[i d1]|e|p] eqn:E.
    + destruct (track G t i) as [t1|] eqn:T.
      * destruct (c_inst C s i) as [s1 a] eqn:CI. cbn [fst snd].
        destruct a; cbn [consume fst snd].
        -- apply NF_cons. apply IH.
        -- apply NF_stop; [discriminate|reflexivity].
        -- apply NF_stop; [discriminate|reflexivity].
      * apply NF_end. discriminate.
    + destruct e; cbn [fst snd]; try (apply NF_end; discriminate).
      destruct (c_fin C s) as [s1 a] eqn:CF. cbn [fst snd]. apply NF_fin. reflexivity.
    + apply NF_end. discriminate.
Qed.

(** ---- normal form of the whole log ---- *)
Inductive parse_nf (r : res unit) : lg -> Prop :=
| PN_init a : a <> Continue -> r = consume a -> parse_nf r [(EvInit, a)]
| PN_nohdr : r <> Ok tt -> parse_nf r [(EvInit, Continue)]
| PN_hdr h a : a <> Continue -> r = consume a -> parse_nf r [(EvInit, Continue); (EvHeader h, a)]
| PN_loop h L : loop_nf r L -> parse_nf r ((EvInit, Continue) :: (EvHeader h, Continue) :: L).

Lemma parse_log_nf bytes s0 : parse_nf (snd (parse G C bytes s0)) (parse_log G C bytes s0).
Proof.
  unfold parse, parse_log.
  destruct (c_init C s0) as [s1 a] eqn:CI. cbn [fst snd].
  destruct a; cbn [consume fst snd].
  - destruct (parse_header (mkdec bytes)) as [[h d1]|e|p] eqn:PH; cbn [fst snd].
    + destruct (c_header C s1 h) as [s2 a2] eqn:CH. cbn [fst snd].
      destruct a2; cbn [consume fst snd].
      * apply PN_loop. apply loop_log_nf.
      * apply PN_hdr; [discriminate|reflexivity].
      * apply PN_hdr; [discriminate|reflexivity].
    + apply PN_nohdr. discriminate.
    + apply PN_nohdr. discriminate.
  - apply PN_init; [discriminate|reflexivity].
  - apply PN_init; [discriminate|reflexivity].
Qed.

End Proto.

(** ---- consequences of the normal forms (pure list reasoning) ---- *)

Lemma nf_shape r L : loop_nf r L ->
  exists fin, map fst L = map EvInst (delivered L) ++ fin /\ (fin = [] \/ fin = [EvFin]).
Proof.
  induction 1 as [Hr|i a Ha Hr|a Hr|i L H IH].
  - exists []. split; [reflexivity|left; reflexivity].
  - exists []. split; [reflexivity|left; reflexivity].
  - exists [EvFin]. split; [reflexivity|right; reflexivity].
  - destruct IH as [fin [E F]]. exists fin. split; [|exact F].
    cbn [map fst delivered flat_map inst_of_entry app]. fold (delivered L). rewrite E. reflexivity.
Qed.

Definition ends_ok (r : res unit) (L : lg) : Prop :=
  exists L' x, L = L' ++ [x] /\ Forall cont L' /\ (snd x <> Continue -> r = consume (snd x)).

Lemma ends_cons r e L : ends_ok r L -> ends_ok r ((e, Continue) :: L).
Proof.
  intros [L' [x [E [F H]]]]. exists ((e, Continue) :: L'), x. split; [|split].
  - rewrite E. reflexivity.
  - constructor; [reflexivity|exact F].
  - exact H.
Qed.

Lemma ends_single r x : (snd x <> Continue -> r = consume (snd x)) -> ends_ok r [x].
Proof. intros H. exists [], x. split; [reflexivity|split; [constructor|exact H]]. Qed.

Lemma nf_ends r L : loop_nf r L -> forall e, ends_ok r ((e, Continue) :: L).
Proof.
  induction 1 as [Hr|i a Ha Hr|a Hr|i L H IH]; intros e.
  - apply ends_single. cbn [snd]. intros X. congruence.
  - apply ends_cons. apply ends_single. intros _. exact Hr.
  - apply ends_cons. apply ends_single. intros _. exact Hr.
  - apply ends_cons. apply IH.
Qed.

Lemma nf_fin r L a : loop_nf r L -> In (EvFin, a) L ->
  exists L', L = L' ++ [(EvFin, a)] /\ Forall cont L' /\ r = consume a.
Proof.
  induction 1 as [Hr|i a0 Ha Hr|a0 Hr|i L H IH]; intros HI.
  - destruct HI.
  - destruct HI as [X|[]]. discriminate.
  - destruct HI as [X|[]]. inversion X; subst a0. exists []. split; [reflexivity|split; [constructor|exact Hr]].
  - destruct HI as [X|HI]; [discriminate|].
    destruct (IH HI) as [L' [E [F Hr]]]. exists ((EvInst i, Continue) :: L'). split; [|split].
    + rewrite E. reflexivity.
    + constructor; [reflexivity|exact F].
    + exact Hr.
Qed.

Lemma consume_ok a : consume a = Ok tt -> a = Continue.
Proof. destruct a; cbn [consume]; intros H; [reflexivity|discriminate|discriminate]. Qed.

Lemma nf_ok r L : loop_nf r L -> r = Ok tt -> exists L', L = L' ++ [(EvFin, Continue)].
Proof.
  induction 1 as [Hr|i a Ha Hr|a Hr|i L H IH]; intros R.
  - contradiction.
  - exfalso. apply Ha. apply consume_ok. congruence.
  - assert (a = Continue) by (apply consume_ok; congruence). subst a. exists []. reflexivity.
  - destruct (IH R) as [L' E]. exists ((EvInst i, Continue) :: L'). rewrite E. reflexivity.
Qed.

Section Main.
Context {St : Type}.
Variable G : gdata.
Variable C : consumer St.
Variable bytes : list N.
Variable s0 : St.

(** T2 *)
Theorem protocol_order :
  exists hs is fin,
    map fst (log_of G C bytes s0) = EvInit :: (hs ++ map EvInst is ++ fin) /\
    (hs = [] \/ exists h, hs = [EvHeader h]) /\
    (fin = [] \/ fin = [EvFin]) /\
    (hs = [] -> is = [] /\ fin = []) /\
    is = delivered (log_of G C bytes s0).
Proof.
  rewrite log_of_eq.
  destruct (parse_log_nf G C bytes s0) as [a Ha Hr|Hr|h a Ha Hr|h L HL].
  - exists [], [], []. cbn. split; [reflexivity|]. split; [left; reflexivity|].
    split; [left; reflexivity|]. split; [intros _; split; reflexivity|reflexivity].
  - exists [], [], []. cbn. split; [reflexivity|]. split; [left; reflexivity|].
    split; [left; reflexivity|]. split; [intros _; split; reflexivity|reflexivity].
  - exists [EvHeader h], [], []. cbn. split; [reflexivity|]. split; [right; exists h; reflexivity|].
    split; [left; reflexivity|]. split; [discriminate|reflexivity].
  - destruct (nf_shape _ _ HL) as [fin [E F]].
    exists [EvHeader h], (delivered L), fin. split; [|split; [|split; [|split]]].
    + cbn [map fst app]. rewrite E. reflexivity.
    + right. exists h. reflexivity.
    + exact F.
    + discriminate.
    + reflexivity.
Qed.

(** T3 *)
Theorem stop_is_immediate :
  exists L' x,
    log_of G C bytes s0 = L' ++ [x] /\
    Forall (fun y => snd y = Continue) L' /\
    (snd x <> Continue -> snd (parse G C bytes s0) = consume (snd x)).
Proof.
  rewrite log_of_eq. change (ends_ok (snd (parse G C bytes s0)) (parse_log G C bytes s0)).
  destruct (parse_log_nf G C bytes s0) as [a Ha Hr|Hr|h a Ha Hr|h L HL].
  - apply ends_single. intros _. exact Hr.
  - apply ends_single. cbn [snd]. intros X. congruence.
  - apply ends_cons. apply ends_single. intros _. exact Hr.
  - apply ends_cons. apply nf_ends. exact HL.
Qed.

(** T4 *)
Theorem finalize_only_when_complete a :
  In (EvFin, a) (log_of G C bytes s0) ->
  exists L',
    log_of G C bytes s0 = L' ++ [(EvFin, a)] /\
    Forall (fun y => snd y = Continue) L' /\
    (exists h ah, In (EvHeader h, ah) L') /\
    snd (parse G C bytes s0) = consume a.
Proof.
  rewrite log_of_eq.
  destruct (parse_log_nf G C bytes s0) as [a0 Ha Hr|Hr|h a0 Ha Hr|h L HL]; intros HI.
  - destruct HI as [X|[]]. discriminate.
  - destruct HI as [X|[]]. discriminate.
  - destruct HI as [X|[X|[]]]; discriminate.
  - destruct HI as [X|[X|HI]]; try discriminate.
    destruct (nf_fin _ _ _ HL HI) as [L' [E [F Hr]]].
    exists ((EvInit, Continue) :: (EvHeader h, Continue) :: L'). split; [|split; [|split]].
    + rewrite E. reflexivity.
    + constructor; [reflexivity|]. constructor; [reflexivity|exact F].
    + exists h, Continue. right. left. reflexivity.
    + exact Hr.
Qed.

Theorem complete_then_finalized :
  snd (parse G C bytes s0) = Ok tt ->
  exists L', log_of G C bytes s0 = L' ++ [(EvFin, Continue)].
Proof.
  rewrite log_of_eq.
  destruct (parse_log_nf G C bytes s0) as [a0 Ha Hr|Hr|h a0 Ha Hr|h L HL]; intros R.
  - exfalso. apply Ha. apply consume_ok. congruence.
  - contradiction.
  - exfalso. apply Ha. apply consume_ok. congruence.
  - destruct (nf_ok _ _ HL R) as [L' E].
    exists ((EvInit, Continue) :: (EvHeader h, Continue) :: L'). rewrite E. reflexivity.
Qed.

(** T5 *)
Theorem parse_error_no_finalize :
  ((exists e, snd (parse G C bytes s0) = Er e /\ e <> PStop /\ (forall n, e <> PConsumerError n)) \/
   (exists p, snd (parse G C bytes s0) = Panic p)) ->
  (forall a, ~ In (EvFin, a) (log_of G C bytes s0)) /\
  Forall (fun y => snd y = Continue) (log_of G C bytes s0).
Proof.
  intros HR.
  assert (NC : forall a, snd (parse G C bytes s0) = consume a -> False).
  { intros a E. destruct a; cbn [consume] in E.
    - destruct HR as [[e [X _]]|[p X]]; congruence.
    - destruct HR as [[e [X [Y _]]]|[p X]]; congruence.
    - destruct HR as [[e0 [X [_ Y]]]|[p X]]; [|congruence].
      apply (Y e). congruence. }
  split.
  - intros a HI. destruct (finalize_only_when_complete a HI) as [L' [_ [_ [_ Hr]]]].
    exact (NC a Hr).
  - destruct stop_is_immediate as [L' [x [E [F H]]]]. rewrite E.
    apply Forall_app. split; [exact F|]. constructor; [|constructor].
    destruct (snd x) eqn:X; [reflexivity| |].
    + destruct (NC Stop (H ltac:(discriminate))).
    + destruct (NC (AError e) (H ltac:(discriminate))).
Qed.

End Main.

(** ---- T6 ---- *)
Section Order.
Context {St : Type}.
Variable G : gdata.
Variable C : consumer St.

Lemma loop_insts : forall fuel t idx d s,
  (exists rest, insts_of G fuel t idx d = delivered (loop_log G C fuel t idx d s) ++ rest) /\
  (Forall cont (loop_log G C fuel t idx d s) ->
   delivered (loop_log G C fuel t idx d s) = insts_of G fuel t idx d).
Proof.
  induction fuel as [|f IH]; intros t idx d s; cbn [insts_of loop_log].
  - split; [exists []; reflexivity|reflexivity].
  - destruct (parse_inst G t (idx + 1) d) as [[i d1]|e|p] eqn:E.
    + destruct (track G t i) as [t1|] eqn:T.
      * destruct (c_inst C s i) as [s1 a] eqn:CI. cbn [fst snd].
        cbn [delivered flat_map inst_of_entry fst app].
        destruct a.
        -- fold (delivered (loop_log G C f t1 (idx + 1) d1 s1)).
           destruct (IH t1 (idx + 1) d1 s1) as [[rest P] Q]. split.
           ++ exists rest. rewrite P. reflexivity.
           ++ intros F. inversion F as [|x l Hx Hl]; subst. rewrite (Q Hl). reflexivity.
        -- split.
           ++ exists (insts_of G f t1 (idx + 1) d1). reflexivity.
           ++ intros F. inversion F as [|x l Hx Hl]; subst. discriminate Hx.
        -- split.
           ++ exists (insts_of G f t1 (idx + 1) d1). reflexivity.
           ++ intros F. inversion F as [|x l Hx Hl]; subst. discriminate Hx.
      * split; [exists []; reflexivity|reflexivity].
    + destruct e; (split; [exists []; reflexivity|reflexivity]).
    + split; [exists []; reflexivity|reflexivity].
Qed.

Theorem instructions_in_stream_order bytes s0 h d1 :
  parse_header (mkdec bytes) = Ok (h, d1) ->
  (exists rest, insts_of G (Datatypes.S (length bytes)) [] 0 d1 = delivered (log_of G C bytes s0) ++ rest) /\
  (Forall (fun y => snd y = Continue) (log_of G C bytes s0) ->
   delivered (log_of G C bytes s0) = insts_of G (Datatypes.S (length bytes)) [] 0 d1).
Proof.
  intros PH. rewrite log_of_eq. unfold parse_log. rewrite PH.
  destruct (c_init C s0) as [s1 a] eqn:CI. cbn [fst snd].
  assert (STOP : forall e x L, x <> Continue ->
            (exists rest, insts_of G (Datatypes.S (length bytes)) [] 0 d1 = [] ++ rest) /\
            (Forall (fun y : ev * action => snd y = Continue) (L ++ [(e, x)]) ->
             [] = insts_of G (Datatypes.S (length bytes)) [] 0 d1)).
  { intros e x L Hx. split; [eexists; reflexivity|].
    intros F. apply Forall_app in F as [_ F]. inversion F as [|y l Hy Hl]; subst. contradiction. }
  destruct a.
  - destruct (c_header C s1 h) as [s2 a2] eqn:CH. cbn [fst snd].
    destruct a2.
    + cbn [delivered flat_map inst_of_entry fst app].
      fold (delivered (loop_log G C (Datatypes.S (length bytes)) [] 0 d1 s2)).
      destruct (loop_insts (Datatypes.S (length bytes)) [] 0 d1 s2) as [P Q]. split; [exact P|].
      intros F. inversion F as [|x l Hx Hl]; subst. inversion Hl as [|x' l' Hx' Hl']; subst.
      apply Q. exact Hl'.
    + apply (STOP (EvHeader h) Stop [(EvInit, Continue)]). discriminate.
    + apply (STOP (EvHeader h) (AError e) [(EvInit, Continue)]). discriminate.
  - apply (STOP EvInit Stop []). discriminate.
  - apply (STOP EvInit (AError e) []). discriminate.
Qed.

(** without a header no instruction is delivered *)
Theorem no_header_no_instructions bytes s0 :
  (forall h d1, parse_header (mkdec bytes) <> Ok (h, d1)) ->
  delivered (log_of G C bytes s0) = [].
Proof.
  intros PH. rewrite log_of_eq. unfold parse_log.
  destruct (c_init C s0) as [s1 a] eqn:CI. cbn [fst snd].
  destruct a; try reflexivity.
  destruct (parse_header (mkdec bytes)) as [[h d1]|e|p] eqn:E; try reflexivity.
  exfalso. apply (PH h d1). reflexivity.
Qed.

End Order.

(** ---- T7: the loader ---- *)
Theorem loader_module_only_if_complete G Op preds arms fin bytes :
  snd (load_bytes G Op preds arms fin bytes) = Ok tt ->
  exists L',
    log_of G (loader_consumer Op preds arms fin) bytes {| lw_state := linit; lw_panic := false |}
    = L' ++ [(EvFin, Continue)].
Proof.
  unfold load_bytes. intros H. apply complete_then_finalized. exact H.
Qed.

(** ---- sanity: the log is really produced (trivial grammar, always-Continue consumer) ---- *)
Definition G0 : gdata :=
  {| gd_table := []; gd_arms := []; gd_is_type := fun _ => false;
     gd_k_rt := 0; gd_k_rid := 1; gd_k_ctx := 2; gd_k_pairlitid := 3; gd_k_specop := 4 |}.
Definition C0 : consumer unit :=
  {| c_init := fun s => (s, Continue); c_fin := fun s => (s, Continue);
     c_header := fun s _ => (s, Continue); c_inst := fun s _ => (s, Continue) |}.
Definition hdr_bytes : list N := [3;2;35;7; 0;0;1;0; 0;0;0;0; 9;0;0;0; 0;0;0;0].

Example log_empty : log_of G0 C0 [] tt = [(EvInit, Continue)].
Proof. vm_compute. reflexivity. Qed.
Example log_header_only : map fst (log_of G0 C0 hdr_bytes tt) =
  [EvInit; EvHeader {| h_magic := MAGIC; h_version := 65536; h_generator := GENERATOR; h_bound := 9; h_reserved := 0 |}; EvFin]
  /\ snd (parse G0 C0 hdr_bytes tt) = Ok tt.
Proof. vm_compute. split; reflexivity. Qed.

Print Assumptions log_transparent.
Print Assumptions protocol_order.
Print Assumptions stop_is_immediate.
Print Assumptions finalize_only_when_complete.
Print Assumptions complete_then_finalized.
Print Assumptions parse_error_no_finalize.
Print Assumptions instructions_in_stream_order.
Print Assumptions no_header_no_instructions.
Print Assumptions loader_module_only_if_complete.
