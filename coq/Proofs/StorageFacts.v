(** C19: storage tokens are stable handles - for every history, every value
    type and every (lawless) equality function. *)
From RV Require Import Model.Base Model.Storage.

Section S.
Variable T : Type.
Variable eqb : T -> T -> bool.

Notation fetch := (fetch_or_append eqb).
Notation step := (step eqb).
Notation run := (run eqb).
Notation position := (position eqb).

Definition small (s : list T) : Prop := N.of_nat (length s) < 4294967296.

Lemma tok_small n : N.of_nat n < 4294967296 -> tok_of_len n = N.of_nat n.
Proof. intros H. unfold tok_of_len. apply N.mod_small. exact H. Qed.

(** append: the token is the old length - not returned before, since every
    earlier token is below it - and looks up the appended value *)
Theorem append_token s v : small s -> snd (append s v) = N.of_nat (length s).
Proof. intros H. cbn [append snd]. apply tok_small. exact H. Qed.

Theorem append_lookup s v : small s -> get (fst (append s v)) (snd (append s v)) = Some v.
Proof.
  intros H. rewrite append_token by exact H. cbn [append fst]. unfold get.
  rewrite Nat2N.id. rewrite nth_error_app2 by lia. rewrite Nat.sub_diag. reflexivity.
Qed.

Lemma position_spec s v i : position s v = Some i ->
  (i < length s)%nat /\
  (exists d, nth_error s i = Some d /\ eqb d v = true) /\
  (forall j d, (j < i)%nat -> nth_error s j = Some d -> eqb d v = false).
Proof.
  revert i. induction s as [|x r IH]; intros i H; cbn [position] in H; [discriminate|].
  destruct (eqb x v) eqn:E.
  - inversion H; subst. split; [cbn; lia|]. split.
    + exists x. split; [reflexivity|exact E].
    + intros j d Hj. lia.
  - destruct (position r v) as [k|] eqn:P; [|discriminate]. cbn [option_map] in H.
    inversion H; subst. destruct (IH k eq_refl) as [H1 [[d [H2 H3]] H4]].
    split; [cbn; lia|]. split.
    + exists d. split; [exact H2|exact H3].
    + intros j d' Hj Hn. destruct j as [|j]; cbn [nth_error] in Hn.
      * inversion Hn; subst. exact E.
      * apply (H4 j d'); [lia|exact Hn].
Qed.

Lemma position_none s v : position s v = None -> forall d, In d s -> eqb d v = false.
Proof.
  induction s as [|x r IH]; intros H d Hin; [destruct Hin|].
  cbn [position] in H. destruct (eqb x v) eqn:E; [discriminate|].
  destruct (position r v) eqn:P; [discriminate|].
  destruct Hin as [->|Hin]; [exact E|]. apply IH; [reflexivity|exact Hin].
Qed.

Lemma position_some_of_match s v : (exists d, In d s /\ eqb d v = true) -> position s v <> None.
Proof.
  intros [d [Hin Hd]] Hn. rewrite (position_none s v Hn d Hin) in Hd. discriminate.
Qed.

(** fetch_or_append returns the token of the FIRST stored value equal to the
    argument when one exists, and leaves the storage unchanged ... *)
Theorem fetch_first_match s v i :
  small s -> position s v = Some i ->
  fetch s v = (s, N.of_nat i) /\
  (exists d, get s (N.of_nat i) = Some d /\ eqb d v = true) /\
  (forall j d, (j < i)%nat -> get s (N.of_nat j) = Some d -> eqb d v = false).
Proof.
  intros Hs P. destruct (position_spec s v i P) as [H1 [[d [H2 H3]] H4]].
  unfold fetch_or_append. rewrite P. split.
  - f_equal. apply tok_small. unfold small in Hs. lia.
  - split.
    + exists d. unfold get. rewrite Nat2N.id. auto.
    + intros j d' Hj Hg. unfold get in Hg. rewrite Nat2N.id in Hg. eapply H4; eauto.
Qed.

(** ... and appends otherwise. *)
Theorem fetch_appends_otherwise s v :
  (forall d, In d s -> eqb d v = false) -> fetch s v = append s v.
Proof.
  intros H. unfold fetch_or_append. destruct (position s v) as [i|] eqn:P; [|reflexivity].
  destruct (position_spec s v i P) as [_ [[d [H2 H3]] _]].
  apply nth_error_In in H2. rewrite (H d H2) in H3. discriminate.
Qed.

Theorem fetch_match_exists s v :
  (exists d, In d s /\ eqb d v = true) -> exists i, position s v = Some i /\ fst (fetch s v) = s.
Proof.
  intros H. destruct (position s v) as [i|] eqn:P.
  - exists i. split; [reflexivity|]. unfold fetch_or_append. rewrite P. reflexivity.
  - exfalso. exact (position_some_of_match s v H P).
Qed.

(** every step only extends the storage at the end *)
Lemma step_extends s o : exists ext, fst (step s o) = s ++ ext /\ (length ext <= 1)%nat.
Proof.
  destruct o as [v|v]; cbn [Storage.step].
  - exists [v]. split; [reflexivity|cbn; lia].
  - unfold fetch_or_append. destruct (position s v).
    + exists []. rewrite app_nil_r. split; [reflexivity|cbn; lia].
    + exists [v]. split; [reflexivity|cbn; lia].
Qed.

Lemma run_extends ops : forall s, exists ext, fst (run s ops) = s ++ ext.
Proof.
  induction ops as [|o r IH]; intros s; cbn [Storage.run].
  - exists []. rewrite app_nil_r. reflexivity.
  - destruct (step_extends s o) as [e1 [H1 _]].
    destruct (step s o) as [s1 t] eqn:St. cbn [fst] in H1. subst s1.
    destruct (IH (s ++ e1)) as [e2 H2].
    destruct (run (s ++ e1) r) as [s2 ts] eqn:R. cbn [fst] in *. subst s2.
    exists (e1 ++ e2). rewrite app_assoc. reflexivity.
Qed.

(** lookups through earlier tokens keep yielding their values, whatever
    operations follow *)
Theorem lookup_stable s ops t x :
  get s t = Some x -> get (fst (run s ops)) t = Some x.
Proof.
  intros H. destruct (run_extends ops s) as [ext ->]. unfold get in *.
  rewrite nth_error_app1; [exact H|]. apply nth_error_Some. congruence.
Qed.

(** every token returned by a step designates a stored value afterwards and
    lies below the new length *)
Lemma step_token_valid s o :
  small (fst (step s o)) ->
  (N.to_nat (snd (step s o)) < length (fst (step s o)))%nat.
Proof.
  destruct o as [v|v]; cbn [Storage.step].
  - cbn [append fst snd]. intros Hs. unfold small in Hs. rewrite app_length in *. cbn [length] in *.
    rewrite tok_small by lia. lia.
  - unfold fetch_or_append. destruct (position s v) as [i|] eqn:P.
    + cbn [fst snd]. intros Hs. destruct (position_spec s v i P) as [H1 _].
      unfold small in Hs. rewrite tok_small by lia. lia.
    + cbn [append fst snd]. intros Hs. unfold small in Hs. rewrite app_length in *. cbn [length] in *.
      rewrite tok_small by lia. lia.
Qed.

(** freshness: an append's token is not among any tokens valid before it *)
Theorem append_token_fresh s v t :
  small s -> (N.to_nat t < length s)%nat -> snd (append s v) <> t.
Proof. intros Hs Ht. rewrite append_token by exact Hs. lia. Qed.

(** density: the storage is exactly the sequence of appended values, so the
    n-th appended value has index n-1 *)
Fixpoint appended (s : list T) (ops : list (op T)) : list T :=
  match ops with
  | [] => []
  | o :: r =>
      let s1 := fst (step s o) in
      (match o with
       | Append v => [v]
       | Fetch v => match position s v with Some _ => [] | None => [v] end
       end) ++ appended s1 r
  end.

Theorem indices_dense ops : forall s, fst (run s ops) = s ++ appended s ops.
Proof.
  induction ops as [|o r IH]; intros s; cbn [Storage.run appended].
  - rewrite app_nil_r. reflexivity.
  - destruct (step s o) as [s1 t] eqn:St. specialize (IH s1).
    destruct (run s1 r) as [s2 ts] eqn:R. cbn [fst] in *. subst s2.
    destruct o as [v|v]; cbn [Storage.step] in St.
    + inversion St; subst. rewrite <- app_assoc. reflexivity.
    + unfold fetch_or_append in St. destruct (position s v) eqn:P; inversion St; subst.
      * reflexivity.
      * rewrite <- app_assoc. reflexivity.
Qed.

Corollary nth_appended_index ops n x :
  nth_error (appended [] ops) n = Some x -> get (fst (run [] ops)) (N.of_nat n) = Some x.
Proof.
  intros H. rewrite indices_dense. cbn [app]. unfold get. rewrite Nat2N.id. exact H.
Qed.

End S.
